import PynguinModel.Lemmas.Cdg
import PynguinModel.Model.CdgQueries
/-!
Lemmas for the two query functions of the finished CDG (`get_control_dependencies`,
`is_control_dependent_on_root`): the depth-first walks with their shared `handled` / `visited` sets
compute exactly backward reachability over *pass* edges (edges that are not a branch dependency).
-/
namespace PynguinModel.Cdg

/-! ### Small list facts -/

theorem mem_preds {g : CG} {n p : Node} {l : Label} : (p, l) ∈ preds g n ↔ (p, n, l) ∈ g := by
  unfold preds
  simp only [List.mem_map, List.mem_filter, beq_iff_eq]
  constructor
  · rintro ⟨⟨a, b, c⟩, ⟨hx, hb⟩, heq⟩
    simp only [Prod.mk.injEq] at heq
    obtain ⟨rfl, rfl⟩ := heq
    simp only at hb; subst hb; exact hx
  · intro h; exact ⟨(p, n, l), ⟨h, rfl⟩, rfl⟩

theorem mem_union_foldl {α} [BEq α] [LawfulBEq α] (xs : List α) :
    ∀ (res : List α) (y : α),
      y ∈ xs.foldl (fun r x => if r.contains x then r else r ++ [x]) res ↔ y ∈ res ∨ y ∈ xs := by
  induction xs with
  | nil => intro res y; simp
  | cons x xs ih =>
    intro res y
    rw [List.foldl_cons, ih]
    by_cases hx : res.contains x = true
    · simp only [hx, if_true, List.mem_cons]
      have hx' : x ∈ res := by simpa using hx
      constructor
      · rintro (h | h)
        · exact Or.inl h
        · exact Or.inr (Or.inr h)
      · rintro (h | rfl | h)
        · exact Or.inl h
        · exact Or.inl hx'
        · exact Or.inr h
    · simp only [hx, Bool.false_eq_true, if_false, List.mem_append, List.mem_cons, List.not_mem_nil, or_false]
      constructor
      · rintro ((h | h) | h)
        · exact Or.inl h
        · exact Or.inr (Or.inl h)
        · exact Or.inr (Or.inr h)
      · rintro (h | h | h)
        · exact Or.inl (Or.inl h)
        · exact Or.inl (Or.inr h)
        · exact Or.inr h

/-! ### The named fold step and the termination measure -/

/-- The fold step of `retrieveDeps`, named. -/
def depStep (g : CG) (isBlock : Node → Bool) (fuel : Nat) (node : Node)
    (acc : List (Node × Bool) × List (Node × Node)) (pl : Node × Label) :
    List (Node × Bool) × List (Node × Node) :=
  if acc.2.contains (pl.1, node) then acc
  else
    match isBlock pl.1, pl.2 with
    | true, some b =>
      (if acc.1.contains (pl.1, b) then acc.1 else acc.1 ++ [(pl.1, b)], acc.2 ++ [(pl.1, node)])
    | _, _ =>
      ((retrieveDeps g isBlock fuel pl.1 (acc.2 ++ [(pl.1, node)])).1.foldl
          (fun r x => if r.contains x then r else r ++ [x]) acc.1,
        (retrieveDeps g isBlock fuel pl.1 (acc.2 ++ [(pl.1, node)])).2)

theorem retrieveDeps_succ (g : CG) (isBlock : Node → Bool) (fuel : Nat) (node : Node)
    (H : List (Node × Node)) :
    retrieveDeps g isBlock (fuel + 1) node H =
      (preds g node).foldl (depStep g isBlock fuel node) ([], H) := rfl

/-- Number of CDG edges not yet in the `handled` set: every recursive call handles one more. -/
def unhandled (g : CG) (H : List (Node × Node)) : Nat :=
  g.countP (fun x => !H.contains (x.1, x.2.1))

theorem countP_lt_of_witness {α} {p q : α → Bool} :
    ∀ {l : List α}, (∀ x ∈ l, p x = true → q x = true) →
      ∀ a ∈ l, q a = true → p a = false → l.countP p < l.countP q
  | [], _, _, ha, _, _ => by cases ha
  | x :: l, h, a, ha, hq, hp => by
    have hl : ∀ y ∈ l, p y = true → q y = true := fun y hy => h y (List.mem_cons_of_mem _ hy)
    have hmono : l.countP p ≤ l.countP q := List.countP_mono_left hl
    rw [List.countP_cons, List.countP_cons]
    rcases List.mem_cons.1 ha with rfl | ha'
    · simp only [hq, hp, if_true, Bool.false_eq_true, if_false]; omega
    · have := countP_lt_of_witness hl a ha' hq hp
      have hx := h x (by simp)
      cases hpx : p x
      · simp only [Bool.false_eq_true, if_false]; split <;> omega
      · simp only [hx hpx, if_true]; omega

theorem unhandled_mono (g : CG) {H H' : List (Node × Node)} (h : ∀ e ∈ H, e ∈ H') :
    unhandled g H' ≤ unhandled g H := by
  unfold unhandled
  apply List.countP_mono_left
  intro x _ hx
  simp only [Bool.not_eq_true', List.contains_eq_mem, decide_eq_false_iff_not] at hx ⊢
  exact fun hc => hx (h _ hc)

theorem unhandled_lt (g : CG) {H : List (Node × Node)} {p n : Node} {l : Label}
    (hg : (p, n, l) ∈ g) (hH : (p, n) ∉ H) : unhandled g (H ++ [(p, n)]) < unhandled g H := by
  unfold unhandled
  apply countP_lt_of_witness (a := (p, n, l)) _ hg
  · simpa using hH
  · simp
  · intro x _ hx
    simp only [Bool.not_eq_true', List.contains_eq_mem, decide_eq_false_iff_not, List.mem_append,
      not_or] at hx ⊢
    exact hx.1

/-! ### Soundness: everything reported is a dependency -/

theorem retrieveDeps_sound (g : CG) (isBlock : Node → Bool) :
    ∀ (fuel : Nat) (node : Node) (H : List (Node × Node)) (d : Node × Bool),
      d ∈ (retrieveDeps g isBlock fuel node H).1 → DepReach g isBlock node d := by
  intro fuel
  induction fuel with
  | zero => intro node H d h; simp [retrieveDeps] at h
  | succ fuel ih =>
    intro node H d h
    rw [retrieveDeps_succ] at h
    have key : ∀ (ps : List (Node × Label)), (∀ pl ∈ ps, (pl.1, node, pl.2) ∈ g) →
        ∀ acc : List (Node × Bool) × List (Node × Node),
          (∀ d ∈ acc.1, DepReach g isBlock node d) →
          ∀ d ∈ (ps.foldl (depStep g isBlock fuel node) acc).1, DepReach g isBlock node d := by
      intro ps
      induction ps with
      | nil => intro _ acc hacc d hd; exact hacc d hd
      | cons pl ps ihps =>
        intro hps acc hacc
        rw [List.foldl_cons]
        apply ihps (fun q hq => hps q (List.mem_cons_of_mem _ hq))
        have hpl := hps pl (by simp)
        unfold depStep
        split
        · exact hacc
        · split
          · rename_i b hb hl
            intro d hd
            simp only at hd
            split at hd
            · exact hacc d hd
            · rcases List.mem_append.1 hd with hd | hd
              · exact hacc d hd
              · simp only [List.mem_singleton] at hd
                subst hd
                rw [hl] at hpl
                exact DepReach.direct hpl hb
          · rename_i hnot
            intro d hd
            simp only at hd
            rcases (mem_union_foldl _ _ _).1 hd with hd | hd
            · exact hacc d hd
            · refine DepReach.through hpl ?_ (ih _ _ d hd)
              cases hb : isBlock pl.1 with
              | false => exact Or.inl rfl
              | true =>
                cases hl : pl.2 with
                | none => exact Or.inr rfl
                | some b => exact absurd hl (hnot b hb)
    exact key (preds g node) (fun pl hpl => mem_preds.1 hpl) ([], H) (by simp) d h

/-! ### Completeness: every dependency is reported -/

/-- What the walk has established about the edges handled since `H`: a dependency edge has been
reported, the source of a pass edge has had all its incoming edges handled. -/
def Closed (g : CG) (isBlock : Node → Bool) (H : List (Node × Node)) (res : List (Node × Bool))
    (h : List (Node × Node)) : Prop :=
  ∀ q m, (q, m) ∈ h → (q, m) ∉ H → ∀ l, (q, m, l) ∈ g →
    (∀ b, isBlock q = true → l = some b → (q, b) ∈ res) ∧
    ((isBlock q = false ∨ l = none) → ∀ x l', (x, q, l') ∈ g → (x, q) ∈ h)

structure RetOK (g : CG) (isBlock : Node → Bool) (node : Node) (H : List (Node × Node))
    (r : List (Node × Bool) × List (Node × Node)) : Prop where
  mono : ∀ e ∈ H, e ∈ r.2
  preds : ∀ p l, (p, node, l) ∈ g → (p, node) ∈ r.2
  closed : Closed g isBlock H r.1 r.2

theorem depStep_ok {g : CG} {isBlock : Node → Bool} (hg : LabelConsistent g) {fuel : Nat}
    (ih : ∀ node H, unhandled g H < fuel → RetOK g isBlock node H (retrieveDeps g isBlock fuel node H))
    {node : Node} {H : List (Node × Node)} (hH : unhandled g H < fuel + 1)
    (acc : List (Node × Bool) × List (Node × Node)) (hmono : ∀ e ∈ H, e ∈ acc.2)
    (hcl : Closed g isBlock H acc.1 acc.2) (pl : Node × Label) (hpl : (pl.1, node, pl.2) ∈ g) :
    (∀ e ∈ acc.2, e ∈ (depStep g isBlock fuel node acc pl).2) ∧
    (pl.1, node) ∈ (depStep g isBlock fuel node acc pl).2 ∧
    Closed g isBlock H (depStep g isBlock fuel node acc pl).1 (depStep g isBlock fuel node acc pl).2 := by
  unfold depStep
  split
  · rename_i hin
    exact ⟨fun e he => he, by simpa using hin, hcl⟩
  · rename_i hnin
    have hnin' : (pl.1, node) ∉ acc.2 := by simpa using hnin
    -- the label of the edge `pl.1 → node` is unique
    have hlab : ∀ l, (pl.1, node, l) ∈ g → l = pl.2 := fun l hl => hg _ hl _ hpl rfl rfl
    split
    · rename_i b hb hl
      refine ⟨fun e he => List.mem_append_left _ he, by simp, ?_⟩
      intro q m hqm hnH l hl'
      simp only at hqm ⊢
      have hres : ∀ y, y ∈ acc.1 → y ∈ (if acc.1.contains (pl.1, b) = true then acc.1 else acc.1 ++ [(pl.1, b)]) := by
        intro y hy; split
        · exact hy
        · exact List.mem_append_left _ hy
      have hnew : (pl.1, b) ∈ (if acc.1.contains (pl.1, b) = true then acc.1 else acc.1 ++ [(pl.1, b)]) := by
        split
        · rename_i hc; simpa using hc
        · simp
      rcases List.mem_append.1 hqm with hold | hnewe
      · obtain ⟨h1, h2⟩ := hcl q m hold hnH l hl'
        exact ⟨fun b' hb' hlb => hres _ (h1 b' hb' hlb),
               fun hw x l' hx => List.mem_append_left _ (h2 hw x l' hx)⟩
      · simp only [List.mem_singleton, Prod.mk.injEq] at hnewe
        obtain ⟨rfl, rfl⟩ := hnewe
        have := hlab l hl'
        rw [hl] at this
        subst this
        refine ⟨fun b' _ hlb => ?_, fun hw => ?_⟩
        · simp only [Option.some.injEq] at hlb; subst hlb; exact hnew
        · rcases hw with hw | hw
          · rw [hb] at hw; cases hw
          · cases hw
    · rename_i hnot
      have hwalk : isBlock pl.1 = false ∨ pl.2 = none := by
        cases hb : isBlock pl.1 with
        | false => exact Or.inl rfl
        | true =>
          cases hl : pl.2 with
          | none => exact Or.inr rfl
          | some b => exact absurd hl (hnot b hb)
      have hfuel : unhandled g (acc.2 ++ [(pl.1, node)]) < fuel := by
        have h1 := unhandled_lt g hpl hnin'
        have h2 := unhandled_mono g hmono
        omega
      have hr := ih pl.1 (acc.2 ++ [(pl.1, node)]) hfuel
      refine ⟨fun e he => hr.mono e (List.mem_append_left _ he), hr.mono _ (by simp), ?_⟩
      intro q m hqm hnH l hl'
      simp only at hqm ⊢
      by_cases hold : (q, m) ∈ acc.2
      · obtain ⟨h1, h2⟩ := hcl q m hold hnH l hl'
        exact ⟨fun b' hb' hlb => (mem_union_foldl _ _ _).2 (Or.inl (h1 b' hb' hlb)),
               fun hw x l' hx => hr.mono _ (List.mem_append_left _ (h2 hw x l' hx))⟩
      · by_cases hnewe : (q, m) = (pl.1, node)
        · simp only [Prod.mk.injEq] at hnewe
          obtain ⟨rfl, rfl⟩ := hnewe
          have := hlab l hl'
          subst this
          refine ⟨fun b' hb' hlb => ?_, fun _ x l' hx => hr.preds x l' hx⟩
          rcases hwalk with hw | hw
          · rw [hb'] at hw; cases hw
          · rw [hlb] at hw; cases hw
        · have hnh1 : (q, m) ∉ acc.2 ++ [(pl.1, node)] := by
            simp only [List.mem_append, List.mem_singleton, not_or]
            exact ⟨hold, hnewe⟩
          obtain ⟨h1, h2⟩ := hr.closed q m hqm hnh1 l hl'
          exact ⟨fun b' hb' hlb => (mem_union_foldl _ _ _).2 (Or.inr (h1 b' hb' hlb)), h2⟩

theorem retrieveDeps_ok {g : CG} {isBlock : Node → Bool} (hg : LabelConsistent g) :
    ∀ (fuel : Nat) (node : Node) (H : List (Node × Node)), unhandled g H < fuel →
      RetOK g isBlock node H (retrieveDeps g isBlock fuel node H) := by
  intro fuel
  induction fuel with
  | zero => intro node H h; omega
  | succ fuel ih =>
    intro node H hH
    rw [retrieveDeps_succ]
    have key : ∀ (ps : List (Node × Label)), (∀ pl ∈ ps, (pl.1, node, pl.2) ∈ g) →
        ∀ acc : List (Node × Bool) × List (Node × Node),
          (∀ e ∈ H, e ∈ acc.2) → Closed g isBlock H acc.1 acc.2 →
          (∀ e ∈ acc.2, e ∈ (ps.foldl (depStep g isBlock fuel node) acc).2) ∧
          (∀ pl ∈ ps, (pl.1, node) ∈ (ps.foldl (depStep g isBlock fuel node) acc).2) ∧
          Closed g isBlock H (ps.foldl (depStep g isBlock fuel node) acc).1
            (ps.foldl (depStep g isBlock fuel node) acc).2 := by
      intro ps
      induction ps with
      | nil => intro _ acc _ hcl; exact ⟨fun e he => he, by simp, hcl⟩
      | cons pl ps ihps =>
        intro hps acc hmono hcl
        rw [List.foldl_cons]
        obtain ⟨s1, s2, s3⟩ := depStep_ok hg ih hH acc hmono hcl pl (hps pl (by simp))
        obtain ⟨t1, t2, t3⟩ := ihps (fun q hq => hps q (List.mem_cons_of_mem _ hq)) _
          (fun e he => s1 e (hmono e he)) s3
        refine ⟨fun e he => t1 e (s1 e he), ?_, t3⟩
        intro q hq
        rcases List.mem_cons.1 hq with rfl | hq
        · exact t1 _ s2
        · exact t2 q hq
    obtain ⟨k1, k2, k3⟩ := key (preds g node) (fun pl hpl => mem_preds.1 hpl) ([], H)
      (fun e he => he) (fun q m hqm hn => absurd hqm hn)
    exact ⟨k1, fun p l hpl => k2 (p, l) (mem_preds.2 hpl), k3⟩

theorem unhandled_nil_le (g : CG) : unhandled g [] ≤ g.length := List.countP_le_length

theorem controlDeps_complete {g : CG} {isBlock : Node → Bool} (hg : LabelConsistent g)
    {n : Node} {d : Node × Bool} (h : DepReach g isBlock n d) : d ∈ controlDeps g isBlock n := by
  unfold controlDeps
  have hr := retrieveDeps_ok (isBlock := isBlock) hg (g.length + 1) n []
    (by have := unhandled_nil_le g; omega)
  have gen : ∀ m d, DepReach g isBlock m d →
      (∀ p l, (p, m, l) ∈ g → (p, m) ∈ (retrieveDeps g isBlock (g.length + 1) n []).2) →
      d ∈ (retrieveDeps g isBlock (g.length + 1) n []).1 := by
    intro m d hd
    induction hd with
    | @direct m p b he hb =>
      intro hp
      exact (hr.closed p m (hp p _ he) (by simp) _ he).1 b hb rfl
    | @through m p l d he hw _ ih =>
      intro hp
      exact ih ((hr.closed p m (hp p _ he) (by simp) _ he).2 hw)
  exact gen n d h hr.preds

theorem controlDeps_sound {g : CG} {isBlock : Node → Bool} {n : Node} {d : Node × Bool}
    (h : d ∈ controlDeps g isBlock n) : DepReach g isBlock n d :=
  retrieveDeps_sound g isBlock _ _ _ d h

/-! ### The stored graph has one label per pair (so the hypothesis above holds for `cdgImpl`) -/

theorem labelConsistent_digraphAdd {g : CG} {e : Node × Node × Label} (h : LabelConsistent g) :
    LabelConsistent (digraphAdd g e) := by
  unfold digraphAdd
  split
  · intro x hx y hy h1 h2
    obtain ⟨x0, hx0, rfl⟩ := List.mem_map.1 hx
    obtain ⟨y0, hy0, rfl⟩ := List.mem_map.1 hy
    by_cases kx : (x0.1 == e.1 && x0.2.1 == e.2.1) = true
    · by_cases ky : (y0.1 == e.1 && y0.2.1 == e.2.1) = true
      · simp only [kx, ky, if_true]
      · exfalso
        simp only [kx, ky, if_true, Bool.false_eq_true, if_false] at h1 h2
        simp only [Bool.and_eq_true, beq_iff_eq, not_and] at ky
        exact ky h1.symm h2.symm
    · by_cases ky : (y0.1 == e.1 && y0.2.1 == e.2.1) = true
      · exfalso
        simp only [kx, ky, if_true, Bool.false_eq_true, if_false] at h1 h2
        simp only [Bool.and_eq_true, beq_iff_eq, not_and] at kx
        exact kx h1 h2
      · simp only [kx, ky, Bool.false_eq_true, if_false] at h1 h2 ⊢
        exact h x0 hx0 y0 hy0 h1 h2
  · rename_i hany
    have hno : ∀ x ∈ g, x.1 = e.1 → x.2.1 = e.2.1 → False := by
      intro x hx h1 h2
      apply hany
      exact List.any_eq_true.2 ⟨x, hx, by simp [h1, h2]⟩
    intro x hx y hy h1 h2
    rcases List.mem_append.1 hx with hx1 | hx1
    · rcases List.mem_append.1 hy with hy1 | hy1
      · exact h x hx1 y hy1 h1 h2
      · have hye : y = e := by simpa using hy1
        subst hye
        exact absurd (hno x hx1 h1 h2) id
    · have hxe : x = e := by simpa using hx1
      subst hxe
      rcases List.mem_append.1 hy with hy1 | hy1
      · exact absurd (hno y hy1 h1.symm h2.symm) id
      · have hye : y = x := by simpa using hy1
        subst hye; rfl

theorem labelConsistent_digraph (es : CG) : LabelConsistent (digraph es) := by
  unfold digraph
  have gen : ∀ (es g : CG), LabelConsistent g → LabelConsistent (es.foldl digraphAdd g) := by
    intro es
    induction es with
    | nil => intro g hg; exact hg
    | cons e es ih => intro g hg; exact ih _ (labelConsistent_digraphAdd hg)
  exact gen es [] (fun x hx => by cases hx)

theorem labelConsistent_cdgImpl (E : List Edge) (up : Node → List Node) (entry exit : Node) :
    LabelConsistent (cdgImpl E up entry exit) := by
  unfold cdgImpl
  intro x hx y hy
  exact labelConsistent_digraph _ x (List.mem_filter.1 hx).1 y (List.mem_filter.1 hy).1

/-! ### `is_control_dependent_on_root` -/

/-- The fold step of `rootDepAux`, named. -/
def rootStep (g : CG) (isBlock : Node → Bool) (root : Node) (fuel : Nat) (node : Node)
    (acc : Bool × List Node) (pl : Node × Label) : Bool × List Node :=
  if acc.1 then acc
  else if acc.2.contains pl.1 then acc
  else if isBlock pl.1 && pl.2.isSome then (acc.1, acc.2 ++ [pl.1])
  else if pl.1 == node then (acc.1, acc.2 ++ [pl.1])
  else rootDepAux g isBlock root fuel pl.1 (acc.2 ++ [pl.1])

theorem rootDepAux_succ (g : CG) (isBlock : Node → Bool) (root : Node) (fuel : Nat) (node : Node)
    (vis : List Node) :
    rootDepAux g isBlock root (fuel + 1) node vis =
      if g.any (fun x => x.1 == root && x.2.1 == node) then (true, vis)
      else (preds g node).foldl (rootStep g isBlock root fuel node) (false, vis) := rfl

theorem rootStep_true {g : CG} {isBlock : Node → Bool} {root : Node} {fuel : Nat} {node : Node} :
    ∀ (ps : List (Node × Label)) (acc : Bool × List Node), acc.1 = true →
      (ps.foldl (rootStep g isBlock root fuel node) acc).1 = true := by
  intro ps
  induction ps with
  | nil => intro acc h; exact h
  | cons pl ps ih =>
    intro acc h
    rw [List.foldl_cons]
    apply ih
    unfold rootStep
    simp [h]

theorem walk_of_not_dep {isBlock : Node → Bool} {p : Node} {l : Label}
    (h : ¬ (isBlock p && l.isSome) = true) : isBlock p = false ∨ l = none := by
  cases hb : isBlock p with
  | false => exact Or.inl rfl
  | true =>
    cases l with
    | none => exact Or.inr rfl
    | some b => simp [hb] at h

theorem rootDepAux_sound (g : CG) (isBlock : Node → Bool) (root : Node) :
    ∀ (fuel : Nat) (node : Node) (vis : List Node),
      (rootDepAux g isBlock root fuel node vis).1 = true → RootReach g isBlock root node := by
  intro fuel
  induction fuel with
  | zero => intro node vis h; simp [rootDepAux] at h
  | succ fuel ih =>
    intro node vis h
    rw [rootDepAux_succ] at h
    split at h
    · rename_i hany
      obtain ⟨x, hx, hk⟩ := List.any_eq_true.1 hany
      simp only [Bool.and_eq_true, beq_iff_eq] at hk
      rcases x with ⟨x1, x2, x3⟩
      simp only at hk
      obtain ⟨rfl, rfl⟩ := hk
      exact RootReach.direct hx
    · have key : ∀ (ps : List (Node × Label)), (∀ pl ∈ ps, (pl.1, node, pl.2) ∈ g) →
          ∀ acc : Bool × List Node, (acc.1 = true → RootReach g isBlock root node) →
            (ps.foldl (rootStep g isBlock root fuel node) acc).1 = true →
            RootReach g isBlock root node := by
        intro ps
        induction ps with
        | nil => intro _ acc hacc hf; exact hacc hf
        | cons pl ps ihps =>
          intro hps acc hacc
          rw [List.foldl_cons]
          apply ihps (fun q hq => hps q (List.mem_cons_of_mem _ hq))
          have hpl := hps pl (by simp)
          unfold rootStep
          split
          · exact hacc
          · split
            · exact hacc
            · split
              · exact hacc
              · split
                · exact hacc
                · rename_i hnd _
                  intro hr
                  exact RootReach.through hpl (walk_of_not_dep hnd) (ih _ _ hr)
      exact key (preds g node) (fun pl hpl => mem_preds.1 hpl) (false, vis) (by simp) h

theorem rootDep_sound {g : CG} {isBlock : Node → Bool} {root n : Node}
    (h : rootDep g isBlock root n = true) : RootReach g isBlock root n :=
  rootDepAux_sound g isBlock root _ _ _ h

/-- Every node's outgoing CDG edges are all branch dependencies or all pass edges (true for the CDG
of a CFG: a block ends in a conditional jump or it does not; checked per graph by the driver). -/
def Uniform (g : CG) (isBlock : Node → Bool) : Prop :=
  ∀ p m l m' l', (p, m, l) ∈ g → (p, m', l') ∈ g →
    (isBlock p && l.isSome) = (isBlock p && l'.isSome)

theorem uniformb_sound {g : CG} {isBlock : Node → Bool} (h : uniformb g isBlock = true) :
    Uniform g isBlock := by
  intro p m l m' l' h1 h2
  simp only [uniformb, List.all_eq_true, Bool.or_eq_true, Bool.not_eq_true', beq_eq_false_iff_ne,
    beq_iff_eq] at h
  rcases h _ h1 _ h2 with h' | h'
  · exact absurd rfl h'
  · exact h'

def unvisited (g : CG) (vis : List Node) : Nat := g.countP (fun x => !vis.contains x.1)

theorem unvisited_mono (g : CG) {V V' : List Node} (h : ∀ e ∈ V, e ∈ V') :
    unvisited g V' ≤ unvisited g V := by
  unfold unvisited
  apply List.countP_mono_left
  intro x _ hx
  simp only [Bool.not_eq_true', List.contains_eq_mem, decide_eq_false_iff_not] at hx ⊢
  exact fun hc => hx (h _ hc)

theorem unvisited_lt (g : CG) {V : List Node} {p n : Node} {l : Label}
    (hg : (p, n, l) ∈ g) (hV : p ∉ V) : unvisited g (V ++ [p]) < unvisited g V := by
  unfold unvisited
  apply countP_lt_of_witness (a := (p, n, l)) _ hg
  · simpa using hV
  · simp
  · intro x _ hx
    simp only [Bool.not_eq_true', List.contains_eq_mem, decide_eq_false_iff_not, List.mem_append,
      not_or] at hx ⊢
    exact hx.1

/-- A node with an outgoing pass edge. -/
def HasPass (g : CG) (isBlock : Node → Bool) (q : Node) : Prop :=
  ∃ m l, (q, m, l) ∈ g ∧ (isBlock q && l.isSome) = false

/-- What a failed search has established about the nodes visited since `V` (other than `skip`, the
node whose predecessors are being enumerated): no root edge, all predecessors visited. -/
def RClosed (g : CG) (isBlock : Node → Bool) (root : Node) (V : List Node) (skip : Option Node)
    (v : List Node) : Prop :=
  ∀ q, q ∈ v → q ∉ V → some q ≠ skip → HasPass g isBlock q →
    (∀ l, (root, q, l) ∉ g) ∧ ∀ x l', (x, q, l') ∈ g → x ∈ v

structure RootOK (g : CG) (isBlock : Node → Bool) (root node : Node) (V : List Node)
    (r : Bool × List Node) : Prop where
  mono : ∀ e ∈ V, e ∈ r.2
  noroot : ∀ l, (root, node, l) ∉ g
  preds : ∀ p l, (p, node, l) ∈ g → p ∈ r.2
  closed : RClosed g isBlock root V none r.2

theorem rootStep_ok {g : CG} {isBlock : Node → Bool} {root : Node} (hu : Uniform g isBlock) {fuel : Nat}
    (ih : ∀ node V, unvisited g V < fuel → (rootDepAux g isBlock root fuel node V).1 = false →
      RootOK g isBlock root node V (rootDepAux g isBlock root fuel node V))
    {node : Node} {V : List Node} (hV : unvisited g V < fuel + 1)
    (acc : Bool × List Node) (hacc : acc.1 = false) (hmono : ∀ e ∈ V, e ∈ acc.2)
    (hcl : RClosed g isBlock root V (some node) acc.2) (pl : Node × Label) (hpl : (pl.1, node, pl.2) ∈ g)
    (hres : (rootStep g isBlock root fuel node acc pl).1 = false) :
    (∀ e ∈ acc.2, e ∈ (rootStep g isBlock root fuel node acc pl).2) ∧
    pl.1 ∈ (rootStep g isBlock root fuel node acc pl).2 ∧
    RClosed g isBlock root V (some node) (rootStep g isBlock root fuel node acc pl).2 := by
  unfold rootStep at hres ⊢
  simp only [hacc, Bool.false_eq_true, if_false] at hres ⊢
  split
  · rename_i hin
    exact ⟨fun e he => he, by simpa using hin, hcl⟩
  · rename_i hnin
    have hnin' : pl.1 ∉ acc.2 := by simpa using hnin
    simp only [hnin, Bool.false_eq_true, if_false] at hres
    -- old facts survive growing the visited list
    have hold : ∀ (v' : List Node), (∀ e ∈ acc.2, e ∈ v') → ∀ q, q ∈ acc.2 → q ∉ V → some q ≠ some node →
        HasPass g isBlock q → (∀ l, (root, q, l) ∉ g) ∧ ∀ x l', (x, q, l') ∈ g → x ∈ v' := by
      intro v' hv' q hq hqV hqs hp
      obtain ⟨h1, h2⟩ := hcl q hq hqV hqs hp
      exact ⟨h1, fun x l' hx => hv' _ (h2 x l' hx)⟩
    split
    · rename_i hdep
      refine ⟨fun e he => List.mem_append_left _ he, by simp, ?_⟩
      intro q hq hqV hqs hp
      rcases List.mem_append.1 hq with hq | hq
      · exact hold _ (fun e he => List.mem_append_left _ he) q hq hqV hqs hp
      · have hq' : q = pl.1 := by simpa using hq
        subst hq'
        obtain ⟨m, l, hm, hpass⟩ := hp
        have := hu _ _ _ _ _ hpl hm
        rw [hdep, hpass] at this
        cases this
    · rename_i hndep
      simp only [hndep, Bool.false_eq_true, if_false] at hres
      split
      · rename_i hself
        refine ⟨fun e he => List.mem_append_left _ he, by simp, ?_⟩
        intro q hq hqV hqs hp
        rcases List.mem_append.1 hq with hq | hq
        · exact hold _ (fun e he => List.mem_append_left _ he) q hq hqV hqs hp
        · have hq' : q = pl.1 := by simpa using hq
          have : pl.1 = node := by simpa using hself
          rw [hq', this] at hqs
          exact absurd rfl hqs
      · rename_i hnself
        simp only [hnself, Bool.false_eq_true, if_false] at hres
        have hfuel : unvisited g (acc.2 ++ [pl.1]) < fuel := by
          have h1 := unvisited_lt g hpl hnin'
          have h2 := unvisited_mono g hmono
          omega
        have hr := ih pl.1 (acc.2 ++ [pl.1]) hfuel hres
        refine ⟨fun e he => hr.mono e (List.mem_append_left _ he), hr.mono _ (by simp), ?_⟩
        intro q hq hqV hqs hp
        by_cases hqa : q ∈ acc.2
        · exact hold _ (fun e he => hr.mono e (List.mem_append_left _ he)) q hqa hqV hqs hp
        · by_cases hqp : q = pl.1
          · subst hqp
            exact ⟨hr.noroot, hr.preds⟩
          · exact hr.closed q hq (by simp [hqa, hqp]) (by simp) hp

theorem rootDepAux_ok {g : CG} {isBlock : Node → Bool} {root : Node} (hu : Uniform g isBlock) :
    ∀ (fuel : Nat) (node : Node) (V : List Node), unvisited g V < fuel →
      (rootDepAux g isBlock root fuel node V).1 = false →
      RootOK g isBlock root node V (rootDepAux g isBlock root fuel node V) := by
  intro fuel
  induction fuel with
  | zero => intro node V h; omega
  | succ fuel ih =>
    intro node V hV hres
    rw [rootDepAux_succ] at hres ⊢
    split at hres
    · cases hres
    · rename_i hany
      simp only [hany, Bool.false_eq_true, if_false]
      have hnoroot : ∀ l, (root, node, l) ∉ g := by
        intro l hl
        apply hany
        exact List.any_eq_true.2 ⟨_, hl, by simp⟩
      have key : ∀ (ps : List (Node × Label)), (∀ pl ∈ ps, (pl.1, node, pl.2) ∈ g) →
          ∀ acc : Bool × List Node, acc.1 = false → (∀ e ∈ V, e ∈ acc.2) →
            RClosed g isBlock root V (some node) acc.2 →
            (ps.foldl (rootStep g isBlock root fuel node) acc).1 = false →
            (∀ e ∈ acc.2, e ∈ (ps.foldl (rootStep g isBlock root fuel node) acc).2) ∧
            (∀ pl ∈ ps, pl.1 ∈ (ps.foldl (rootStep g isBlock root fuel node) acc).2) ∧
            RClosed g isBlock root V (some node) (ps.foldl (rootStep g isBlock root fuel node) acc).2 := by
        intro ps
        induction ps with
        | nil => intro _ acc _ _ hcl _; exact ⟨fun e he => he, by simp, hcl⟩
        | cons pl ps ihps =>
          intro hps acc hacc hmono hcl hfin
          rw [List.foldl_cons] at hfin ⊢
          have hs : (rootStep g isBlock root fuel node acc pl).1 = false := by
            cases hc : (rootStep g isBlock root fuel node acc pl).1 with
            | false => rfl
            | true => rw [rootStep_true ps _ hc] at hfin; cases hfin
          obtain ⟨s1, s2, s3⟩ := rootStep_ok hu ih hV acc hacc hmono hcl pl (hps pl (by simp)) hs
          obtain ⟨t1, t2, t3⟩ := ihps (fun q hq => hps q (List.mem_cons_of_mem _ hq)) _ hs
            (fun e he => s1 e (hmono e he)) s3 hfin
          refine ⟨fun e he => t1 e (s1 e he), ?_, t3⟩
          intro q hq
          rcases List.mem_cons.1 hq with rfl | hq
          · exact t1 _ s2
          · exact t2 q hq
      obtain ⟨k1, k2, k3⟩ := key (preds g node) (fun pl hpl => mem_preds.1 hpl) (false, V) rfl
        (fun e he => he) (fun q hq hn => absurd hq hn) hres
      refine ⟨k1, hnoroot, fun p l hpl => k2 (p, l) (mem_preds.2 hpl), ?_⟩
      intro q hq hqV _ hp
      by_cases hqn : q = node
      · subst hqn
        exact ⟨hnoroot, fun x l' hx => k2 (x, l') (mem_preds.2 hx)⟩
      · exact k3 q hq hqV (by simpa using hqn) hp

theorem unvisited_nil_le (g : CG) : unvisited g [] ≤ g.length := List.countP_le_length

theorem rootDep_complete {g : CG} {isBlock : Node → Bool} {root n : Node} (hu : Uniform g isBlock)
    (h : RootReach g isBlock root n) : rootDep g isBlock root n = true := by
  unfold rootDep
  cases hres : (rootDepAux g isBlock root (g.length + 1) n []).1 with
  | true => rfl
  | false =>
    exfalso
    have hr := rootDepAux_ok (root := root) hu (g.length + 1) n []
      (by have := unvisited_nil_le g; omega) hres
    have gen : ∀ m, RootReach g isBlock root m →
        (m = n ∨ (m ∈ (rootDepAux g isBlock root (g.length + 1) n []).2 ∧ HasPass g isBlock m)) → False := by
      intro m hm
      induction hm with
      | @direct m l he =>
        rintro (rfl | ⟨hin, hp⟩)
        · exact hr.noroot l he
        · exact (hr.closed m hin (by simp) (by simp) hp).1 l he
      | @through m p l he hw _ ih =>
        have hpass : HasPass g isBlock p := ⟨m, l, he, by
          rcases hw with hw | hw
          · simp [hw]
          · simp [hw]⟩
        rintro (rfl | ⟨hin, hp⟩)
        · exact ih (Or.inr ⟨hr.preds p l he, hpass⟩)
        · exact ih (Or.inr ⟨(hr.closed m hin (by simp) (by simp) hp).2 p l he, hpass⟩)
    exact gen n h (Or.inl rfl)

end PynguinModel.Cdg
