import PynguinModel.Model.Exclusions
/-!
# Helper lemmas for C08 (coverage exclusions)

* the executable `nodeExcludes` (mirror of the loop body of `should_cover_line`) is exactly membership
  in one of the declarative `regions` of the node;
* `_in_cover` spelled as a proposition (`OnlyOk`);
* the line adapter's loop registers exactly the covered lines that have an instruction.
-/

namespace PynguinModel.Exclusions

/-! ## Specification vocabulary -/

/-- Line `l` lies in the interval `r`. -/
def Within (l : Nat) (r : Nat × Nat) : Prop := r.1 ≤ l ∧ l ≤ r.2

theorem within_iff (l : Nat) (r : Nat × Nat) : within l r = true ↔ Within l r := by
  simp [within, Within]

/-- "Line `l` lies inside excluded code of `root`": it carries a marker (is in `no_cover_lines`), or
some branch construct below `root` that spans `l` excludes a region containing `l`. -/
def ExcludedIn (cfg : Cfg) (root : Node) (l : Nat) : Prop :=
  l ∈ cfg.noCover ∨
    ∃ n ∈ preorder root, n.isBranch = true ∧ n.s ≤ l ∧ l ≤ n.e ∧ ∃ r ∈ regions cfg.noCover n, Within l r

/-- The only-cover part of `_in_cover`, as a proposition: no only-cover scopes are configured, or the
line is an only-cover def line, or the scope `self` contains an only-cover def line (it is an ancestor
of an only-cover scope), or the line lies inside an only-cover scope. -/
def OnlyOk (cfg : Cfg) (mod self : Node) (l : Nat) : Prop :=
  cfg.onlyCover = [] ∨ l ∈ cfg.onlyCover
  ∨ (∃ c, self.s ≤ c ∧ c ≤ self.e ∧ c ∉ cfg.noCover ∧ c ∈ cfg.onlyCover)
  ∨ (∃ sc ∈ preorder mod, sc.isScope = true ∧ sc.s ∈ cfg.onlyCover ∧ sc.s ≤ l ∧ l ≤ sc.e)

/-! ## `_in_cover` -/

theorem inCover_iff (cfg : Cfg) (mod self : Node) (l : Nat) :
    inCover cfg mod self l = true ↔ l ∉ cfg.noCover ∧ OnlyOk cfg mod self l := by
  unfold inCover OnlyOk
  by_cases hnc : l ∈ cfg.noCover
  · simp [hnc]
  · simp only [List.contains_eq_mem, hnc, decide_false, Bool.false_eq_true, ↓reduceIte, Bool.or_eq_true,
      List.isEmpty_iff, decide_eq_true_eq, List.any_eq_true, List.mem_range'_1, Bool.and_eq_true,
      Bool.not_eq_true', decide_eq_false_iff_not, not_false_eq_true, true_and]
    constructor
    · rintro (((h | h) | ⟨c, ⟨h1, h2⟩, h3, h4⟩) | ⟨sc, hsc, ⟨⟨h1, h2⟩, h3⟩, h4⟩)
      · exact Or.inl h
      · exact Or.inr (Or.inl h)
      · exact Or.inr (Or.inr (Or.inl ⟨c, h1, by omega, h3, h4⟩))
      · exact Or.inr (Or.inr (Or.inr ⟨sc, hsc, h1, h2, h3, h4⟩))
    · rintro (h | h | ⟨c, h1, h2, h3, h4⟩ | ⟨sc, hsc, h1, h2, h3, h4⟩)
      · exact Or.inl (Or.inl (Or.inl h))
      · exact Or.inl (Or.inl (Or.inr h))
      · exact Or.inl (Or.inr ⟨c, ⟨h1, by omega⟩, h3, h4⟩)
      · exact Or.inr ⟨sc, hsc, ⟨⟨h1, h2⟩, h3⟩, h4⟩

/-! ## `nodeExcludes` = membership in a region -/

theorem inBody_eq (b : List Node) (l : Nat) : inBody b l = (blk b).any (within l) := by
  unfold inBody blk
  split <;> simp [within]

theorem any_ite_nil {α} (c : Bool) (xs : List α) (p : α → Bool) :
    (if c then xs else []).any p = (c && xs.any p) := by
  cases c <;> simp

theorem any_handlers (nc : List Nat) (hs : List Node) (l : Nat) :
    (hs.flatMap (fun h => if nc.contains h.s then blk h.body else [])).any (within l)
      = hs.any (fun h => inBody h.body l && nc.contains h.s) := by
  induction hs with
  | nil => rfl
  | cons h t ih =>
    simp only [List.flatMap_cons, List.any_append, List.any_cons, ih, any_ite_nil, inBody_eq]
    rw [Bool.and_comm]

/-- The mirrored tests of `should_cover_line` agree with the declarative regions (for a node that
spans the line, as the loop guarantees). -/
theorem nodeExcludes_eq (nc : List Nat) (n : Node) (l : Nat) (h1 : n.s ≤ l) (h2 : l ≤ n.e) :
    nodeExcludes nc n l = (regions nc n).any (within l) := by
  have hw : within l (n.s, n.e) = true := by simp [within, h1, h2]
  unfold nodeExcludes regions
  simp only [List.any_append, any_ite_nil, any_handlers, inBody_eq, List.any_cons, List.any_nil,
    Bool.or_false, hw, Bool.and_true]
  cases n.kind == Kind.matchK <;> cases n.kind == Kind.ifK <;> cases n.kind == Kind.loop <;>
    cases n.kind == Kind.tryK <;> simp <;>
    (try (cases hasElif n <;> simp)) <;>
    (try (cases (blk n.body).any (within l) <;> simp)) <;>
    (try (cases (blk n.orelse).any (within l) <;> simp)) <;>
    (try (cases (blk n.final).any (within l) <;> simp)) <;>
    (try (cases nc.contains n.s <;> simp))

theorem nodeExcludes_iff (nc : List Nat) (n : Node) (l : Nat) (h1 : n.s ≤ l) (h2 : l ≤ n.e) :
    nodeExcludes nc n l = true ↔ ∃ r ∈ regions nc n, Within l r := by
  rw [nodeExcludes_eq nc n l h1 h2, List.any_eq_true]
  simp only [within_iff]

/-! ## The flat scan of `should_cover_line` -/

theorem shouldCoverLine_iff (cfg : Cfg) (mod self : Node) (l : Nat) :
    shouldCoverLine cfg mod self l = true ↔ ¬ ExcludedIn cfg self l ∧ OnlyOk cfg mod self l := by
  unfold shouldCoverLine ExcludedIn
  rw [Bool.and_eq_true, inCover_iff, List.all_eq_true]
  constructor
  · rintro ⟨⟨hnc, ho⟩, hall⟩
    refine ⟨?_, ho⟩
    rintro (h | ⟨n, hn, hb, h1, h2, hr⟩)
    · exact hnc h
    · have := hall n hn
      rw [(nodeExcludes_iff cfg.noCover n l h1 h2).mpr hr] at this
      simp [hb, h1, h2] at this
  · rintro ⟨hne, ho⟩
    refine ⟨⟨fun h => hne (Or.inl h), ho⟩, ?_⟩
    intro n hn
    by_cases hb : n.isBranch = true
    · by_cases h1 : n.s ≤ l
      · by_cases h2 : l ≤ n.e
        · have : nodeExcludes cfg.noCover n l = false := by
            cases hx : nodeExcludes cfg.noCover n l
            · rfl
            · exact absurd (Or.inr ⟨n, hn, hb, h1, h2, (nodeExcludes_iff _ n l h1 h2).mp hx⟩) hne
          simp [this]
        · simp [h2]
      · simp [h1]
    · simp [hb]

/-! ## The line adapter -/

/-- Everything `lineLoop` registers stems from a non-RESUME instruction whose line is covered. -/
theorem lineLoop_sound (cover : Nat → Bool) (l : Nat) :
    ∀ (is : List Instr) (cur : Option Nat), some l ∈ lineLoop cover cur is →
      ∃ i ∈ is, i.line = some l ∧ i.isResume = false ∧ cover l = true := by
  intro is
  induction is with
  | nil => intro cur h; simp [lineLoop] at h
  | cons i t ih =>
    intro cur h
    unfold lineLoop at h
    split at h
    · rename_i l' hl'
      split at h
      · obtain ⟨j, hj, hh⟩ := ih cur h
        exact ⟨j, List.mem_cons_of_mem _ hj, hh⟩
      · rename_i hc
        split at h
        · rename_i hr
          rcases List.mem_cons.mp h with h | h
          · refine ⟨i, List.mem_cons_self, h.symm, ?_, ?_⟩
            · simp at hr; exact hr.2
            · rw [hl'] at h; cases h; simpa using hc
          · obtain ⟨j, hj, hh⟩ := ih _ h
            exact ⟨j, List.mem_cons_of_mem _ hj, hh⟩
        · obtain ⟨j, hj, hh⟩ := ih cur h
          exact ⟨j, List.mem_cons_of_mem _ hj, hh⟩
    · obtain ⟨j, hj, hh⟩ := ih cur h
      exact ⟨j, List.mem_cons_of_mem _ hj, hh⟩

/-- Every covered line that has a non-RESUME instruction in the block is registered — unless it is the
line the loop is currently on (which was registered when the loop moved onto it). -/
theorem lineLoop_complete (cover : Nat → Bool) (l : Nat) (hc : cover l = true) :
    ∀ (is : List Instr) (cur : Option Nat),
      (∃ i ∈ is, i.line = some l ∧ i.isResume = false) →
      some l ∈ lineLoop cover cur is ∨ cur = some l := by
  intro is
  induction is with
  | nil => intro cur h; simp at h
  | cons i t ih =>
    intro cur ⟨j, hj, hjl, hjr⟩
    unfold lineLoop
    rcases List.mem_cons.mp hj with rfl | hj'
    · -- the head instruction is on line `l`
      simp only [hjl, hc, Bool.not_true, Bool.false_eq_true, ↓reduceIte, hjr]
      by_cases hcur : cur = some l
      · exact Or.inr hcur
      · left
        have : (some l != cur) = true := by
          simp only [bne_iff_ne, ne_eq]; exact fun h => hcur h.symm
        simp [this]
    · have ih' := fun c => ih c ⟨j, hj', hjl, hjr⟩
      split
      · rename_i l' hl'
        split
        · exact ih' cur
        · split
          · rcases ih' i.line with h | h
            · exact Or.inl (List.mem_cons_of_mem _ h)
            · exact Or.inl (by rw [h]; exact List.mem_cons_self)
          · exact ih' cur
      · exact ih' cur

/-! ## Hypotheses of the module-level theorems (all decidable by evaluation; checked by the driver) -/

/-- Regions and scopes are laminar: an excluded region of a branch construct and (the full extent,
decorators included, of) a scope are disjoint, or the region contains the scope (then also its def
line, which lies within the construct), or the construct lies inside the scope. True for every tree
that comes from a Python `ast` (statements nest); stated as a hypothesis because the model's `Node`
carries arbitrary numbers. -/
def Laminar (cfg : Cfg) (mod : Node) : Prop :=
  ∀ a ∈ preorder mod, a.isBranch = true → ∀ r ∈ regions cfg.noCover a,
    ∀ b ∈ preorder mod, b.isScope = true →
      (r.2 < b.first ∨ b.e < r.1)
      ∨ (r.1 ≤ b.first ∧ b.e ≤ r.2 ∧ a.s ≤ b.s ∧ b.s ≤ a.e ∧ b.first ≤ b.s ∧ b.s ≤ b.e)
      ∨ a ∈ preorder b

/-- The instructions of a code object lie within the extent of its scope (RESUME aside). -/
def blocksInRange (sc : Node) (blocks : List Block) : Bool :=
  blocks.all fun b => b.instrs.all fun i =>
    match i.line with
    | some l => i.isResume || (decide (sc.first ≤ l) && decide (l ≤ sc.e))
    | none => true

mutual
/-- Every code object is attributed to a scope by `get_scope`, and its instructions lie in that scope. -/
def attributed (mod : Node) : CodeObj → Bool
  | .mk id first isMod isAnn blocks children =>
    (isAnn ||
      (match getScope mod (CodeObj.key (.mk id first isMod isAnn blocks children)) with
       | some sc => blocksInRange sc blocks
       | none => false))
    && attributedL mod children
def attributedL (mod : Node) : List CodeObj → Bool
  | [] => true
  | c :: cs => attributed mod c && attributedL mod cs
end

theorem mem_preorder_self (n : Node) : n ∈ preorder n := by
  cases n; simp [preorder]

theorem Goals.append_lines (a b : Goals) : (a ++ b).lines = a.lines ++ b.lines := rfl
theorem Goals.append_preds (a b : Goals) : (a ++ b).preds = a.preds ++ b.preds := rfl
theorem Goals.append_cos (a b : Goals) : (a ++ b).cos = a.cos ++ b.cos := rfl

theorem getScope_some {mod : Node} {l : Nat} {sc : Node} (h : getScope mod l = some sc) :
    sc ∈ preorder mod ∧ sc.isScope = true ∧ sc.first = l := by
  unfold getScope at h
  have h1 := List.mem_of_find?_eq_some h
  have h2 := List.find?_some h
  simp only [Bool.and_eq_true, beq_iff_eq] at h2
  exact ⟨h1, h2.1, h2.2⟩


/-! ## Goals of the instrumentation: intermediate statements -/

/-- A registered line goal is justified by a covered scope that covers the line. -/
def LineGoalOk (cfg : Cfg) (mod : Node) (l : Nat) : Prop :=
  ∃ sc ∈ preorder mod, sc.isScope = true ∧ shouldBeCovered cfg mod sc = true
    ∧ shouldCoverLine cfg mod sc l = true ∧ sc.first ≤ l ∧ l ≤ sc.e

theorem ownGoals_lines_ok (cfg : Cfg) (mod : Node) (c : CodeObj) (sc : Node) (l : Nat)
    (hsc : getScope mod c.key = some sc) (hcov : shouldBeCovered cfg mod sc = true)
    (hrange : blocksInRange sc c.blocks = true)
    (h : some l ∈ (ownGoals cfg mod (some sc) c.id c.blocks).lines) : LineGoalOk cfg mod l := by
  obtain ⟨hmem, hscope, _⟩ := getScope_some hsc
  simp only [ownGoals, List.mem_flatMap] at h
  obtain ⟨b, hb, hl⟩ := h
  obtain ⟨i, hi, hline, hres, hc⟩ := lineLoop_sound _ l b.instrs none hl
  simp only [coverOf] at hc
  have hr := hrange
  simp only [blocksInRange, List.all_eq_true] at hr
  have := hr b hb i hi
  rw [hline] at this
  simp only [hres, Bool.false_or, Bool.and_eq_true, decide_eq_true_eq] at this
  exact ⟨sc, hmem, hscope, hcov, hc, this.1, this.2⟩

mutual
/-- Every line goal of the instrumentation is justified (`LineGoalOk`). -/
theorem instrument_lines_ok (cfg : Cfg) (mod : Node) :
    ∀ (c : CodeObj), attributed mod c = true → ∀ l, some l ∈ (instrument cfg mod c).lines →
      LineGoalOk cfg mod l
  | .mk id first isMod isAnn blocks children, hattr, l, h => by
    unfold instrument at h
    split at h
    · simp at h
    · rename_i hskip
      unfold attributed at hattr
      simp only [skipped, CodeObj.isAnnotate, Bool.or_eq_true, not_or, Bool.not_eq_true] at hskip
      obtain ⟨hann, hsk⟩ := hskip
      subst hann
      simp only [Bool.false_or, Bool.and_eq_true] at hattr
      obtain ⟨hown, hkids⟩ := hattr
      rw [Goals.append_lines, List.mem_append] at h
      rcases h with h | h
      · split at hown
        · rename_i sc hsc
          rw [hsc] at h
          rw [hsc] at hsk
          have hcov : shouldBeCovered cfg mod sc = true := by
            cases hx : shouldBeCovered cfg mod sc
            · simp [hx] at hsk
            · rfl
          exact ownGoals_lines_ok cfg mod (.mk id first isMod false blocks children) sc l hsc hcov hown h
        · cases hown
      · exact instrumentL_lines_ok cfg mod children hkids l h
theorem instrumentL_lines_ok (cfg : Cfg) (mod : Node) :
    ∀ (cs : List CodeObj), attributedL mod cs = true → ∀ l, some l ∈ (instrumentL cfg mod cs).lines →
      LineGoalOk cfg mod l
  | [], _, l, h => by simp [instrumentL] at h
  | c :: cs, hattr, l, h => by
    unfold attributedL at hattr
    simp only [Bool.and_eq_true] at hattr
    unfold instrumentL at h
    rw [Goals.append_lines, List.mem_append] at h
    rcases h with h | h
    · exact instrument_lines_ok cfg mod c hattr.1 l h
    · exact instrumentL_lines_ok cfg mod cs hattr.2 l h
end

/-- A registered predicate sits on a block that passed both `ast_info` guards of the branch adapter. -/
def PredGoalOk (cfg : Cfg) (mod : Node) (p : Nat × Nat) : Prop :=
  ∃ sc ∈ preorder mod, sc.isScope = true ∧ shouldBeCovered cfg mod sc = true ∧
    ∃ b : Block, b.idx = p.2 ∧ (∀ l, b.lastLine = some l → shouldCoverCond cfg mod sc l = true)

mutual
theorem instrument_preds_ok (cfg : Cfg) (mod : Node) :
    ∀ (c : CodeObj), attributed mod c = true → ∀ p, p ∈ (instrument cfg mod c).preds →
      PredGoalOk cfg mod p
  | .mk id first isMod isAnn blocks children, hattr, p, h => by
    unfold instrument at h
    split at h
    · simp at h
    · rename_i hskip
      unfold attributed at hattr
      simp only [skipped, CodeObj.isAnnotate, Bool.or_eq_true, not_or, Bool.not_eq_true] at hskip
      obtain ⟨hann, hsk⟩ := hskip
      subst hann
      simp only [Bool.false_or, Bool.and_eq_true] at hattr
      obtain ⟨hown, hkids⟩ := hattr
      rw [Goals.append_preds, List.mem_append] at h
      rcases h with h | h
      · split at hown
        · rename_i sc hsc
          rw [hsc] at h
          rw [hsc] at hsk
          have hcov : shouldBeCovered cfg mod sc = true := by
            cases hx : shouldBeCovered cfg mod sc
            · simp [hx] at hsk
            · rfl
          obtain ⟨hmem, hscope, _⟩ := getScope_some hsc
          simp only [ownGoals, List.mem_map, List.mem_filter, Option.isNone_some, Bool.false_or,
            Bool.and_eq_true] at h
          obtain ⟨b, ⟨_, _, hallowed⟩, rfl⟩ := h
          refine ⟨sc, hmem, hscope, hcov, b, rfl, ?_⟩
          intro l hl
          simp only [predAllowed, Bool.and_eq_true, hl, condCoverOf] at hallowed
          exact hallowed.1.2
        · cases hown
      · exact instrumentL_preds_ok cfg mod children hkids p h
theorem instrumentL_preds_ok (cfg : Cfg) (mod : Node) :
    ∀ (cs : List CodeObj), attributedL mod cs = true → ∀ p, p ∈ (instrumentL cfg mod cs).preds →
      PredGoalOk cfg mod p
  | [], _, p, h => by simp [instrumentL] at h
  | c :: cs, hattr, p, h => by
    unfold attributedL at hattr
    simp only [Bool.and_eq_true] at hattr
    unfold instrumentL at h
    rw [Goals.append_preds, List.mem_append] at h
    rcases h with h | h
    · exact instrument_preds_ok cfg mod c hattr.1 p h
    · exact instrumentL_preds_ok cfg mod cs hattr.2 p h
end

/-- `c` is reached by the recursion of `_instrument_code_recursive` started at `r`: no code object on the
way (including `c`) is skipped. -/
inductive Reached (cfg : Cfg) (mod : Node) : CodeObj → CodeObj → Prop
  | here (c : CodeObj) : skipped cfg mod c = false → Reached cfg mod c c
  | child (r k c : CodeObj) : skipped cfg mod r = false → k ∈ r.children → Reached cfg mod k c →
      Reached cfg mod r c

theorem mem_instrumentL_lines (cfg : Cfg) (mod : Node) (x : Option Nat) :
    ∀ (cs : List CodeObj) (k : CodeObj), k ∈ cs → x ∈ (instrument cfg mod k).lines →
      x ∈ (instrumentL cfg mod cs).lines
  | [], k, hk, _ => by cases hk
  | c :: cs, k, hk, hx => by
    unfold instrumentL
    rw [Goals.append_lines, List.mem_append]
    rcases List.mem_cons.mp hk with rfl | hk
    · exact Or.inl hx
    · exact Or.inr (mem_instrumentL_lines cfg mod x cs k hk hx)

end PynguinModel.Exclusions
