import PynguinModel.Model.SubprocessAlign
/-!
# Lemmas for C31: dict primitives, the memo of `_fix_assertion_trace`, the rebuild loops, `fixAll`.
-/
namespace PynguinModel.SubprocessAlign

/-! ## dict primitives -/

theorem dget_dset [DecidableEq κ] (d : List (κ × ν)) (k k' : κ) (v : ν) :
    dget (dset d k v) k' = if k = k' then some v else dget d k' := by
  induction d with
  | nil => simp [dset, dget]
  | cons e r ih =>
    obtain ⟨k0, v0⟩ := e
    by_cases h : k0 = k
    · subst h
      by_cases h' : k0 = k' <;> simp [dset, dget, h']
    · by_cases h' : k0 = k'
      · subst h'
        have : ¬ k = k0 := fun e => h e.symm
        simp [dset, dget, h, this]
      · simp [dset, dget, h, h', ih]

theorem dget_none_of_not_mem [DecidableEq κ] (d : List (κ × ν)) (k : κ)
    (h : k ∉ d.map (·.1)) : dget d k = none := by
  induction d with
  | nil => simp [dget]
  | cons e r ih =>
    obtain ⟨k0, v0⟩ := e
    simp at h
    have h1 : ¬ k0 = k := fun e => h.1 e.symm
    simp [dget, h1]
    exact ih (by simpa using h.2)

theorem dset_of_not_mem [DecidableEq κ] (d : List (κ × ν)) (k : κ) (v : ν)
    (h : k ∉ d.map (·.1)) : dset d k v = d ++ [(k, v)] := by
  induction d with
  | nil => simp [dset]
  | cons e r ih =>
    obtain ⟨k0, v0⟩ := e
    simp at h
    have h1 : ¬ k0 = k := fun e => h.1 e.symm
    simp [dset, h1]
    exact ih (by simpa using h.2)

theorem dget_append_last [DecidableEq κ] (d : List (κ × ν)) (k : κ) (v : ν)
    (h : k ∉ d.map (·.1)) : dget (d ++ [(k, v)]) k = some v := by
  induction d with
  | nil => simp [dget]
  | cons e r ih =>
    obtain ⟨k0, v0⟩ := e
    simp at h
    have h1 : ¬ k0 = k := fun e => h.1 e.symm
    simp [dget, h1]
    exact ih (by simpa using h.2)

theorem dset_append_last [DecidableEq κ] (d : List (κ × ν)) (k : κ) (v v' : ν)
    (h : k ∉ d.map (·.1)) : dset (d ++ [(k, v)]) k v' = d ++ [(k, v')] := by
  induction d with
  | nil => simp [dset]
  | cons e r ih =>
    obtain ⟨k0, v0⟩ := e
    simp at h
    have h1 : ¬ k0 = k := fun e => h.1 e.symm
    simp [dset, h1]
    exact ih (by simpa using h.2)

theorem dget_of_mem_nodup [DecidableEq κ] (d : List (κ × ν)) (k : κ) (v : ν)
    (hn : (d.map (·.1)).Nodup) (hm : (k, v) ∈ d) : dget d k = some v := by
  induction d with
  | nil => simp at hm
  | cons e r ih =>
    obtain ⟨k0, v0⟩ := e
    simp at hn
    rcases List.mem_cons.mp hm with h | h
    · injection h with h1 h2
      subst h1; subst h2
      simp [dget]
    · have : ¬ k0 = k := by
        intro e
        subst e
        exact hn.1 v h
      simp [dget, this]
      exact ih hn.2 h

/-! ## `_create_variable_binding` -/

theorem createBindingFrom_keys_ge (s : Nat) (l : List (Option String)) :
    ∀ e ∈ createBindingFrom s l, s ≤ e.1 := by
  induction l generalizing s with
  | nil => simp [createBindingFrom]
  | cons o r ih =>
    cases o with
    | none =>
      intro e he
      exact Nat.le_of_succ_le (ih (s + 1) e (by simpa [createBindingFrom] using he))
    | some v =>
      intro e he
      simp [createBindingFrom] at he
      rcases he with h | h
      · subst h; exact Nat.le_refl _
      · exact Nat.le_of_succ_le (ih (s + 1) e h)

theorem createBindingFrom_nodup (s : Nat) (l : List (Option String)) :
    ((createBindingFrom s l).map (·.1)).Nodup := by
  induction l generalizing s with
  | nil => simp [createBindingFrom]
  | cons o r ih =>
    cases o with
    | none => simpa [createBindingFrom] using ih (s + 1)
    | some v =>
      simp only [createBindingFrom, List.map_cons, List.nodup_cons]
      refine ⟨?_, ih (s + 1)⟩
      intro hm
      obtain ⟨e, he, hk⟩ := List.mem_map.mp hm
      have := createBindingFrom_keys_ge (s + 1) r e he
      omega

/-- Position `i` is bound to `v` exactly if statement `i` binds `v`. -/
theorem createBindingFrom_mem (s : Nat) (l : List (Option String)) (p : Nat) (v : String) :
    (p, v) ∈ createBindingFrom s l ↔ ∃ i, p = s + i ∧ l[i]? = some (some v) := by
  induction l generalizing s with
  | nil => simp [createBindingFrom]
  | cons o r ih =>
    cases o with
    | none =>
      simp only [createBindingFrom, ih (s + 1)]
      constructor
      · rintro ⟨i, h1, h2⟩
        exact ⟨i + 1, by omega, by simpa using h2⟩
      · rintro ⟨i, h1, h2⟩
        cases i with
        | zero => simp at h2
        | succ j => exact ⟨j, by omega, by simpa using h2⟩
    | some w =>
      simp only [createBindingFrom, List.mem_cons, ih (s + 1)]
      constructor
      · rintro (h | ⟨i, h1, h2⟩)
        · injection h with h1 h2
          exact ⟨0, by omega, by simp [h2]⟩
        · exact ⟨i + 1, by omega, by simpa using h2⟩
      · rintro ⟨i, h1, h2⟩
        cases i with
        | zero =>
          left
          simp at h2
          simp [h1, h2]
        | succ j => exact Or.inr ⟨j, by omega, by simpa using h2⟩

/-! ## The memo -/

theorem mkMemoFrom_ok (old : Bindings) (memo : Memo) (new : Bindings)
    (h : ∀ p n, (p, n) ∈ new → (dget old p).isSome) : ∃ m, mkMemoFrom old memo new = .ok m := by
  induction new generalizing memo with
  | nil => exact ⟨memo, rfl⟩
  | cons e r ih =>
    obtain ⟨p, n⟩ := e
    have hp := h p n (by simp)
    cases ho : dget old p with
    | none => simp [ho] at hp
    | some o =>
      simp only [mkMemoFrom, ho]
      exact ih _ (fun p' n' hm => h p' n' (List.mem_cons_of_mem _ hm))

theorem mkMemoFrom_key_error (old : Bindings) (memo : Memo) (new : Bindings) (e : Err)
    (h : mkMemoFrom old memo new = .error e) : e = .key ∧ ∃ p n, (p, n) ∈ new ∧ dget old p = none := by
  induction new generalizing memo with
  | nil => simp [mkMemoFrom] at h
  | cons x r ih =>
    obtain ⟨p, n⟩ := x
    cases ho : dget old p with
    | none =>
      simp [mkMemoFrom, ho] at h
      exact ⟨h.symm, p, n, by simp, ho⟩
    | some o =>
      simp only [mkMemoFrom, ho] at h
      obtain ⟨h1, p', n', hm, hn⟩ := ih _ h
      exact ⟨h1, p', n', List.mem_cons_of_mem _ hm, hn⟩

/-- Every entry of the memo comes from the initial memo or from a position of `new`. -/
theorem mkMemoFrom_sound (old : Bindings) (memo : Memo) (new : Bindings) (m : Memo)
    (h : mkMemoFrom old memo new = .ok m) (n o : String) (hl : dget m n = some o) :
    dget memo n = some o ∨ ∃ p, (p, n) ∈ new ∧ dget old p = some o := by
  induction new generalizing memo with
  | nil =>
    simp [mkMemoFrom] at h
    subst h
    exact Or.inl hl
  | cons x r ih =>
    obtain ⟨p, n'⟩ := x
    cases ho : dget old p with
    | none => simp [mkMemoFrom, ho] at h
    | some o' =>
      simp only [mkMemoFrom, ho] at h
      rcases ih _ h with h1 | ⟨q, hq, hq'⟩
      · rw [dget_dset] at h1
        by_cases hn : n' = n
        · subst hn
          simp at h1
          subst h1
          exact Or.inr ⟨p, by simp, ho⟩
        · simp [hn] at h1
          exact Or.inl h1
      · exact Or.inr ⟨q, List.mem_cons_of_mem _ hq, hq'⟩

/-- Names already in the memo stay, and every name of `new` gets an entry. -/
theorem mkMemoFrom_complete (old : Bindings) (memo : Memo) (new : Bindings) (m : Memo)
    (h : mkMemoFrom old memo new = .ok m) (n : String)
    (hn : (dget memo n).isSome ∨ ∃ p, (p, n) ∈ new) : (dget m n).isSome := by
  induction new generalizing memo with
  | nil =>
    simp [mkMemoFrom] at h
    subst h
    rcases hn with h1 | ⟨p, hp⟩
    · exact h1
    · simp at hp
  | cons x r ih =>
    obtain ⟨p, n'⟩ := x
    cases ho : dget old p with
    | none => simp [mkMemoFrom, ho] at h
    | some o' =>
      simp only [mkMemoFrom, ho] at h
      apply ih _ h
      by_cases hnn : n' = n
      · left; rw [dget_dset]; simp [hnn]
      · rcases hn with h1 | ⟨q, hq⟩
        · left; rw [dget_dset]; simp [hnn, h1]
        · rcases List.mem_cons.mp hq with h2 | h2
          · injection h2 with _ h3
            exact absurd h3.symm hnn
          · exact Or.inr ⟨q, h2⟩

/-- A name that is no new reference is not in the memo. -/
theorem mkMemo_not_new (old new : Bindings) (m : Memo) (h : mkMemo old new = .ok m) (n : String)
    (hn : ∀ p, (p, n) ∉ new) : dget m n = none := by
  cases hl : dget m n with
  | none => rfl
  | some o =>
    rcases mkMemoFrom_sound old [] new m h n o hl with h1 | ⟨p, hp, _⟩
    · simp [dget] at h1
    · exact absurd hp (hn p)

/-! ## The rebuild loops -/

/-- The loops of `_fix_assertion_trace` with an arbitrary per-assertion function. -/
def rebuildWith (g : Assertion → Assertion) (acc : Trace) (t : Trace) : Trace :=
  t.foldl (fun acc e => e.2.foldl (fun acc a => addEntry acc e.1 (g a)) acc) acc

theorem rebuildInto_eq (memo : Memo) (acc t : Trace) :
    rebuildInto memo acc t = rebuildWith (fun a => a.clone memo) acc t := rfl

theorem inner_congr (g g' : Assertion → Assertion) (pos : Nat) (as : List Assertion) (acc : Trace)
    (h : ∀ a ∈ as, g a = g' a) :
    as.foldl (fun acc a => addEntry acc pos (g a)) acc = as.foldl (fun acc a => addEntry acc pos (g' a)) acc := by
  induction as generalizing acc with
  | nil => rfl
  | cons a r ih =>
    simp only [List.foldl_cons]
    rw [h a (by simp)]
    exact ih _ (fun b hb => h b (List.mem_cons_of_mem _ hb))

theorem rebuildWith_congr (g g' : Assertion → Assertion) (acc t : Trace)
    (h : ∀ e ∈ t, ∀ a ∈ e.2, g a = g' a) : rebuildWith g acc t = rebuildWith g' acc t := by
  induction t generalizing acc with
  | nil => rfl
  | cons e r ih =>
    simp only [rebuildWith, List.foldl_cons]
    rw [inner_congr g g' e.1 e.2 acc (h e (by simp))]
    exact ih _ (fun e' he' => h e' (List.mem_cons_of_mem _ he'))

theorem rebuildWith_map (g f : Assertion → Assertion) (acc t : Trace) :
    rebuildWith g acc (t.map (fun e => (e.1, e.2.map f))) = rebuildWith (fun a => g (f a)) acc t := by
  induction t generalizing acc with
  | nil => rfl
  | cons e r ih =>
    simp only [rebuildWith, List.map_cons, List.foldl_cons, List.foldl_map]
    first | done | exact ih _

/-- Well-formed `AssertionTrace.trace`: a dict (unique positions) of sets (no duplicates). -/
def WF (t : Trace) : Prop := (t.map (·.1)).Nodup ∧ ∀ e ∈ t, e.2.Nodup

theorem inner_id_started (acc : Trace) (pos : Nat) (s as : List Assertion)
    (hp : pos ∉ acc.map (·.1)) (hn : (s ++ as).Nodup) :
    as.foldl (fun acc a => addEntry acc pos a) (acc ++ [(pos, s)]) = acc ++ [(pos, s ++ as)] := by
  induction as generalizing s with
  | nil => simp
  | cons a r ih =>
    simp only [List.foldl_cons]
    have ha : a ∉ s := by
      intro hm
      have := List.nodup_append.mp hn
      exact this.2.2 a hm a (by simp) rfl
    have : addEntry (acc ++ [(pos, s)]) pos a = acc ++ [(pos, s ++ [a])] := by
      simp only [addEntry, dget_append_last acc pos s hp, Option.getD_some, osAdd, ha, if_false]
      exact dset_append_last acc pos s _ hp
    rw [this, ih (s ++ [a]) (by simpa using hn)]
    simp

theorem inner_id (acc : Trace) (pos : Nat) (as : List Assertion)
    (hp : pos ∉ acc.map (·.1)) (hn : as.Nodup) :
    as.foldl (fun acc a => addEntry acc pos a) acc = if as.isEmpty then acc else acc ++ [(pos, as)] := by
  cases as with
  | nil => rfl
  | cons a r =>
    simp only [List.foldl_cons, List.isEmpty_cons]
    have : addEntry acc pos a = acc ++ [(pos, [a])] := by
      simp only [addEntry, dget_none_of_not_mem acc pos hp, Option.getD_none, osAdd]
      simpa using dset_of_not_mem acc pos [a] hp
    rw [this, inner_id_started acc pos [a] r hp (by simpa using hn)]
    simp

/-- With a function that changes nothing, the loops reproduce the trace (minus empty positions). -/
theorem rebuildWith_id (acc t : Trace) (hwf : WF t)
    (hd : ∀ e ∈ t, e.1 ∉ acc.map (·.1)) : rebuildWith (fun a => a) acc t = acc ++ dropEmpty t := by
  induction t generalizing acc with
  | nil => simp [rebuildWith, dropEmpty]
  | cons e r ih =>
    obtain ⟨hk, hs⟩ := hwf
    simp only [List.map_cons, List.nodup_cons] at hk
    have hwf' : WF r := ⟨hk.2, fun e' he' => hs e' (List.mem_cons_of_mem _ he')⟩
    have he := inner_id acc e.1 e.2 (hd e (by simp)) (hs e (by simp))
    simp only [rebuildWith, List.foldl_cons]
    rw [he]
    by_cases hem : e.2.isEmpty
    · simp only [hem, if_true]
      have := ih acc hwf' (fun e' he' => hd e' (List.mem_cons_of_mem _ he'))
      simp only [rebuildWith] at this
      rw [this]
      simp [dropEmpty, hem]
    · simp only [hem]
      have hd' : ∀ e' ∈ r, e'.1 ∉ (acc ++ [(e.1, e.2)]).map (·.1) := by
        intro e' he'
        simp only [List.map_append, List.map_cons, List.map_nil, List.mem_append, List.mem_singleton]
        rintro (h | h)
        · exact hd e' (List.mem_cons_of_mem _ he') h
        · exact hk.1 (h ▸ List.mem_map.mpr ⟨e', he', rfl⟩)
      have := ih (acc ++ [(e.1, e.2)]) hwf' hd'
      simp only [rebuildWith] at this
      simp only [Bool.false_eq_true, if_false]
      rw [this]
      simp [dropEmpty, hem]

theorem dropEmpty_idem (t : Trace) : dropEmpty (dropEmpty t) = dropEmpty t := by
  simp [dropEmpty, List.filter_filter]

/-! ## `fixAll`, `mapExcept` -/

theorem fixAll_length (rs : List Res) (bs : List Bindings) (nbs : List (Option Bindings)) (out : List Res)
    (h : fixAll rs bs nbs = .ok out) :
    out.length = rs.length ∧ bs.length = rs.length ∧ nbs.length = rs.length := by
  induction rs generalizing bs nbs out with
  | nil =>
    cases bs <;> cases nbs <;> simp [fixAll] at h
    subst h; simp
  | cons r rs ih =>
    cases bs with
    | nil => simp [fixAll] at h
    | cons b bs =>
      cases nbs with
      | nil => simp [fixAll] at h
      | cons nb nbs =>
        simp only [fixAll] at h
        cases h1 : fixOne b r nb with
        | error e => simp [h1] at h
        | ok r' =>
          cases h2 : fixAll rs bs nbs with
          | error e => simp [h1, h2] at h
          | ok rest =>
            simp [h1, h2] at h
            subst h
            have := ih bs nbs rest h2
            simp [this.1, this.2.1, this.2.2]

/-- The `i`-th output of the loop is the fixed `i`-th received result, fixed with the `i`-th bindings. -/
theorem fixAll_get (rs : List Res) (bs : List Bindings) (nbs : List (Option Bindings)) (out : List Res)
    (h : fixAll rs bs nbs = .ok out) (i : Nat) (o : Res) (ho : out[i]? = some o) :
    ∃ r b nb, rs[i]? = some r ∧ bs[i]? = some b ∧ nbs[i]? = some nb ∧ fixOne b r nb = .ok o := by
  induction rs generalizing bs nbs out i with
  | nil =>
    cases bs <;> cases nbs <;> simp [fixAll] at h
    subst h; simp at ho
  | cons r rs ih =>
    cases bs with
    | nil => simp [fixAll] at h
    | cons b bs =>
      cases nbs with
      | nil => simp [fixAll] at h
      | cons nb nbs =>
        simp only [fixAll] at h
        cases h1 : fixOne b r nb with
        | error e => simp [h1] at h
        | ok r' =>
          cases h2 : fixAll rs bs nbs with
          | error e => simp [h1, h2] at h
          | ok rest =>
            simp [h1, h2] at h
            subst h
            cases i with
            | zero =>
              simp at ho
              subst ho
              exact ⟨r, b, nb, by simp, by simp, by simp, h1⟩
            | succ j =>
              simp at ho
              obtain ⟨r0, b0, nb0, e1, e2, e3, e4⟩ := ih bs nbs rest h2 j ho
              exact ⟨r0, b0, nb0, by simpa using e1, by simpa using e2, by simpa using e3, e4⟩

/-- If every element can be fixed and the three sequences have one length, the loop succeeds with the
pointwise results. -/
theorem fixAll_of_pointwise (ts : List τ) (f : τ → Res) (b : τ → Bindings) (nb : τ → Option Bindings)
    (g : τ → Res) (h : ∀ t ∈ ts, fixOne (b t) (f t) (nb t) = .ok (g t)) :
    fixAll (ts.map f) (ts.map b) (ts.map nb) = .ok (ts.map g) := by
  induction ts with
  | nil => simp [fixAll]
  | cons t r ih =>
    simp only [List.map_cons, fixAll, h t (by simp)]
    rw [ih (fun t' ht' => h t' (List.mem_cons_of_mem _ ht'))]

theorem mapExcept_length (f : α → Except ε β) (l : List α) (out : List β)
    (h : mapExcept f l = .ok out) : out.length = l.length := by
  induction l generalizing out with
  | nil => simp [mapExcept] at h; subst h; rfl
  | cons a r ih =>
    simp only [mapExcept] at h
    cases h1 : f a with
    | error e => simp [h1] at h
    | ok b =>
      cases h2 : mapExcept f r with
      | error e => simp [h1, h2] at h
      | ok bs =>
        simp [h1, h2] at h
        subst h
        simp [ih bs h2]

theorem mapExcept_get (f : α → Except ε β) (l : List α) (out : List β)
    (h : mapExcept f l = .ok out) (i : Nat) (o : β) (ho : out[i]? = some o) :
    ∃ a, l[i]? = some a ∧ f a = .ok o := by
  induction l generalizing out i with
  | nil => simp [mapExcept] at h; subst h; simp at ho
  | cons a r ih =>
    simp only [mapExcept] at h
    cases h1 : f a with
    | error e => simp [h1] at h
    | ok b =>
      cases h2 : mapExcept f r with
      | error e => simp [h1, h2] at h
      | ok bs =>
        simp [h1, h2] at h
        subst h
        cases i with
        | zero => simp at ho; subst ho; exact ⟨a, by simp, h1⟩
        | succ j =>
          simp at ho
          obtain ⟨a', e1, e2⟩ := ih bs h2 j ho
          exact ⟨a', by simpa using e1, e2⟩

theorem mapExcept_of_pointwise (f : α → Except ε β) (g : α → β) (l : List α)
    (h : ∀ a ∈ l, f a = .ok (g a)) : mapExcept f l = .ok (l.map g) := by
  induction l with
  | nil => rfl
  | cons a r ih =>
    simp only [mapExcept, h a (by simp), List.map_cons]
    rw [ih (fun a' ha' => h a' (List.mem_cons_of_mem _ ha'))]

end PynguinModel.SubprocessAlign
