import PynguinModel.Lemmas.Archive
/-!
Helper lemmas for the MIO part of C13: the population invariant `PopInv`, its preservation by
`add_solution` / `shrink_population` / `sample_solution`, and the reduction of `MIOArchive`
histories to per-target population histories.
-/
namespace PynguinModel.Archive

def hle (a b : Nat × Sol) : Bool := decide (a.1 ≥ b.1)

theorem hle_trans (a b c : Nat × Sol) : hle a b = true → hle b c = true → hle a c = true := by
  simp only [hle, decide_eq_true_eq]; omega

theorem hle_total (a b : Nat × Sol) : (hle a b || hle b a) = true := by
  simp only [hle, Bool.or_eq_true, decide_eq_true_eq]; omega

theorem sortDesc_eq (l : List (Nat × Sol)) : sortDesc l = l.mergeSort hle := rfl

theorem sortDesc_sorted (l : List (Nat × Sol)) : (sortDesc l).Pairwise (fun a b => b.1 ≤ a.1) := by
  have := List.pairwise_mergeSort hle_trans hle_total l
  rw [sortDesc_eq]
  exact this.imp (by intro a b h; simpa [hle] using h)

theorem length_sortDesc (l : List (Nat × Sol)) : (sortDesc l).length = l.length := by
  rw [sortDesc_eq]; exact List.length_mergeSort l

theorem mem_sortDesc {l : List (Nat × Sol)} {x : Nat × Sol} : x ∈ sortDesc l ↔ x ∈ l := by
  rw [sortDesc_eq]; exact List.mem_mergeSort

theorem sortDesc_of_sorted {l : List (Nat × Sol)} (h : l.Pairwise (fun a b => b.1 ≤ a.1)) :
    sortDesc l = l := by
  rw [sortDesc_eq]
  exact List.mergeSort_of_pairwise (h.imp (by intro a b h; simpa [hle] using h))

/-! ### `is_covered` -/

theorem isCovered_iff (p : Pop) :
    p.isCovered = true ↔ ∃ s, p.sols = [(hOne, s)] ∧ p.capacity = 1 := by
  unfold Pop.isCovered
  split
  · rename_i h s hs
    simp only [Bool.and_eq_true, beq_iff_eq, hs]
    constructor
    · rintro ⟨hc, hh⟩; exact ⟨s, by simp [hh], hc⟩
    · rintro ⟨s', hs', hc⟩; simp at hs'; exact ⟨hc, hs'.1⟩
  · rename_i hne
    constructor
    · intro h; cases h
    · rintro ⟨s, hs, _⟩; exact absurd hs (hne hOne s)

theorem isCovered_counter (p : Pop) (c : Nat) : ({ p with counter := c } : Pop).isCovered = p.isCovered := rfl

/-! ### population invariant -/

structure PopInv (p : Pop) : Prop where
  lenCap : p.sols.length ≤ p.capacity
  sorted : p.sols.Pairwise (fun a b => b.1 ≤ a.1)
  hRange : ∀ x ∈ p.sols, 0 < x.1 ∧ x.1 ≤ hOne
  oneCov : (∃ x ∈ p.sols, x.1 = hOne) → p.isCovered = true

theorem popInv_init (n : Nat) : PopInv (Pop.init n) :=
  ⟨by simp [Pop.init], by simp [Pop.init], by simp [Pop.init], by simp [Pop.init]⟩

theorem popInv_counter {p : Pop} (h : PopInv p) (c : Nat) : PopInv { p with counter := c } :=
  ⟨h.lenCap, h.sorted, h.hRange, h.oneCov⟩

theorem finish_ok {p : Pop} (h : p.sols.length ≤ p.capacity) (added : Bool) :
    p.finish added = .ok (if added then { p with counter := 0 } else p, added) := by
  simp [Pop.finish, h]

theorem popInv_single (c : Nat) (s : Sol) : PopInv ⟨c, 1, [(hOne, s)]⟩ :=
  ⟨by simp, by simp, by simp [hOne], by intro _; exact (isCovered_iff _).2 ⟨s, rfl, rfl⟩⟩

/-- Result of a successful `add_solution`, case by case. -/
inductive AddCase (p : Pop) (h : Nat) (s : Sol) : Pop × Bool → Prop where
  | rejectZero : h = 0 → AddCase p h s (p, false)
  | rejectCovered : h < hOne → p.isCovered = true → AddCase p h s (p, false)
  | replaceBest (o : Sol) : h = hOne → p.sols = [(hOne, o)] → p.capacity = 1 →
      isPairBetterThanCurrent (hOne, o) (hOne, s) = true →
      AddCase p h s (⟨0, 1, [(hOne, s)]⟩, true)
  | keepBest (o : Sol) : h = hOne → p.sols = [(hOne, o)] → p.capacity = 1 →
      isPairBetterThanCurrent (hOne, o) (hOne, s) = false → AddCase p h s (p, false)
  | firstCover : h = hOne → p.isCovered = false → AddCase p h s (⟨0, 1, [(hOne, s)]⟩, true)
  | append : 0 < h → h < hOne → p.isCovered = false → p.sols.length < p.capacity →
      AddCase p h s (⟨0, p.capacity, sortDesc (p.sols ++ [(h, s)])⟩, true)
  | replaceWorst (w : Nat × Sol) : 0 < h → h < hOne → p.isCovered = false →
      p.capacity ≤ p.sols.length → p.sols.getLast? = some w →
      isPairBetterThanCurrent w (h, s) = true →
      AddCase p h s (⟨0, p.capacity, sortDesc (setLast p.sols (h, s))⟩, true)
  | keepWorst (w : Nat × Sol) : 0 < h → h < hOne → p.isCovered = false →
      p.capacity ≤ p.sols.length → p.sols.getLast? = some w →
      isPairBetterThanCurrent w (h, s) = false →
      AddCase p h s (⟨p.counter, p.capacity, sortDesc p.sols⟩, false)

theorem length_setLast {α : Type} (l : List α) (x : α) (h : l ≠ []) : (setLast l x).length = l.length := by
  simp only [setLast, List.length_append, List.length_dropLast, List.length_singleton]
  have : 0 < l.length := List.length_pos_iff.2 h
  omega

theorem mem_setLast {α : Type} {l : List α} {x y : α} (h : y ∈ setLast l x) : y = x ∨ y ∈ l := by
  simp only [setLast, List.mem_append, List.mem_singleton] at h
  rcases h with h | h
  · exact Or.inr (List.dropLast_subset l h)
  · exact Or.inl h

/-- Case analysis of `add_solution` on a population satisfying the invariant. -/
theorem addSolution_cases {p : Pop} (hp : PopInv p) (h : Nat) (s : Sol) {r : Pop × Bool}
    (hr : p.addSolution h s = .ok r) : AddCase p h s r := by
  unfold Pop.addSolution at hr
  split at hr
  · cases hr
  split at hr
  · rename_i h0; injection hr with hr; subst hr; exact .rejectZero h0
  split at hr
  · rename_i hc; injection hr with hr; subst hr; exact .rejectCovered hc.1 hc.2
  rename_i hle h0 hnc
  simp only at hr
  split at hr
  · rename_i h1
    split at hr
    · rename_i hcov
      obtain ⟨o, hs, hcap⟩ := (isCovered_iff p).1 hcov
      rw [hs] at hr
      simp only at hr
      split at hr
      · rename_i hb
        rw [finish_ok (by simp [hcap])] at hr
        injection hr with hr; subst hr
        simp only [if_true]
        rw [h1] at hb ⊢
        have : ({ counter := 0, capacity := p.capacity, sols := [(hOne, s)] } : Pop) = ⟨0, 1, [(hOne, s)]⟩ := by
          rw [hcap]
        rw [this]
        exact .replaceBest o rfl hs hcap hb
      · rename_i hb
        rw [finish_ok hp.lenCap] at hr
        injection hr with hr; subst hr
        rw [h1] at hb
        exact .keepBest o h1 hs hcap (by simpa using hb)
    · rename_i hcov
      rw [finish_ok (by simp)] at hr
      injection hr with hr; subst hr
      simp only [if_true, h1]
      exact .firstCover rfl (by simpa using hcov)
  · rename_i h1
    have hlt : h < hOne := by omega
    have hpos : 0 < h := by omega
    have hcov : p.isCovered = false := by
      cases hc : p.isCovered with
      | false => rfl
      | true => exact absurd ⟨hlt, hc⟩ hnc
    split at hr
    · rename_i hlen
      rw [finish_ok (by simp only [length_sortDesc, List.length_append, List.length_singleton]; omega)] at hr
      injection hr with hr; subst hr
      exact .append hpos hlt hcov hlen
    · rename_i hlen
      split at hr
      · cases hr
      · rename_i w hw
        have hne : p.sols ≠ [] := by intro e; simp [e] at hw
        split at hr
        · rename_i hb
          rw [finish_ok (by simp only [length_sortDesc, length_setLast _ _ hne]; exact hp.lenCap)] at hr
          injection hr with hr; subst hr
          exact .replaceWorst w hpos hlt hcov (by omega) hw hb
        · rename_i hb
          rw [finish_ok (by simp only [length_sortDesc]; exact hp.lenCap)] at hr
          injection hr with hr; subst hr
          exact .keepWorst w hpos hlt hcov (by omega) hw (by simpa using hb)

theorem not_covered_no_one {p : Pop} (hp : PopInv p) (hc : p.isCovered = false) :
    ∀ x ∈ p.sols, x.1 ≠ hOne := by
  intro x hx e
  have := hp.oneCov ⟨x, hx, e⟩
  simp [hc] at this

theorem addCase_inv {p : Pop} (hp : PopInv p) {h : Nat} {s : Sol} {r : Pop × Bool}
    (hc : AddCase p h s r) : PopInv r.1 := by
  cases hc with
  | rejectZero => exact hp
  | rejectCovered => exact hp
  | replaceBest => exact popInv_single 0 s
  | keepBest => exact hp
  | firstCover => exact popInv_single 0 s
  | append hpos hlt hcov hlen =>
    refine ⟨?_, sortDesc_sorted _, ?_, ?_⟩
    · simp only [length_sortDesc, List.length_append, List.length_singleton]; omega
    · intro x hx
      rcases List.mem_append.1 (mem_sortDesc.1 hx) with hx | hx
      · exact hp.hRange x hx
      · simp at hx; subst hx; exact ⟨hpos, by simp only; omega⟩
    · rintro ⟨x, hx, he⟩
      rcases List.mem_append.1 (mem_sortDesc.1 hx) with hx | hx
      · exact absurd he (not_covered_no_one hp hcov x hx)
      · simp at hx; subst hx; simp only at he; omega
  | replaceWorst w hpos hlt hcov hlen hw hb =>
    have hne : p.sols ≠ [] := by intro e; simp [e] at hw
    refine ⟨?_, sortDesc_sorted _, ?_, ?_⟩
    · simp only [length_sortDesc, length_setLast _ _ hne]; exact hp.lenCap
    · intro x hx
      rcases mem_setLast (mem_sortDesc.1 hx) with hx | hx
      · subst hx; exact ⟨hpos, by simp only; omega⟩
      · exact hp.hRange x hx
    · rintro ⟨x, hx, he⟩
      rcases mem_setLast (mem_sortDesc.1 hx) with hx | hx
      · subst hx; simp only at he; omega
      · exact absurd he (not_covered_no_one hp hcov x hx)
  | keepWorst w hpos hlt hcov hlen hw hb =>
    rw [show (⟨p.counter, p.capacity, sortDesc p.sols⟩ : Pop) = p by
      rw [sortDesc_of_sorted hp.sorted]]
    exact hp

theorem addSolution_inv {p : Pop} (hp : PopInv p) (h : Nat) (s : Sol) {r : Pop × Bool}
    (hr : p.addSolution h s = .ok r) : PopInv r.1 :=
  addCase_inv hp (addSolution_cases hp h s hr)

theorem shrink_inv {p : Pop} (hp : PopInv p) (n : Nat) {r : Pop} (hr : p.shrink n = .ok r) :
    PopInv r := by
  unfold Pop.shrink at hr
  split at hr
  · cases hr
  split at hr
  · injection hr with hr; subst hr; exact hp
  · rename_i hn hc
    injection hr with hr; subst hr
    have hcov : p.isCovered = false := by simpa using hc
    refine ⟨?_, ?_, ?_, ?_⟩
    · simp only [List.length_take]; omega
    · exact hp.sorted.sublist (List.take_sublist _ _)
    · intro x hx; exact hp.hRange x (List.mem_of_mem_take hx)
    · rintro ⟨x, hx, he⟩
      exact absurd he (not_covered_no_one hp hcov x (List.mem_of_mem_take hx))

theorem step_popInv {p : Pop} (hp : PopInv p) (op : POp) : PopInv (p.step op) := by
  cases op with
  | add h s =>
    simp only [Pop.step]
    split
    · rename_i r hr; exact addSolution_inv hp h s hr
    · exact hp
  | shrink n =>
    simp only [Pop.step]
    split
    · rename_i r hr; exact shrink_inv hp n hr
    · exact hp
  | sample r =>
    simp only [Pop.step, Pop.sample]
    split
    · exact hp
    · exact popInv_counter hp _

theorem run_popInv {p : Pop} (hp : PopInv p) (ops : List POp) : PopInv (p.run ops) := by
  unfold Pop.run
  induction ops generalizing p with
  | nil => exact hp
  | cons op ops ih => exact ih (step_popInv hp op)

/-! ### further population facts -/

theorem popInv_of_covered {p : Pop} (h : p.isCovered = true) : PopInv p := by
  obtain ⟨s, hs, hc⟩ := (isCovered_iff p).1 h
  exact ⟨by simp [hs, hc], by simp [hs], by simp [hs, hOne], fun _ => h⟩

theorem mioIsBetter_strict_iff (o s : Sol) :
    mioIsBetterThanCurrent true o s = true ↔ (o.erroneous = true ∧ s.clean = true) ∨ s.size < o.size := by
  unfold mioIsBetterThanCurrent
  cases ho : o.erroneous <;> cases hs : s.clean <;> simp

theorem isPairBetter_one_iff (o s : Sol) :
    isPairBetterThanCurrent (hOne, o) (hOne, s) = true ↔
      (o.erroneous = true ∧ s.clean = true) ∨ s.size < o.size := by
  simp [isPairBetterThanCurrent, mioIsBetter_strict_iff]

theorem addSolution_ok {p : Pop} (hp : PopInv p) {h : Nat} (hh : h ≤ hOne) (s : Sol)
    (hcap : h = hOne ∨ 1 ≤ p.capacity) : ∃ r, p.addSolution h s = .ok r := by
  unfold Pop.addSolution
  split
  · omega
  split
  · exact ⟨_, rfl⟩
  split
  · exact ⟨_, rfl⟩
  simp only
  split
  · split
    · rename_i hcov
      obtain ⟨o, hs, hc⟩ := (isCovered_iff p).1 hcov
      rw [hs]
      simp only
      split
      · exact ⟨_, finish_ok (by simp [hc]) _⟩
      · exact ⟨_, finish_ok (by simpa [hs] using hp.lenCap) _⟩
    · exact ⟨_, finish_ok (by simp) _⟩
  · rename_i h1
    split
    · rename_i hlen
      exact ⟨_, finish_ok (by simp only [length_sortDesc, List.length_append, List.length_singleton]; omega) _⟩
    · rename_i hlen
      split
      · rename_i hw
        have : p.sols = [] := by simpa using hw
        rw [this] at hlen
        simp at hlen
        omega
      · rename_i w hw
        have hne : p.sols ≠ [] := by intro e; simp [e] at hw
        split
        · exact ⟨_, finish_ok (by simp only [length_sortDesc, length_setLast _ _ hne]; exact hp.lenCap) _⟩
        · exact ⟨_, finish_ok (by simp only [length_sortDesc]; exact hp.lenCap) _⟩

theorem step_add_eq {p : Pop} {h : Nat} {s : Sol} {r : Pop × Bool} (hr : p.addSolution h s = .ok r) :
    p.step (.add h s) = r.1 := by simp [Pop.step, hr]

theorem step_covered {p : Pop} (hc : p.isCovered = true) (op : POp) : (p.step op).isCovered = true := by
  have hp := popInv_of_covered hc
  cases op with
  | add h s =>
    simp only [Pop.step]
    split
    · rename_i r hr
      have hcase := addSolution_cases hp h s hr
      cases hcase with
      | rejectZero => exact hc
      | rejectCovered => exact hc
      | replaceBest => exact (isCovered_iff _).2 ⟨s, rfl, rfl⟩
      | keepBest => exact hc
      | firstCover _ hn => simp [hc] at hn
      | append _ _ hn => simp [hc] at hn
      | replaceWorst _ _ _ hn => simp [hc] at hn
      | keepWorst _ _ _ hn => simp [hc] at hn
    · exact hc
  | shrink n =>
    simp only [Pop.step, Pop.shrink]
    split
    · rename_i r hr
      split at hr
      · cases hr
      · injection hr with hr; subst hr; exact hc
    · exact hc
  | sample r =>
    simp only [Pop.step, Pop.sample]
    split
    · exact hc
    · exact hc

theorem run_covered {p : Pop} (hc : p.isCovered = true) (ops : List POp) : (p.run ops).isCovered = true := by
  unfold Pop.run
  induction ops generalizing p with
  | nil => exact hc
  | cons op ops ih => exact ih (step_covered hc op)

theorem step_add_one_covered {p : Pop} (hp : PopInv p) (s : Sol) :
    (p.step (.add hOne s)).isCovered = true := by
  obtain ⟨r, hr⟩ := addSolution_ok hp (Nat.le_refl _) s (Or.inl rfl)
  rw [step_add_eq hr]
  have hcase := addSolution_cases hp hOne s hr
  cases hcase with
  | rejectZero h0 => simp [hOne] at h0
  | rejectCovered hlt => omega
  | replaceBest => exact (isCovered_iff _).2 ⟨s, rfl, rfl⟩
  | keepBest o _ hs hcap => exact (isCovered_iff _).2 ⟨o, hs, hcap⟩
  | firstCover => exact (isCovered_iff _).2 ⟨s, rfl, rfl⟩
  | append _ hlt => omega
  | replaceWorst _ _ hlt => omega
  | keepWorst _ _ hlt => omega

theorem run_append (p : Pop) (a b : List POp) : p.run (a ++ b) = (p.run a).run b := by
  simp [Pop.run, List.foldl_append]

/-! ### MIOArchive histories are per-target population histories -/

theorem updTargets_lookup (sol : Sol) (pops : List (Goal × Pop)) (hs : List Nat) {g : Goal} {p : Pop}
    (h : lookup pops g = some p) :
    ∃ ops, lookup (updTargets sol pops hs).pops g = some (p.run ops) := by
  induction pops generalizing hs with
  | nil => simp [lookup] at h
  | cons gp rest ih =>
    obtain ⟨k, p0⟩ := gp
    cases hs with
    | nil => exact ⟨[], by simpa [updTargets, Pop.run] using h⟩
    | cons h0 hs =>
      simp only [updTargets]
      split
      · exact ⟨[], by simpa [Pop.run] using h⟩
      · rename_i p' added hr
        by_cases hk : k = g
        · simp only [lookup, hk, if_true] at h ⊢
          injection h with h; subst h
          exact ⟨[.add h0 sol], by simp [Pop.run, step_add_eq hr]⟩
        · simp only [lookup, hk, if_false] at h ⊢
          exact ih hs h

theorem updTargets_keys (sol : Sol) (pops : List (Goal × Pop)) (hs : List Nat) :
    keys (updTargets sol pops hs).pops = keys pops := by
  induction pops generalizing hs with
  | nil => simp [updTargets]
  | cons gp rest ih =>
    obtain ⟨k, p0⟩ := gp
    cases hs with
    | nil => simp [updTargets]
    | cons h0 hs =>
      simp only [updTargets]
      split
      · rfl
      · simp only [keys, List.map_cons] at ih ⊢; rw [ih]

theorem updInput_lookup (st : MRes) (i : MInput) {g : Goal} {p : Pop}
    (h : lookup st.m.pops g = some p) :
    ∃ ops, lookup (updInput st i).m.pops g = some (p.run ops) := by
  unfold updInput
  split
  · exact ⟨[], h⟩
  · split
    · exact ⟨[], h⟩
    · split
      · exact ⟨[], h⟩
      · rename_i sol _
        exact updTargets_lookup sol st.m.pops i.hs h

theorem updInput_keys (st : MRes) (i : MInput) : keys (updInput st i).m.pops = keys st.m.pops := by
  unfold updInput
  split
  · rfl
  · split
    · rfl
    · split
      · rfl
      · exact updTargets_keys _ _ _

theorem foldl_updInput_lookup (inps : List MInput) (st : MRes) {g : Goal} {p : Pop}
    (h : lookup st.m.pops g = some p) :
    ∃ ops, lookup (inps.foldl updInput st).m.pops g = some (p.run ops) := by
  induction inps generalizing st p with
  | nil => exact ⟨[], h⟩
  | cons i inps ih =>
    obtain ⟨ops1, h1⟩ := updInput_lookup st i h
    obtain ⟨ops2, h2⟩ := ih (updInput st i) h1
    exact ⟨ops1 ++ ops2, by rw [run_append]; exact h2⟩

theorem foldl_updInput_keys (inps : List MInput) (st : MRes) :
    keys (inps.foldl updInput st).m.pops = keys st.m.pops := by
  induction inps generalizing st with
  | nil => rfl
  | cons i inps ih => simp only [List.foldl_cons]; rw [ih, updInput_keys]

theorem shrinkAll_lookup (pops : List (Goal × Pop)) (n : Nat) {g : Goal} {p : Pop}
    (h : lookup pops g = some p) : lookup (shrinkAll pops n) g = some (p.run [.shrink n]) := by
  induction pops with
  | nil => simp [lookup] at h
  | cons gp rest ih =>
    obtain ⟨k, p0⟩ := gp
    by_cases hk : k = g
    · simp only [lookup, hk, if_true, shrinkAll] at h ⊢
      injection h with h; subst h; rfl
    · simp only [lookup, hk, if_false, shrinkAll] at h ⊢
      exact ih h

theorem shrinkAll_keys (pops : List (Goal × Pop)) (n : Nat) : keys (shrinkAll pops n) = keys pops := by
  induction pops with
  | nil => rfl
  | cons gp rest ih =>
    obtain ⟨k, p0⟩ := gp
    simp only [shrinkAll, keys, List.map_cons] at ih ⊢; rw [ih]

theorem mstep_lookup (m : MArchive) (op : MOp) {g : Goal} {p : Pop} (h : lookup m.pops g = some p) :
    ∃ ops, lookup (m.step op).pops g = some (p.run ops) := by
  cases op with
  | update inps => exact foldl_updInput_lookup inps ⟨m, false, none⟩ h
  | shrink n =>
    simp only [MArchive.step, MArchive.shrink]
    split
    · rename_i r hr
      split at hr
      · cases hr
      · injection hr with hr; subst hr
        exact ⟨[.shrink n], shrinkAll_lookup m.pops n h⟩
    · exact ⟨[], h⟩

theorem mstep_keys (m : MArchive) (op : MOp) : keys (m.step op).pops = keys m.pops := by
  cases op with
  | update inps => exact foldl_updInput_keys inps ⟨m, false, none⟩
  | shrink n =>
    simp only [MArchive.step, MArchive.shrink]
    split
    · rename_i r hr
      split at hr
      · cases hr
      · injection hr with hr; subst hr; exact shrinkAll_keys _ _
    · rfl

theorem mrun_lookup (m : MArchive) (ops : List MOp) {g : Goal} {p : Pop} (h : lookup m.pops g = some p) :
    ∃ pops, lookup (m.run ops).pops g = some (p.run pops) := by
  unfold MArchive.run
  induction ops generalizing m p with
  | nil => exact ⟨[], h⟩
  | cons op ops ih =>
    obtain ⟨o1, h1⟩ := mstep_lookup m op h
    obtain ⟨o2, h2⟩ := ih (m.step op) h1
    exact ⟨o1 ++ o2, by rw [run_append]; exact h2⟩

theorem mrun_keys (m : MArchive) (ops : List MOp) : keys (m.run ops).pops = keys m.pops := by
  unfold MArchive.run
  induction ops generalizing m with
  | nil => rfl
  | cons op ops ih => simp only [List.foldl_cons]; rw [ih, mstep_keys]

theorem minit_values (ts : List Goal) (n : Nat) : ∀ gp ∈ (MArchive.init ts n).pops, gp.2 = Pop.init n := by
  unfold MArchive.init
  simp only
  have : ∀ (ts : List Goal) (d : List (Goal × Pop)), (∀ gp ∈ d, gp.2 = Pop.init n) →
      ∀ gp ∈ ts.foldl (fun d g => dictSet d g (Pop.init n)) d, gp.2 = Pop.init n := by
    intro ts
    induction ts with
    | nil => intro d h; exact h
    | cons t ts ih =>
      intro d h
      apply ih
      intro gp hgp
      rcases mem_dictSet hgp with e | e
      · rw [e]
      · exact h gp e
  exact this ts [] (by simp)

theorem minit_keys (ts : List Goal) (n : Nat) (g : Goal) : g ∈ keys (MArchive.init ts n).pops ↔ g ∈ ts := by
  unfold MArchive.init
  simp only
  have : ∀ (ts : List Goal) (d : List (Goal × Pop)),
      g ∈ keys (ts.foldl (fun d g => dictSet d g (Pop.init n)) d) ↔ g ∈ keys d ∨ g ∈ ts := by
    intro ts
    induction ts with
    | nil => intro d; simp
    | cons t ts ih =>
      intro d
      simp only [List.foldl_cons, ih, keys_dictSet, List.mem_cons]
      by_cases ht : t ∈ keys d
      · simp only [ht, if_true]
        constructor
        · rintro (h | h); exact Or.inl h; exact Or.inr (Or.inr h)
        · rintro (h | h | h)
          · exact Or.inl h
          · exact Or.inl (h ▸ ht)
          · exact Or.inr h
      · simp only [ht, if_false, List.mem_append, List.mem_singleton]
        constructor
        · rintro ((h | h) | h)
          · exact Or.inl h
          · exact Or.inr (Or.inl h)
          · exact Or.inr (Or.inr h)
        · rintro (h | h | h)
          · exact Or.inl (Or.inl h)
          · exact Or.inl (Or.inr h)
          · exact Or.inr h
  simpa [keys] using this ts []

end PynguinModel.Archive
