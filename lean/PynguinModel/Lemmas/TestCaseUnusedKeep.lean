import PynguinModel.Lemmas.TestCase
/-!
C15 helper lemmas: `remove_unused_variables` with the C19 repair (`ruKeep`) keeps a test case well-formed.
-/
namespace PynguinModel.TestCase

theorem boundNames_ruKeep_sublist (l : List Stmt) : (boundNames (ruKeep l).2).Sublist (boundNames l) := by
  induction l with
  | nil => simp [ruKeep]
  | cons s rest ih =>
    simp only [ruKeep]
    cases hb : s.bound with
    | none =>
      simp only [boundNames_cons, hb]
      exact List.Sublist.append_left ih _
    | some bv =>
      simp only
      split
      · simp only [boundNames_cons, hb]
        exact List.Sublist.append_left ih _
      · split
        · simp only [boundNames_cons, hb, Stmt.unboundKeep, Option.toList_none, List.nil_append]
          exact ih.trans (List.sublist_append_right _ _)
        · simp only [boundNames_cons, hb]
          exact List.Sublist.append_left ih _

theorem readsOK_ruKeep {l : List Stmt} {bs bs' : List Name} (h : readsOK bs l)
    (hb : ∀ v ∈ bs, v ∈ bs' ∨ v ∉ (ruKeep l).1) : readsOK bs' (ruKeep l).2 := by
  induction l generalizing bs bs' with
  | nil => simp [ruKeep, readsOK]
  | cons s rest ih =>
    obtain ⟨h1, h2⟩ := h
    simp only [ruKeep] at hb ⊢
    have hsub : ∀ x, x ∈ (ruKeep rest).1 → x ∈ (ruKeep rest).1 ++ s.asserts :=
      fun x hx => List.mem_append.2 (Or.inl hx)
    cases hbd : s.bound with
    | none =>
      simp only [hbd] at hb h2 ⊢
      refine ⟨?_, ih h2 ?_⟩
      · intro u hu hv
        rcases hb u (h1 u hu hv) with h | h
        · exact h
        · exact absurd (List.mem_append.2 (Or.inr hu)) h
      · intro v hv
        simp only [hbd, Option.toList_none, List.append_nil] at hv ⊢
        rcases hb v hv with h | h
        · exact Or.inl h
        · exact Or.inr (fun hm => h (List.mem_append.2 (Or.inl (hsub v hm))))
    | some bv =>
      simp only [hbd] at hb h2 ⊢
      by_cases hal : bv ∈ (ruKeep rest).1 ++ s.asserts
      · simp only [hal, if_true] at hb ⊢
        refine ⟨?_, ih h2 ?_⟩
        · intro u hu hv
          rcases hb u (h1 u hu hv) with h | h
          · exact h
          · exact absurd (List.mem_append.2 (Or.inr hu)) h
        · intro v hv
          simp only [hbd, Option.toList_some] at hv ⊢
          rcases List.mem_append.1 hv with hv | hv
          · rcases hb v hv with h | h
            · exact Or.inl (List.mem_append.2 (Or.inl h))
            · by_cases hvb : v = bv
              · exact Or.inl (List.mem_append.2 (Or.inr (by simp [hvb])))
              · refine Or.inr (fun hm => h (List.mem_append.2 (Or.inl ?_)))
                exact List.mem_filter.2 ⟨hsub v hm, by simpa using hvb⟩
          · exact Or.inl (List.mem_append.2 (Or.inr hv))
      · simp only [hal, if_false] at hb ⊢
        by_cases hsa : s.simpleAssign = true
        · simp only [hsa, if_true]
          refine ⟨?_, ih h2 ?_⟩
          · intro u hu hv
            simp only [Stmt.unboundKeep] at hu
            rcases hb u (h1 u hu hv) with h | h
            · exact h
            · exact absurd (List.mem_append.2 (Or.inr hu)) h
          · intro v hv
            simp only [Stmt.unboundKeep, Option.toList_none, List.append_nil]
            rcases List.mem_append.1 hv with hv | hv
            · rcases hb v hv with h | h
              · exact Or.inl h
              · exact Or.inr (fun hm => h (List.mem_append.2 (Or.inl (hsub v hm))))
            · simp at hv
              subst hv
              exact Or.inr (fun hm => hal (hsub v hm))
        · simp only [hsa, Bool.false_eq_true, if_false]
          refine ⟨?_, ih h2 ?_⟩
          · intro u hu hv
            rcases hb u (h1 u hu hv) with h | h
            · exact h
            · exact absurd (List.mem_append.2 (Or.inr hu)) h
          · intro v hv
            simp only [hbd, Option.toList_some] at hv ⊢
            rcases List.mem_append.1 hv with hv | hv
            · rcases hb v hv with h | h
              · exact Or.inl (List.mem_append.2 (Or.inl h))
              · exact Or.inr (fun hm => h (List.mem_append.2 (Or.inl (hsub v hm))))
            · exact Or.inl (List.mem_append.2 (Or.inr hv))

theorem WF.removeUnusedV {tc : TC} (h : WF tc) (keep : Bool) : WF (tc.removeUnusedV keep) := by
  unfold TC.removeUnusedV
  split
  · have hsub := boundNames_ruKeep_sublist tc.stmts
    exact WF.withStmts (readsOK_ruKeep h.reads (by simp)) (h.nodup.sublist hsub)
      (fun v hv => h.fresh v (hsub.subset hv))
  · exact h.removeUnused

end PynguinModel.TestCase
