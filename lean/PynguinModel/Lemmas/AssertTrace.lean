import PynguinModel.Model.AssertTrace
import PynguinModel.Lemmas.AssertRender
/-!
Helper lemmas for the observer-path part of C20: every assertion `_handle` records is a
`_check_value` assertion on one reference path of the snapshot (`mem_handle`); traces of a longer run
extend traces of a shorter one (`traceFrom_append`); deep copies do not see later heaps.
-/
namespace PynguinModel.AssertRender
open PynguinModel.Literals

/-! ## Association lists -/

theorem lookup_of_mem_nodup {α : Type} : ∀ (xs : List (String × α)) (k : String) (v : α),
    (xs.map Prod.fst).Nodup → (k, v) ∈ xs → lookup k xs = some v
  | [], _, _, _, h => by simp at h
  | (k', v') :: r, k, v, hnd, hmem => by
      simp only [List.map_cons, List.nodup_cons] at hnd
      simp only [List.mem_cons, Prod.mk.injEq] at hmem
      unfold lookup
      rcases hmem with ⟨hk, hv⟩ | hmem
      · simp [hk, hv]
      · have hne : k ≠ k' := by
          intro h
          apply hnd.1
          rw [← h]
          exact List.mem_map.2 ⟨(k, v), hmem, rfl⟩
        simp only [hne, if_false]
        exact lookup_of_mem_nodup r k v hnd.2 hmem

theorem mem_of_lookup {α : Type} : ∀ (xs : List (String × α)) (k : String) (v : α),
    lookup k xs = some v → (k, v) ∈ xs
  | [], _, _, h => by simp [lookup] at h
  | (k', v') :: r, k, v, h => by
      unfold lookup at h
      split at h
      · rename_i hk
        simp only [Option.some.injEq] at h
        simp [hk, h]
      · exact List.mem_cons_of_mem _ (mem_of_lookup r k v h)

theorem mem_of_lookupType {α : Type} : ∀ (xs : List (TypeId × α)) (t : TypeId) (v : α),
    lookupType t xs = some v → (t, v) ∈ xs
  | [], _, _, h => by simp [lookupType] at h
  | (t', v') :: r, t, v, h => by
      unfold lookupType at h
      split at h
      · rename_i ht
        simp only [Option.some.injEq] at h
        simp [ht, h]
      · exact List.mem_cons_of_mem _ (mem_of_lookupType r t v h)

/-! ## Every recorded assertion is a `_check_value` assertion on a path of the snapshot -/

/-- `a` is one of the assertions `_check_value` makes on some path of `paths`. -/
def FromPaths (te : TypeEnv) (paths : List (String × AVal)) (a : Assertion) : Prop :=
  ∃ p, p ∈ paths ∧ a ∈ checkValue te p.1 p.2

theorem FromPaths.mono {te : TypeEnv} {ps qs : List (String × AVal)} {a : Assertion}
    (h : FromPaths te ps a) (hsub : ∀ p, p ∈ ps → p ∈ qs) : FromPaths te qs a := by
  obtain ⟨p, hp, ha⟩ := h
  exact ⟨p, hsub p hp, ha⟩

theorem checkValue_obj (te : TypeEnv) (src : String) (ty : TypeId) (len : Option Nat) :
    checkValue te src (.obj ty len) = checkTypeAndLen te src (.obj ty len) := by
  simp [checkValue, isAssertable]

theorem mem_checkFields (te : TypeEnv) (src : String) : ∀ (fs : List (String × AVal)) (a : Assertion),
    a ∈ checkFields te src fs → FromPaths te (fs.map (fun p => (src ++ "." ++ p.1, p.2))) a
  | [], a, h => by simp [checkFields] at h
  | (f, v) :: r, a, h => by
      simp only [checkFields, List.mem_append] at h
      rcases h with h | h
      · exact ⟨(src ++ "." ++ f, v), by simp, h⟩
      · exact (mem_checkFields te src r a h).mono (fun p hp => by simp [hp])

theorem mem_checkRef (te : TypeEnv) (src : String) (nv : NVal) (a : Assertion)
    (h : a ∈ checkRef te src nv) : FromPaths te (flatNVal src nv) a := by
  cases nv with
  | plain v => exact ⟨(src, v), by simp [flatNVal], by simpa [checkRef] using h⟩
  | inst ty len fs =>
    simp only [checkRef, List.mem_append] at h
    rcases h with h | h
    · exact ⟨(src, .obj ty len), by simp [flatNVal], by rw [checkValue_obj]; exact h⟩
    · cases len with
      | some n => simp at h
      | none =>
        exact (mem_checkFields te src fs a h).mono (fun p hp => by simp [flatNVal, hp])

theorem mem_checkRefs (te : TypeEnv) (pfx : String) : ∀ (fs : List (String × NVal)) (a : Assertion),
    a ∈ checkRefs te pfx fs → FromPaths te (flatRefs pfx fs) a
  | [], a, h => by simp [checkRefs] at h
  | (f, nv) :: r, a, h => by
      simp only [checkRefs, List.mem_append] at h
      rcases h with h | h
      · exact (mem_checkRef te (pfx ++ f) nv a h).mono (fun p hp => by simp [flatRefs, hp])
      · exact (mem_checkRefs te pfx r a h).mono (fun p hp => by simp [flatRefs, hp])

theorem flatNVal_sub_flatRefs (pfx : String) : ∀ (fs : List (String × NVal)) (f : String) (nv : NVal),
    (f, nv) ∈ fs → ∀ p, p ∈ flatNVal (pfx ++ f) nv → p ∈ flatRefs pfx fs
  | [], _, _, h, _, _ => by simp at h
  | (f', nv') :: r, f, nv, h, p, hp => by
      simp only [List.mem_cons, Prod.mk.injEq] at h
      simp only [flatRefs, List.mem_append]
      rcases h with ⟨hf, hn⟩ | h
      · left; rw [← hf, ← hn]; exact hp
      · right; exact flatNVal_sub_flatRefs pfx r f nv h p hp

theorem mem_checkVar (te : TypeEnv) (vars : List (String × NVal)) (x : String) (a : Assertion)
    (h : a ∈ checkVar te vars x) : FromPaths te (flatRefs "" vars) a := by
  unfold checkVar at h
  split at h
  · rename_i nv hl
    have hm := mem_of_lookup vars x nv hl
    refine (mem_checkRef te x nv a h).mono (fun p hp => ?_)
    have := flatNVal_sub_flatRefs "" vars x nv hm p (by simpa using hp)
    exact this
  · simp at h

theorem mem_checkVars (te : TypeEnv) (vars : List (String × NVal)) : ∀ (w : List String) (a : Assertion),
    a ∈ checkVars te vars w → FromPaths te (flatRefs "" vars) a
  | [], a, h => by simp [checkVars] at h
  | x :: r, a, h => by
      simp only [checkVars, List.mem_append] at h
      rcases h with h | h
      · exact mem_checkVar te vars x a h
      · exact mem_checkVars te vars r a h

theorem flatRefs_sub_flatClasses (alias : String) : ∀ (cs : List (TypeId × List (String × NVal)))
    (t : TypeId) (fs : List (String × NVal)), (t, fs) ∈ cs →
    ∀ p, p ∈ flatRefs (classSource alias t ++ ".") fs → p ∈ flatClasses alias cs
  | [], _, _, h, _, _ => by simp at h
  | (t', fs') :: r, t, fs, h, p, hp => by
      simp only [List.mem_cons, Prod.mk.injEq] at h
      simp only [flatClasses, List.mem_append]
      rcases h with ⟨ht, hf⟩ | h
      · left; rw [← ht, ← hf]; exact hp
      · right; exact flatRefs_sub_flatClasses alias r t fs h p hp

theorem mem_staticOf (te : TypeEnv) (alias : String) (s : Snapshot) : ∀ (ts : List TypeId) (a : Assertion),
    a ∈ staticOf te alias s ts → FromPaths te (flatClasses alias s.classFields) a
  | [], a, h => by simp [staticOf] at h
  | t :: r, a, h => by
      simp only [staticOf, List.mem_append] at h
      rcases h with h | h
      · split at h
        · split at h
          · rename_i fs hl
            have hm := mem_of_lookupType s.classFields t fs hl
            exact (mem_checkRefs te _ fs a h).mono (flatRefs_sub_flatClasses alias s.classFields t fs hm)
          · simp at h
        · simp at h
      · exact mem_staticOf te alias s r a h

theorem mem_boundAssertions (te : TypeEnv) (s : Snapshot) (a : Assertion)
    (h : a ∈ boundAssertions te s) : FromPaths te (flatRefs "" s.vars) a := by
  unfold boundAssertions at h
  split at h
  · rename_i nv hl
    split at h
    · have hm := mem_of_lookup s.vars s.bound nv hl
      refine (mem_checkRef te s.bound nv a h).mono (fun p hp => ?_)
      exact flatNVal_sub_flatRefs "" s.vars s.bound nv hm p (by simpa using hp)
    · simp at h
  · simp at h

/-- Whatever the watch list is: each assertion `_handle` records for a position is one `_check_value`
makes on a reference path of *that* position's snapshot. -/
theorem mem_handle (te : TypeEnv) (alias : String) (w : List String) (s : Snapshot) (a : Assertion)
    (h : a ∈ (handle te alias w s).2) : FromPaths te (s.flat alias) a := by
  simp only [handle, staticAssertions, List.mem_append] at h
  rcases h with ((h | h) | h) | h
  · exact (mem_boundAssertions te s a h).mono (fun p hp => by simp [SnapshotOf.flat, hp])
  · exact (mem_checkVars te s.vars _ a h).mono (fun p hp => by simp [SnapshotOf.flat, hp])
  · exact (mem_checkRefs te _ s.modFields a h).mono (fun p hp => by simp [SnapshotOf.flat, hp])
  · exact (mem_staticOf te alias s _ a h).mono (fun p hp => by simp [SnapshotOf.flat, hp])

/-! ## Traces of longer runs -/

theorem watchAfter_append : ∀ (w : List String) (ss later : List Snapshot),
    watchAfter w (ss ++ later) = watchAfter (watchAfter w ss) later
  | _, [], _ => rfl
  | w, s :: r, later => by simp [watchAfter, watchAfter_append (nextWatch w s) r later]

theorem traceFrom_append (te : TypeEnv) (alias : String) : ∀ (w : List String) (ss later : List Snapshot),
    traceFrom te alias w (ss ++ later) =
      traceFrom te alias w ss ++ traceFrom te alias (watchAfter w ss) later
  | _, [], _ => rfl
  | w, s :: r, later => by
      simp [traceFrom, watchAfter, traceFrom_append te alias (nextWatch w s) r later]

theorem traceFrom_length (te : TypeEnv) (alias : String) : ∀ (w : List String) (ss : List Snapshot),
    (traceFrom te alias w ss).length = ss.length
  | _, [] => rfl
  | w, s :: r => by simp [traceFrom, traceFrom_length te alias (nextWatch w s) r]

theorem allSome_append {α : Type} : ∀ (xs ys : List (Option α)) (r : List α),
    allSome (xs ++ ys) = some r → ∃ a b, allSome xs = some a ∧ allSome ys = some b ∧ r = a ++ b
  | [], ys, r, h => ⟨[], r, rfl, by simpa using h, rfl⟩
  | none :: xs, ys, r, h => by simp [allSome] at h
  | some x :: xs, ys, r, h => by
      simp only [List.cons_append, allSome, Option.map_eq_some_iff] at h
      obtain ⟨r', hr', hr⟩ := h
      obtain ⟨a, b, ha, hb, hab⟩ := allSome_append xs ys r' hr'
      exact ⟨x :: a, b, by simp [allSome, ha], hb, by simp [← hr, hab]⟩

theorem allSome_length {α : Type} : ∀ (xs : List (Option α)) (r : List α),
    allSome xs = some r → r.length = xs.length
  | [], r, h => by simp [allSome] at h; simp [← h]
  | none :: xs, r, h => by simp [allSome] at h
  | some x :: xs, r, h => by
      simp only [allSome, Option.map_eq_some_iff] at h
      obtain ⟨r', hr', hr⟩ := h
      simp [← hr, allSome_length xs r' hr']

/-! ## Copies of containers -/

theorem reify_imm (h : Heap) (n : Nat) (v : AVal) : reify h n (.imm v) = some v := by
  cases n <;> rfl

def Cell.items : Cell → List Item
  | .list xs | .tuple xs | .set xs => xs
  | .dict kvs => kvs.flatMap (fun p => [p.1, p.2])

theorem map_congr_mem {α β : Type} (f g : α → β) : ∀ (xs : List α), (∀ x, x ∈ xs → f x = g x) →
    xs.map f = xs.map g
  | [], _ => rfl
  | x :: r, h => by
      simp only [List.map_cons]
      rw [h x (by simp), map_congr_mem f g r (fun y hy => h y (by simp [hy]))]

theorem reifyCell_congr (f g : Item → Option AVal) (c : Cell) (h : ∀ it, it ∈ c.items → f it = g it) :
    reifyCell f c = reifyCell g c := by
  cases c with
  | list xs => simp only [reifyCell]; rw [map_congr_mem f g xs (by simpa [Cell.items] using h)]
  | tuple xs => simp only [reifyCell]; rw [map_congr_mem f g xs (by simpa [Cell.items] using h)]
  | set xs => simp only [reifyCell]; rw [map_congr_mem f g xs (by simpa [Cell.items] using h)]
  | dict kvs =>
    simp only [reifyCell]
    rw [map_congr_mem (reifyPair f) (reifyPair g) kvs]
    intro p hp
    have h1 : f p.1 = g p.1 := h p.1 (by
      simp only [Cell.items, List.mem_flatMap]; exact ⟨p, hp, by simp⟩)
    have h2 : f p.2 = g p.2 := h p.2 (by
      simp only [Cell.items, List.mem_flatMap]; exact ⟨p, hp, by simp⟩)
    simp [reifyPair, h1, h2]

end PynguinModel.AssertRender
