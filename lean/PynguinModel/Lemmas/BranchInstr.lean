import PynguinModel.Model.BranchInstr
/-!
Helper lemmas for C03 (Mathlib-free): list insertion, the original-instruction index view, the
insertion-ordered dicts of the trace, Python's `min` on distances, and the invariants of the
transformer loop.
-/
namespace PynguinModel.BranchInstr
open PynguinModel.Distances (CmpOp Num)

set_option linter.unusedSimpArgs false

/-! ### `insertAt` -/

theorem insertAt_length (es : List Entry) (i : Nat) (e : Entry) :
    (insertAt es i e).length = es.length + 1 := by
  simp [insertAt]; omega

theorem insertAt_get_self (es : List Entry) (i : Nat) (e : Entry) (h : i ≤ es.length) :
    (insertAt es i e)[i]? = some e := by
  unfold insertAt
  rw [List.getElem?_append_right (by simp [List.length_take]; omega)]
  simp [List.length_take, Nat.min_eq_left h]

theorem insertAt_get_succ (es : List Entry) (i : Nat) (e : Entry) (h : i ≤ es.length) :
    (insertAt es i e)[i + 1]? = es[i]? := by
  unfold insertAt
  rw [List.getElem?_append_right (by simp [List.length_take]; omega)]
  simp [List.length_take, Nat.min_eq_left h]

/-! ### original instructions -/

theorem origsFrom_mem {es : List Entry} {off k : Nat} {c : Ins} (h : (k, c) ∈ origsFrom off es) :
    off ≤ k ∧ es[k - off]? = some (.orig c) := by
  induction es generalizing off with
  | nil => simp [origsFrom] at h
  | cons e es ih =>
    cases e with
    | orig i =>
      simp only [origsFrom, List.mem_cons] at h
      rcases h with h | h
      · cases h; simp
      · obtain ⟨h1, h2⟩ := ih h
        refine ⟨by omega, ?_⟩
        have : k - off = (k - (off + 1)) + 1 := by omega
        rw [this]; simpa using h2
    | pseudo _ =>
      simp only [origsFrom] at h
      obtain ⟨h1, h2⟩ := ih h
      refine ⟨by omega, ?_⟩
      have : k - off = (k - (off + 1)) + 1 := by omega
      rw [this]; simpa using h2
    | art _ =>
      simp only [origsFrom] at h
      obtain ⟨h1, h2⟩ := ih h
      refine ⟨by omega, ?_⟩
      have : k - off = (k - (off + 1)) + 1 := by omega
      rw [this]; simpa using h2

theorem secondLastOrig_get {es : List Entry} {idx : Nat} {c : Ins}
    (h : secondLastOrig es = some (idx, c)) : es[idx]? = some (.orig c) := by
  unfold secondLastOrig at h
  have hm : (idx, c) ∈ (origsFrom 0 es).dropLast := List.mem_of_getLast? h
  have := origsFrom_mem (List.dropLast_subset _ hm)
  simpa using this.2

/-! ### dicts -/

theorem dget_dset_self (d : List (Nat × Num)) (p : Nat) (v : Num) : dget (dset d p v) p = some v := by
  induction d with
  | nil => simp [dset, dget]
  | cons e d ih =>
    obtain ⟨q, w⟩ := e
    by_cases h : (q == p) = true
    · simp [dset, dget, h]
    · simp [dset, dget, h, ih]

theorem dget_dset_ne (d : List (Nat × Num)) (p q : Nat) (v : Num) (hne : q ≠ p) :
    dget (dset d p v) q = dget d q := by
  induction d with
  | nil =>
    have : (p == q) = false := by simpa using Ne.symm hne
    simp [dset, dget, this]
  | cons e d ih =>
    obtain ⟨r, w⟩ := e
    by_cases h : (r == p) = true
    · have hr : r = p := by simpa using h
      have : (p == q) = false := by simpa using Ne.symm hne
      subst hr
      simp [dset, dget, this]
    · by_cases h2 : (r == q) = true
      · simp [dset, dget, h, h2]
      · simp [dset, dget, h, h2, ih]

/-! ### Python's `min` on recorded distances -/

/-- A distance that `_update_metrics` accepts and that is not NaN. -/
def NonNeg (x : Num) : Prop := x.geZero = true ∧ x.isNan = false

theorem nonNeg_pinf : NonNeg .pinf := ⟨by decide, by decide⟩

theorem pyMin_nonNeg {a b : Num} (ha : NonNeg a) (hb : NonNeg b) : NonNeg (pyMin a b) := by
  unfold pyMin; split <;> assumption

theorem pyMin_eqZero {a b : Num} (ha : NonNeg a) (hb : NonNeg b) :
    (pyMin a b).eqZero = (a.eqZero || b.eqZero) := by
  obtain ⟨ha1, ha2⟩ := ha
  obtain ⟨hb1, hb2⟩ := hb
  cases a with
  | nan => simp [Num.isNan] at ha2
  | ninf => simp [Num.geZero, Num.le, Num.lt, Num.eq] at ha1
  | pinf =>
    cases b with
    | nan => simp [Num.isNan] at hb2
    | ninf => simp [Num.geZero, Num.le, Num.lt, Num.eq] at hb1
    | pinf => simp [pyMin, Num.lt, Num.eqZero, Num.eq]
    | fin y => simp [pyMin, Num.lt, Num.eqZero, Num.eq]
  | fin x =>
    cases b with
    | nan => simp [Num.isNan] at hb2
    | ninf => simp [Num.geZero, Num.le, Num.lt, Num.eq] at hb1
    | pinf => simp [pyMin, Num.lt, Num.eqZero, Num.eq]
    | fin y =>
      simp only [Num.geZero, Num.le, Num.lt, Num.eq, Bool.or_eq_true, decide_eq_true_eq] at ha1 hb1
      have hx : 0 ≤ x := by rcases ha1 with h | h <;> grind
      have hy : 0 ≤ y := by rcases hb1 with h | h <;> grind
      simp only [pyMin, Num.lt]
      by_cases hlt : y < x
      · simp only [hlt, decide_true, if_true, Num.eqZero, Num.eq]
        by_cases hy0 : y = 0
        · simp [hy0]
        · have hx0 : x ≠ 0 := by grind
          simp [hy0, hx0]
      · simp only [hlt, decide_false, Num.eqZero, Num.eq]
        by_cases hx0 : x = 0
        · simp [hx0]
        · have hy0 : y ≠ 0 := by grind
          simp [hx0, hy0]

/-! ### the last instruction of a block under the adapter's cross-block insertions -/

theorem lastInstr_cons_art (s : Snip) (es : List Entry) :
    lastInstr (.art s :: es) = (match lastInstr es with | some e => some e | none => some (.art s)) := by
  unfold lastInstr
  simp only [List.filter_cons, Entry.isInstr, if_true]
  cases h : (es.filter Entry.isInstr) with
  | nil => simp
  | cons a l =>
    rw [List.getLast?_cons_cons]
    cases hq : (a :: l).getLast? with
    | none => simp at hq
    | some e => rfl

theorem lastInstr_append (a b : List Entry) :
    lastInstr (a ++ b) = (match lastInstr b with | some e => some e | none => lastInstr a) := by
  unfold lastInstr
  rw [List.filter_append]
  cases h : (b.filter Entry.isInstr) with
  | nil => simp
  | cons x l =>
    rw [List.getLast?_append]
    cases hq : (x :: l).getLast? with
    | none => simp at hq
    | some e => rfl

/-- The guard `isPredBlock`: the node's block ends (last `Instr`) in an original instruction for
which `visit_node` registers a predicate. -/
def isPredEntries (t : Table) (es : List Entry) : Bool :=
  match lastInstr es with
  | some (.orig j) => t.registers j.opc
  | _ => false

def isPredBlock (t : Table) (b : Blk) : Bool := b.cover && isPredEntries t b.entries

theorem isPredEntries_cons_art (t : Table) (s : Snip) (es : List Entry) :
    isPredEntries t (.art s :: es) = isPredEntries t es := by
  unfold isPredEntries
  rw [lastInstr_cons_art]
  cases lastInstr es <;> simp

theorem isPredEntries_insert_zero (t : Table) (s : Snip) (es : List Entry) :
    isPredEntries t (insertAt es 0 (.art s)) = isPredEntries t es := by
  simp [insertAt, isPredEntries_cons_art]

theorem lastInstr_take_succ {es : List Entry} {p : Nat} {i : Ins} (h : es[p]? = some (.orig i)) :
    lastInstr (es.take (p + 1)) = some (.orig i) := by
  have hp : p < es.length := by
    rcases Nat.lt_or_ge p es.length with h1 | h1
    · exact h1
    · simp [List.getElem?_eq_none h1] at h
  have : es.take (p + 1) = es.take p ++ [.orig i] := by
    rw [List.take_add_one]
    simp [h]
  rw [this, lastInstr_append]
  simp [lastInstr, Entry.isInstr]

/-- Inserting a snippet directly behind an `END_FOR` does not change whether the block is a
predicate block (`END_FOR` itself never is one). -/
theorem isPredEntries_insert_after_endFor (t : Table) (hE : t.registers t.endFor = false)
    (s : Snip) {es : List Entry} {p : Nat} {i : Ins}
    (h : es[p]? = some (.orig i)) (hi : i.opc = t.endFor) :
    isPredEntries t (insertAt es (p + 1) (.art s)) = isPredEntries t es := by
  have hsplit : es = es.take (p + 1) ++ es.drop (p + 1) := (List.take_append_drop _ _).symm
  have h1 : lastInstr (insertAt es (p + 1) (.art s))
      = (match lastInstr (es.drop (p + 1)) with | some e => some e | none => some (.art s)) := by
    unfold insertAt
    rw [lastInstr_append, lastInstr_cons_art]
    cases lastInstr (es.drop (p + 1)) <;> simp
  have h2 : lastInstr es
      = (match lastInstr (es.drop (p + 1)) with | some e => some e | none => some (.orig i)) := by
    conv => lhs; rw [hsplit]
    rw [lastInstr_append, lastInstr_take_succ h]
  unfold isPredEntries
  rw [h1, h2]
  cases lastInstr (es.drop (p + 1)) with
  | some e => simp
  | none => simp [hi, hE]

/-! ### `decideAction` registers exactly on predicate blocks -/

theorem decideAction_skip_iff (t : Table) (b : Blk) :
    decideAction t b = .skip ↔ isPredBlock t b = false := by
  unfold decideAction isPredBlock isPredEntries Table.registers
  cases hl : lastInstr b.entries with
  | none => simp
  | some e =>
    cases e with
    | pseudo x => simp
    | art s => simp
    | orig j =>
      cases hc : b.cover with
      | false => simp
      | true =>
        simp only [Bool.not_true, Bool.false_eq_true, if_false, Bool.true_and]
        by_cases hf : (j.opc == t.forIter) = true
        · simp [hf]
        · simp only [hf, if_false]
          cases hn : t.noneCmp j.opc with
          | some op => simp
          | none =>
            cases hb : t.bytecodeCond j.opc with
            | false => simp [hf]
            | true =>
              simp only [Bool.not_true, Bool.false_eq_true, if_false]
              have hf' : (j.opc == t.forIter) = false := by simpa using hf
              simp only [hf', Option.isSome_none, Bool.or_false, Bool.false_or, Bool.true_eq_false,
                iff_false]
              cases secondLastOrig b.entries with
              | none => simp
              | some ic =>
                obtain ⟨idx, c⟩ := ic
                simp only
                split
                · split <;> simp
                · split <;> simp

/-! ### one visit, seen from the other blocks -/

/-- `isPredBlock` of the block at position `m` (`none`: no such block). -/
def predAt (t : Table) (blocks : List Blk) (m : Nat) : Option Bool := (blocks[m]?).map (isPredBlock t)

theorem predAt_modify_ne (t : Table) (st : St) (k m : Nat) (f : List Entry → List Entry) (h : k ≠ m) :
    predAt t (st.modify k f).blocks m = predAt t st.blocks m := by
  simp [predAt, St.modify, List.getElem?_modify_ne _ _ h]

theorem predAt_modify (t : Table) (st : St) (k m : Nat) (f : List Entry → List Entry)
    (hf : ∀ b, st.blocks[k]? = some b → isPredEntries t (f b.entries) = isPredEntries t b.entries) :
    predAt t (st.modify k f).blocks m = predAt t st.blocks m := by
  by_cases h : k = m
  · subst h
    simp only [predAt, St.modify, List.getElem?_modify_eq]
    cases hb : st.blocks[k]? with
    | none => simp
    | some b => simp [isPredBlock, hf b hb]
  · exact predAt_modify_ne t st k m f h

theorem findEndFor_spec (t : Table) (blocks : List Blk) :
    ∀ (fuel start k p : Nat), findEndFor t blocks fuel start = some (k, p) →
      ∃ b, blocks[k]? = some b ∧ b.entries.findIdx? (isEndFor t) = some p := by
  intro fuel
  induction fuel with
  | zero => intro start k p h; simp [findEndFor] at h
  | succ fuel ih =>
    intro start k p h
    unfold findEndFor at h
    cases hb : blocks[start]? with
    | none => simp [hb] at h
    | some b =>
      simp only [hb] at h
      cases hf : b.entries.findIdx? (isEndFor t) with
      | some q =>
        simp only [hf, Option.some.injEq, Prod.mk.injEq] at h
        obtain ⟨rfl, rfl⟩ := h
        exact ⟨b, hb, hf⟩
      | none =>
        simp only [hf] at h
        cases hn : b.next with
        | none => simp [hn] at h
        | some k' =>
          simp only [hn] at h
          exact ih k' k p h

theorem findIdx_endFor {t : Table} {es : List Entry} {p : Nat}
    (h : es.findIdx? (isEndFor t) = some p) : ∃ i, es[p]? = some (.orig i) ∧ i.opc = t.endFor := by
  rw [List.findIdx?_eq_some_iff_getElem] at h
  obtain ⟨hp, he, _⟩ := h
  cases hq : es[p] with
  | pseudo x => simp [hq, isEndFor] at he
  | art s => simp [hq, isEndFor] at he
  | orig i =>
    refine ⟨i, ?_, ?_⟩
    · rw [List.getElem?_eq_getElem hp, hq]
    · simpa [hq, isEndFor] using he

theorem register_some {st : St} {n : Nat} (h : n ∉ st.preds) :
    register st n = some (st.preds.length, { st with preds := st.preds ++ [n] }) := by
  simp [register, h]

theorem getOrRegister_new {st : St} {n : Nat} (h : n ∉ st.preds) :
    getOrRegister st n = (st.preds.length, { st with preds := st.preds ++ [n] }) := by
  have : st.preds.idxOf? n = none := by simpa using h
  simp [getOrRegister, this]

/-- What one `visit_node` does to the registry and to the predicate status of the other blocks. -/
theorem visitNode_spec (t : Table) (hE : t.registers t.endFor = false) {st st' : St} {n : Nat}
    (hn : n ∉ st.preds) (h : visitNode t st n = some st') :
    st'.preds = st.preds ++ (if predAt t st.blocks n = some true then [n] else []) ∧
    ∀ m, m ≠ n → predAt t st'.blocks m = predAt t st.blocks m := by
  unfold visitNode at h
  cases hb : st.blocks[n]? with
  | none => simp [hb] at h
  | some b =>
    simp only [hb] at h
    have hpa : predAt t st.blocks n = some (isPredBlock t b) := by simp [predAt, hb]
    cases hd : decideAction t b with
    | skip =>
      simp only [hd, Option.some.injEq] at h
      subst h
      have := (decideAction_skip_iff t b).mp hd
      simp [hpa, this]
    | fail => simp [hd] at h
    | act a =>
      have hp : isPredBlock t b = true := by
        cases hq : isPredBlock t b with
        | true => rfl
        | false => rw [(decideAction_skip_iff t b).mpr hq] at hd; cases hd
      simp only [hd] at h
      cases a with
      | forLoop =>
        simp only [register_some hn] at h
        cases hnx : b.next with
        | none => simp [hnx] at h
        | some body =>
          cases htg : b.target with
          | none => simp [hnx, htg] at h
          | some exit =>
            simp only [hnx, htg] at h
            split at h
            · rename_i k p hfe
              simp only [Option.some.injEq] at h
              subst h
              refine ⟨by simp [St.modify, hpa, hp], fun m _ => ?_⟩
              obtain ⟨bk, hbk, hfi⟩ := findEndFor_spec t _ _ _ _ _ hfe
              obtain ⟨i, hi1, hi2⟩ := findIdx_endFor hfi
              refine (predAt_modify t _ k m _ (fun b' hb' => ?_)).trans ?_
              · rw [hbk] at hb'; cases hb'
                exact isPredEntries_insert_after_endFor t hE _ hi1 hi2
              · exact predAt_modify t ⟨st.blocks, st.preds ++ [n]⟩ body m
                  (fun es => insertAt es 0 (.art (.forPred true st.preds.length)))
                  (fun b' _ => isPredEntries_insert_zero t _ _)
            · cases h
      | nonePred op =>
        simp only [register_some hn, Option.some.injEq] at h
        subst h
        exact ⟨by simp [St.modify, hpa, hp], fun m hm => predAt_modify_ne t _ n m _ (Ne.symm hm)⟩
      | cmpPred idx op =>
        simp only [getOrRegister_new hn, Option.some.injEq] at h
        subst h
        exact ⟨by simp [St.modify, hpa, hp], fun m hm => predAt_modify_ne t _ n m _ (Ne.symm hm)⟩
      | excPred idx =>
        simp only [getOrRegister_new hn, Option.some.injEq] at h
        subst h
        exact ⟨by simp [St.modify, hpa, hp], fun m hm => predAt_modify_ne t _ n m _ (Ne.symm hm)⟩
      | boolPred =>
        simp only [getOrRegister_new hn, Option.some.injEq] at h
        subst h
        exact ⟨by simp [St.modify, hpa, hp], fun m hm => predAt_modify_ne t _ n m _ (Ne.symm hm)⟩

/-- The registry after the whole node loop, for any duplicate-free visiting order. -/
theorem visitAll_spec (t : Table) (hE : t.registers t.endFor = false) :
    ∀ (order : List Nat) (st st' : St), order.Nodup → (∀ n ∈ order, n ∉ st.preds) →
      visitAll t st order = some st' →
      st'.preds = st.preds ++ order.filter (fun n => predAt t st.blocks n == some true) := by
  intro order
  induction order with
  | nil => intro st st' _ _ h; simp [visitAll] at h; simp [h]
  | cons n ns ih =>
    intro st st' hnd hfresh h
    unfold visitAll at h
    cases hv : visitNode t st n with
    | none => simp [hv] at h
    | some st1 =>
      simp only [hv] at h
      have hn : n ∉ st.preds := hfresh n (by simp)
      obtain ⟨hp1, hinv⟩ := visitNode_spec t hE hn hv
      have hnd' := List.nodup_cons.mp hnd
      have hfresh1 : ∀ m ∈ ns, m ∉ st1.preds := by
        intro m hm
        have hmn : m ≠ n := fun e => hnd'.1 (e ▸ hm)
        have := hfresh m (by simp [hm])
        rw [hp1]
        split <;> simp [this, hmn]
      have := ih st1 st' hnd'.2 hfresh1 h
      rw [this, hp1]
      have hcongr : ns.filter (fun m => predAt t st1.blocks m == some true)
          = ns.filter (fun m => predAt t st.blocks m == some true) := by
        apply List.filter_congr
        intro m hm
        have hmn : m ≠ n := fun e => hnd'.1 (e ▸ hm)
        rw [hinv m hmn]
      rw [hcongr]
      by_cases hq : predAt t st.blocks n = some true
      · simp [List.filter_cons, hq]
      · simp [List.filter_cons, hq]

theorem predAt_visitCfg (t : Table) (blocks : List Blk) (coid m : Nat) :
    predAt t (visitCfg blocks coid) m = predAt t blocks m := by
  have := predAt_modify t ⟨blocks, []⟩ 0 m (fun es => insertAt es 0 (.art (.codeObject coid)))
    (fun b _ => isPredEntries_insert_zero t _ _)
  simpa [St.modify, visitCfg] using this

/-! ### traces -/

/-- One recorded evaluation of predicate `p` during which the interpreter took `outcome`. -/
structure Eval where
  p : Nat
  outcome : Bool
  dT : Num
  dF : Num

/-- What C04 guarantees for a recorded evaluation: both distances are acceptable numbers and exactly
the distance of the outcome taken is zero. -/
def GoodRec (b : Bool) (dT dF : Num) : Prop :=
  NonNeg dT ∧ NonNeg dF ∧ dT.eqZero = b ∧ dF.eqZero = !b

/-- An observable step of an execution: a code object is entered, or a predicate is evaluated. -/
inductive Obs
  | enter (c : Nat)
  | eval (e : Eval)

def Obs.ev : Obs → Ev
  | .enter c => .enter c
  | .eval e => .pred e.p e.dT e.dF

def Obs.good : Obs → Prop
  | .enter _ => True
  | .eval e => GoodRec e.outcome e.dT e.dF

def took (p : Nat) (v : Bool) : Obs → Bool
  | .eval e => e.p == p && e.outcome == v
  | _ => false

def evald (p : Nat) : Obs → Bool
  | .eval e => e.p == p
  | _ => false

def enteredP (c : Nat) : Obs → Bool
  | .enter c' => c' == c
  | _ => false

theorem took_evald {p : Nat} {v : Bool} {o : Obs} (h : took p v o = true) : evald p o = true := by
  cases o with
  | enter c => simp [took] at h
  | eval e => simp [took] at h; simp [evald, h.1]

theorem any_took_false {p : Nat} {v : Bool} {seen : List Obs} (h : seen.any (evald p) = false) :
    seen.any (took p v) = false := by
  rw [List.any_eq_false] at h ⊢
  intro o ho ht
  exact h o ho (took_evald ht)

def DictInv (d : List (Nat × Num)) (seen : List Obs) (v : Bool) : Prop :=
  ∀ p, (seen.any (evald p) = false → dget d p = none) ∧
       (seen.any (evald p) = true → ∃ x, dget d p = some x ∧ NonNeg x ∧ x.eqZero = seen.any (took p v))

theorem DictInv.enter {d seen v} (h : DictInv d seen v) (c : Nat) : DictInv d (seen ++ [.enter c]) v := by
  intro p
  have := h p
  simpa [List.any_append, evald, took] using this

theorem DictInv.eval {d seen v} (h : DictInv d seen v) (e : Eval) (x : Num) (hx : NonNeg x)
    (hz : x.eqZero = (e.outcome == v)) :
    DictInv (dset d e.p (pyMin ((dget d e.p).getD .pinf) x)) (seen ++ [.eval e]) v := by
  intro q
  by_cases hq : q = e.p
  · subst hq
    have hany : (seen ++ [Obs.eval e]).any (evald e.p) = true := by simp [List.any_append, evald]
    refine ⟨fun hf => (by rw [hany] at hf; cases hf), fun _ => ?_⟩
    refine ⟨_, dget_dset_self _ _ _, ?_, ?_⟩
    · cases hs : seen.any (evald e.p) with
      | false => rw [(h e.p).1 hs]; exact pyMin_nonNeg nonNeg_pinf hx
      | true =>
        obtain ⟨y, hy1, hy2, _⟩ := (h e.p).2 hs
        rw [hy1]; exact pyMin_nonNeg hy2 hx
    · have htk : (seen ++ [Obs.eval e]).any (took e.p v) = (seen.any (took e.p v) || (e.outcome == v)) := by
        simp [List.any_append, took]
      rw [htk]
      cases hs : seen.any (evald e.p) with
      | false =>
        rw [(h e.p).1 hs, any_took_false hs]
        simp only [Option.getD_none]
        rw [pyMin_eqZero nonNeg_pinf hx, hz]
        simp [Num.eqZero, Num.eq]
      | true =>
        obtain ⟨y, hy1, hy2, hy3⟩ := (h e.p).2 hs
        rw [hy1]
        simp only [Option.getD_some]
        rw [pyMin_eqZero hy2 hx, hy3, hz]
  · have hne : (e.p == q) = false := by simpa using Ne.symm hq
    have h1 : (seen ++ [Obs.eval e]).any (evald q) = seen.any (evald q) := by
      simp [List.any_append, evald, hne]
    have h2 : (seen ++ [Obs.eval e]).any (took q v) = seen.any (took q v) := by
      simp [List.any_append, took, hne]
    rw [h1, h2, dget_dset_ne _ _ _ _ hq]
    exact h q

structure TInv (tr : Trace) (seen : List Obs) : Prop where
  exec : ∀ p, tr.executed.contains p = seen.any (evald p)
  cos : ∀ c, tr.executedCodeObjects.contains c = seen.any (enteredP c)
  dT : DictInv tr.trueDist seen true
  dF : DictInv tr.falseDist seen false

theorem contains_insert_new (l : List Nat) (a q : Nat) :
    (if l.contains a then l else l ++ [a]).contains q = (l.contains q || (a == q)) := by
  rw [Bool.eq_iff_iff]
  by_cases h : a ∈ l
  · simp only [List.contains_iff_mem, h, if_true, Bool.or_eq_true, beq_iff_eq]
    constructor
    · intro hq; exact Or.inl hq
    · rintro (hq | hq)
      · exact hq
      · subst hq; exact h
  · simp only [List.contains_iff_mem, h, if_false, List.mem_append, List.mem_singleton,
      Bool.or_eq_true, beq_iff_eq]
    constructor
    · rintro (hq | hq)
      · exact Or.inl hq
      · exact Or.inr hq.symm
    · rintro (hq | hq)
      · exact Or.inl hq
      · exact Or.inr hq.symm

theorem TInv.empty : TInv Trace.empty [] := by
  refine ⟨by simp [Trace.empty], by simp [Trace.empty], ?_, ?_⟩ <;>
  · intro p; simp [Trace.empty, dget]

theorem TInv.step {tr seen} (h : TInv tr seen) (o : Obs) (ho : o.good) :
    TInv (tr.step o.ev) (seen ++ [o]) := by
  cases o with
  | enter c =>
    refine ⟨?_, ?_, h.dT.enter c, h.dF.enter c⟩
    · intro p
      simp only [Obs.ev, Trace.step]
      rw [h.exec p]
      simp [List.any_append, evald]
    · intro q
      simp only [Obs.ev, Trace.step]
      rw [contains_insert_new, h.cos q]
      simp [List.any_append, enteredP]
  | eval e =>
    obtain ⟨g1, g2, g3, g4⟩ := ho
    refine ⟨?_, ?_, ?_, ?_⟩
    · intro q
      simp only [Obs.ev, Trace.step, Trace.update]
      rw [contains_insert_new, h.exec q]
      simp [List.any_append, evald]
    · intro c
      simp only [Obs.ev, Trace.step, Trace.update]
      rw [h.cos c]
      simp [List.any_append, enteredP]
    · exact h.dT.eval e e.dT g1 (by rw [g3]; cases e.outcome <;> rfl)
    · exact h.dF.eval e e.dF g2 (by rw [g4]; cases e.outcome <;> rfl)

theorem TInv.run : ∀ (os : List Obs) {tr seen}, TInv tr seen → (∀ o ∈ os, o.good) →
    TInv (tr.run (os.map Obs.ev)) (seen ++ os)
  | [], tr, seen, h, _ => by simpa [Trace.run] using h
  | o :: os, tr, seen, h, hg => by
    have h1 := h.step o (hg o (by simp))
    have h2 := TInv.run os h1 (fun o' ho' => hg o' (by simp [ho']))
    simpa [Trace.run, List.append_assoc] using h2

/-! ### `math.isclose` against 0.0, and the tracer callbacks with the `enabled` flag -/

theorem isclose_zero_iff (rel : Rat) (_h0 : 0 ≤ rel) (h1 : rel < 1) (x : Num) :
    isclose rel 0 x = x.eqZero := by
  cases x with
  | fin q =>
    simp only [isclose, Num.eqZero, Num.eq, Rat.mul_zero]
    by_cases hq : q = 0
    · subst hq; simp
    · have hd : 0 < (if q < 0 then -q else q) := by split <;> grind
      generalize (if q < 0 then -q else q) = d at hd
      have h2 : rel * d < d := by
        have := Rat.mul_lt_mul_of_pos_right h1 hd
        simpa using this
      have h3 : ¬ d ≤ rel * d := by grind
      have h4 : ¬ d ≤ 0 := by grind
      simp [hq, h3, h4]
  | nan => rfl
  | pinf => rfl
  | ninf => rfl

theorem iscloseZero_eq (x : Num) : iscloseZero x = x.eqZero :=
  isclose_zero_iff _ (by decide +kernel) (by decide +kernel) x

theorem calls_disabled (r : Bool) (tr : Trace) : ∀ (cs : List Call) (s' : TState),
    TState.calls r ⟨false, tr⟩ cs = some s' → s' = ⟨false, tr⟩
  | [], s', h => by simp [TState.calls] at h; exact h.symm
  | c :: cs, s', h => by
    rw [TState.calls] at h
    cases c with
    | enter c =>
      simp only [TState.call] at h
      exact calls_disabled r tr cs s' (by simpa using h)
    | pred p body res =>
      simp only [TState.call] at h
      cases res <;> cases body <;> simp at h
      exact calls_disabled r tr cs s' h

theorem calls_enabled_eq_run : ∀ (cs : List Call) (tr : Trace) (s' : TState),
    TState.calls true ⟨true, tr⟩ cs = some s' → s' = ⟨true, tr.run (cs.filterMap Call.top)⟩
  | [], tr, s', h => by simp [TState.calls] at h; simp [Trace.run, ← h]
  | c :: cs, tr, s', h => by
    rw [TState.calls] at h
    cases c with
    | enter c =>
      simp only [TState.call, if_true] at h
      have := calls_enabled_eq_run cs _ s' h
      simpa [Call.top, Trace.run] using this
    | pred p body res =>
      simp only [TState.call, if_true] at h
      cases hb : TState.calls true ⟨false, tr⟩ body with
      | none => simp [hb] at h
      | some s1 =>
        have hs1 := calls_disabled true tr body s1 hb
        subst hs1
        simp only [hb] at h
        cases res with
        | skipped => simp at h
        | raised =>
          have := calls_enabled_eq_run cs _ s' h
          simpa [List.filterMap_cons, Call.top, Trace.run] using this
        | ok dT dF =>
          have := calls_enabled_eq_run cs _ s' h
          simpa [Call.top, Trace.run, Trace.step] using this


/-- The callbacks a disabled tracer drops leave the state alone (and are accepted). -/
theorem calls_skip_disabled (r : Bool) (tr : Trace) : ∀ (cs : List Call), cs.all Call.isSkip = true →
    TState.calls r ⟨false, tr⟩ cs = some ⟨false, tr⟩
  | [], _ => by simp [TState.calls]
  | c :: cs, h => by
    simp only [List.all_cons, Bool.and_eq_true] at h
    rw [TState.calls]
    cases c with
    | enter c => simpa [TState.call] using calls_skip_disabled r tr cs h.2
    | pred p body res =>
      have h2 := h.2
      cases res <;> cases body <;> simp only [Call.isSkip, Bool.false_eq_true, false_and] at h
      simpa [TState.call] using calls_skip_disabled r tr cs h2

/-- A history as the interpreter sees it: a code object is entered; a predicate is evaluated and the
interpreter takes `e.outcome`; the evaluation of a predicate's operands raises (the interpreter takes
no outcome).  `body`: callbacks made by operator code of the module under test while the tracer
evaluates the operands. -/
inductive CObs
  | enter (c : Nat)
  | eval (e : Eval) (body : List Call)
  | raised (p : Nat) (body : List Call)

def CObs.call : CObs → Call
  | .enter c => .enter c
  | .eval e body => .pred e.p body (.ok e.dT e.dF)
  | .raised p body => .pred p body .raised

def CObs.obs : CObs → Option Obs
  | .enter c => some (.enter c)
  | .eval e _ => some (.eval e)
  | .raised _ _ => none

/-- The nested callbacks arrive while the tracer is disabled: each is one a disabled tracer drops. -/
def CObs.wf : CObs → Prop
  | .enter _ => True
  | .eval _ body => body.all Call.isSkip = true
  | .raised _ body => body.all Call.isSkip = true

theorem cobs_top (hist : List CObs) :
    (hist.map CObs.call).filterMap Call.top = (hist.filterMap CObs.obs).map Obs.ev := by
  induction hist with
  | nil => rfl
  | cons o os ih =>
    cases o <;> simp [CObs.call, CObs.obs, Call.top, Obs.ev, List.filterMap_cons, ih]

theorem calls_cobs_total : ∀ (hist : List CObs) (tr : Trace), (∀ o ∈ hist, o.wf) →
    ∃ s', TState.calls true ⟨true, tr⟩ (hist.map CObs.call) = some s'
  | [], tr, _ => ⟨⟨true, tr⟩, by simp [TState.calls]⟩
  | o :: os, tr, hw => by
    have hw' : ∀ o' ∈ os, o'.wf := fun o' ho' => hw o' (by simp [ho'])
    have ho := hw o (by simp)
    simp only [List.map_cons]
    rw [TState.calls]
    cases o with
    | enter c =>
      simp only [CObs.call, TState.call, if_true]
      exact calls_cobs_total os _ hw'
    | eval e body =>
      simp only [CObs.call, TState.call, if_true, calls_skip_disabled true tr body ho]
      exact calls_cobs_total os _ hw'
    | raised p body =>
      simp only [CObs.call, TState.call, if_true, calls_skip_disabled true tr body ho]
      exact calls_cobs_total os _ hw'


end PynguinModel.BranchInstr
