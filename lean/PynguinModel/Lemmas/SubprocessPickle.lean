import PynguinModel.Model.SubprocessPickle
import PynguinModel.Lemmas.SubprocessAlign
/-!
# Lemmas for C31, value round trips: what `dill.detect.baditems` returns, what the filters then keep.
-/
namespace PynguinModel.SubprocessAlign

theorem badObject_eq_some (exact : Bool) (rt : α → RoundTrip) (i a : α) :
    badObject exact rt i = some a ↔ a = i ∧ pickles exact (rt a) = false := by
  unfold badObject
  by_cases h : pickles exact (rt i) = true
  · simp only [h, if_true]
    constructor
    · intro h'; cases h'
    · rintro ⟨rfl, h'⟩; rw [h] at h'; cases h'
  · simp only [h]
    constructor
    · intro h'
      have : i = a := by simpa using h'
      subst this
      exact ⟨rfl, by simpa using h⟩
    · rintro ⟨rfl, _⟩; rfl

theorem badItemsLoop_mem [DecidableEq α] (exact : Bool) (rt : α → RoundTrip) (items : List α) :
    ∀ (acc : List (Option α)) (a : α), some a ∈ badItemsLoop exact rt acc items ↔
      some a ∈ acc ∨ (a ∈ items ∧ pickles exact (rt a) = false) := by
  induction items with
  | nil => intro acc a; simp [badItemsLoop]
  | cons i r ih =>
    intro acc a
    unfold badItemsLoop
    by_cases hin : some i ∈ acc
    · simp only [hin, if_true]
      rw [ih]
      constructor
      · rintro (h | ⟨h1, h2⟩)
        · exact Or.inl h
        · exact Or.inr ⟨List.mem_cons_of_mem _ h1, h2⟩
      · rintro (h | ⟨h1, h2⟩)
        · exact Or.inl h
        · rcases List.mem_cons.mp h1 with rfl | h1
          · exact Or.inl hin
          · exact Or.inr ⟨h1, h2⟩
    · simp only [hin, if_false]
      rw [ih]
      constructor
      · rintro (h | ⟨h1, h2⟩)
        · rcases List.mem_append.mp h with h | h
          · exact Or.inl h
          · have h' : badObject exact rt i = some a := by simpa using (List.mem_singleton.mp h).symm
            obtain ⟨rfl, hb⟩ := (badObject_eq_some exact rt i a).mp h'
            exact Or.inr ⟨List.mem_cons_self, hb⟩
        · exact Or.inr ⟨List.mem_cons_of_mem _ h1, h2⟩
      · rintro (h | ⟨h1, h2⟩)
        · exact Or.inl (List.mem_append.mpr (Or.inl h))
        · rcases List.mem_cons.mp h1 with rfl | h1
          · refine Or.inl (List.mem_append.mpr (Or.inr ?_))
            have := (badObject_eq_some exact rt a a).mpr ⟨rfl, h2⟩
            simp [this]
          · exact Or.inr ⟨h1, h2⟩

/-- `baditems` returns exactly the items that do not pickle. -/
theorem mem_badItems [DecidableEq α] (exact : Bool) (rt : α → RoundTrip) (items : List α) (a : α) :
    a ∈ badItems exact rt items ↔ a ∈ items ∧ pickles exact (rt a) = false := by
  unfold badItems
  rw [List.mem_filterMap]
  constructor
  · rintro ⟨o, ho, hid⟩
    have : o = some a := by simpa using hid
    subst this
    simpa using (badItemsLoop_mem exact rt items [] a).mp ho
  · intro h
    exact ⟨some a, (badItemsLoop_mem exact rt items [] a).mpr (Or.inr h), rfl⟩

theorem badItems_eq_nil [DecidableEq α] (exact : Bool) (rt : α → RoundTrip) (items : List α)
    (h : ∀ a ∈ items, pickles exact (rt a) = true) : badItems exact rt items = [] := by
  apply List.eq_nil_iff_forall_not_mem.mpr
  intro a ha
  obtain ⟨h1, h2⟩ := (mem_badItems exact rt items a).mp ha
  rw [h a h1] at h2
  cases h2

theorem mem_allAssertions (t : Trace) (a : Assertion) :
    a ∈ allAssertions t ↔ ∃ e ∈ t, a ∈ e.2 := by
  simp [allAssertions, List.mem_flatMap]

/-- After `_filter_bad_assertions` an assertion is still there iff it pickles. -/
theorem filterTrace_badItems (exact : Bool) (rt : Assertion → RoundTrip) (t : Trace) :
    filterTrace (.bad (badItems exact rt (allAssertions t))) t =
      t.map (fun e => (e.1, e.2.filter (fun a => pickles exact (rt a)))) := by
  simp only [filterTrace]
  apply List.map_congr_left
  intro e he
  congr 1
  apply List.filter_congr
  intro a ha
  have hall : a ∈ allAssertions t := (mem_allAssertions t a).mpr ⟨e, he, ha⟩
  cases hp : pickles exact (rt a) with
  | true =>
    have : a ∉ badItems exact rt (allAssertions t) := by
      intro hm
      have := ((mem_badItems exact rt _ a).mp hm).2
      rw [hp] at this; cases this
    simpa using this
  | false =>
    have : a ∈ badItems exact rt (allAssertions t) := (mem_badItems exact rt _ a).mpr ⟨hall, hp⟩
    simpa using this

/-- After `_filter_bad_exceptions` an exception is still there iff it pickles. -/
theorem filterExcs_badItems (exact : Bool) (rt : Nat → RoundTrip) (e : List (Nat × String)) :
    filterExcs (.bad (badItems exact rt (e.map (·.1)))) e = e.filter (fun x => pickles exact (rt x.1)) := by
  simp only [filterExcs]
  apply List.filter_congr
  intro x hx
  have hall : x.1 ∈ e.map (·.1) := List.mem_map.mpr ⟨x, hx, rfl⟩
  cases hp : pickles exact (rt x.1) with
  | true =>
    have : x.1 ∉ badItems exact rt (e.map (·.1)) := by
      intro hm
      have := ((mem_badItems exact rt _ x.1).mp hm).2
      rw [hp] at this; cases this
    simpa using this
  | false =>
    have : x.1 ∈ badItems exact rt (e.map (·.1)) := (mem_badItems exact rt _ x.1).mpr ⟨hall, hp⟩
    simpa using this

end PynguinModel.SubprocessAlign
