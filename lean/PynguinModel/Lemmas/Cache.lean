import PynguinModel.Model.Cache
/-!
# C12 — generic lemmas: dicts, `comp`, `checkCache`, `cacheQuery` for an arbitrary host chromosome

`Laws H truth Good` is what the cache needs from its chromosome: running a chromosome whose stored results
are up to date (`Good`) yields the result of its current tests (`truth`), keeps `Good` and the tests, and after
a run the `changed` flag may be cleared.  `Lemmas/CacheHosts.lean` proves the laws for test cases and suites.
-/
namespace PynguinModel.Cache

/-! ## association lists -/

theorem lookup_isSome_iff {k : Nat} {l : List (Nat × α)} : (lookup k l).isSome = true ↔ k ∈ keys l := by
  induction l with
  | nil => simp [lookup, keys]
  | cons p l ih =>
    obtain ⟨k', v⟩ := p
    by_cases h : k' = k
    · simp [lookup, keys, h]
    · have : ¬ k = k' := fun e => h e.symm
      simp [lookup, h, this, keys] at ih ⊢
      exact ih

theorem lookup_mem {k : Nat} {v : α} {l : List (Nat × α)} (h : lookup k l = some v) : (k, v) ∈ l := by
  induction l with
  | nil => simp [lookup] at h
  | cons p l ih =>
    obtain ⟨k', v'⟩ := p
    by_cases hk : k' = k
    · simp [lookup, hk] at h; simp [hk, h]
    · simp [lookup, hk] at h; exact List.mem_cons_of_mem _ (ih h)

theorem mem_upsert {k : Nat} {v : α} {l : List (Nat × α)} {p : Nat × α} (h : p ∈ upsert k v l) :
    p = (k, v) ∨ p ∈ l := by
  induction l with
  | nil => simp [upsert] at h; exact Or.inl h
  | cons q l ih =>
    obtain ⟨k', v'⟩ := q
    by_cases hk : k' = k
    · simp [upsert, hk] at h
      rcases h with h | h
      · exact Or.inl h
      · exact Or.inr (List.mem_cons_of_mem _ h)
    · simp [upsert, hk] at h
      rcases h with h | h
      · exact Or.inr (by simp [h])
      · rcases ih h with h | h
        · exact Or.inl h
        · exact Or.inr (List.mem_cons_of_mem _ h)

theorem keys_upsert {k : Nat} {v : α} {l : List (Nat × α)} {x : Nat} :
    x ∈ keys (upsert k v l) ↔ x = k ∨ x ∈ keys l := by
  induction l with
  | nil => simp [upsert, keys]
  | cons q l ih =>
    obtain ⟨k', v'⟩ := q
    by_cases hk : k' = k
    · simp [upsert, hk, keys]
    · simp only [upsert, hk, if_false, keys, List.map_cons, List.mem_cons] at ih ⊢
      rw [ih]
      constructor
      · rintro (h | h | h) <;> simp [h]
      · rintro (h | h | h) <;> simp [h]

theorem nodup_keys_upsert {k : Nat} {v : α} {l : List (Nat × α)} (h : (keys l).Nodup) :
    (keys (upsert k v l)).Nodup := by
  induction l with
  | nil => simp [upsert, keys]
  | cons q l ih =>
    obtain ⟨k', v'⟩ := q
    simp only [keys, List.map_cons, List.nodup_cons] at h
    by_cases hk : k' = k
    · simp only [upsert, hk, if_true, keys, List.map_cons, List.nodup_cons]
      exact ⟨hk ▸ h.1, h.2⟩
    · simp only [upsert, hk, if_false, keys, List.map_cons, List.nodup_cons]
      refine ⟨?_, ih h.2⟩
      intro hm
      have := (keys_upsert (k := k) (v := v) (l := l) (x := k')).1 hm
      rcases this with e | e
      · exact hk e
      · exact h.1 e

theorem lookup_upsert_self {k : Nat} {v : α} {l : List (Nat × α)} : (lookup k (upsert k v l)).isSome = true := by
  rw [lookup_isSome_iff, keys_upsert]; exact Or.inl rfl

/-- `d[k] = v; d[k]` -/
theorem lookup_upsert_val {k : Nat} {v : α} {l : List (Nat × α)} : lookup k (upsert k v l) = some v := by
  induction l with
  | nil => simp [upsert, lookup]
  | cons p l ih =>
    by_cases h : p.1 = k
    · simp [upsert, lookup, h]
    · simp [upsert, lookup, h, ih]

theorem length_keys {l : List (Nat × α)} : (keys l).length = l.length := by simp [keys]

/-- pigeonhole: a duplicate-free list inside a list that is not longer contains all of it -/
theorem subset_of_nodup_of_length_le : ∀ {l₁ l₂ : List Nat}, l₁.Nodup → (∀ x ∈ l₁, x ∈ l₂) →
    l₂.length ≤ l₁.length → ∀ x ∈ l₂, x ∈ l₁
  | [], l₂, _, _, hl, x, hx => by
    have : l₂ = [] := List.eq_nil_of_length_eq_zero (by simpa using hl)
    simp [this] at hx
  | a :: t, l₂, hn, hs, hl, x, hx => by
    have ha : a ∈ l₂ := hs a (by simp)
    have hn' := List.nodup_cons.1 hn
    by_cases hxa : x = a
    · simp [hxa]
    · have hxe : x ∈ l₂.erase a := (List.mem_erase_of_ne hxa).2 hx
      have hlen : (l₂.erase a).length ≤ t.length := by
        rw [List.length_erase_of_mem ha]; simp at hl; omega
      have hsub : ∀ y ∈ t, y ∈ l₂.erase a := by
        intro y hy
        have : y ≠ a := fun e => hn'.1 (e ▸ hy)
        exact (List.mem_erase_of_ne this).2 (hs y (List.mem_cons_of_mem _ hy))
      exact List.mem_cons_of_mem _ (subset_of_nodup_of_length_le hn'.2 hsub hlen x hxe)

theorem mem_dedup {l : List Nat} {x : Nat} : x ∈ dedup l ↔ x ∈ l := by
  induction l with
  | nil => simp [dedup]
  | cons a l ih =>
    by_cases h : a ∈ dedup l
    · simp only [dedup, h, if_true, List.mem_cons, ih]
      constructor
      · exact Or.inr
      · rintro (e | e)
        · subst e; exact ih.1 h
        · exact e
    · simp [dedup, h, ih]

theorem nodup_dedup {l : List Nat} : (dedup l).Nodup := by
  induction l with
  | nil => simp [dedup]
  | cons a l ih =>
    by_cases h : a ∈ dedup l
    · simp [dedup, h, ih]
    · simp [dedup, h, ih]

/-! ## invariants of one cache -/

/-- every cached value is the value of its function on the result `r` -/
def CacheFresh (S : Sem R) (c : Cache) (r : R) : Prop :=
  (∀ p ∈ c.fitC, p.2 = S.fit p.1 r) ∧ (∀ p ∈ c.isC, p.2 = S.isCov p.1 r) ∧ (∀ p ∈ c.covC, p.2 = S.cov p.1 r)

/-- the dicts have unique keys, and only registered functions are cached -/
def RegInv (c : Cache) : Prop :=
  (keys c.fitC).Nodup ∧ (keys c.isC).Nodup ∧ (keys c.covC).Nodup ∧
  (∀ f ∈ keys c.fitC, f ∈ c.funcs) ∧ (∀ f ∈ keys c.isC, f ∈ c.funcs) ∧ (∀ f ∈ keys c.covC, f ∈ c.covFuncs)

theorem cacheFresh_invalidate (S : Sem R) (c : Cache) (r : R) : CacheFresh S c.invalidate r := by
  simp [CacheFresh, Cache.invalidate]

theorem regInv_invalidate (c : Cache) : RegInv c.invalidate := by
  simp [RegInv, Cache.invalidate, keys]

theorem regInv_empty (fs : List Func) : RegInv { funcs := fs } := by simp [RegInv, keys]

/-- with the default tolerances `math.isclose(v, 0.0)` is the exact test `v == 0` -/
theorem isCloseZero_eq (v : Nat) : isCloseZero v = (v == 0) := by
  cases v with
  | zero => rfl
  | succ n =>
    have h : ¬ ((n + 1) * 1000000000 ≤ n + 1) := by omega
    simp [isCloseZero, h]

theorem store_fresh {S : Sem R} (hS : S.Consistent) {c : Cache} {r : R} (h : CacheFresh S c r) (k : Kind) (f : Func) :
    CacheFresh S (c.store S k f r) r := by
  obtain ⟨h1, h2, h3⟩ := h
  cases k
  · refine ⟨?_, ?_, h3⟩
    · intro p hp; rcases mem_upsert hp with e | e
      · simp [e]
      · exact h1 p e
    · intro p hp; rcases mem_upsert hp with e | e
      · simp [e, hS f r, isCloseZero_eq]
      · exact h2 p e
  · refine ⟨h1, ?_, h3⟩
    intro p hp; rcases mem_upsert hp with e | e
    · simp [e]
    · exact h2 p e
  · refine ⟨h1, h2, ?_⟩
    intro p hp; rcases mem_upsert hp with e | e
    · simp [e]
    · exact h3 p e

theorem store_reg {S : Sem R} {c : Cache} (h : RegInv c) (k : Kind) (f : Func) (r : R) (hf : f ∈ c.regs k) :
    RegInv (c.store S k f r) := by
  obtain ⟨n1, n2, n3, s1, s2, s3⟩ := h
  cases k
  · refine ⟨nodup_keys_upsert n1, nodup_keys_upsert n2, n3, ?_, ?_, s3⟩
    · intro g hg; rcases keys_upsert.1 hg with e | e
      · exact e ▸ hf
      · exact s1 g e
    · intro g hg; rcases keys_upsert.1 hg with e | e
      · exact e ▸ hf
      · exact s2 g e
  · refine ⟨n1, nodup_keys_upsert n2, n3, s1, ?_, s3⟩
    intro g hg; rcases keys_upsert.1 hg with e | e
    · exact e ▸ hf
    · exact s2 g e
  · refine ⟨n1, n2, nodup_keys_upsert n3, s1, s2, ?_⟩
    intro g hg; rcases keys_upsert.1 hg with e | e
    · exact e ▸ hf
    · exact s3 g e

theorem store_funcs {S : Sem R} (c : Cache) (k : Kind) (f : Func) (r : R) :
    (c.store S k f r).funcs = c.funcs ∧ (c.store S k f r).covFuncs = c.covFuncs := by
  cases k <;> simp [Cache.store]

theorem store_regs {S : Sem R} (c : Cache) (k k' : Kind) (f : Func) (r : R) :
    (c.store S k f r).regs k' = c.regs k' := by
  cases k <;> cases k' <;> simp [Cache.store, Cache.regs]

theorem store_has_self {S : Sem R} (c : Cache) (k : Kind) (f : Func) (r : R) : (c.store S k f r).has k f = true := by
  cases k <;> simp [Cache.store, Cache.has, lookup_upsert_self]

theorem store_has_mono {S : Sem R} (c : Cache) (k : Kind) (f g : Func) (r : R) (h : c.has k g = true) :
    (c.store S k f r).has k g = true := by
  cases k <;> simp only [Cache.store, Cache.has, lookup_isSome_iff, keys_upsert] at h ⊢ <;> exact Or.inr h

/-! ## the host chromosome -/

structure Laws (H : Host χ R) (truth : χ → R) (Good : χ → Prop) : Prop where
  run_good : ∀ x, Good x → Good (H.run x).1
  run_val : ∀ x, Good x → (H.run x).2 = truth x
  run_truth : ∀ x, truth (H.run x).1 = truth x
  run_clear : ∀ x, Good x → Good (H.clearChanged (H.run x).1)
  clear_truth : ∀ x, truth (H.clearChanged x) = truth x

variable {χ R : Type} {H : Host χ R} {truth : χ → R} {Good : χ → Prop}

/-- `_compute_*`: fills exactly the missing values, from the result of the current tests -/
theorem comp_spec (L : Laws H truth Good) {S : Sem R} (hS : S.Consistent) (k : Kind) :
    ∀ (fs : List Func) (x : χ) (c : Cache), Good x → CacheFresh S c (truth x) → RegInv c →
      (∀ f ∈ fs, f ∈ c.regs k) →
      Good (comp H S k fs x c).1 ∧ truth (comp H S k fs x c).1 = truth x ∧
      CacheFresh S (comp H S k fs x c).2 (truth x) ∧ RegInv (comp H S k fs x c).2 ∧
      (comp H S k fs x c).2.funcs = c.funcs ∧ (comp H S k fs x c).2.covFuncs = c.covFuncs ∧
      (∀ f ∈ fs, (comp H S k fs x c).2.has k f = true) ∧
      (∀ f, c.has k f = true → (comp H S k fs x c).2.has k f = true) ∧
      (((∀ f ∈ fs, c.has k f = true) ∧ (comp H S k fs x c).1 = x) ∨
        ∃ y, Good y ∧ (comp H S k fs x c).1 = (H.run y).1)
  | [], x, c, hg, hf, hr, _ => by simp [comp, hg, hf, hr]
  | f :: fs, x, c, hg, hf, hr, hreg => by
    by_cases hh : c.has k f = true
    · have ih := comp_spec L hS k fs x c hg hf hr (fun g hg' => hreg g (List.mem_cons_of_mem _ hg'))
      simp only [comp, hh, if_true]
      obtain ⟨a1, a2, a3, a4, a5, a6, a7, a8, a9⟩ := ih
      refine ⟨a1, a2, a3, a4, a5, a6, ?_, a8, ?_⟩
      · intro g hg'
        rcases List.mem_cons.1 hg' with e | e
        · exact e ▸ a8 f hh
        · exact a7 g e
      · rcases a9 with ⟨b1, b2⟩ | b
        · exact Or.inl ⟨fun g hg' => by
            rcases List.mem_cons.1 hg' with e | e
            · exact e ▸ hh
            · exact b1 g e, b2⟩
        · exact Or.inr b
    · have hfr : f ∈ c.regs k := hreg f (by simp)
      have hx' := L.run_good x hg
      have ht' := L.run_truth x
      have hv := L.run_val x hg
      have hc' : CacheFresh S (c.store S k f (H.run x).2) (truth (H.run x).1) := by
        rw [ht', hv]; exact store_fresh hS hf k f
      have hr' : RegInv (c.store S k f (H.run x).2) := store_reg hr k f _ hfr
      have ih := comp_spec L hS k fs (H.run x).1 (c.store S k f (H.run x).2) hx' hc' hr'
        (fun g hg' => by rw [store_regs]; exact hreg g (List.mem_cons_of_mem _ hg'))
      simp only [comp, hh, Bool.false_eq_true, if_false]
      obtain ⟨a1, a2, a3, a4, a5, a6, a7, a8, a9⟩ := ih
      refine ⟨a1, a2.trans ht', ht' ▸ a3, a4, a5.trans (store_funcs c k f _).1, a6.trans (store_funcs c k f _).2,
        ?_, ?_, ?_⟩
      · intro g hg'
        rcases List.mem_cons.1 hg' with e | e
        · exact e ▸ a8 f (store_has_self c k f _)
        · exact a7 g e
      · intro g hg'
        exact a8 g (store_has_mono c k f g _ hg')
      · rcases a9 with ⟨_, b2⟩ | b
        · exact Or.inr ⟨x, hg, b2⟩
        · exact Or.inr b

theorem has_invalidate (c : Cache) (k : Kind) (f : Func) : c.invalidate.has k f = false := by
  cases k <;> simp [Cache.invalidate, Cache.has, lookup]

theorem has_of_full {c : Cache} (hr : RegInv c) (k : Kind) (hsz : c.size k = (c.regs k).length) :
    ∀ f ∈ c.regs k, c.has k f = true := by
  obtain ⟨n1, n2, n3, s1, s2, s3⟩ := hr
  intro f hf
  cases k
  · simp only [Cache.has, lookup_isSome_iff]
    exact subset_of_nodup_of_length_le n1 s1 (by simp [length_keys, Cache.size, Cache.regs] at hsz ⊢; omega) f hf
  · simp only [Cache.has, lookup_isSome_iff]
    exact subset_of_nodup_of_length_le n2 s2 (by simp [length_keys, Cache.size, Cache.regs] at hsz ⊢; omega) f hf
  · simp only [Cache.has, lookup_isSome_iff]
    exact subset_of_nodup_of_length_le n3 s3 (by simp [length_keys, Cache.size, Cache.regs] at hsz ⊢; omega) f hf

/-- `_check_cache` (repaired flag handling): afterwards the cache is fresh and holds everything asked for -/
theorem checkCache_spec (L : Laws H truth Good) {S : Sem R} (hS : S.Consistent) {V : Ver} (hV : V.keepFlag = true)
    (k : Kind) (only : Option Func) (x : χ) (c : Cache) (hg : Good x) (hr : RegInv c)
    (hf : H.changed x = false → CacheFresh S c (truth x)) (ho : ∀ f, only = some f → f ∈ c.regs k) :
    Good (checkCache H S V k only x c).1 ∧ truth (checkCache H S V k only x c).1 = truth x ∧
    CacheFresh S (checkCache H S V k only x c).2 (truth x) ∧ RegInv (checkCache H S V k only x c).2 ∧
    (checkCache H S V k only x c).2.funcs = c.funcs ∧ (checkCache H S V k only x c).2.covFuncs = c.covFuncs ∧
    (∀ f ∈ todo only (c.regs k), (checkCache H S V k only x c).2.has k f = true) := by
  have htodo : ∀ f ∈ todo only (c.regs k), f ∈ c.regs k := by
    intro f hf'
    cases only with
    | none => exact hf'
    | some g => simp [todo] at hf'; exact hf' ▸ ho g rfl
  by_cases hc : H.changed x = true
  · have hreg' : ∀ f ∈ todo only (c.regs k), f ∈ c.invalidate.regs k := by
      intro f hf'; have := htodo f hf'; cases k <;> simpa [Cache.invalidate, Cache.regs] using this
    have hregs : c.invalidate.regs k = c.regs k := by cases k <;> simp [Cache.invalidate, Cache.regs]
    have sp := comp_spec L hS k (todo only (c.regs k)) x c.invalidate hg (cacheFresh_invalidate S c _)
      (regInv_invalidate c) hreg'
    obtain ⟨a1, a2, a3, a4, a5, a6, a7, _, a9⟩ := sp
    have f5 : c.invalidate.funcs = c.funcs := rfl
    have f6 : c.invalidate.covFuncs = c.covFuncs := rfl
    by_cases hnone : (V.keepFlag && only.isNone && (c.regs k).isEmpty) = true
    · have e : checkCache H S V k only x c = comp H S k (todo only (c.regs k)) x c.invalidate := by
        simp only [checkCache, hc, if_true, hnone]
      rw [e]
      exact ⟨a1, a2, a3, a4, a5.trans f5, a6.trans f6, a7⟩
    · have e : checkCache H S V k only x c =
          (H.clearChanged (comp H S k (todo only (c.regs k)) x c.invalidate).1,
            (comp H S k (todo only (c.regs k)) x c.invalidate).2) := by
        simp only [checkCache, hc, if_true, hnone, Bool.false_eq_true, if_false]
      rw [e]
      have hne : todo only (c.regs k) ≠ [] := by
        cases only with
        | none =>
          simp [hV] at hnone
          simpa [todo] using hnone
        | some g => simp [todo]
      have hran : ∃ y, Good y ∧ (comp H S k (todo only (c.regs k)) x c.invalidate).1 = (H.run y).1 := by
        rcases a9 with ⟨b1, _⟩ | b
        · obtain ⟨g, gs, hgs⟩ := List.exists_cons_of_ne_nil hne
          have := b1 g (by rw [hgs]; simp)
          rw [has_invalidate] at this; exact absurd this (by simp)
        · exact b
      obtain ⟨y, gy, ey⟩ := hran
      refine ⟨?_, ?_, a3, a4, a5.trans f5, a6.trans f6, a7⟩
      · rw [ey]; exact L.run_clear y gy
      · rw [L.clear_truth]; exact a2
  · have hc' : H.changed x = false := by simpa using hc
    have hfresh := hf hc'
    by_cases hsz : (c.size k != (c.regs k).length) = true
    · have sp := comp_spec L hS k (todo only (c.regs k)) x c hg hfresh hr htodo
      obtain ⟨a1, a2, a3, a4, a5, a6, a7, _, _⟩ := sp
      have e : checkCache H S V k only x c = comp H S k (todo only (c.regs k)) x c := by
        simp only [checkCache, hc', Bool.false_eq_true, if_false, hsz, if_true]
      rw [e]
      exact ⟨a1, a2, a3, a4, a5, a6, a7⟩
    · have e : checkCache H S V k only x c = (x, c) := by
        simp only [checkCache, hc', Bool.false_eq_true, if_false, hsz]
      rw [e]
      have hsz' : c.size k = (c.regs k).length := by simpa using hsz
      exact ⟨hg, rfl, hfresh, hr, rfl, rfl, fun f hf' => has_of_full hr k hsz' f (htodo f hf')⟩

/-! ## the getters -/

theorem vals_eq_of_fresh {l : List (Nat × Nat)} {g : Nat → Nat} (h : ∀ p ∈ l, p.2 = g p.1) :
    vals l = (keys l).map g := by
  induction l with
  | nil => simp [vals, keys]
  | cons p l ih =>
    have := h p (by simp)
    have ih' := ih (fun q hq => h q (List.mem_cons_of_mem _ hq))
    simp only [vals, keys, List.map_cons, List.map_map] at ih' ⊢
    rw [this, ih']

/-- the cached keys are a permutation of the registered functions once everything is cached -/
theorem keys_perm_dedup {ks fs : List Nat} (hn : ks.Nodup) (hs : ∀ f ∈ ks, f ∈ fs) (hall : ∀ f ∈ fs, f ∈ ks) :
    ks.Perm (dedup fs) :=
  (List.perm_ext_iff_of_nodup hn nodup_dedup).2 fun a =>
    ⟨fun h => mem_dedup.2 (hs a h), fun h => hall a (mem_dedup.1 h)⟩

/-- a query naming a registered function -/
def Registered (c : Cache) : Query → Prop
  | .fitness => True
  | .fitnessFor f => f ∈ c.funcs
  | .isCovered f => f ∈ c.funcs
  | .coverage => True
  | .coverageFor f => f ∈ c.covFuncs

theorem registered_iff (c : Cache) (q : Query) : registered c q = true ↔ Registered c q := by
  cases q <;> simp [registered, Registered]

/-- every getter returns the value recomputed from scratch and never fails for a registered function -/
theorem cacheQuery_spec (L : Laws H truth Good) {S : Sem R} (hS : S.Consistent) {V : Ver} (hV : V.keepFlag = true)
    (q : Query) (x : χ) (c : Cache) (hg : Good x) (hr : RegInv c)
    (hf : H.changed x = false → CacheFresh S c (truth x)) (hq : Registered c q) :
    Good (cacheQuery H S V q x c).1.1 ∧ truth (cacheQuery H S V q x c).1.1 = truth x ∧
    CacheFresh S (cacheQuery H S V q x c).1.2 (truth x) ∧ RegInv (cacheQuery H S V q x c).1.2 ∧
    (cacheQuery H S V q x c).1.2.funcs = c.funcs ∧ (cacheQuery H S V q x c).1.2.covFuncs = c.covFuncs ∧
    (cacheQuery H S V q x c).2 = expected S (truth x) c.funcs c.covFuncs q := by
  cases q with
  | fitness =>
    obtain ⟨a1, a2, a3, a4, a5, a6, a7⟩ := checkCache_spec L hS hV .fit none x c hg hr hf (by simp)
    refine ⟨a1, a2, a3, a4, a5, a6, ?_⟩
    simp only [cacheQuery, expected]
    obtain ⟨n1, _, _, s1, _, _⟩ := a4
    have hall : ∀ f ∈ c.funcs, f ∈ keys (checkCache H S V .fit none x c).2.fitC := by
      intro f hf'
      have := a7 f (by simpa [todo, Cache.regs] using hf')
      simpa [Cache.has, lookup_isSome_iff] using this
    have hp := keys_perm_dedup n1 (fun f h => a5 ▸ s1 f h) hall
    rw [vals_eq_of_fresh (g := fun f => S.fit f (truth x)) a3.1]
    rw [(hp.map _).sum_nat]
  | fitnessFor f =>
    obtain ⟨a1, a2, a3, a4, a5, a6, a7⟩ := checkCache_spec L hS hV .fit (some f) x c hg hr hf
      (by intro g hg'; cases hg'; exact hq)
    refine ⟨a1, a2, a3, a4, a5, a6, ?_⟩
    have := a7 f (by simp [todo])
    simp only [Cache.has] at this
    simp only [cacheQuery, expected]
    cases hl : lookup f (checkCache H S V .fit (some f) x c).2.fitC with
    | none => rw [hl] at this; simp at this
    | some v => have h3 := a3.1 _ (lookup_mem hl); simp at h3; simp [outVal, h3]
  | isCovered f =>
    obtain ⟨a1, a2, a3, a4, a5, a6, a7⟩ := checkCache_spec L hS hV .isCov (some f) x c hg hr hf
      (by intro g hg'; cases hg'; exact hq)
    refine ⟨a1, a2, a3, a4, a5, a6, ?_⟩
    have := a7 f (by simp [todo])
    simp only [Cache.has] at this
    simp only [cacheQuery, expected]
    cases hl : lookup f (checkCache H S V .isCov (some f) x c).2.isC with
    | none => rw [hl] at this; simp at this
    | some v => have h3 := a3.2.1 _ (lookup_mem hl); simp at h3; simp [outFlag, h3]
  | coverage =>
    obtain ⟨a1, a2, a3, a4, a5, a6, a7⟩ := checkCache_spec L hS hV .cov none x c hg hr hf (by simp)
    refine ⟨a1, a2, a3, a4, a5, a6, ?_⟩
    simp only [cacheQuery, expected]
    obtain ⟨_, _, n3, _, _, s3⟩ := a4
    have hall : ∀ f ∈ c.covFuncs, f ∈ keys (checkCache H S V .cov none x c).2.covC := by
      intro f hf'
      have := a7 f (by simpa [todo, Cache.regs] using hf')
      simpa [Cache.has, lookup_isSome_iff] using this
    have hp := keys_perm_dedup n3 (fun f h => a6 ▸ s3 f h) hall
    by_cases he : c.covFuncs = []
    · have : (checkCache H S V .cov none x c).2.covC = [] := by
        cases hcc : (checkCache H S V .cov none x c).2.covC with
        | nil => rfl
        | cons p l =>
          have := s3 p.1 (by simp [hcc, keys])
          rw [a6, he] at this; simp at this
      simp [this, he]
    · have hne : (checkCache H S V .cov none x c).2.covC ≠ [] := by
        intro hcc
        obtain ⟨g, gs, hgs⟩ := List.exists_cons_of_ne_nil he
        have := hall g (by simp [hgs])
        simp [hcc, keys] at this
      have h1 : (checkCache H S V .cov none x c).2.covC.isEmpty = false := by
        cases hcc : (checkCache H S V .cov none x c).2.covC with
        | nil => exact absurd hcc hne
        | cons _ _ => rfl
      have h2 : c.covFuncs.isEmpty = false := by
        cases hcf : c.covFuncs with
        | nil => exact absurd hcf he
        | cons _ _ => rfl
      simp only [h1, h2, Bool.false_eq_true, if_false]
      rw [vals_eq_of_fresh (g := fun f => S.cov f (truth x)) a3.2.2, (hp.map _).sum_nat,
        ← length_keys, hp.length_eq]
  | coverageFor f =>
    obtain ⟨a1, a2, a3, a4, a5, a6, a7⟩ := checkCache_spec L hS hV .cov (some f) x c hg hr hf
      (by intro g hg'; cases hg'; exact hq)
    refine ⟨a1, a2, a3, a4, a5, a6, ?_⟩
    have := a7 f (by simp [todo])
    simp only [Cache.has] at this
    simp only [cacheQuery, expected]
    cases hl : lookup f (checkCache H S V .cov (some f) x c).2.covC with
    | none => rw [hl] at this; simp at this
    | some v => have h3 := a3.2.2 _ (lookup_mem hl); simp at h3; simp [outVal, h3]

end PynguinModel.Cache
