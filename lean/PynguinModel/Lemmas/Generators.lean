import PynguinModel.Model.Generators
import PynguinModel.Lemmas.TypesDist
/-!
# Lemmas for C26 (generator providers, memoised type queries)

* `tyBeq_eq`, `Query.beq_eq`: the structural equality used as dict / cache key is sound;
* `Fresh`: every memo entry agrees with the current graph — kept by `ask`, established by the repaired `addSubclassEdge`;
* `sub_withMemo_fresh`, `dist_withMemo_fresh`: the visitors' recursion through a fresh memo equals the plain recursion;
* `maybe_imp_dist_defined`: the converse of C25's `dist_defined_imp_maybe` on the class where it holds;
* membership characterisations of `offeredHeuristic` / `offeredRandom`, the `add` invariant.
-/
namespace PynguinModel.Generators
open PynguinModel.Types

/-! ## structural equality -/

mutual
theorem tyBeq_eq : ∀ (a b : Ty), tyBeq a b = true → a = b
  | .any, b, h => by cases b <;> simp [tyBeq] at h ⊢
  | .none, b, h => by cases b <;> simp [tyBeq] at h ⊢
  | .inst c as, b, h => by
    cases b with
    | inst d bs =>
      simp only [tyBeq, Bool.and_eq_true, beq_iff_eq] at h
      rw [h.1, tyBeqL_eq as bs h.2]
    | _ => simp [tyBeq] at h
  | .tuple u as, b, h => by
    cases b with
    | tuple v bs =>
      simp only [tyBeq, Bool.and_eq_true, beq_iff_eq] at h
      rw [h.1, tyBeqL_eq as bs h.2]
    | _ => simp [tyBeq] at h
  | .union as, b, h => by
    cases b with
    | union bs =>
      simp only [tyBeq] at h
      rw [tyBeqL_eq as bs h]
    | _ => simp [tyBeq] at h
theorem tyBeqL_eq : ∀ (as bs : List Ty), tyBeqL as bs = true → as = bs
  | [], bs, h => by cases bs <;> simp [tyBeqL] at h ⊢
  | a :: as, bs, h => by
    cases bs with
    | nil => simp [tyBeqL] at h
    | cons b bs =>
      simp only [tyBeqL, Bool.and_eq_true] at h
      rw [tyBeq_eq a b h.1, tyBeqL_eq as bs h.2]
end

theorem Query.beq_eq {p q : Query} (h : p.beq q = true) : p = q := by
  cases p <;> cases q <;> simp only [Query.beq, Bool.and_eq_true, beq_iff_eq, Bool.false_eq_true] at h
  · rw [h.1, h.2]
  · rw [tyBeq_eq _ _ h.1, tyBeq_eq _ _ h.2]
  · rw [tyBeq_eq _ _ h.1, tyBeq_eq _ _ h.2]
  · rw [tyBeq_eq _ _ h.1, tyBeq_eq _ _ h.2]
  · rw [h]
  · rw [h]

/-! ## the memo invariant -/

theorem Memo.find_mem {m : Memo} {q : Query} {a : Answer} (h : m.find q = some a) : (q, a) ∈ m := by
  induction m with
  | nil => simp [Memo.find] at h
  | cons e rest ih =>
    obtain ⟨k, b⟩ := e
    simp only [Memo.find] at h
    split at h
    · rename_i hk
      cases h
      rw [Query.beq_eq hk]; simp
    · exact List.mem_cons_of_mem _ (ih h)

/-- every memoised answer is what a recomputation on the current graph gives -/
def Fresh (anyD : Nat) (s : St) : Prop := ∀ q a, (q, a) ∈ s.memo → a = eval s.g anyD q

theorem fresh_empty (anyD : Nat) (g : Graph) : Fresh anyD ⟨g, []⟩ := by
  intro q a h; cases h

theorem ask_graph (anyD : Nat) (s : St) (q : Query) : (ask anyD s q).1.g = s.g := by
  unfold ask; split <;> rfl

theorem ask_answer (anyD : Nat) (s : St) (q : Query) (h : Fresh anyD s) : (ask anyD s q).2 = eval s.g anyD q := by
  unfold ask
  split
  · rename_i a ha; exact h q a (Memo.find_mem ha)
  · rfl

theorem ask_fresh (anyD : Nat) (s : St) (q : Query) (h : Fresh anyD s) : Fresh anyD (ask anyD s q).1 := by
  unfold ask
  split
  · exact h
  · intro q' a' hm
    simp only [List.mem_cons, Prod.mk.injEq] at hm
    rcases hm with ⟨rfl, rfl⟩ | hm
    · rfl
    · exact h q' a' hm

theorem edge_fresh (anyD : Nat) (s : St) (a b : Cls) : Fresh anyD (addSubclassEdge s a b) := by
  intro q x h; cases h

theorem run_fresh (anyD : Nat) : ∀ (ops : List Op) (s : St), Fresh anyD s → Fresh anyD (run anyD false s ops).1
  | [], _, h => h
  | .edge a b :: ops, s, _ => by
    simp only [run]; exact run_fresh anyD ops _ (edge_fresh anyD s a b)
  | .ask q :: ops, s, h => by
    simp only [run]; exact run_fresh anyD ops _ (ask_fresh anyD s q h)

/-- the graph after a history: all edges of the history added in order -/
def finalGraph : Graph → List Op → Graph
  | g, [] => g
  | g, .edge a b :: ops => finalGraph (addEdge g a b) ops
  | g, .ask _ :: ops => finalGraph g ops

theorem run_graph (anyD : Nat) (stale : Bool) : ∀ (ops : List Op) (s : St),
    (run anyD stale s ops).1.g = finalGraph s.g ops
  | [], _ => rfl
  | .edge a b :: ops, s => by
    simp only [run, finalGraph]
    rw [run_graph anyD stale ops]
    cases stale <;> rfl
  | .ask q :: ops, s => by
    simp only [run, finalGraph]
    rw [run_graph anyD stale ops, ask_graph]

/-- the answers given along a history, paired with the graph at the moment of the question -/
def expected (anyD : Nat) : Graph → List Op → List Answer
  | _, [] => []
  | g, .edge a b :: ops => expected anyD (addEdge g a b) ops
  | g, .ask q :: ops => eval g anyD q :: expected anyD g ops

theorem run_answers (anyD : Nat) : ∀ (ops : List Op) (s : St), Fresh anyD s →
    (run anyD false s ops).2 = expected anyD s.g ops
  | [], _, _ => rfl
  | .edge a b :: ops, s, _ => by
    simp only [run, expected]
    exact run_answers anyD ops _ (edge_fresh anyD s a b)
  | .ask q :: ops, s, h => by
    simp only [run, expected]
    rw [ask_answer anyD s q h, run_answers anyD ops _ (ask_fresh anyD s q h), ask_graph]

/-! ## recursion through a fresh memo -/

theorem subM_unfold (g : Graph) (u v : Bool) (look : Ty → Ty → Option Bool) (L R : Ty) :
    subM g u v look L R = subStep g u v (withMemo look (subM g u v look)) L R := by
  unfold subM
  refine fixp_unfold (fun rec => subStep g u v (withMemo look rec)) false ?_ L R
  intro r1 r2 L R h
  apply subStep_congr
  intro L' R' hlt
  unfold withMemo
  split
  · rfl
  · exact h L' R' hlt

theorem distM_unfold (g : Graph) (anyD : Nat) (look : Ty → Ty → Option (Option Nat)) (T S : Ty) :
    distM g anyD look T S = distStep g anyD (withMemo look (distM g anyD look)) T S := by
  unfold distM
  refine fixp_unfold (fun rec => distStep g anyD (withMemo look rec)) none ?_ T S
  intro r1 r2 L R h
  apply distStep_congr
  intro L' R' hlt
  unfold withMemo
  split
  · rfl
  · exact h L' R' hlt

/-- `is_subtype` / `is_maybe_subtype` whose recursive calls are served from a memo that agrees with the current
graph return what the plain recursion returns. -/
theorem sub_withMemo_fresh (g : Graph) (u v : Bool) (look : Ty → Ty → Option Bool)
    (hf : ∀ l r a, look l r = some a → a = sub g u v l r) :
    ∀ (n : Nat) (L R : Ty), L.size + R.size ≤ n → subM g u v look L R = sub g u v L R := by
  intro n
  induction n with
  | zero => intro L _ h; have := L.size_pos; omega
  | succ n ih =>
    intro L R hn
    rw [subM_unfold, sub_unfold]
    apply subStep_congr
    intro L' R' hlt
    unfold withMemo
    split
    · rename_i a ha; exact hf L' R' a ha
    · exact ih L' R' (by omega)

theorem dist_withMemo_fresh (g : Graph) (anyD : Nat) (look : Ty → Ty → Option (Option Nat))
    (hf : ∀ t s a, look t s = some a → a = dist g anyD t s) :
    ∀ (n : Nat) (T S : Ty), T.size + S.size ≤ n → distM g anyD look T S = dist g anyD T S := by
  intro n
  induction n with
  | zero => intro T _ h; have := T.size_pos; omega
  | succ n ih =>
    intro T S hn
    rw [distM_unfold, dist_unfold]
    apply distStep_congr
    intro L' R' hlt
    unfold withMemo
    split
    · rename_i a ha; exact hf L' R' a ha
    · exact ih L' R' (by omega)

/-! ## maybe-subtype ⇒ distance defined (where it holds) -/

theorem genL_iff {ts : List Ty} : genL ts = true ↔ ∀ t ∈ ts, genT t = true := by
  induction ts with
  | nil => simp [genL]
  | cons a as ih => simp [genL, ih]

theorem gen_union {is : List Ty} : genT (.union is) = true ↔ ∀ t ∈ is, genT t = true := by
  simp [genT, genL_iff]

theorem minOpt_isSome_of_mem {l : List (Option Nat)} {k : Nat} (h : some k ∈ l) : (minOpt l).isSome = true := by
  induction l with
  | nil => cases h
  | cons x xs ih =>
    cases x with
    | none =>
      simp only [minOpt]
      cases h with
      | tail _ h' => exact ih h'
    | some y => simp only [minOpt]; cases minOpt xs <;> rfl

/-- with the lenient union rule, being below a union means being below one of its members -/
theorem maybe_union_right_exists (g : Graph) (v : Bool) : ∀ (n : Nat) (S : Ty) (ts : List Ty), S.size ≤ n →
    sub g true v S (.union ts) = true → ∃ t ∈ ts, sub g true v S t = true := by
  intro n
  induction n with
  | zero => intro S _ h; have := S.size_pos; omega
  | succ n ih =>
    intro S ts hn h
    by_cases hu : S.isUnion = true
    · cases S with
      | union ss =>
        rw [sub_union_left g true v ss _ (by intro h'; cases h')] at h
        simp only [if_true, List.any_eq_true] at h
        obtain ⟨l, hl, hlt⟩ := h
        have := size_le_sizeL hl; simp only [Ty.size] at hn
        obtain ⟨t, ht, hlt'⟩ := ih l ts (by omega) hlt
        refine ⟨t, ht, ?_⟩
        by_cases hta : t = .any
        · subst hta; exact sub_any_right g _ _ _
        · rw [sub_union_left g true v ss t hta]
          simp only [if_true, List.any_eq_true]
          exact ⟨l, hl, hlt'⟩
      | _ => simp [Ty.isUnion] at hu
    · rw [sub_union_right g true v S ts (by simpa using hu)] at h
      simpa [List.any_eq_true] using h

/-- If the produced type `S` may be a subtype of the requested type `T`, the distance is defined — for requested
types without `None`/tuple parts, when one of the two types has no type arguments. -/
theorem maybe_imp_dist_defined (g : Graph) (anyD : Nat) : ∀ (n : Nat) (T S : Ty), T.size + S.size ≤ n →
    genT T = true → (T.noArgs = true ∨ S.noArgs = true) → sub g true false S T = true →
    (dist g anyD T S).isSome = true := by
  intro n
  induction n with
  | zero => intro T _ h; have := T.size_pos; omega
  | succ n ih =>
    intro T S hn hg hna h
    rw [dist_unfold]
    cases T with
    | any => rfl
    | none => simp [genT] at hg
    | tuple u as => simp [genT] at hg
    | union ts =>
      simp only [distStep]
      obtain ⟨t, ht, hst⟩ := maybe_union_right_exists g false S.size S ts (Nat.le_refl _) h
      have := size_le_sizeL ht; simp only [Ty.size] at hn
      have hd := ih t S (by omega) (gen_union.mp hg t ht)
        (hna.imp (fun h' => noArgs_union.mp h' t ht) id) hst
      obtain ⟨k, hk⟩ := Option.isSome_iff_exists.mp hd
      exact minOpt_isSome_of_mem (k := k) (List.mem_map.mpr ⟨t, ht, hk⟩)
    | inst c as =>
      cases S with
      | any => rfl
      | none =>
        have := sub_none_left g true false (.inst c as) (by intro h'; cases h') rfl h
        cases this
      | tuple u bs =>
        obtain ⟨_, _, h'⟩ := sub_tuple_left g true false u bs (.inst c as) (by intro h'; cases h') rfl h
        cases h'
      | union ss =>
        simp only [distStep]
        rw [sub_union_left g true false ss _ (by intro h'; cases h')] at h
        simp only [if_true, List.any_eq_true] at h
        obtain ⟨s, hs, hsT⟩ := h
        have := size_le_sizeL hs; simp only [Ty.size] at hn
        have hd := ih (.inst c as) s (by simp only [Ty.size]; omega) hg
          (hna.imp id (fun h' => noArgs_union.mp h' s hs)) hsT
        obtain ⟨k, hk⟩ := Option.isSome_iff_exists.mp hd
        exact minOpt_isSome_of_mem (k := k) (List.mem_map.mpr ⟨s, hs, hk⟩)
      | inst d bs =>
        rw [sub_inst_inst] at h
        simp only [Bool.and_eq_true] at h
        have hemp : (!as.isEmpty && !bs.isEmpty) = false := by
          rcases hna with h' | h'
          · have : as = [] := by simpa [Ty.noArgs] using h'
            subst this; rfl
          · have : bs = [] := by simpa [Ty.noArgs] using h'
            subst this; simp
        simp only [distStep, hemp]
        exact h.1

/-! ## membership in the offered sets -/

theorem mem_allGens {tbl : Table} {i : Nat} : i ∈ allGens tbl ↔ ∃ p ∈ tbl, i ∈ p.2 := by
  simp [allGens, List.mem_flatMap]

theorem mem_offeredRandom {g : Graph} {tbl : Table} {T : Ty} {i : Nat} :
    i ∈ offeredRandom g tbl T ↔ ∃ p ∈ tbl, i ∈ p.2 ∧ isMaybeSubtype g p.1 T = true := by
  by_cases hT : T = .any
  · subst hT
    simp only [offeredRandom, mem_allGens]
    constructor
    · rintro ⟨p, hp, hi⟩; exact ⟨p, hp, hi, sub_any_right g _ _ _⟩
    · rintro ⟨p, hp, hi, _⟩; exact ⟨p, hp, hi⟩
  · have : offeredRandom g tbl T = (tbl.flatMap fun p => if isMaybeSubtype g p.1 T then p.2 else []).eraseDups := by
      cases T <;> first | exact absurd rfl hT | rfl
    rw [this, List.mem_eraseDups, List.mem_flatMap]
    constructor
    · rintro ⟨p, hp, hi⟩
      split at hi
      · rename_i hm; exact ⟨p, hp, hi, hm⟩
      · cases hi
    · rintro ⟨p, hp, hi, hm⟩
      exact ⟨p, hp, by simp [hm, hi]⟩

theorem mem_offeredHeuristic {g : Graph} {anyD : Nat} {prims : List Cls} {tbl : Table} {T : Ty} {i : Nat}
    {d : Option Nat} (hT : T ≠ .any) :
    (i, d) ∈ offeredHeuristic g anyD prims tbl T ↔
      isPrimitive prims T = false ∧ ∃ p ∈ tbl, i ∈ p.2 ∧ d.isSome = true ∧ dist g anyD T p.1 = d := by
  have : offeredHeuristic g anyD prims tbl T =
      if isPrimitive prims T then [] else tbl.flatMap fun p =>
        match dist g anyD T p.1 with
        | some d => p.2.map (fun i => (i, some d))
        | none => [] := by
    cases T <;> first | exact absurd rfl hT | rfl
  rw [this]
  by_cases hp : isPrimitive prims T = true
  · simp [hp]
  · simp only [hp, Bool.false_eq_true, if_false, List.mem_flatMap]
    constructor
    · rintro ⟨p, hpm, hi⟩
      refine ⟨by simp, p, hpm, ?_⟩
      split at hi
      · rename_i d' hd
        simp only [List.mem_map, Prod.mk.injEq] at hi
        obtain ⟨j, hj, rfl, rfl⟩ := hi
        exact ⟨hj, rfl, hd⟩
      · cases hi
    · rintro ⟨_, p, hpm, hi, hds, hd⟩
      refine ⟨p, hpm, ?_⟩
      obtain ⟨k, rfl⟩ := Option.isSome_iff_exists.mp hds
      rw [hd]
      exact List.mem_map.mpr ⟨i, hi, rfl⟩

/-! ## `add` never stores `None` or a primitive type -/

theorem add1_keys {tbl : Table} {S : Ty} {i : Nat} {p : Ty × List Nat} (h : p ∈ tbl.add1 S i) :
    p.1 = S ∨ ∃ q ∈ tbl, q.1 = p.1 := by
  induction tbl with
  | nil =>
    simp only [Table.add1, List.mem_singleton] at h
    subst h; exact Or.inl rfl
  | cons e rest ih =>
    obtain ⟨S', ids⟩ := e
    simp only [Table.add1] at h
    split at h
    · simp only [List.mem_cons] at h
      rcases h with rfl | h
      · exact Or.inr ⟨(S', ids), by simp, rfl⟩
      · exact Or.inr ⟨p, by simp [h], rfl⟩
    · simp only [List.mem_cons] at h
      rcases h with rfl | h
      · exact Or.inr ⟨(S', ids), by simp, rfl⟩
      · rcases ih h with h' | ⟨q, hq, hqe⟩
        · exact Or.inl h'
        · exact Or.inr ⟨q, by simp [hq], hqe⟩

def KeysOK (prims : List Cls) (tbl : Table) : Prop :=
  ∀ p ∈ tbl, isNone p.1 = false ∧ isPrimitive prims p.1 = false

theorem add_keysOK {prims : List Cls} {tbl : Table} (h : KeysOK prims tbl) (ret : Ty) (i : Nat) :
    KeysOK prims (add prims tbl ret i) := by
  unfold add
  split
  · exact h
  · rename_i hc
    simp only [Bool.or_eq_true, not_or, Bool.not_eq_true] at hc
    intro p hp
    rcases add1_keys hp with h' | ⟨q, hq, hqe⟩
    · rw [h']; exact hc
    · rw [← hqe]; exact h q hq

theorem foldl_add_keysOK {prims : List Cls} : ∀ (ops : List (Ty × Nat)) (tbl : Table), KeysOK prims tbl →
    KeysOK prims (ops.foldl (fun t p => add prims t p.1 p.2) tbl)
  | [], _, h => h
  | op :: ops, tbl, h => by
    simp only [List.foldl_cons]
    exact foldl_add_keysOK ops _ (add_keysOK h op.1 op.2)

/-! ## distance defined ⇔ may be a subtype, on the class where both directions hold -/

theorem dist_isSome_iff_maybe (g : Graph) (anyD : Nat) (T S : Ty) (hT : T.wf g = true) (hS : S.wf g = true)
    (hg : genT T = true) (hna : T.noArgs = true ∨ S.noArgs = true) :
    (dist g anyD T S).isSome = true ↔ isMaybeSubtype g S T = true := by
  constructor
  · intro h
    obtain ⟨k, hk⟩ := Option.isSome_iff_exists.mp h
    have := dist_imp_cov_aux g anyD _ T S k (Nat.le_refl _) hT hS hk
    simp only [isMaybeSubtype]
    rw [← sub_cov_irrelevant_aux g true _ S T (Nat.le_refl _) hna.symm]; exact this
  · intro h
    exact maybe_imp_dist_defined g anyD _ T S (Nat.le_refl _) hg hna h

/-! ## monotonicity under edge insertion (code as found: memoised `True`s stay correct) -/

theorem any_mono_mem {l : List Ty} {f g : Ty → Bool} (h : ∀ x ∈ l, f x = true → g x = true) :
    l.any f = true → l.any g = true := by
  simp only [List.any_eq_true]; rintro ⟨x, hx, hf⟩; exact ⟨x, hx, h x hx hf⟩

theorem all_mono_mem {l : List Ty} {f g : Ty → Bool} (h : ∀ x ∈ l, f x = true → g x = true) :
    l.all f = true → l.all g = true := by
  simp only [List.all_eq_true]; intro hf x hx; exact h x hx (hf x hx)

theorem all2_mono {f g : Ty → Ty → Bool} : ∀ {as bs : List Ty},
    (∀ a ∈ as, ∀ b ∈ bs, f a b = true → g a b = true) → all2 f as bs = true → all2 g as bs = true
  | [], [], _, _ => rfl
  | [], _ :: _, _, h => by simp [all2] at h
  | _ :: _, [], _, h => by simp [all2] at h
  | a :: as, b :: bs, hm, h => by
    simp only [all2, Bool.and_eq_true] at h ⊢
    exact ⟨hm a (by simp) b (by simp) h.1, all2_mono (fun x hx y hy => hm x (by simp [hx]) y (by simp [hy])) h.2⟩

theorem isSubclass_addEdge (g : Graph) (a b l r : Cls) (h : isSubclass g l r = true) :
    isSubclass (addEdge g a b) l r = true := by
  rw [isSubclass_iff] at h ⊢
  exact Reach.mono (by intro e he; simp [addEdge, he]) h

/-- `is_subtype` / `is_maybe_subtype` only gain `True` answers when an edge is added. -/
theorem sub_addEdge_mono (g : Graph) (a b : Cls) (u v : Bool) : ∀ (n : Nat) (L R : Ty), L.size + R.size ≤ n →
    sub g u v L R = true → sub (addEdge g a b) u v L R = true := by
  intro n
  induction n with
  | zero => intro L _ h; have := L.size_pos; omega
  | succ n ih =>
    intro L R hn h
    by_cases hRa : R = .any
    · subst hRa; exact sub_any_right _ _ _ _
    by_cases hLu : L.isUnion = true
    · cases L with
      | union ls =>
        rw [sub_union_left _ _ _ _ _ hRa] at h ⊢
        have key : ∀ l ∈ ls, sub g u v l R = true → sub (addEdge g a b) u v l R = true := by
          intro l hl hs
          have := size_le_sizeL hl; simp only [Ty.size] at hn
          exact ih l R (by omega) hs
        cases u
        · simp only [Bool.false_eq_true, if_false] at h ⊢; exact all_mono_mem key h
        · simp only [if_true] at h ⊢; exact any_mono_mem key h
      | _ => simp [Ty.isUnion] at hLu
    have hLu' : L.isUnion = false := by simpa using hLu
    by_cases hRu : R.isUnion = true
    · cases R with
      | union rs =>
        rw [sub_union_right _ _ _ _ _ hLu'] at h ⊢
        refine any_mono_mem ?_ h
        intro r hr hs
        have := size_le_sizeL hr; simp only [Ty.size] at hn
        exact ih L r (by omega) hs
      | _ => simp [Ty.isUnion] at hRu
    have hRu' : R.isUnion = false := by simpa using hRu
    cases L with
    | union ls => simp [Ty.isUnion] at hLu'
    | any =>
      rw [sub_unfold]
      cases R <;> first | rfl | exact absurd rfl hRa | (simp [Ty.isUnion] at hRu'; done)
    | none =>
      have := sub_none_left g u v R hRa hRu' h
      subst this; rw [sub_unfold]; rfl
    | tuple k as =>
      obtain ⟨k', bs, rfl⟩ := sub_tuple_left g u v k as R hRa hRu' h
      rw [sub_tuple_tuple] at h ⊢
      simp only [Bool.and_eq_true] at h ⊢
      refine ⟨h.1, all2_mono ?_ h.2⟩
      intro x hx y hy hs
      have := size_le_sizeL hx; have := size_le_sizeL hy; simp only [Ty.size] at hn
      exact ih x y (by omega) hs
    | inst c as =>
      obtain ⟨d, bs, rfl⟩ := sub_inst_left g u v c as R hRa hRu' h
      rw [sub_inst_inst] at h ⊢
      simp only [Bool.and_eq_true] at h ⊢
      refine ⟨isSubclass_addEdge g a b c d h.1, ?_⟩
      have ha : ∀ x, arity (addEdge g a b) x = arity g x := fun _ => rfl
      simp only [ha]
      have h2 := h.2
      split at h2
      · rw [if_pos (by assumption)]
        refine all2_mono ?_ h2
        intro x hx y hy hs
        have := size_le_sizeL hx; have := size_le_sizeL hy; simp only [Ty.size] at hn
        simp only [Bool.and_eq_true, Bool.or_eq_true] at hs ⊢
        exact ⟨ih x y (by omega) hs.1, hs.2.imp id (fun h' => ih y x (by omega) h')⟩
      · rw [if_neg (by assumption)]


theorem eval_addEdge_true (g : Graph) (anyD : Nat) (a b : Cls) (q : Query) (h : eval g anyD q = .b true) :
    eval (addEdge g a b) anyD q = .b true := by
  cases q with
  | subclass l r =>
    simp only [eval, Answer.b.injEq] at h ⊢; exact isSubclass_addEdge g a b l r h
  | sub l r =>
    simp only [eval, Answer.b.injEq, isSubtype] at h ⊢; exact sub_addEdge_mono g a b false false _ l r (Nat.le_refl _) h
  | maybe l r =>
    simp only [eval, Answer.b.injEq, isMaybeSubtype] at h ⊢
    exact sub_addEdge_mono g a b true false _ l r (Nat.le_refl _) h
  | dist t s => simp [eval] at h
  | subclasses c => simp [eval] at h
  | superclasses c => simp [eval] at h

/-- every memoised `True` is (still) correct on the current graph -/
def TrueOK (anyD : Nat) (s : St) : Prop := ∀ q, (q, Answer.b true) ∈ s.memo → eval s.g anyD q = .b true

theorem ask_trueOK (anyD : Nat) (s : St) (q : Query) (h : TrueOK anyD s) : TrueOK anyD (ask anyD s q).1 := by
  unfold ask
  split
  · exact h
  · intro q' hm
    simp only [List.mem_cons, Prod.mk.injEq] at hm
    rcases hm with ⟨rfl, he⟩ | hm
    · exact he.symm
    · exact h q' hm

theorem stale_edge_trueOK (anyD : Nat) (s : St) (a b : Cls) (h : TrueOK anyD s) :
    TrueOK anyD (addSubclassEdgeStale s a b) := by
  intro q hm
  exact eval_addEdge_true s.g anyD a b q (h q hm)

theorem run_stale_trueOK (anyD : Nat) : ∀ (ops : List Op) (s : St), TrueOK anyD s → TrueOK anyD (run anyD true s ops).1
  | [], _, h => h
  | .edge a b :: ops, s, h => by
    simp only [run, if_true]; exact run_stale_trueOK anyD ops _ (stale_edge_trueOK anyD s a b h)
  | .ask q :: ops, s, h => by
    simp only [run]; exact run_stale_trueOK anyD ops _ (ask_trueOK anyD s q h)

theorem ask_true_correct (anyD : Nat) (s : St) (q : Query) (h : TrueOK anyD s)
    (ha : (ask anyD s q).2 = .b true) : eval s.g anyD q = .b true := by
  unfold ask at ha
  split at ha
  · rename_i a hf
    simp only at ha; subst ha
    exact h q (Memo.find_mem hf)
  · exact ha

/-! ## histories of the code as found -/

theorem run_edges_stale (anyD : Nat) : ∀ (es : List (Cls × Cls)) (g : Graph) (rest : List Op),
    run anyD true ⟨g, []⟩ (es.map (fun e => Op.edge e.1 e.2) ++ rest) =
      run anyD true ⟨es.foldl (fun g e => addEdge g e.1 e.2) g, []⟩ rest
  | [], _, _ => rfl
  | e :: es, g, rest => by
    simp only [List.map_cons, List.cons_append, run, if_true, List.foldl_cons]
    exact run_edges_stale anyD es (addEdge g e.1 e.2) rest

theorem run_asks (anyD : Nat) (st : Bool) : ∀ (qs : List Query) (s : St), Fresh anyD s →
    (run anyD st s (qs.map Op.ask)).2 = qs.map (eval s.g anyD)
  | [], _, _ => rfl
  | q :: qs, s, h => by
    simp only [List.map_cons, run]
    rw [ask_answer anyD s q h, run_asks anyD st qs _ (ask_fresh anyD s q h), ask_graph]

/-! ## provider look-ups through the memoised type queries -/

theorem askAll_spec (anyD : Nat) : ∀ (qs : List Query) (s : St), Fresh anyD s →
    (askAll anyD s qs).2 = qs.map (eval s.g anyD) ∧ Fresh anyD (askAll anyD s qs).1 ∧ (askAll anyD s qs).1.g = s.g
  | [], _, h => ⟨rfl, h, rfl⟩
  | q :: qs, s, h => by
    have ih := askAll_spec anyD qs _ (ask_fresh anyD s q h)
    rw [ask_graph] at ih
    simp only [askAll, List.map_cons]
    exact ⟨by rw [ask_answer anyD s q h, ih.1], ih.2.1, ih.2.2⟩

theorem heuristicFromAnswers_eval (g : Graph) (anyD : Nat) (T : Ty) : ∀ tbl : Table,
    heuristicFromAnswers tbl ((heuristicQueries tbl T).map (eval g anyD)) =
      tbl.flatMap fun p =>
        match dist g anyD T p.1 with
        | some d => p.2.map (fun i => (i, some d))
        | none => []
  | [] => rfl
  | p :: tbl => by
    have ih := heuristicFromAnswers_eval g anyD T tbl
    simp only [heuristicQueries, List.map_cons, eval, List.flatMap_cons] at ih ⊢
    cases hd : dist g anyD T p.1 with
    | none => simp only [heuristicFromAnswers]; rw [ih]; rfl
    | some d => simp only [heuristicFromAnswers]; rw [ih]

theorem randomFromAnswers_eval (g : Graph) (anyD : Nat) (T : Ty) : ∀ tbl : Table,
    randomFromAnswers tbl ((randomQueries tbl T).map (eval g anyD)) =
      tbl.flatMap fun p => if isMaybeSubtype g p.1 T then p.2 else []
  | [] => rfl
  | p :: tbl => by
    have ih := randomFromAnswers_eval g anyD T tbl
    simp only [randomQueries, List.map_cons, eval, List.flatMap_cons] at ih ⊢
    cases hd : isMaybeSubtype g p.1 T with
    | false => simp only [randomFromAnswers]; rw [ih]; rfl
    | true => simp only [randomFromAnswers]; rw [ih]; rfl

/-- with a memo that agrees with the graph, the heuristic provider's look-up through the memo hands out exactly
`offeredHeuristic` of the current graph (same generators, same stored distances), and leaves such a memo behind -/
theorem offeredHeuristicM_fresh (anyD : Nat) (prims : List Cls) (tbl : Table) (s : St) (T : Ty) (h : Fresh anyD s) :
    (offeredHeuristicM anyD prims tbl s T).2 = offeredHeuristic s.g anyD prims tbl T ∧
    Fresh anyD (offeredHeuristicM anyD prims tbl s T).1 ∧ (offeredHeuristicM anyD prims tbl s T).1.g = s.g := by
  have sp := askAll_spec anyD (heuristicQueries tbl T) s h
  cases T with
  | any => exact ⟨rfl, h, rfl⟩
  | _ =>
    simp only [offeredHeuristicM, offeredHeuristic]
    split
    · exact ⟨rfl, h, rfl⟩
    · exact ⟨(by simp only [sp.1, heuristicFromAnswers_eval] <;> rfl), sp.2.1, sp.2.2⟩

theorem offeredRandomM_fresh (anyD : Nat) (tbl : Table) (s : St) (T : Ty) (h : Fresh anyD s) :
    (offeredRandomM anyD tbl s T).2 = offeredRandom s.g tbl T ∧
    Fresh anyD (offeredRandomM anyD tbl s T).1 ∧ (offeredRandomM anyD tbl s T).1.g = s.g := by
  have sp := askAll_spec anyD (randomQueries tbl T) s h
  cases T with
  | any => exact ⟨rfl, h, rfl⟩
  | _ =>
    simp only [offeredRandomM, offeredRandom]
    exact ⟨(by simp only [sp.1, randomFromAnswers_eval] <;> rfl), sp.2.1, sp.2.2⟩

end PynguinModel.Generators
