import PynguinModel.Lemmas.SetCoverSummary
/-!
Helper lemmas for C21, third part: `_abort_after_first_timeout` does not change the outcome of
`_handle_add_assertions` (column-wise characterisation of the summary loop).
-/
namespace PynguinModel.SetCover

/-- "this result is a timeout" -/
def isTO (r : Option Res) : Bool := match r with | some x => x.timeout | none => false

theorem abort_cons (r : Option Res) (rest : List (Option Res)) :
    abortAfterFirstTimeout (r :: rest) =
      r :: (if isTO r then rest.map (fun _ => none) else abortAfterFirstTimeout rest) := by
  cases r <;> rfl

theorem length_abort (c : List (Option Res)) : (abortAfterFirstTimeout c).length = c.length := by
  induction c with
  | nil => rfl
  | cons r rest ih =>
    rw [abort_cons]
    by_cases h : isTO r = true <;> simp [h, ih]

theorem colTimedOut_cons (r : Option Res) (rest : List (Option Res)) :
    colTimedOut (r :: rest) = (isTO r || colTimedOut rest) := by
  cases r <;> simp [colTimedOut, isTO]

/-- A column without a timeout is left alone. -/
theorem abort_of_not_timedOut (c : List (Option Res)) (h : colTimedOut c = false) :
    abortAfterFirstTimeout c = c := by
  induction c with
  | nil => rfl
  | cons r rest ih =>
    rw [colTimedOut_cons, Bool.or_eq_false_iff] at h
    rw [abort_cons, h.1]
    simp [ih h.2]

theorem colTimedOut_abort (c : List (Option Res)) :
    colTimedOut (abortAfterFirstTimeout c) = colTimedOut c := by
  induction c with
  | nil => rfl
  | cons r rest ih =>
    rw [abort_cons, colTimedOut_cons, colTimedOut_cons]
    by_cases h : isTO r = true
    · simp [h]
    · simp [h, ih]

/-! ### the summary loop, column by column -/

/-- The inner-loop body applied down one mutant's column, test numbers counting from `t`. -/
def colFold : Nat → MutantInfo → List (Option Obs) → MutantInfo
  | _, i, [] => i
  | t, i, r :: rest => colFold (t + 1) (upd t i r) rest

theorem colFold_timedOut (t : Nat) (i : MutantInfo) (l : List (Option Obs)) (h : isTimedOut i = true) :
    colFold t i l = i := by
  induction l generalizing t with
  | nil => rfl
  | cons r rest ih =>
    have hu : upd t i r = i := by
      unfold isTimedOut at h
      unfold upd
      cases r with
      | none => rfl
      | some o => simp [h]
    simp only [colFold, hu]
    exact ih (t + 1)

theorem summaryLoop_cols :
    ∀ (rows : List (List (Option Obs))) (t : Nat) (infos0 infos : List MutantInfo),
      summaryLoop t infos0 rows = some infos →
      infos.length = infos0.length ∧
      ∀ (j : Nat) i0, infos0[j]? = some i0 →
        infos[j]? = some (colFold t i0 (rows.map (fun row => row.getD j none))) := by
  intro rows
  induction rows with
  | nil =>
    intro t infos0 infos h
    simp only [summaryLoop, Option.some.injEq] at h
    subst h
    exact ⟨rfl, fun j i0 hj => by simpa [colFold] using hj⟩
  | cons row rows ih =>
    intro t infos0 infos h
    unfold summaryLoop at h
    by_cases hl : row.length = infos0.length
    · simp only [hl, if_true] at h
      obtain ⟨hlen, hpt⟩ := ih _ _ _ h
      refine ⟨by rw [hlen]; simp [hl], ?_⟩
      intro j i0 hj
      have hjlt : j < infos0.length := (List.getElem?_eq_some_iff.1 hj).1
      have hjr : j < row.length := by omega
      have hr : row[j]? = some (row.getD j none) := by
        rw [List.getD_eq_getElem?_getD, List.getElem?_eq_getElem hjr]; rfl
      have hz : (List.zipWith (upd t) infos0 row)[j]? = some (upd t i0 (row.getD j none)) := by
        simp only [List.getElem?_zipWith, hj, hr]
      rw [hpt j _ hz]
      rfl
    · simp [hl] at h

theorem summaryLoop_isSome :
    ∀ (rows : List (List (Option Obs))) (t : Nat) (infos0 : List MutantInfo),
      (∀ row ∈ rows, row.length = infos0.length) → (summaryLoop t infos0 rows).isSome = true := by
  intro rows
  induction rows with
  | nil => intro t infos0 _; rfl
  | cons row rows ih =>
    intro t infos0 h
    unfold summaryLoop
    have hl : row.length = infos0.length := h row (by simp)
    simp only [hl, if_true]
    apply ih
    intro row' hrow'
    rw [h row' (List.mem_cons_of_mem _ hrow')]
    simp [hl]

/-! ### the grid as a function of the checked columns -/

/-- The grid built by `collect` from a rectangular family of columns. -/
def gridOf (nT : Nat) (cols : List (List (Option Res))) : List (List (Option Res)) :=
  (List.range nT).map (fun i => cols.map (fun c => c.getD i none))

theorem collect_none_iff :
    ∀ (stream : List (Option (List (Option Res)))) (n0 : Nat) (rows0 : List (List (Option Res))),
      collect stream (n0, rows0) = none ↔ ¬ ∀ c ∈ checkedCols stream, c.length = rows0.length := by
  intro stream
  induction stream with
  | nil => intro n0 rows0; simp [collect, checkedCols]
  | cons x rest ih =>
    intro n0 rows0
    cases x with
    | none =>
      simp only [collect]
      rw [ih]
      simp [checkedCols]
    | some col =>
      have hcc : checkedCols (some col :: rest) = col :: checkedCols rest := by simp [checkedCols]
      simp only [collect, hcc, List.mem_cons, forall_eq_or_imp]
      unfold appendColumn
      by_cases hl : col.length = rows0.length
      · simp only [hl, if_true, true_and]
        rw [ih]
        simp [hl]
      · simp [hl]

theorem collect_eq_grid {tests : List Test} {stream : List (Option (List (Option Res)))} {n : Nat}
    {rows : List (List (Option Res))} (hc : collect stream (0, tests.map (fun _ => [])) = some (n, rows)) :
    n = (checkedCols stream).length ∧ rows = gridOf tests.length (checkedCols stream) := by
  obtain ⟨hn, hrl, _, hpt⟩ := handleAdd_grid hc
  refine ⟨hn, ?_⟩
  apply List.ext_getElem?
  intro i
  unfold gridOf
  by_cases hi : i < tests.length
  · rw [hpt i hi]
    simp [List.getElem?_map, List.getElem?_range hi]
  · have h1 : rows[i]? = none := List.getElem?_eq_none (by omega)
    rw [h1]
    symm
    apply List.getElem?_eq_none
    simp; omega

/-- Column `j` of the grid is the `j`-th column. -/
theorem grid_column {nT : Nat} {cols : List (List (Option Res))} (hc : ∀ c ∈ cols, c.length = nT)
    {j : Nat} {c : List (Option Res)} (hj : cols[j]? = some c) :
    (obsRows (gridOf nT cols)).map (fun row => row.getD j none) = c.map (fun r => r.map Res.obs) := by
  have hcl : c.length = nT := hc c (List.mem_of_getElem? hj)
  apply List.ext_getElem?
  intro i
  unfold obsRows gridOf
  simp only [List.map_map, List.getElem?_map]
  by_cases hi : i < nT
  · rw [List.getElem?_range hi]
    simp only [Option.map_some, Function.comp]
    have hci : c[i]? = some (c.getD i none) := by
      rw [List.getD_eq_getElem?_getD, List.getElem?_eq_getElem (by omega)]; rfl
    rw [hci]
    simp only [Option.map_some, Option.some.injEq]
    rw [List.getD_eq_getElem?_getD, List.getElem?_map, List.getElem?_map, hj]
    rfl
  · have h1 : (List.range nT)[i]? = none := List.getElem?_eq_none (by simp; omega)
    have h2 : c[i]? = none := List.getElem?_eq_none (by omega)
    rw [h1, h2]
    rfl

/-- the summary as a function of the columns -/
def colInfos (cols : List (List (Option Res))) : List MutantInfo :=
  cols.zipIdx.map (fun p => colFold 0 ⟨p.2, [], []⟩ (p.1.map (fun r => r.map Res.obs)))

theorem computeSummary_grid {nT : Nat} {cols : List (List (Option Res))} (hc : ∀ c ∈ cols, c.length = nT) :
    computeSummary cols.length (obsRows (gridOf nT cols)) = some (colInfos cols) := by
  have hsome : (computeSummary cols.length (obsRows (gridOf nT cols))).isSome = true := by
    unfold computeSummary
    apply summaryLoop_isSome
    intro row hrow
    unfold obsRows gridOf at hrow
    simp only [List.map_map, List.mem_map, List.mem_range, Function.comp] at hrow
    obtain ⟨i, _, rfl⟩ := hrow
    simp [initInfos]
  cases hs : computeSummary cols.length (obsRows (gridOf nT cols)) with
  | none => rw [hs] at hsome; cases hsome
  | some infos =>
    congr 1
    unfold computeSummary at hs
    obtain ⟨hlen, hpt⟩ := summaryLoop_cols _ _ _ _ hs
    apply List.ext_getElem?
    intro j
    unfold colInfos
    by_cases hj : j < cols.length
    · have hcj : cols[j]? = some cols[j] := List.getElem?_eq_getElem hj
      rw [hpt j _ (getElem?_initInfos hj), grid_column hc hcj]
      simp [List.getElem?_map, List.getElem?_zipIdx, hcj]
    · have h1 : infos[j]? = none := List.getElem?_eq_none (by rw [hlen]; simp [initInfos]; omega)
      rw [h1]
      symm
      apply List.getElem?_eq_none
      simp; omega

theorem colFold_abort (t : Nat) (i0 : MutantInfo) (c : List (Option Res)) :
    colFold t i0 ((abortAfterFirstTimeout c).map (fun r => r.map Res.obs)) =
      colFold t i0 (c.map (fun r => r.map Res.obs)) := by
  induction c generalizing t i0 with
  | nil => rfl
  | cons r rest ih =>
    rw [abort_cons]
    simp only [List.map_cons, colFold]
    by_cases h : isTO r = true
    · simp only [h, if_true]
      have hto : isTimedOut (upd t i0 (r.map Res.obs)) = true := by
        rw [isTimedOut_upd]
        cases r with
        | none => simp [isTO] at h
        | some x => exact Or.inr ⟨x.obs, rfl, by simpa [isTO, Res.obs] using h⟩
      rw [colFold_timedOut _ _ _ hto, colFold_timedOut _ _ _ hto]
    · simp only [h, Bool.false_eq_true, if_false]
      exact ih _ _

theorem colInfos_abort (cols : List (List (Option Res))) :
    colInfos (cols.map abortAfterFirstTimeout) = colInfos cols := by
  unfold colInfos
  apply List.ext_getElem?
  intro j
  simp only [List.getElem?_map, List.getElem?_zipIdx, Nat.zero_add]
  cases hj : cols[j]? with
  | none => simp
  | some c => simp [colFold_abort]

theorem checkedCols_map_abort (stream : List (Option (List (Option Res)))) :
    checkedCols (stream.map (Option.map abortAfterFirstTimeout)) =
      (checkedCols stream).map abortAfterFirstTimeout := by
  unfold checkedCols
  induction stream with
  | nil => rfl
  | cons x rest ih => cases x <;> simp [ih]

/-! ### `_handle_add_assertions` as a function of the checked columns -/

/-- The assertion-removal step for all tests, given the grid and the summary. -/
def newTestsOf (mn : Bool) (tests : List Test) (rows : List (List (Option Res))) (infos : List MutantInfo) :
    Option (List Test) :=
  if mn then allSome ((List.zip tests rows).map (fun p => minimizeTest? p.1 (validResults p.2 infos)))
  else some ((List.zip tests rows).map (fun p => relevantTest p.1 (validResults p.2 infos)))

def handleAddCols (mn : Bool) (tests : List Test) (cols : List (List (Option Res))) : Option Outcome :=
  if cols.all (fun c => c.length == tests.length) then
    (newTestsOf mn tests (gridOf tests.length cols) (colInfos cols)).map (fun ts =>
      { infos := colInfos cols, metrics := getMetrics (colInfos cols),
        score := getScore (getMetrics (colInfos cols)), tests := ts })
  else none

theorem handleAdd_eq_cols (mn : Bool) (tests : List Test) (stream : List (Option (List (Option Res)))) :
    handleAdd mn tests stream = handleAddCols mn tests (checkedCols stream) := by
  unfold handleAdd handleAddCols
  by_cases hall : ∀ c ∈ checkedCols stream, c.length = tests.length
  · have hall' : (checkedCols stream).all (fun c => c.length == tests.length) = true := by
      simpa [List.all_eq_true] using hall
    rw [hall']
    cases hc : collect stream (0, tests.map (fun _ => [])) with
    | none =>
      exact absurd (by simpa using hall) ((collect_none_iff _ _ _).1 hc)
    | some nr =>
      obtain ⟨n, rows⟩ := nr
      obtain ⟨hn, hrows⟩ := collect_eq_grid hc
      subst hn; subst hrows
      simp only
      have hs := computeSummary_grid hall
      unfold obsRows at hs
      rw [hs]
      simp only [if_true, newTestsOf]
  · have hall' : (checkedCols stream).all (fun c => c.length == tests.length) = false := by
      cases h : (checkedCols stream).all (fun c => c.length == tests.length) with
      | false => rfl
      | true => exact absurd (by simpa [List.all_eq_true] using h) hall
    rw [hall']
    have hc : collect stream (0, tests.map (fun _ => [])) = none :=
      (collect_none_iff _ _ _).2 (by simpa using hall)
    rw [hc]
    simp

theorem colInfos_timedOut {nT : Nat} {cols : List (List (Option Res))} (hc : ∀ c ∈ cols, c.length = nT)
    {j : Nat} {c : List (Option Res)} (hj : cols[j]? = some c) :
    ∃ i, (colInfos cols)[j]? = some i ∧ isTimedOut i = colTimedOut c := by
  have hs := computeSummary_grid hc
  obtain ⟨_, hpt⟩ := computeSummary_spec hs
  have hjl : j < cols.length := (List.getElem?_eq_some_iff.1 hj).1
  obtain ⟨i, hi, _, hto, _, _⟩ := hpt j hjl
  have hgl : (gridOf nT cols).length = nT := by simp [gridOf]
  have hgp : ∀ i, i < nT → (gridOf nT cols)[i]? = some (cols.map (fun c => c.getD i none)) := by
    intro i hi
    simp [gridOf, List.getElem?_map, List.getElem?_range hi]
  obtain ⟨g1, _⟩ := ColTimedOut_grid hgl hgp hc hj
  exact ⟨i, hi, by rw [Bool.eq_iff_iff, hto, g1]⟩

theorem validResultsFrom_congr :
    ∀ (results results' : List (Option Res)) (infos : List MutantInfo) (j0 : Nat),
      results.length = results'.length →
      (∀ (k : Nat) i, infos[k]? = some i → i.timedOutBy = [] → results[k]? = results'[k]?) →
      validResultsFrom j0 results infos = validResultsFrom j0 results' infos := by
  intro results
  induction results with
  | nil =>
    intro results' infos j0 hl _
    cases results' with
    | nil => rfl
    | cons _ _ => simp at hl
  | cons x rs ih =>
    intro results' infos j0 hl h
    cases results' with
    | nil => simp at hl
    | cons x' rs' =>
      cases infos with
      | nil => simp [validResultsFrom]
      | cons i0 is =>
        unfold validResultsFrom
        have htail := ih rs' is (j0 + 1) (by simpa using hl)
          (fun k i hk he => by simpa using h (k + 1) i (by simpa using hk) he)
        rw [htail]
        congr 1
        by_cases he : i0.timedOutBy = []
        · have := h 0 i0 (by simp) he
          simp only [List.getElem?_cons_zero, Option.some.injEq] at this
          rw [this]
        · have he' : i0.timedOutBy.isEmpty = false := by
            cases hh : i0.timedOutBy with
            | nil => exact absurd hh he
            | cons _ _ => rfl
          cases x <;> cases x' <;> simp [he']

/-- **`_abort_after_first_timeout` is sound**: replacing every checked mutant's column by its aborted
version (results up to the first timeout, then `None`s) changes nothing in the outcome of
`_handle_add_assertions` — summary, metrics, score and the kept assertions of every test. -/
theorem handleAddCols_abort (mn : Bool) (tests : List Test) (cols : List (List (Option Res))) :
    handleAddCols mn tests (cols.map abortAfterFirstTimeout) = handleAddCols mn tests cols := by
  unfold handleAddCols
  have hall : (cols.map abortAfterFirstTimeout).all (fun c => c.length == tests.length) =
      cols.all (fun c => c.length == tests.length) := by
    rw [List.all_map]
    congr 1
    funext c
    simp [Function.comp, length_abort]
  rw [hall, colInfos_abort]
  by_cases hok : cols.all (fun c => c.length == tests.length) = true
  · simp only [hok, if_true]
    have hc : ∀ c ∈ cols, c.length = tests.length := by simpa [List.all_eq_true] using hok
    suffices hnt : newTestsOf mn tests (gridOf tests.length (cols.map abortAfterFirstTimeout)) (colInfos cols) =
        newTestsOf mn tests (gridOf tests.length cols) (colInfos cols) by rw [hnt]
    -- the valid results of every test are the same
    have hvalid : ∀ (β : Type) (f : Test × List (Nat × Res) → β),
        (List.zip tests (gridOf tests.length (cols.map abortAfterFirstTimeout))).map
            (fun p => f (p.1, validResults p.2 (colInfos cols))) =
        (List.zip tests (gridOf tests.length cols)).map
            (fun p => f (p.1, validResults p.2 (colInfos cols))) := by
      intro β f
      apply List.ext_getElem?
      intro t
      simp only [List.getElem?_map]
      by_cases ht : t < tests.length
      · have hz : ∀ cs : List (List (Option Res)), (List.zip tests (gridOf tests.length cs))[t]? =
            some (tests[t], cs.map (fun c => c.getD t none)) := by
          intro cs
          apply List.getElem?_zip_eq_some.2
          exact ⟨List.getElem?_eq_getElem ht, by simp [gridOf, List.getElem?_map, List.getElem?_range ht]⟩
        rw [hz, hz]
        simp only [Option.map_some, Option.some.injEq]
        congr 2
        unfold validResults
        apply validResultsFrom_congr
        · simp
        · intro k i hk he
          simp only [List.getElem?_map]
          cases hck : cols[k]? with
          | none => rfl
          | some c =>
            obtain ⟨i', hi', hto⟩ := colInfos_timedOut hc hck
            rw [hk] at hi'; cases hi'
            have hnt : colTimedOut c = false := by
              rw [← hto]; simp [isTimedOut, he]
            simp [abort_of_not_timedOut c hnt]
      · have h1 : ∀ cs : List (List (Option Res)), (List.zip tests (gridOf tests.length cs))[t]? = none := by
          intro cs
          apply List.getElem?_eq_none
          simp [gridOf]; omega
        rw [h1, h1]
    unfold newTestsOf
    cases mn with
    | true =>
      simp only [if_true]
      have := hvalid _ (fun q => minimizeTest? q.1 q.2)
      simp only at this
      rw [this]
    | false =>
      simp only [Bool.false_eq_true, if_false]
      have := hvalid _ (fun q => relevantTest q.1 q.2)
      simp only at this
      rw [this]
  · simp [hok]

theorem handleAdd_abort (mn : Bool) (tests : List Test) (stream : List (Option (List (Option Res)))) :
    handleAdd mn tests (stream.map (Option.map abortAfterFirstTimeout)) = handleAdd mn tests stream := by
  rw [handleAdd_eq_cols, handleAdd_eq_cols, checkedCols_map_abort, handleAddCols_abort]

end PynguinModel.SetCover
