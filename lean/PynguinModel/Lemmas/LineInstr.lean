import PynguinModel.Model.LineInstr
/-! Helper lemmas for C02 (`Props/C02.lean`): registry extension, block-level soundness/completeness of
`visitNode` for every execution prefix, positional lookup lemmas for blocks / code objects. -/
namespace PynguinModel.LineInstr

/-- `r2` extends `r1`: later registrations only append (ids once handed out stay valid). -/
def Ext (r1 r2 : Registry) : Prop := ∃ t, r2 = r1 ++ t

theorem Ext.refl (r : Registry) : Ext r r := ⟨[], by simp⟩

theorem Ext.trans {a b c : Registry} (h1 : Ext a b) (h2 : Ext b c) : Ext a c := by
  obtain ⟨t, rfl⟩ := h1
  obtain ⟨u, rfl⟩ := h2
  exact ⟨t ++ u, by simp⟩

theorem Ext.get {r1 r2 : Registry} (h : Ext r1 r2) {i : Nat} {m : LineMeta} (hi : r1[i]? = some m) :
    r2[i]? = some m := by
  obtain ⟨t, rfl⟩ := h
  have hlt : i < r1.length := by
    rcases Nat.lt_or_ge i r1.length with h | h
    · exact h
    · simp [List.getElem?_eq_none h] at hi
  rw [List.getElem?_append_left hlt]; exact hi

theorem Ext.mem {r1 r2 : Registry} (h : Ext r1 r2) {m : LineMeta} (hm : m ∈ r1) : m ∈ r2 := by
  obtain ⟨t, rfl⟩ := h
  exact List.mem_append_left _ hm

theorem register_ext (r : Registry) (m : LineMeta) : Ext r (register r m).1 := by
  unfold register
  split
  · exact Ext.refl r
  · exact ⟨[m], rfl⟩

theorem register_get (r : Registry) (m : LineMeta) : (register r m).1[(register r m).2]? = some m := by
  unfold register
  split
  · next h =>
    have hlt : r.idxOf m < r.length := List.idxOf_lt_length_of_mem h
    simp [List.getElem?_eq_getElem hlt, List.getElem_idxOf]
  · simp

theorem register_mem (r : Registry) (m : LineMeta) : m ∈ (register r m).1 := by
  unfold register
  split
  · next h => exact h
  · simp

theorem register_sub (r : Registry) (m x : LineMeta) (hx : x ∈ (register r m).1) : x ∈ r ∨ x = m := by
  unfold register at hx
  split at hx
  · exact Or.inl hx
  · simpa using hx

theorem register_nodup (r : Registry) (m : LineMeta) (h : r.Nodup) : (register r m).1.Nodup := by
  unfold register
  split
  · exact h
  · next hm =>
    rw [List.nodup_append]
    refine ⟨h, by simp, ?_⟩
    intro a ha b hb
    simp at hb
    subst hb
    intro hab
    subst hab
    exact hm ha

/-- registering a known meta again neither changes the registry nor the id -/
theorem register_idem (r : Registry) (m : LineMeta) :
    register (register r m).1 m = ((register r m).1, (register r m).2) := by
  by_cases h : m ∈ r
  · simp [register, h]
  · have h2 : m ∈ r ++ [m] := by simp
    have : (r ++ [m]).idxOf m = r.length := by
      rw [List.idxOf_append]; simp [h]
    simp [register, h, this]

/-! ### `execLines` / `runPrefix` computation rules -/

@[simp] theorem execLines_zero (p : Pass) (b : List Entry) : execLines p b 0 = [] := by
  simp [execLines]

@[simp] theorem execLines_nil (p : Pass) (k : Nat) : execLines p [] k = [] := by
  simp [execLines, origs]

@[simp] theorem execLines_pseudo (p : Pass) (es : List Entry) (k : Nat) :
    execLines p (.pseudo :: es) k = execLines p es k := by
  simp [execLines, origs]

@[simp] theorem execLines_art (p : Pass) (es : List Entry) (k : Nat) :
    execLines p (.art :: es) k = execLines p es k := by
  simp [execLines, origs]

theorem execLines_orig (p : Pass) (i : Instr) (es : List Entry) (k : Nat) :
    execLines p (.orig i :: es) (k + 1) = (lineOf p i).toList ++ execLines p es k := by
  simp only [execLines, origs, List.take_succ_cons, List.filterMap_cons]
  cases lineOf p i <;> simp

theorem mem_execLines_orig {p : Pass} {i : Instr} {es : List Entry} {k : Nat} {l : Nat} :
    l ∈ execLines p (.orig i :: es) (k + 1) ↔ lineOf p i = some l ∨ l ∈ execLines p es k := by
  rw [execLines_orig]
  cases h : lineOf p i <;> simp [eq_comm]

/-! ### one basic block -/

theorem visitNode_ext (p : Pass) : ∀ (b : List Entry) (last : Option Nat) (r : Registry),
    Ext r (visitNode p last r b).1 := by
  intro b
  induction b with
  | nil => intro last r; simp [visitNode]; exact Ext.refl r
  | cons e es ih =>
    intro last r
    cases e with
    | pseudo => simp only [visitNode]; exact ih last r
    | art => simp only [visitNode]; exact ih last r
    | orig i =>
      simp only [visitNode]
      split
      · exact ih last r
      · split
        · exact ih last r
        · split
          · exact Ext.trans (register_ext r _) (ih _ _)
          · exact ih last r

theorem lineOf_eq_some {p : Pass} {i : Instr} {l : Nat} :
    lineOf p i = some l ↔ i.line = some l ∧ p.cover l = true ∧ p.skip i.name = false := by
  unfold lineOf
  cases hl : i.line with
  | none => simp
  | some l' =>
    by_cases hc : p.cover l' = true <;> by_cases hs : p.skip i.name = true <;>
      simp [hc, hs] <;> (intro h; subst h; simp_all)

/-! unfolding rules of `visitNode` / `runPrefix` by case -/

@[simp] theorem runPrefix_tracker (k id : Nat) (es : List OEntry) :
    runPrefix (k + 1) (.tracker id :: es) = id :: runPrefix (k + 1) es := by simp [runPrefix]

@[simp] theorem runPrefix_orig (k : Nat) (i : Instr) (es : List OEntry) :
    runPrefix (k + 1) (.keep (.orig i) :: es) = runPrefix k es := by simp [runPrefix]

@[simp] theorem runPrefix_pseudo (k : Nat) (es : List OEntry) :
    runPrefix (k + 1) (.keep .pseudo :: es) = runPrefix (k + 1) es := by simp [runPrefix]

@[simp] theorem runPrefix_art (k : Nat) (es : List OEntry) :
    runPrefix (k + 1) (.keep .art :: es) = runPrefix (k + 1) es := by simp [runPrefix]

/-- the adapter inserts a tracker in front of `i` -/
def tracks (p : Pass) (last : Option Nat) (i : Instr) : Option Nat :=
  match i.line with
  | none => none
  | some l => if p.cover l && (some l != last && !p.skip i.name) then some l else none

theorem visitNode_orig_track {p : Pass} {last : Option Nat} {i : Instr} {l : Nat}
    (h : tracks p last i = some l) (r : Registry) (es : List Entry) :
    visitNode p last r (.orig i :: es) =
      ((visitNode p (some l) (register r ⟨p.file, l⟩).1 es).1,
       .tracker (register r ⟨p.file, l⟩).2 :: .keep (.orig i) ::
         (visitNode p (some l) (register r ⟨p.file, l⟩).1 es).2) := by
  unfold tracks at h
  cases hl : i.line with
  | none => simp [hl] at h
  | some l' =>
    simp only [hl] at h
    split at h
    · next hc =>
      cases h
      simp only [Bool.and_eq_true] at hc
      simp [visitNode, hl, hc.1, hc.2]
    · cases h

theorem visitNode_orig_skip {p : Pass} {last : Option Nat} {i : Instr}
    (h : tracks p last i = none) (r : Registry) (es : List Entry) :
    visitNode p last r (.orig i :: es) =
      ((visitNode p last r es).1, .keep (.orig i) :: (visitNode p last r es).2) := by
  unfold tracks at h
  cases hl : i.line with
  | none => simp [visitNode, hl]
  | some l' =>
    simp only [hl] at h
    split at h
    · cases h
    · next hc =>
      by_cases hcov : p.cover l' = true
      · simp only [hcov, Bool.true_and] at hc
        simp [visitNode, hl, hcov, hc]
      · simp [visitNode, hl, hcov]

theorem tracks_lineOf {p : Pass} {last : Option Nat} {i : Instr} {l : Nat}
    (h : tracks p last i = some l) : lineOf p i = some l := by
  unfold tracks at h
  unfold lineOf
  cases hl : i.line with
  | none => simp [hl] at h
  | some l' =>
    simp only [hl] at h ⊢
    split at h
    · next hc =>
      cases h
      simp only [Bool.and_eq_true] at hc
      simp [hc.1, hc.2.2]
    · cases h

/-- an eligible instruction without tracker has the running line -/
theorem tracks_none_lineOf {p : Pass} {last : Option Nat} {i : Instr} {l : Nat}
    (h : tracks p last i = none) (h2 : lineOf p i = some l) : last = some l := by
  rw [lineOf_eq_some] at h2
  obtain ⟨hl, hc, hs⟩ := h2
  unfold tracks at h
  simp only [hl, hc, hs, Bool.true_and, Bool.not_false, Bool.and_true] at h
  split at h
  · cases h
  · next hne =>
    simp only [bne_iff_ne, ne_eq, Decidable.not_not] at hne
    exact hne.symm

/-- Soundness for every prefix: each id reported while the first `k` original instructions of the block
run is the id of a line (of this file) carried by one of those `k` instructions. -/
theorem visitNode_sound (p : Pass) : ∀ (b : List Entry) (last : Option Nat) (r : Registry) (k : Nat)
    (r2 : Registry), Ext (visitNode p last r b).1 r2 →
    ∀ id ∈ runPrefix k (visitNode p last r b).2,
      ∃ l, r2[id]? = some ⟨p.file, l⟩ ∧ l ∈ execLines p b k := by
  intro b
  induction b with
  | nil => intro last r k r2 _ id hid; cases k <;> simp [visitNode, runPrefix] at hid
  | cons e es ih =>
    intro last r k r2 hext id hid
    cases k with
    | zero => simp [runPrefix] at hid
    | succ k =>
      cases e with
      | pseudo =>
        simp only [visitNode, runPrefix_pseudo] at hext hid
        simpa using ih last r (k + 1) r2 hext id hid
      | art =>
        simp only [visitNode, runPrefix_art] at hext hid
        simpa using ih last r (k + 1) r2 hext id hid
      | orig i =>
        cases ht : tracks p last i with
        | none =>
          rw [visitNode_orig_skip ht] at hext hid
          simp only [runPrefix_orig] at hid
          obtain ⟨l, h1, h2⟩ := ih last r k r2 hext id hid
          exact ⟨l, h1, mem_execLines_orig.2 (Or.inr h2)⟩
        | some l =>
          rw [visitNode_orig_track ht] at hext hid
          simp only [runPrefix_tracker, runPrefix_orig, List.mem_cons] at hid
          rcases hid with rfl | hid
          · exact ⟨l, Ext.get hext (Ext.get (visitNode_ext p es _ _) (register_get r _)),
              mem_execLines_orig.2 (Or.inl (tracks_lineOf ht))⟩
          · obtain ⟨l', h1, h2⟩ := ih _ _ k r2 hext id hid
            exact ⟨l', h1, mem_execLines_orig.2 (Or.inr h2)⟩

/-- Completeness for every prefix: the line of each of the first `k` original instructions was either the
running `lineno` at block entry or has been reported (its tracker ran before the instruction). -/
theorem visitNode_complete (p : Pass) : ∀ (b : List Entry) (last : Option Nat) (r : Registry) (k : Nat)
    (r2 : Registry), Ext (visitNode p last r b).1 r2 →
    ∀ l ∈ execLines p b k,
      last = some l ∨ ∃ id ∈ runPrefix k (visitNode p last r b).2, r2[id]? = some ⟨p.file, l⟩ := by
  intro b
  induction b with
  | nil => intro last r k r2 _ l hl; simp at hl
  | cons e es ih =>
    intro last r k r2 hext l0 hl0
    cases k with
    | zero => simp at hl0
    | succ k =>
      cases e with
      | pseudo =>
        simp only [visitNode, runPrefix_pseudo] at hext ⊢
        exact ih last r (k + 1) r2 hext l0 (by simpa using hl0)
      | art =>
        simp only [visitNode, runPrefix_art] at hext ⊢
        exact ih last r (k + 1) r2 hext l0 (by simpa using hl0)
      | orig i =>
        rw [mem_execLines_orig] at hl0
        cases ht : tracks p last i with
        | none =>
          rw [visitNode_orig_skip ht] at hext ⊢
          simp only [runPrefix_orig]
          rcases hl0 with h | h
          · exact Or.inl (tracks_none_lineOf ht h)
          · exact ih last r k r2 hext l0 h
        | some l =>
          rw [visitNode_orig_track ht] at hext ⊢
          simp only [runPrefix_tracker, runPrefix_orig, List.mem_cons]
          have hhead : r2[(register r ⟨p.file, l⟩).2]? = some ⟨p.file, l⟩ :=
            Ext.get hext (Ext.get (visitNode_ext p es _ _) (register_get r _))
          rcases hl0 with h | h
          · rw [tracks_lineOf ht] at h; cases h
            exact Or.inr ⟨_, Or.inl rfl, hhead⟩
          · rcases ih _ _ k r2 hext l0 h with h' | ⟨id, h1, h2⟩
            · cases h'
              exact Or.inr ⟨_, Or.inl rfl, hhead⟩
            · exact Or.inr ⟨id, Or.inr h1, h2⟩

/-- every meta in the registry after a block was already there or is a coverable line of the block -/
theorem visitNode_registry (p : Pass) : ∀ (b : List Entry) (last : Option Nat) (r : Registry),
    ∀ m ∈ (visitNode p last r b).1, m ∈ r ∨ ∃ l ∈ (origs b).filterMap (lineOf p), m = ⟨p.file, l⟩ := by
  intro b
  induction b with
  | nil => intro last r m hm; left; simpa [visitNode] using hm
  | cons e es ih =>
    intro last r m hm
    cases e with
    | pseudo => simp only [visitNode] at hm; simpa [origs] using ih last r m hm
    | art => simp only [visitNode] at hm; simpa [origs] using ih last r m hm
    | orig i =>
      have lift : (m ∈ r ∨ ∃ l ∈ (origs es).filterMap (lineOf p), m = ⟨p.file, l⟩) →
          (m ∈ r ∨ ∃ l ∈ (origs (.orig i :: es)).filterMap (lineOf p), m = ⟨p.file, l⟩) := by
        rintro (h | ⟨l, h1, h2⟩)
        · exact Or.inl h
        · refine Or.inr ⟨l, ?_, h2⟩
          simp only [origs, List.filterMap_cons]
          cases lineOf p i <;> simp [h1]
      simp only [visitNode] at hm
      split at hm
      · exact lift (ih last r m hm)
      · next l hl =>
        split at hm
        · exact lift (ih last r m hm)
        · next hc =>
          split at hm
          · next hs =>
            rcases ih _ _ m hm with h | h
            · rcases register_sub r _ m h with h | h
              · exact Or.inl h
              · refine Or.inr ⟨l, ?_, h⟩
                have : lineOf p i = some l := by
                  rw [lineOf_eq_some]; simp at hc hs; exact ⟨hl, hc, hs.2⟩
                simp [origs, this]
            · exact lift (Or.inr h)
          · exact lift (ih last r m hm)

theorem visitNode_nodup (p : Pass) : ∀ (b : List Entry) (last : Option Nat) (r : Registry),
    r.Nodup → (visitNode p last r b).1.Nodup := by
  intro b
  induction b with
  | nil => intro last r h; simpa [visitNode] using h
  | cons e es ih =>
    intro last r h
    cases e with
    | pseudo => simp only [visitNode]; exact ih last r h
    | art => simp only [visitNode]; exact ih last r h
    | orig i =>
      simp only [visitNode]
      split
      · exact ih last r h
      · split
        · exact ih last r h
        · split
          · exact ih _ _ (register_nodup r _ h)
          · exact ih last r h

/-! ### all blocks of a code object, all code objects -/

theorem instrumentBlocks_ext (p : Pass) : ∀ (bs : List (List Entry)) (r : Registry),
    Ext r (instrumentBlocks p r bs).1 := by
  intro bs
  induction bs with
  | nil => intro r; exact Ext.refl r
  | cons b bs ih =>
    intro r
    simp only [instrumentBlocks]
    exact Ext.trans (visitNode_ext p b none r) (ih _)

theorem instrumentBlocks_get (p : Pass) : ∀ (bs : List (List Entry)) (r : Registry) (bi : Nat)
    (b : List Entry), bs[bi]? = some b →
    ∃ ra, Ext r ra ∧ Ext (visitNode p none ra b).1 (instrumentBlocks p r bs).1 ∧
      (instrumentBlocks p r bs).2[bi]? = some (visitNode p none ra b).2 := by
  intro bs
  induction bs with
  | nil => intro r bi b h; simp at h
  | cons b0 bs ih =>
    intro r bi b h
    cases bi with
    | zero =>
      simp at h; subst h
      exact ⟨r, Ext.refl r, by simp only [instrumentBlocks]; exact instrumentBlocks_ext p bs _,
        by simp [instrumentBlocks]⟩
    | succ bi =>
      simp at h
      obtain ⟨ra, h1, h2, h3⟩ := ih (visitNode p none r b0).1 bi b h
      exact ⟨ra, Ext.trans (visitNode_ext p b0 none r) h1, by simpa [instrumentBlocks] using h2,
        by simpa [instrumentBlocks] using h3⟩

theorem instrumentBlocks_get_none (p : Pass) : ∀ (bs : List (List Entry)) (r : Registry) (bi : Nat),
    bs[bi]? = none → (instrumentBlocks p r bs).2[bi]? = none := by
  intro bs
  induction bs with
  | nil => intro r bi _; simp [instrumentBlocks]
  | cons b0 bs ih =>
    intro r bi h
    cases bi with
    | zero => simp at h
    | succ bi => simp at h; simpa [instrumentBlocks] using ih _ bi (by simpa using h)

theorem instrumentBlocks_nodup (p : Pass) : ∀ (bs : List (List Entry)) (r : Registry),
    r.Nodup → (instrumentBlocks p r bs).1.Nodup := by
  intro bs
  induction bs with
  | nil => intro r h; simpa [instrumentBlocks] using h
  | cons b bs ih => intro r h; simp only [instrumentBlocks]; exact ih _ (visitNode_nodup p b none r h)

theorem instrumentBlocks_registry (p : Pass) : ∀ (bs : List (List Entry)) (r : Registry),
    ∀ m ∈ (instrumentBlocks p r bs).1,
      m ∈ r ∨ ∃ b ∈ bs, ∃ l ∈ (origs b).filterMap (lineOf p), m = ⟨p.file, l⟩ := by
  intro bs
  induction bs with
  | nil => intro r m hm; left; simpa [instrumentBlocks] using hm
  | cons b bs ih =>
    intro r m hm
    simp only [instrumentBlocks] at hm
    rcases ih _ m hm with h | ⟨b', hb', l, h1, h2⟩
    · rcases visitNode_registry p b none r m h with h | ⟨l, h1, h2⟩
      · exact Or.inl h
      · exact Or.inr ⟨b, by simp, l, h1, h2⟩
    · exact Or.inr ⟨b', by simp [hb'], l, h1, h2⟩

theorem instrumentProgram_ext : ∀ (cs : List CodeObj) (r : Registry),
    Ext r (instrumentProgram r cs).1 := by
  intro cs
  induction cs with
  | nil => intro r; exact Ext.refl r
  | cons c cs ih =>
    intro r
    simp only [instrumentProgram]
    exact Ext.trans (instrumentBlocks_ext c.pass c.blocks r) (ih _)

theorem instrumentProgram_get : ∀ (cs : List CodeObj) (r : Registry) (ci : Nat) (c : CodeObj),
    cs[ci]? = some c →
    ∃ ra, Ext r ra ∧ Ext (instrumentBlocks c.pass ra c.blocks).1 (instrumentProgram r cs).1 ∧
      (instrumentProgram r cs).2[ci]? = some (instrumentBlocks c.pass ra c.blocks).2 := by
  intro cs
  induction cs with
  | nil => intro r ci c h; simp at h
  | cons c0 cs ih =>
    intro r ci c h
    cases ci with
    | zero =>
      simp at h; subst h
      exact ⟨r, Ext.refl r, by simp only [instrumentProgram]; exact instrumentProgram_ext cs _,
        by simp [instrumentProgram]⟩
    | succ ci =>
      simp at h
      obtain ⟨ra, h1, h2, h3⟩ := ih (instrumentBlocks c0.pass r c0.blocks).1 ci c h
      exact ⟨ra, Ext.trans (instrumentBlocks_ext c0.pass c0.blocks r) h1,
        by simpa [instrumentProgram] using h2, by simpa [instrumentProgram] using h3⟩

theorem instrumentProgram_get_none : ∀ (cs : List CodeObj) (r : Registry) (ci : Nat),
    cs[ci]? = none → (instrumentProgram r cs).2[ci]? = none := by
  intro cs
  induction cs with
  | nil => intro r ci _; simp [instrumentProgram]
  | cons c0 cs ih =>
    intro r ci h
    cases ci with
    | zero => simp at h
    | succ ci => simp at h; simpa [instrumentProgram] using ih _ ci (by simpa using h)

theorem instrumentProgram_nodup : ∀ (cs : List CodeObj) (r : Registry),
    r.Nodup → (instrumentProgram r cs).1.Nodup := by
  intro cs
  induction cs with
  | nil => intro r h; simpa [instrumentProgram] using h
  | cons c cs ih =>
    intro r h; simp only [instrumentProgram]; exact ih _ (instrumentBlocks_nodup c.pass c.blocks r h)

theorem instrumentProgram_registry : ∀ (cs : List CodeObj) (r : Registry),
    ∀ m ∈ (instrumentProgram r cs).1, m ∈ r ∨ m ∈ coverableLines cs := by
  intro cs
  induction cs with
  | nil => intro r m hm; left; simpa [instrumentProgram] using hm
  | cons c cs ih =>
    intro r m hm
    simp only [instrumentProgram] at hm
    rcases ih _ m hm with h | h
    · rcases instrumentBlocks_registry c.pass c.blocks r m h with h | ⟨b, hb, l, h1, h2⟩
      · exact Or.inl h
      · right
        simp only [coverableLines, List.flatMap_cons, List.mem_append]
        left
        simp only [List.mem_flatMap, List.mem_map]
        exact ⟨b, hb, l, h1, h2.symm⟩
    · right
      simp only [coverableLines, List.flatMap_cons, List.mem_append]
      exact Or.inr h

/-! ### the trace -/

theorem mem_foldl_addId (calls : List Nat) : ∀ (s : List Nat) (i : Nat),
    i ∈ calls.foldl addId s ↔ i ∈ s ∨ i ∈ calls := by
  induction calls with
  | nil => intro s i; simp
  | cons c cs ih =>
    intro s i
    have hadd : i ∈ addId s c ↔ i ∈ s ∨ i = c := by
      unfold addId
      split
      · next h =>
        constructor
        · exact Or.inl
        · rintro (h' | rfl)
          · exact h'
          · exact h
      · simp
    simp only [List.foldl_cons, ih, hadd, List.mem_cons]
    constructor
    · rintro ((h | h) | h)
      · exact Or.inl h
      · exact Or.inr (Or.inl h)
      · exact Or.inr (Or.inr h)
    · rintro (h | h | h)
      · exact Or.inl (Or.inl h)
      · exact Or.inl (Or.inr h)
      · exact Or.inr h

theorem mem_covered (calls : List Nat) (i : Nat) : i ∈ covered calls ↔ i ∈ calls := by
  simp [covered, mem_foldl_addId]

theorem nodup_foldl_addId (calls : List Nat) : ∀ (s : List Nat), s.Nodup → (calls.foldl addId s).Nodup := by
  induction calls with
  | nil => intro s h; simpa using h
  | cons c cs ih =>
    intro s h
    simp only [List.foldl_cons]
    apply ih
    unfold addId
    split
    · exact h
    · next hc =>
      rw [List.nodup_append]
      refine ⟨h, by simp, ?_⟩
      intro a ha b hb
      simp at hb
      subst hb
      intro hab
      subst hab
      exact hc ha

theorem covered_nodup (calls : List Nat) : (covered calls).Nodup :=
  nodup_foldl_addId calls [] (by simp)

theorem lineidsToMetas_some (r : Registry) : ∀ (ids : List Nat), (∀ i ∈ ids, i < r.length) →
    ∃ ms, lineidsToMetas r ids = some ms ∧ ∀ m, m ∈ ms ↔ ∃ i ∈ ids, r[i]? = some m := by
  intro ids
  induction ids with
  | nil => intro _; exact ⟨[], rfl, by simp⟩
  | cons i is ih =>
    intro h
    obtain ⟨ms, h1, h2⟩ := ih (fun j hj => h j (by simp [hj]))
    have hi : i < r.length := h i (by simp)
    refine ⟨r[i] :: ms, ?_, ?_⟩
    · simp [lineidsToMetas, h1, List.getElem?_eq_getElem hi]
    · intro m
      simp only [List.mem_cons, h2]
      constructor
      · rintro (rfl | ⟨j, hj, hm⟩)
        · exact ⟨i, Or.inl rfl, List.getElem?_eq_getElem hi⟩
        · exact ⟨j, Or.inr hj, hm⟩
      · rintro ⟨j, rfl | hj, hm⟩
        · left
          rw [List.getElem?_eq_getElem hi] at hm
          exact (Option.some.inj hm).symm
        · exact Or.inr ⟨j, hj, hm⟩

/-! ### one visit of a block inside the instrumented program -/

theorem runVisit_eq (cs : List CodeObj) (r : Registry) (v : Visit) :
    (∃ c b rb, cs[v.co]? = some c ∧ c.blocks[v.blk]? = some b ∧
      Ext (visitNode c.pass none rb b).1 (instrumentProgram r cs).1 ∧
      runVisit (instrumentProgram r cs).2 v = runPrefix v.k (visitNode c.pass none rb b).2 ∧
      execVisit cs v = (execLines c.pass b v.k).map (fun l => ⟨c.pass.file, l⟩)) ∨
    (runVisit (instrumentProgram r cs).2 v = [] ∧ execVisit cs v = []) := by
  cases hc : cs[v.co]? with
  | none =>
    right
    simp [runVisit, execVisit, hc, instrumentProgram_get_none cs r v.co hc]
  | some c =>
    obtain ⟨ra, _, h2, h3⟩ := instrumentProgram_get cs r v.co c hc
    cases hb : c.blocks[v.blk]? with
    | none =>
      right
      simp [runVisit, execVisit, hc, hb, h3, instrumentBlocks_get_none c.pass c.blocks ra v.blk hb]
    | some b =>
      obtain ⟨rb, _, g2, g3⟩ := instrumentBlocks_get c.pass c.blocks ra v.blk b hb
      left
      exact ⟨c, b, rb, rfl, hb, Ext.trans g2 h2, by simp [runVisit, h3, g3], by simp [execVisit, hc, hb]⟩

theorem visit_sound (cs : List CodeObj) (r : Registry) (v : Visit) :
    ∀ id ∈ runVisit (instrumentProgram r cs).2 v,
      ∃ m ∈ execVisit cs v, (instrumentProgram r cs).1[id]? = some m := by
  intro id hid
  rcases runVisit_eq cs r v with ⟨c, b, rb, _, _, hext, hrun, hexec⟩ | ⟨hrun, _⟩
  · rw [hrun] at hid
    obtain ⟨l, h1, h2⟩ := visitNode_sound c.pass b none rb v.k _ hext id hid
    exact ⟨⟨c.pass.file, l⟩, by rw [hexec]; exact List.mem_map.2 ⟨l, h2, rfl⟩, h1⟩
  · rw [hrun] at hid; cases hid

theorem visit_complete (cs : List CodeObj) (r : Registry) (v : Visit) :
    ∀ m ∈ execVisit cs v,
      ∃ id ∈ runVisit (instrumentProgram r cs).2 v, (instrumentProgram r cs).1[id]? = some m := by
  intro m hm
  rcases runVisit_eq cs r v with ⟨c, b, rb, _, _, hext, hrun, hexec⟩ | ⟨_, hexec⟩
  · rw [hexec] at hm
    obtain ⟨l, hl, rfl⟩ := List.mem_map.1 hm
    rcases visitNode_complete c.pass b none rb v.k _ hext l hl with h | ⟨id, h1, h2⟩
    · cases h
    · exact ⟨id, by rw [hrun]; exact h1, h2⟩
  · rw [hexec] at hm; cases hm

theorem execVisit_coverable (cs : List CodeObj) (v : Visit) : ∀ m ∈ execVisit cs v, m ∈ coverableLines cs := by
  intro m hm
  unfold execVisit at hm
  cases hc : cs[v.co]? with
  | none => simp [hc] at hm
  | some c =>
    cases hb : c.blocks[v.blk]? with
    | none => simp [hc, hb] at hm
    | some b =>
      simp only [hc, hb, List.mem_map] at hm
      obtain ⟨l, hl, rfl⟩ := hm
      simp only [coverableLines, List.mem_flatMap, List.mem_map]
      refine ⟨c, List.mem_of_getElem? hc, b, List.mem_of_getElem? hb, l, ?_, rfl⟩
      unfold execLines at hl
      rw [List.mem_filterMap] at hl ⊢
      obtain ⟨i, hi, hil⟩ := hl
      exact ⟨i, List.mem_of_mem_take hi, hil⟩

/-- the instrumented block is the original block with trackers inserted: nothing else changes -/
def erase : List OEntry → List Entry
  | [] => []
  | .keep e :: es => e :: erase es
  | .tracker _ :: es => erase es

theorem visitNode_erase (p : Pass) : ∀ (b : List Entry) (last : Option Nat) (r : Registry),
    erase (visitNode p last r b).2 = b := by
  intro b
  induction b with
  | nil => intro last r; simp [visitNode, erase]
  | cons e es ih =>
    intro last r
    cases e with
    | pseudo => simp only [visitNode, erase, ih]
    | art => simp only [visitNode, erase, ih]
    | orig i =>
      cases ht : tracks p last i with
      | none => rw [visitNode_orig_skip ht]; simp only [erase, ih]
      | some l => rw [visitNode_orig_track ht]; simp only [erase, ih]

/-- every coverable line of a block is registered once the block is instrumented -/
theorem visitNode_registers (p : Pass) (b : List Entry) (r : Registry) :
    ∀ l ∈ (origs b).filterMap (lineOf p), (⟨p.file, l⟩ : LineMeta) ∈ (visitNode p none r b).1 := by
  intro l hl
  have hl' : l ∈ execLines p b (origs b).length := by simpa [execLines] using hl
  rcases visitNode_complete p b none r _ _ (Ext.refl _) l hl' with h | ⟨id, _, h2⟩
  · cases h
  · exact List.mem_of_getElem? h2

theorem instrumentBlocks_registers (p : Pass) : ∀ (bs : List (List Entry)) (r : Registry),
    ∀ b ∈ bs, ∀ l ∈ (origs b).filterMap (lineOf p), (⟨p.file, l⟩ : LineMeta) ∈ (instrumentBlocks p r bs).1 := by
  intro bs
  induction bs with
  | nil => intro r b hb; cases hb
  | cons b0 bs ih =>
    intro r b hb l hl
    simp only [instrumentBlocks]
    rcases List.mem_cons.1 hb with rfl | hb
    · exact Ext.mem (instrumentBlocks_ext p bs _) (visitNode_registers p b r l hl)
    · exact ih _ b hb l hl

theorem instrumentProgram_registers : ∀ (cs : List CodeObj) (r : Registry),
    ∀ m ∈ coverableLines cs, m ∈ (instrumentProgram r cs).1 := by
  intro cs
  induction cs with
  | nil => intro r m hm; simp [coverableLines] at hm
  | cons c cs ih =>
    intro r m hm
    simp only [coverableLines, List.flatMap_cons, List.mem_append] at hm
    simp only [instrumentProgram]
    rcases hm with hm | hm
    · simp only [List.mem_flatMap, List.mem_map] at hm
      obtain ⟨b, hb, l, hl, rfl⟩ := hm
      exact Ext.mem (instrumentProgram_ext cs _) (instrumentBlocks_registers c.pass c.blocks r b hb l hl)
    · exact ih _ m hm

end PynguinModel.LineInstr
