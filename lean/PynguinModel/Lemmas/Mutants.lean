import PynguinModel.Model.Mutants
/-! Helper lemmas for C28: heap algebra, the trace theorem `run_visit` (a generator started on heap `h`
and run without interference yields, at every `yield`, exactly `h` with the mutated slot overridden, and
ends in `h`), `read` versus `replaceAt`, and list lemmas for `_round_robin`. -/
namespace PynguinModel.Mutants

/-! ### induction over rose trees -/
theorem Tree.ind {P : Tree → Prop} (step : ∀ l ks, (∀ k ∈ ks, P k) → P (.node l ks))
    (hole : ∀ v, P (.hole v)) : ∀ t, P t := by
  intro t
  exact Tree.rec (motive_1 := P) (motive_2 := fun ks => ∀ k ∈ ks, P k) step hole
    (fun k hk => by cases hk)
    (fun k ks hk hks k' hk' => by
      rcases List.mem_cons.mp hk' with rfl | hk'
      · exact hk
      · exact hks k' hk') t

/-! ### heap algebra -/
namespace Heap

@[simp] theorem set_same (h : Heap) (p c) : (h.set p c) p = c := by simp [set_apply]
theorem set_ne (h : Heap) {p q : Path} (c) (hne : q ≠ p) : (h.set p c) q = h q := by simp [set_apply, hne]
@[simp] theorem set_set (h : Heap) (p c c') : (h.set p c).set p c' = h.set p c' := by
  funext q; simp only [set_apply]; split <;> rfl
@[simp] theorem set_self (h : Heap) (p) : h.set p (h p) = h := by
  funext q; simp only [set_apply]; split <;> simp_all
@[simp] theorem ite_set (h : Heap) (p c) : (if h p = c then h else h.set p c) = h.set p c := by
  split
  · rename_i e; rw [← e, set_self]
  · rfl
theorem sub_set_cons (g : Heap) (i q c) : (g.set (i :: q) c).sub i = (g.sub i).set q c := by
  funext r; simp [sub, set_apply]
@[simp] theorem sub_set_nil (g : Heap) (i x) : (g.set [] x).sub i = g.sub i := by
  funext r; simp [sub, set_apply]
@[simp] theorem putSub_sub (g : Heap) (i) : g.putSub i (g.sub i) = g := by
  funext r; cases r with
  | nil => simp [putSub]
  | cons j r => simp only [putSub, sub]; split <;> simp_all
@[simp] theorem sub_putSub (g : Heap) (i hs) : (g.putSub i hs).sub i = hs := by
  funext r; simp [putSub, sub]
theorem putSub_set_cons (g : Heap) (i q c x hs) :
    ((g.set (i :: q) c).set [] x).putSub i hs = (g.set [] x).putSub i hs := by
  funext r; cases r with
  | nil => simp [putSub, set_apply]
  | cons j r => simp only [putSub]; split <;> simp_all [set_apply]
theorem putSub_set_nil (g : Heap) (i x hs) : (g.set [] x).putSub i hs = (g.putSub i hs).set [] x := by
  funext r; cases r with
  | nil => simp [putSub, set_apply]
  | cons j r => simp [putSub, set_apply]
theorem putSub_key (h : Heap) (hnil : h [] = none) (i q c) :
    (h.set [] none).putSub i ((h.sub i).set q c) = h.set (i :: q) c := by
  funext r; cases r with
  | nil => simp [putSub, set_apply, hnil]
  | cons j r =>
    simp only [putSub, set_apply, sub]
    by_cases hj : j = i
    · subst hj; simp
    · simp [hj]
end Heap

/-! ### event lists -/

@[simp] theorem run_nil (h : Heap) : run [] h = ([], h) := rfl
theorem run_write (p c) (es : List Ev) (h : Heap) : run (.write p c :: es) h = run es (h.set p c) := by
  rw [run, Heap.ite_set]
theorem run_yield (i) (es : List Ev) (h : Heap) :
    run (.yield i :: es) h = ((i, h) :: (run es h).1, (run es h).2) := rfl

theorem run_append (A B : List Ev) : ∀ h,
    run (A ++ B) h = ((run A h).1 ++ (run B (run A h).2).1, (run B (run A h).2).2) := by
  induction A with
  | nil => intro h; simp [run_nil, run_write, run_yield]
  | cons e A ih =>
    intro h
    cases e with
    | write p c => simp [run_nil, run_write, run_yield, ih]
    | yield i => simp [run_nil, run_write, run_yield, ih]

theorem yields_append (A B : List Ev) : yields (A ++ B) = yields A ++ yields B := by
  induction A with
  | nil => simp [yields]
  | cons e A ih => cases e <;> simp [yields, ih]

def liftInfo (i : Nat) (info : Info) : Info := { info with path := i :: info.path }

theorem yields_lift (i : Nat) (E : List Ev) :
    yields (E.flatMap (liftEv i)) = (yields E).map (liftInfo i) := by
  induction E with
  | nil => simp [yields]
  | cons e E ih =>
    cases e with
    | write p c => simp [List.flatMap_cons, liftEv, yields, ih]
    | yield info => simp [List.flatMap_cons, liftEv, yields, ih, liftInfo]

theorem run_fst_eq_yields (E : List Ev) : ∀ h, (run E h).1.map Prod.fst = yields E := by
  induction E with
  | nil => intro h; simp [run_nil, run_write, run_yield, yields]
  | cons e E ih => intro h; cases e <;> simp [run_nil, run_write, run_yield, yields, ih]

/-- the events of child `i`, seen from its parent, act on the child's part of the heap -/
theorem run_lift (i : Nat) : ∀ (E : List Ev) (g : Heap), ∃ x,
    run (E.flatMap (liftEv i)) g =
      ((run E (g.sub i)).1.map (fun s => (liftInfo i s.1, (g.set [] none).putSub i s.2)),
       (g.set [] x).putSub i (run E (g.sub i)).2) := by
  intro E
  induction E with
  | nil => intro g; exact ⟨g [], by simp [run_nil, run_write, run_yield]⟩
  | cons e E ih =>
    intro g
    cases e with
    | write q c =>
      obtain ⟨x, hx⟩ := ih (g.set (i :: q) c)
      refine ⟨x, ?_⟩
      simp only [List.flatMap_cons, liftEv, List.singleton_append, run_nil, run_write, run_yield]
      rw [hx, Heap.sub_set_cons]
      simp only [Heap.putSub_set_cons]
    | yield info =>
      obtain ⟨x, hx⟩ := ih (g.set [] none)
      refine ⟨x, ?_⟩
      simp only [List.flatMap_cons, liftEv, List.cons_append, List.nil_append, run_nil, run_write, run_yield]
      rw [hx]
      simp only [Heap.sub_set_nil, Heap.set_set, List.map_cons, liftInfo]
      congr 2
      have := Heap.putSub_sub (g.set [] none) i
      simpa using this.symm

/-- the snapshot a yield of `info` must show on a generator started on `h` -/
def snap (h : Heap) (i : Info) : Info × Heap := (i, h.set i.path (some i.repl))

theorem run_nodeEvs_aux (tgt : Target) (p : Path) (h : Heap) : ∀ (l : List (Nat × Tree)) (x : Option Tree),
    ∃ x', run (l.flatMap fun (nm, r) =>
        if selected tgt p nm then [Ev.write [] (some r), Ev.yield ⟨[], nm, r⟩] else []) (h.set [] x) =
      ((yields (l.flatMap fun (nm, r) =>
        if selected tgt p nm then [Ev.write [] (some r), Ev.yield ⟨[], nm, r⟩] else [])).map (snap h),
       h.set [] x') := by
  intro l
  induction l with
  | nil => intro x; exact ⟨x, by simp [run_nil, run_write, run_yield, yields]⟩
  | cons a l ih =>
    intro x
    obtain ⟨nm, r⟩ := a
    by_cases hs : selected tgt p nm
    · obtain ⟨x', hx'⟩ := ih (some r)
      refine ⟨x', ?_⟩
      simp only [List.flatMap_cons, hs, if_true, List.cons_append, List.nil_append, run_nil, run_write, run_yield, yields,
        Heap.set_set, List.map_cons, hx', snap]
    · obtain ⟨x', hx'⟩ := ih x
      refine ⟨x', ?_⟩
      simpa [List.flatMap_cons, hs] using hx'

theorem run_nodeEvs (op : Op) (tgt : Target) (p : Path) (t : Tree) (h : Heap) (x : Option Tree) :
    ∃ x', run (nodeEvs op tgt p t) (h.set [] x) =
      ((yields (nodeEvs op tgt p t)).map (snap h), h.set [] x') :=
  run_nodeEvs_aux tgt p h (op.vis p t) x

theorem run_visitKids (op : Op) (tgt : Target) (h : Heap) (hnil : h [] = none) (p : Path) :
    ∀ (ks : List Tree) (i : Nat),
      (∀ k ∈ ks, ∀ (h' : Heap) (p' : Path),
        run (visit op tgt h' p' k) h' = ((yields (visit op tgt h' p' k)).map (snap h'), h')) →
      ∀ x, ∃ x', run (visitKids op tgt h p ks i) (h.set [] x) =
        ((yields (visitKids op tgt h p ks i)).map (snap h), h.set [] x') := by
  intro ks
  induction ks with
  | nil => intro i _ x; exact ⟨x, by simp [visitKids, run_nil, run_write, run_yield, yields]⟩
  | cons k ks ih =>
    intro i hk x
    have hk0 := hk k (List.mem_cons_self) (h.sub i) (p ++ [i])
    obtain ⟨x1, hx1⟩ := run_lift i (visit op tgt (h.sub i) (p ++ [i]) k) (h.set [] x)
    obtain ⟨x2, hx2⟩ := ih (i + 1) (fun k' hk' => hk k' (List.mem_cons_of_mem _ hk')) x1
    refine ⟨x2, ?_⟩
    rw [visitKids, run_append, hx1]
    simp only [Heap.sub_set_nil, hk0, Heap.set_set]
    rw [Heap.putSub_set_nil, Heap.putSub_sub, hx2, yields_append, yields_lift]
    simp only [List.map_map, List.map_append]
    congr 2
    apply List.map_congr_left
    intro info _
    simp only [Function.comp, snap, liftInfo]
    rw [Heap.putSub_key h hnil]

/-- **Trace theorem.**  A generator started on heap `h` and driven without interference shows, at the
yield of mutation `info`, exactly `h` with the slot of the mutated node holding the replacement, and
leaves `h` behind when exhausted. -/
theorem run_visit (op : Op) (tgt : Target) : ∀ (t : Tree) (h : Heap) (p : Path),
    run (visit op tgt h p t) h = ((yields (visit op tgt h p t)).map (snap h), h) := by
  intro t
  induction t using Tree.ind with
  | step l ks ih =>
    intro h p
    rw [visit]
    by_cases hc : ((h []).isSome || pruned tgt p) = true
    · simp [hc, run_nil, run_write, run_yield, yields]
    · have hnil : h [] = none := by
        cases hh : h [] with
        | none => rfl
        | some r => simp [hh] at hc
      obtain ⟨x1, hx1⟩ := run_nodeEvs op tgt p (.node l ks) h (h [])
      obtain ⟨x2, hx2⟩ := run_visitKids op tgt h hnil p ks 0 ih x1
      rw [Heap.set_self] at hx1
      have hfix : h.set [] none = h := by
        have := Heap.set_self h []
        rwa [hnil] at this
      simp only [hc, Bool.false_eq_true, if_false]
      rw [run_append, run_append, hx1, hx2]
      simp [run_nil, run_write, run_yield, yields_append, yields, hnil, hfix]
  | hole v => intro h p; simp [visit, run_nil, yields]

end PynguinModel.Mutants

namespace PynguinModel.Mutants

/-! ### `next` versus `run` -/

theorem next_write (p c) (es : List Ev) (h : Heap) : next (.write p c :: es) h = next es (h.set p c) := by
  rw [next, Heap.ite_set]

theorem next_none : ∀ {evs : List Ev} {h h' : Heap} {rest : List Ev},
    next evs h = (none, h', rest) → run evs h = ([], h') := by
  intro evs
  induction evs with
  | nil => intro h h' rest hn; simp [next] at hn; simp [hn.1]
  | cons e es ih =>
    intro h h' rest hn
    cases e with
    | write p c => rw [next_write] at hn; rw [run_write]; exact ih hn
    | yield i => simp [next] at hn

theorem next_some : ∀ {evs : List Ev} {h h1 : Heap} {i : Info} {rest : List Ev},
    next evs h = (some i, h1, rest) → run evs h = ((i, h1) :: (run rest h1).1, (run rest h1).2) := by
  intro evs
  induction evs with
  | nil => intro h h1 i rest hn; simp [next] at hn
  | cons e es ih =>
    intro h h1 i rest hn
    cases e with
    | write p c => rw [next_write] at hn; rw [run_write]; exact ih hn
    | yield j =>
      simp only [next, Prod.mk.injEq, Option.some.injEq] at hn
      obtain ⟨rfl, rfl, rfl⟩ := hn
      rw [run_yield]

/-- one regenerated mutation: after the first `next` the heap is the start heap with the mutated slot
overridden; if the second `next` exhausts the generator the start heap is back -/
theorem targeted_step {op : Op} {tgt : Target} {t : Tree} {h h1 : Heap} {i : Info} {rest : List Ev}
    (hn : next (mutateEvs op tgt h t) h = (some i, h1, rest)) :
    h1 = h.set i.path (some i.repl) ∧ i ∈ yields (mutateEvs op tgt h t) ∧
      ∀ h' r', next rest h1 = (none, h', r') → h' = h := by
  have h1' := next_some hn
  have hr := run_visit op tgt t h []
  rw [mutateEvs] at h1'
  rw [hr] at h1'
  simp only [Prod.mk.injEq] at h1'
  obtain ⟨hl, hf⟩ := h1'
  cases hy : yields (visit op tgt h [] t) with
  | nil => rw [hy] at hl; simp at hl
  | cons i' ys =>
    rw [hy] at hl
    simp only [List.map_cons, List.cons.injEq, snap, Prod.mk.injEq] at hl
    obtain ⟨⟨rfl, rfl⟩, _⟩ := hl
    refine ⟨rfl, ?_, ?_⟩
    · rw [mutateEvs, hy]; exact List.mem_cons_self
    · intro h' r' hn2
      have := next_none hn2
      rw [this] at hf
      exact hf.symm

/-! ### closing an abandoned generator -/

theorem mem_prefixes_self : ∀ p : Path, p ∈ prefixes p
  | [] => by simp [prefixes]
  | i :: p => by
    simp only [prefixes, List.mem_cons, List.mem_map]
    exact Or.inr ⟨p, mem_prefixes_self p, rfl⟩

theorem applyWrites_restore (h0 : Heap) : ∀ (ps : List Path) (g : Heap),
    (∀ q, q ∉ ps → g q = h0 q) → applyWrites (ps.map fun s => Ev.write s (h0 s)) g = h0 := by
  intro ps
  induction ps with
  | nil => intro g hag; funext q; simpa [applyWrites] using hag q (by simp)
  | cons s ps ih =>
    intro g hag
    simp only [List.map_cons, applyWrites, Heap.ite_set]
    apply ih
    intro q hq
    by_cases hqs : q = s
    · subst hqs; simp
    · rw [Heap.set_ne _ _ hqs]
      exact hag q (by simp [hqs, hq])

end PynguinModel.Mutants
