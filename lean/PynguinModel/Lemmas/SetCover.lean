import PynguinModel.Model.SetCover
/-!
Helper lemmas for C21 (`Model/SetCover.lean`): set primitives, the inner `for` scan, the greedy loop
invariant and its termination, the pruning pass, the summary loop, and the total function
`selectMinimal` obtained from the budgeted loop once the budget is proved sufficient.
-/
namespace PynguinModel.SetCover

/-- The Python `dict` invariant: keys are unique. -/
def KeysNodup (m : KillMap) : Prop := (m.map Prod.fst).Nodup

/-- "mutant `x` is killed by some assertion whose key is in `K`" -/
def Covered (m : KillMap) (K : List Key) (x : Mutant) : Prop := ∃ k ∈ K, x ∈ kills m k

/-- "mutant `x` is killed by some assertion of the kill map" -/
def InUniverse (m : KillMap) (x : Mutant) : Prop := ∃ e ∈ m, x ∈ e.2

/-! ### set primitives -/

theorem mem_setInsert {u : List Mutant} {x y : Mutant} : y ∈ setInsert u x ↔ y ∈ u ∨ y = x := by
  unfold setInsert
  by_cases h : x ∈ u
  · simp only [h, if_true]
    constructor
    · exact Or.inl
    · rintro (h' | rfl)
      · exact h'
      · exact h
  · simp [h]

theorem mem_setUnion {u ks : List Mutant} {y : Mutant} : y ∈ setUnion u ks ↔ y ∈ u ∨ y ∈ ks := by
  unfold setUnion
  induction ks generalizing u with
  | nil => simp
  | cons k ks ih =>
    simp only [List.foldl_cons, ih, mem_setInsert, List.mem_cons]
    constructor
    · rintro ((h | h) | h)
      · exact Or.inl h
      · exact Or.inr (Or.inl h)
      · exact Or.inr (Or.inr h)
    · rintro (h | h | h)
      · exact Or.inl (Or.inl h)
      · exact Or.inl (Or.inr h)
      · exact Or.inr h

theorem nodup_setInsert {u : List Mutant} (h : u.Nodup) (x : Mutant) : (setInsert u x).Nodup := by
  unfold setInsert
  by_cases hx : x ∈ u
  · simpa [hx] using h
  · simp only [hx, if_false]
    exact List.nodup_append.2 ⟨h, by simp, by
      intro a ha b hb
      rw [List.mem_singleton] at hb
      subst hb
      intro e; subst e; exact hx ha⟩

theorem nodup_setUnion {u : List Mutant} (h : u.Nodup) (ks : List Mutant) : (setUnion u ks).Nodup := by
  unfold setUnion
  induction ks generalizing u with
  | nil => simpa using h
  | cons k ks ih => simpa using ih (nodup_setInsert h k)

theorem subsetB_iff {a b : List Mutant} : subsetB a b = true ↔ ∀ x ∈ a, x ∈ b := by
  simp [subsetB, List.all_eq_true]

theorem mem_insertSorted {α} (le : α → α → Bool) (x y : α) (l : List α) :
    y ∈ insertSorted le x l ↔ y = x ∨ y ∈ l := by
  induction l with
  | nil => simp [insertSorted]
  | cons z zs ih =>
    unfold insertSorted
    by_cases h : le x z = true
    · simp [h]
    · simp only [h, Bool.false_eq_true, if_false, List.mem_cons, ih]
      constructor
      · rintro (h | h | h)
        · exact Or.inr (Or.inl h)
        · exact Or.inl h
        · exact Or.inr (Or.inr h)
      · rintro (h | h | h)
        · exact Or.inr (Or.inl h)
        · exact Or.inl h
        · exact Or.inr (Or.inr h)

theorem mem_isort {α} (le : α → α → Bool) (y : α) (l : List α) : y ∈ isort le l ↔ y ∈ l := by
  unfold isort
  induction l with
  | nil => simp
  | cons z zs ih => simp [List.foldr_cons, mem_insertSorted, ih]

theorem length_insertSorted {α} (le : α → α → Bool) (x : α) (l : List α) :
    (insertSorted le x l).length = l.length + 1 := by
  induction l with
  | nil => simp [insertSorted]
  | cons z zs ih =>
    unfold insertSorted
    by_cases h : le x z = true <;> simp [h, ih]

theorem length_isort {α} (le : α → α → Bool) (l : List α) : (isort le l).length = l.length := by
  unfold isort
  induction l with
  | nil => simp
  | cons z zs ih => simp [List.foldr_cons, length_insertSorted, ih]

/-! ### dict lookups -/

theorem KeysNodup.tail {e : Key × List Mutant} {m : KillMap} (h : KeysNodup (e :: m)) : KeysNodup m := by
  unfold KeysNodup at *
  simp only [List.map_cons, List.nodup_cons] at h
  exact h.2

theorem KeysNodup.filter {m : KillMap} (h : KeysNodup m) (p : Key × List Mutant → Bool) :
    KeysNodup (m.filter p) := by
  unfold KeysNodup at *
  exact h.sublist ((List.filter_sublist).map _)

/-- With unique keys, `kill_map[k]` is the value stored under `k`. -/
theorem kills_of_mem {m : KillMap} (h : KeysNodup m) {k : Key} {ks : List Mutant} (hm : (k, ks) ∈ m) :
    kills m k = ks := by
  induction m with
  | nil => cases hm
  | cons e m ih =>
    obtain ⟨k', ks'⟩ := e
    unfold kills
    rcases List.mem_cons.1 hm with heq | hmem
    · cases heq; simp
    · have hne : k' ≠ k := by
        intro e; subst e
        unfold KeysNodup at h
        simp only [List.map_cons, List.nodup_cons, List.mem_map] at h
        exact h.1 ⟨(k', ks), hmem, rfl⟩
      simp only [hne, if_false]
      exact ih h.tail hmem

/-- A looked-up non-empty kill set is stored in the map (so the `[]` default of `kills` is only
returned for absent keys or keys that really map to the empty set). -/
theorem mem_of_kills_ne_nil {m : KillMap} {k : Key} (h : kills m k ≠ []) : (k, kills m k) ∈ m := by
  induction m with
  | nil => simp [kills] at h
  | cons e m ih =>
    obtain ⟨k', ks'⟩ := e
    unfold kills at h ⊢
    by_cases hk : k' = k
    · subst hk; simp
    · simp only [hk, if_false] at h ⊢
      exact List.mem_cons_of_mem _ (ih h)

theorem mem_universeOf {m : KillMap} {x : Mutant} : x ∈ universeOf m ↔ InUniverse m x := by
  unfold universeOf InUniverse
  suffices h : ∀ (u : List Mutant), x ∈ m.foldl (fun u e => setUnion u e.2) u ↔ x ∈ u ∨ ∃ e ∈ m, x ∈ e.2 by
    simpa using h []
  induction m with
  | nil => intro u; simp
  | cons e m ih =>
    intro u
    simp only [List.foldl_cons, ih, mem_setUnion, List.mem_cons, exists_eq_or_imp]
    constructor
    · rintro ((h | h) | h)
      · exact Or.inl h
      · exact Or.inr (Or.inl h)
      · exact Or.inr (Or.inr h)
    · rintro (h | h | h)
      · exact Or.inl (Or.inl h)
      · exact Or.inl (Or.inr h)
      · exact Or.inr h

theorem nodup_universeOf (m : KillMap) : (universeOf m).Nodup := by
  unfold universeOf
  suffices h : ∀ (u : List Mutant), u.Nodup → (m.foldl (fun u e => setUnion u e.2) u).Nodup from
    h [] List.nodup_nil
  induction m with
  | nil => intro u hu; simpa using hu
  | cons e m ih => intro u hu; simpa using ih _ (nodup_setUnion hu e.2)

theorem mem_candidates {m : KillMap} {e : Key × List Mutant} : e ∈ candidates m ↔ e ∈ m ∧ e.2 ≠ [] := by
  unfold candidates
  simp [List.mem_filter]

/-! ### the inner `for key in sorted(candidates)` scan -/

theorem cover_pos_iff {ks unc : List Mutant} : 0 < cover ks unc ↔ ∃ x ∈ unc, x ∈ ks := by
  unfold cover
  rw [List.length_pos_iff_exists_mem]
  simp [List.mem_filter]

theorem cover_eq_zero_iff {ks unc : List Mutant} : cover ks unc = 0 ↔ ∀ x ∈ unc, x ∉ ks := by
  have := @cover_pos_iff ks unc
  constructor
  · intro h x hx hk
    have : 0 < cover ks unc := this.2 ⟨x, hx, hk⟩
    omega
  · intro h
    apply Nat.eq_zero_of_not_pos
    intro hp
    obtain ⟨x, hx, hk⟩ := this.1 hp
    exact h x hx hk

/-- Invariant of the `scanStep` fold started from `(bk, bc)`. -/
theorem scan_fold (unc : List Mutant) (l : KillMap) (bk : Option Key) (bc : Nat) :
    let r := l.foldl (scanStep unc) (bk, bc)
    bc ≤ r.2 ∧ (∀ e ∈ l, cover e.2 unc ≤ r.2) ∧
      ((r.1 = bk ∧ r.2 = bc) ∨ ∃ e ∈ l, r.1 = some e.1 ∧ r.2 = cover e.2 unc ∧ bc < cover e.2 unc) := by
  induction l generalizing bk bc with
  | nil => simp
  | cons e l ih =>
    simp only [List.foldl_cons]
    by_cases hc : cover e.2 unc > bc
    · have hs : scanStep unc (bk, bc) e = (some e.1, cover e.2 unc) := by simp [scanStep, hc]
      rw [hs]
      obtain ⟨h1, h2, h3⟩ := ih (some e.1) (cover e.2 unc)
      refine ⟨by omega, ?_, ?_⟩
      · intro e' he'
        rcases List.mem_cons.1 he' with rfl | hm
        · exact h1
        · exact h2 e' hm
      · rcases h3 with ⟨ha, hb⟩ | ⟨e', he', ha, hb, hlt⟩
        · exact Or.inr ⟨e, List.mem_cons_self, ha, hb, hc⟩
        · exact Or.inr ⟨e', List.mem_cons_of_mem _ he', ha, hb, by omega⟩
    · have hs : scanStep unc (bk, bc) e = (bk, bc) := by simp [scanStep, hc]
      rw [hs]
      obtain ⟨h1, h2, h3⟩ := ih bk bc
      refine ⟨h1, ?_, ?_⟩
      · intro e' he'
        rcases List.mem_cons.1 he' with rfl | hm
        · omega
        · exact h2 e' hm
      · rcases h3 with h | ⟨e', he', ha, hb, hlt⟩
        · exact Or.inl h
        · exact Or.inr ⟨e', List.mem_cons_of_mem _ he', ha, hb, hlt⟩

/-- `best_key is None` after the scan means no candidate covers anything uncovered. -/
theorem scan_none {cands : KillMap} {unc : List Mutant} (h : (scan cands unc).1 = none) :
    ∀ e ∈ cands, cover e.2 unc = 0 := by
  intro e he
  obtain ⟨_, h2, h3⟩ := scan_fold unc (isort (fun a b => keyLe a.1 b.1) cands) none 0
  have he' : e ∈ isort (fun a b => keyLe a.1 b.1) cands := (mem_isort _ _ _).2 he
  have hle := h2 e he'
  rcases h3 with ⟨_, hb⟩ | ⟨e', _, ha, _, _⟩
  · omega
  · unfold scan at h; rw [h] at ha; cases ha

/-- A selected `best_key` is the key of a candidate that covers at least one uncovered mutant, and
no candidate covers more. -/
theorem scan_some {cands : KillMap} {unc : List Mutant} {k : Key} (h : (scan cands unc).1 = some k) :
    ∃ e ∈ cands, e.1 = k ∧ 0 < cover e.2 unc ∧ ∀ e' ∈ cands, cover e'.2 unc ≤ cover e.2 unc := by
  obtain ⟨_, h2, h3⟩ := scan_fold unc (isort (fun a b => keyLe a.1 b.1) cands) none 0
  rcases h3 with ⟨ha, _⟩ | ⟨e, he, ha, hb, hlt⟩
  · unfold scan at h; rw [h] at ha; cases ha
  · refine ⟨e, (mem_isort _ _ _).1 he, ?_, hlt, ?_⟩
    · unfold scan at h; rw [h] at ha; cases ha; rfl
    · intro e' he'
      have := h2 e' ((mem_isort _ _ _).2 he')
      omega

/-! ### the greedy `while uncovered:` loop -/

/-- Loop invariant of the greedy phase (`m` is the kill map, the rest is the loop state). -/
structure GInv (m cands : KillMap) (unc : List Mutant) (keep : List Key) : Prop where
  cands_sub : ∀ e ∈ cands, e ∈ m ∧ e.2 ≠ []
  cands_nodup : KeysNodup cands
  /-- every uncovered mutant is still killed by a remaining candidate -/
  unc_cov : ∀ x ∈ unc, ∃ e ∈ cands, x ∈ e.2
  /-- `uncovered ∪ covered(keep) ⊇ universe` -/
  univ_cov : ∀ x, InUniverse m x → x ∈ unc ∨ Covered m keep x
  keep_ok : ∀ k ∈ keep, ∃ ks, (k, ks) ∈ m ∧ ks ≠ []
  keep_nodup : keep.Nodup
  keep_disj : ∀ k ∈ keep, ∀ e ∈ cands, e.1 ≠ k

theorem GInv.init {m : KillMap} (hm : KeysNodup m) : GInv m (candidates m) (universeOf m) [] where
  cands_sub := fun e he => mem_candidates.1 he
  cands_nodup := hm.filter _
  unc_cov := by
    intro x hx
    obtain ⟨e, he, hxe⟩ := mem_universeOf.1 hx
    exact ⟨e, mem_candidates.2 ⟨he, by intro h; rw [h] at hxe; cases hxe⟩, hxe⟩
  univ_cov := fun x hx => Or.inl (mem_universeOf.2 hx)
  keep_ok := by intro k hk; cases hk
  keep_nodup := List.nodup_nil
  keep_disj := by intro k hk; cases hk

/-- One iteration of the loop body preserves the invariant. -/
theorem GInv.step {m cands : KillMap} {unc : List Mutant} {keep : List Key} (hm : KeysNodup m)
    (inv : GInv m cands unc keep) {k : Key} (hk : (scan cands unc).1 = some k) :
    GInv m (cands.filter (fun e => e.1 ≠ k)) (unc.filter (fun x => !(kills cands k).contains x))
      (keep ++ [k]) := by
  obtain ⟨e, he, hek, _, _⟩ := scan_some hk
  obtain ⟨ek, eks⟩ := e
  simp only at hek
  subst hek
  have hkc : kills cands ek = eks := kills_of_mem inv.cands_nodup he
  have hkm : kills m ek = eks := kills_of_mem hm (inv.cands_sub _ he).1
  rw [hkc]
  refine ⟨?_, inv.cands_nodup.filter _, ?_, ?_, ?_, ?_, ?_⟩
  · intro e' he'
    exact inv.cands_sub e' (List.mem_filter.1 he').1
  · intro x hx
    obtain ⟨hxu, hxn⟩ := List.mem_filter.1 hx
    have hxn' : x ∉ eks := by simpa using hxn
    obtain ⟨e', he', hxe'⟩ := inv.unc_cov x hxu
    refine ⟨e', List.mem_filter.2 ⟨he', ?_⟩, hxe'⟩
    have : e'.1 ≠ ek := by
      intro heq
      have h1 : kills cands e'.1 = e'.2 := kills_of_mem inv.cands_nodup (by simpa using he')
      rw [heq, hkc] at h1
      exact hxn' (h1 ▸ hxe')
    simpa using this
  · intro x hx
    rcases inv.univ_cov x hx with hu | ⟨k', hk', hxk'⟩
    · by_cases hxe : x ∈ eks
      · exact Or.inr ⟨ek, by simp, by rw [hkm]; exact hxe⟩
      · exact Or.inl (List.mem_filter.2 ⟨hu, by simpa using hxe⟩)
    · exact Or.inr ⟨k', List.mem_append_left _ hk', hxk'⟩
  · intro k' hk'
    rcases List.mem_append.1 hk' with h | h
    · exact inv.keep_ok k' h
    · rw [List.mem_singleton] at h
      subst h
      exact ⟨eks, (inv.cands_sub _ he).1, (inv.cands_sub _ he).2⟩
  · refine List.nodup_append.2 ⟨inv.keep_nodup, by simp, ?_⟩
    intro a ha b hb
    rw [List.mem_singleton] at hb
    subst hb
    intro hab
    subst hab
    exact inv.keep_disj a ha (a, eks) he rfl
  · intro k' hk' e' he'
    obtain ⟨he'c, hne⟩ := List.mem_filter.1 he'
    rcases List.mem_append.1 hk' with h | h
    · exact inv.keep_disj k' h e' he'c
    · rw [List.mem_singleton] at h
      subst h
      simpa using hne

/-- **The `if best_key is None: break` exit is dead code**: as long as something is uncovered, some
remaining candidate covers it. -/
theorem GInv.scan_ne_none {m cands : KillMap} {unc : List Mutant} {keep : List Key}
    (inv : GInv m cands unc keep) (hne : unc ≠ []) : (scan cands unc).1 ≠ none := by
  intro h
  obtain ⟨x, hx⟩ := List.exists_mem_of_ne_nil unc hne
  obtain ⟨e, he, hxe⟩ := inv.unc_cov x hx
  exact (cover_eq_zero_iff.1 (scan_none h e he)) x hx hxe

/-- What the invariant gives when the loop ends. -/
theorem greedy_spec {m : KillMap} (hm : KeysNodup m) :
    ∀ (fuel : Nat) (cands : KillMap) (unc : List Mutant) (keep r : List Key),
      GInv m cands unc keep → greedy fuel cands unc keep = some r →
      (∀ x, InUniverse m x → Covered m r x) ∧ (∀ k ∈ r, ∃ ks, (k, ks) ∈ m ∧ ks ≠ []) ∧ r.Nodup := by
  intro fuel
  induction fuel with
  | zero => intro cands unc keep r _ h; simp [greedy] at h
  | succ fuel ih =>
    intro cands unc keep r inv h
    unfold greedy at h
    by_cases hu : unc.isEmpty = true
    · simp only [hu, if_true, Option.some.injEq] at h
      subst h
      have hnil : unc = [] := List.isEmpty_iff.1 hu
      refine ⟨?_, inv.keep_ok, inv.keep_nodup⟩
      intro x hx
      rcases inv.univ_cov x hx with h | h
      · rw [hnil] at h; cases h
      · exact h
    · simp only [hu, Bool.false_eq_true, if_false] at h
      have hne : unc ≠ [] := by intro e; exact hu (List.isEmpty_iff.2 e)
      cases hs : (scan cands unc).1 with
      | none => exact absurd hs (inv.scan_ne_none hne)
      | some k =>
        rw [hs] at h
        exact ih _ _ _ _ (inv.step hm hs) h

/-- **Termination**: `len(candidates) + 1` iterations always suffice (every iteration that does not
leave the loop deletes one candidate). -/
theorem greedy_terminates :
    ∀ (fuel : Nat) (cands : KillMap) (unc : List Mutant) (keep : List Key),
      cands.length < fuel → (greedy fuel cands unc keep).isSome = true := by
  intro fuel
  induction fuel with
  | zero => intro cands unc keep h; omega
  | succ fuel ih =>
    intro cands unc keep hlen
    unfold greedy
    by_cases hu : unc.isEmpty = true
    · simp [hu]
    · simp only [hu, Bool.false_eq_true, if_false]
      cases hs : (scan cands unc).1 with
      | none => simp
      | some k =>
        simp only
        apply ih
        obtain ⟨e, he, hek, _, _⟩ := scan_some hs
        have : (cands.filter (fun e => e.1 ≠ k)).length < cands.length := by
          apply List.length_filter_lt_length_iff_exists.2
          exact ⟨e, he, by simp [hek]⟩
        omega

/-- More budget never changes the answer: the budgeted loop *is* the unbounded loop. -/
theorem greedy_fuel_mono :
    ∀ (fuel : Nat) (cands : KillMap) (unc : List Mutant) (keep r : List Key),
      greedy fuel cands unc keep = some r → ∀ fuel', fuel ≤ fuel' → greedy fuel' cands unc keep = some r := by
  intro fuel
  induction fuel with
  | zero => intro cands unc keep r h; simp [greedy] at h
  | succ fuel ih =>
    intro cands unc keep r h fuel' hle
    obtain ⟨f', rfl⟩ : ∃ f', fuel' = f' + 1 := ⟨fuel' - 1, by omega⟩
    unfold greedy at h ⊢
    by_cases hu : unc.isEmpty = true
    · simpa [hu] using h
    · simp only [hu, Bool.false_eq_true, if_false] at h ⊢
      cases hs : (scan cands unc).1 with
      | none => rw [hs] at h; exact h
      | some k =>
        rw [hs] at h
        exact ih _ _ _ _ h f' (by omega)

/-! ### the pruning pass -/

theorem mem_othersUnion {m : KillMap} {keep : List Key} {key : Key} {x : Mutant} :
    x ∈ othersUnion m keep key ↔ ∃ o ∈ keep, o ≠ key ∧ x ∈ kills m o := by
  unfold othersUnion
  suffices h : ∀ (l : List Key) (acc : List Mutant),
      x ∈ l.foldl (fun acc o => setUnion acc (kills m o)) acc ↔ x ∈ acc ∨ ∃ o ∈ l, x ∈ kills m o by
    rw [h]
    simp only [List.not_mem_nil, false_or, List.mem_filter, decide_eq_true_eq]
    constructor
    · rintro ⟨o, ⟨ho, hne⟩, hx⟩; exact ⟨o, ho, hne, hx⟩
    · rintro ⟨o, ho, hne, hx⟩; exact ⟨o, ⟨ho, hne⟩, hx⟩
  intro l
  induction l with
  | nil => intro acc; simp
  | cons o l ih =>
    intro acc
    simp only [List.foldl_cons, ih, mem_setUnion, List.mem_cons, exists_eq_or_imp]
    constructor
    · rintro ((h | h) | h)
      · exact Or.inl h
      · exact Or.inr (Or.inl h)
      · exact Or.inr (Or.inr h)
    · rintro (h | h | h)
      · exact Or.inl (Or.inl h)
      · exact Or.inl (Or.inr h)
      · exact Or.inr h

/-- "key `k` of `K` is redundant": its kill set is covered by the other keys of `K`. -/
def Redundant (m : KillMap) (K : List Key) (k : Key) : Prop :=
  ∀ x ∈ kills m k, ∃ o ∈ K, o ≠ k ∧ x ∈ kills m o

theorem redundant_iff {m : KillMap} {K : List Key} {k : Key} :
    subsetB (kills m k) (othersUnion m K k) = true ↔ Redundant m K k := by
  simp only [subsetB_iff, mem_othersUnion, Redundant]

theorem pruneStep_sub {m : KillMap} {keep : List Key} {key k : Key} (h : k ∈ pruneStep m keep key) :
    k ∈ keep := by
  unfold pruneStep at h
  split at h
  · exact (List.mem_filter.1 h).1
  · exact h

theorem pruneStep_covered {m : KillMap} {keep : List Key} {key : Key} {x : Mutant} :
    Covered m (pruneStep m keep key) x ↔ Covered m keep x := by
  constructor
  · rintro ⟨k, hk, hx⟩; exact ⟨k, pruneStep_sub hk, hx⟩
  · rintro ⟨k, hk, hx⟩
    unfold pruneStep
    split
    · rename_i hred
      by_cases hkk : k = key
      · subst hkk
        obtain ⟨o, ho, hne, hxo⟩ := redundant_iff.1 hred x hx
        exact ⟨o, List.mem_filter.2 ⟨ho, by simpa using hne⟩, hxo⟩
      · exact ⟨k, List.mem_filter.2 ⟨hk, by simpa using hkk⟩, hx⟩
    · exact ⟨k, hk, hx⟩

theorem pruneStep_nodup {m : KillMap} {keep : List Key} {key : Key} (h : keep.Nodup) :
    (pruneStep m keep key).Nodup := by
  unfold pruneStep
  split
  · exact h.filter _
  · exact h

theorem pruneFold_sub {m : KillMap} (l : List Key) {keep : List Key} {k : Key}
    (h : k ∈ l.foldl (pruneStep m) keep) : k ∈ keep := by
  induction l generalizing keep with
  | nil => simpa using h
  | cons key l ih => exact pruneStep_sub (ih (by simpa using h))

theorem pruneFold_covered {m : KillMap} (l : List Key) {keep : List Key} {x : Mutant} :
    Covered m (l.foldl (pruneStep m) keep) x ↔ Covered m keep x := by
  induction l generalizing keep with
  | nil => simp
  | cons key l ih => simp only [List.foldl_cons]; rw [ih, pruneStep_covered]

theorem pruneFold_nodup {m : KillMap} (l : List Key) {keep : List Key} (h : keep.Nodup) :
    (l.foldl (pruneStep m) keep).Nodup := by
  induction l generalizing keep with
  | nil => simpa using h
  | cons key l ih => exact ih (pruneStep_nodup h)

/-- Redundancy is anti-monotone in the kept set. -/
theorem Redundant.mono {m : KillMap} {K K' : List Key} {k : Key} (hsub : ∀ o ∈ K', o ∈ K)
    (h : Redundant m K' k) : Redundant m K k := by
  intro x hx
  obtain ⟨o, ho, hne, hxo⟩ := h x hx
  exact ⟨o, hsub o ho, hne, hxo⟩

/-- After the pass, every key that is still kept and whose turn has come is irredundant. -/
theorem pruneFold_irredundant {m : KillMap} (l : List Key) {keep : List Key}
    (hP : ∀ k ∈ keep, k ∈ l ∨ ¬ Redundant m keep k) :
    ∀ k ∈ l.foldl (pruneStep m) keep, ¬ Redundant m (l.foldl (pruneStep m) keep) k := by
  induction l generalizing keep with
  | nil =>
    intro k hk
    rcases hP k (by simpa using hk) with h | h
    · cases h
    · simpa using h
  | cons key l ih =>
    simp only [List.foldl_cons]
    apply ih
    intro k hk
    have hk0 : k ∈ keep := pruneStep_sub hk
    have hmono : ¬ Redundant m keep k → ¬ Redundant m (pruneStep m keep key) k :=
      fun hn hr => hn (hr.mono (fun o ho => pruneStep_sub ho))
    rcases hP k hk0 with h | h
    · rcases List.mem_cons.1 h with rfl | h
      · -- `k` is the key examined now and it survived: it was found irredundant
        right
        unfold pruneStep at hk ⊢
        split at hk
        · simp at hk
        · rename_i hnr
          simp only [hnr, Bool.false_eq_true, if_false]
          exact fun hr => hnr (redundant_iff.2 hr)
      · exact Or.inl h
    · exact Or.inr (hmono h)

theorem prune_sub {m : KillMap} {keep : List Key} {k : Key} (h : k ∈ prune m keep) : k ∈ keep :=
  pruneFold_sub _ h

theorem prune_covered {m : KillMap} {keep : List Key} {x : Mutant} :
    Covered m (prune m keep) x ↔ Covered m keep x :=
  pruneFold_covered _

theorem prune_nodup {m : KillMap} {keep : List Key} (h : keep.Nodup) : (prune m keep).Nodup :=
  pruneFold_nodup _ h

theorem prune_irredundant {m : KillMap} {keep : List Key} :
    ∀ k ∈ prune m keep, ¬ Redundant m (prune m keep) k := by
  apply pruneFold_irredundant
  intro k hk
  exact Or.inl (List.mem_reverse.2 ((mem_isort _ _ _).2 hk))

/-! ### the whole function -/

theorem selectMinimal?_isSome (m : KillMap) : (selectMinimal? m).isSome = true := by
  unfold selectMinimal?
  rw [Option.isSome_map]
  exact greedy_terminates _ _ _ _ (Nat.lt_succ_self _)

/-- `_select_minimal_assertions` as a total function: the loop budget of `selectMinimal?` is always
sufficient (`selectMinimal?_isSome`), so no default value is involved. -/
def selectMinimal (m : KillMap) : List Key := (selectMinimal? m).get (selectMinimal?_isSome m)

theorem selectMinimal?_eq (m : KillMap) : selectMinimal? m = some (selectMinimal m) := by
  simp [selectMinimal]

/-- The greedy phase's result, for stating facts about `selectMinimal`. -/
theorem selectMinimal_eq_prune (m : KillMap) :
    ∃ g, greedy ((candidates m).length + 1) (candidates m) (universeOf m) [] = some g ∧
      selectMinimal m = prune m g := by
  have h := selectMinimal?_eq m
  unfold selectMinimal? at h
  cases hg : greedy ((candidates m).length + 1) (candidates m) (universeOf m) [] with
  | none => rw [hg] at h; cases h
  | some g =>
    rw [hg] at h
    simp only [Option.map_some, Option.some.injEq] at h
    exact ⟨g, rfl, h.symm⟩

end PynguinModel.SetCover
