/-
Model of `pynguin.testcase.literalgen` (value ↔ libcst literal expressions).

Python function                      Lean definition
-----------------------------------  -------------------------------------------
`str(n)` / `int(text)` on digits      `toDigits` / `ofDigits`        (own definitions + proofs)
`_int_to_cst`                         `intToCst`   (`intToCstLim` adds CPython's str-digit limit)
`_float_to_cst`                       `floatToCst`                   (repaired: sign via copysign)
`_complex_to_cst`                     `complexToCst`
`_tuple_elements`                     the `comma` flag of `Expr.tuple`
`_collection_to_cst`/`literal_to_cst` `litToCst` / `litsToCst` / `pairsToCst`
`_parse_int`, `_parse_float`          `parseInt`, `parseFloat`       (repaired: accepts `float('inf')`)
`_parse_component`, `_parse_complex`  `parseComponent`, `parseComplex`
`_parse_primitive_literal`            `parsePrimitive`
`ast.literal_eval(code_for_node(e))`  `literalEval`
`parse_literal`                       `parseLiteral`
evaluation of the printed expression  `eval`                         (abstract CPython evaluator)
`generate_literal`, `_gen_*`          `genLiteral`, `gen*`           (functions of the recorded draws)
`mutate_literal`, `_mutate_*`         `mutateLiteral`, `mutate*`

Conventions (DESIGN §3).  A Python float is `PyFloat`: sign bit + `nan | inf | fin mag` where the
magnitude `mag : Nat` is an opaque index of the non-negative finite double (the harness uses the
IEEE-754 bit pattern of `abs x`; `0` is zero).  The model never does float arithmetic.  A `Float`
token is identified with the magnitude it denotes: `repr(abs x)` and `float(text)` are assumed
inverse on finite magnitudes (CPython guarantee; exercised on every sample by the correspondence),
likewise `repr` / `evaluated_value` on `str` and `bytes`.  Sets and dicts are the lists of their
elements in iteration order (the renderers only ever receive real sets/dicts, so the lists are
duplicate-free; the evaluator does not collapse duplicates).  Mathlib-free.
-/
namespace PynguinModel.Literals

/-! ## Decimal digits (`str(n)` and `int(text)` on non-negative integers) -/

/-- `str(n)`: decimal digits, most significant first; `toDigits 0 = [0]`. -/
def toDigits (n : Nat) : List Nat :=
  if n < 10 then [n] else toDigits (n / 10) ++ [n % 10]
decreasing_by omega

/-- `int(text)` on a digit string. -/
def ofDigits (ds : List Nat) : Nat := ds.foldl (fun a d => 10 * a + d) 0

/-- A decimal integer token Python accepts: non-empty, digits only, no leading zero (except `0`). -/
def validDigits (ds : List Nat) : Bool :=
  !ds.isEmpty && ds.all (· < 10) && (ds.head? != some 0 || ds.length == 1)

/-- CPython's `sys.get_int_max_str_digits()` guard (`lim = 0` disables it; default 4300): both
`str(int)` and `int(str)` raise `ValueError` beyond the limit. -/
def digitsWithinLimit (lim : Nat) (n : Nat) : Bool := lim == 0 || (toDigits n).length ≤ lim

/-! ## Floats -/

inductive PyFloat where
  | nan (neg : Bool)
  | inf (neg : Bool)
  | fin (neg : Bool) (mag : Nat)
  deriving DecidableEq, Repr, Inhabited

namespace PyFloat
/-- `abs(x)`. -/
def abs : PyFloat → PyFloat
  | nan _ => nan false | inf _ => inf false | fin _ m => fin false m
/-- `-x` (flips the sign bit, also of zero and NaN). -/
def neg : PyFloat → PyFloat
  | nan s => nan (!s) | inf s => inf (!s) | fin s m => fin (!s) m
/-- `math.isfinite(x)`. -/
def isFinite : PyFloat → Bool
  | fin _ _ => true | _ => false
def isNan : PyFloat → Bool
  | nan _ => true | _ => false
/-- `x < 0` (false for NaN and for both zeros). -/
def ltZero : PyFloat → Bool
  | nan _ => false | inf s => s | fin s m => s && m != 0
/-- `math.copysign(1.0, x) < 0`: the sign bit. -/
def signBit : PyFloat → Bool
  | nan s => s | inf s => s | fin s _ => s
/-- Python `x == y` on floats: NaN is unequal to everything, `-0.0 == 0.0`. -/
def pyEq : PyFloat → PyFloat → Bool
  | nan _, _ => false | _, nan _ => false
  | inf a, inf b => a == b
  | fin a m, fin b n => m == n && (a == b || m == 0)
  | _, _ => false
end PyFloat

/-! ## Abstract libcst expressions -/

/-- Code points of a Python `str` / byte values of a `bytes`. -/
abbrev Chars := List Nat

/-- The texts `'inf'`, `'nan'`, `'-inf'` as code points. -/
def strInf : Chars := [105, 110, 102]
def strNan : Chars := [110, 97, 110]
def strNegInf : Chars := [45, 105, 110, 102]

inductive Expr where
  /-- `cst.Name(id)` -/
  | name (id : String)
  /-- `cst.Integer(text)` where `text` is the given digit string -/
  | integer (ds : List Nat)
  /-- `cst.Float(repr(m))` for the non-negative finite magnitude `m` (a sign-free token) -/
  | float (mag : Nat)
  /-- `cst.SimpleString(repr(s))` for a `str` -/
  | str (s : Chars)
  /-- `cst.SimpleString(repr(b))` for a `bytes` -/
  | bytes (b : Chars)
  /-- `cst.SimpleString(text)` / `cst.Float(text)` / `cst.Integer(text)` / `cst.Name(text)` with a
  text that is *not* a token of that kind (libcst raises `CSTValidationError`) -/
  | badToken (text : String)
  /-- `cst.UnaryOperation(Minus, e)` -/
  | neg (e : Expr)
  /-- `cst.Call(Name f, args)` -/
  | call (f : String) (args : List Expr)
  /-- `cst.Attribute(e, Name a)` -/
  | attr (e : Expr) (a : String)
  | list (es : List Expr)
  /-- `comma`: the single element carries an explicit `cst.Comma` (`_tuple_elements`).  Cosmetic:
  libcst's code generator prints the trailing comma of a one-element `cst.Tuple` by itself, so a
  `Tuple` node always denotes a tuple -/
  | tuple (es : List Expr) (comma : Bool)
  | set (es : List Expr)
  | dict (kvs : List (Expr × Expr))
  deriving Repr, Inhabited

/-! ## Values -/

inductive LitVal where
  | none
  | bool (b : Bool)
  | int (z : Int)
  | float (f : PyFloat)
  | complex (re im : PyFloat)
  | str (s : Chars)
  | bytes (b : Chars)
  | list (xs : List LitVal)
  | tuple (xs : List LitVal)
  | set (xs : List LitVal)
  | dict (kvs : List (LitVal × LitVal))
  deriving Repr, Inhabited

/-- The `raw` argument of `generate_literal` / `parse_literal` (`other` = `None`/unrecognised). -/
inductive RawType where
  | bool | int | float | complex | str | bytes | list | set | tuple | dict | other
  deriving DecidableEq, Repr, Inhabited

/-- `type(v)`. -/
def LitVal.typeOf : LitVal → RawType
  | .none => .other | .bool _ => .bool | .int _ => .int | .float _ => .float
  | .complex _ _ => .complex | .str _ => .str | .bytes _ => .bytes | .list _ => .list
  | .tuple _ => .tuple | .set _ => .set | .dict _ => .dict

/-- `isinstance(v, raw)` for the builtin `raw` types (`bool` is a subclass of `int`). -/
def LitVal.isInstance (v : LitVal) (raw : RawType) : Bool :=
  v.typeOf == raw || (v.typeOf == .bool && raw == .int)

/-! ## Rendering (`literal_to_cst` and helpers) -/

/-- `_int_to_cst`. -/
def intToCst (z : Int) : Expr :=
  if z < 0 then .neg (.integer (toDigits z.natAbs)) else .integer (toDigits z.natAbs)

/-- `_int_to_cst` under the interpreter's str-digit limit (`none` = `ValueError`). -/
def intToCstLim (lim : Nat) (z : Int) : Option Expr :=
  if digitsWithinLimit lim z.natAbs then some (intToCst z) else none

/-- `_float_to_cst` (repaired): the inner node is rendered from `abs(value)`; the minus is added
when the sign bit is set (`math.copysign(1.0, value) < 0`). -/
def floatToCst (v : PyFloat) : Expr :=
  let inner : Expr := match v.abs with
    | .nan _ => .call "float" [.str (strNan)]
    | .inf _ => .call "float" [.str (strInf)]
    | .fin _ m => .float m
  if v.signBit then .neg inner else inner

/-- `_float_to_cst` as it is on the unchanged tree: the minus is added when `value < 0`. -/
def floatToCstOld (v : PyFloat) : Expr :=
  let inner : Expr := match v.abs with
    | .nan _ => .call "float" [.str (strNan)]
    | .inf _ => .call "float" [.str (strInf)]
    | .fin _ m => .float m
  if v.ltZero then .neg inner else inner

/-- `_complex_to_cst`. -/
def complexToCst (re im : PyFloat) : Expr := .call "complex" [floatToCst re, floatToCst im]

mutual
/-- `literal_to_cst` (with `_collection_to_cst` inlined). -/
def litToCst : LitVal → Expr
  | .none => .name "None"
  | .bool b => .name (if b then "True" else "False")
  | .int z => intToCst z
  | .float f => floatToCst f
  | .complex re im => complexToCst re im
  | .str s => .str s
  | .bytes b => .bytes b
  | .list xs => .list (litsToCst xs)
  | .tuple xs => .tuple (litsToCst xs) (xs.length == 1)
  | .set xs => if xs.isEmpty then .call "set" [] else .set (litsToCst xs)
  | .dict kvs => .dict (pairsToCst kvs)
def litsToCst : List LitVal → List Expr
  | [] => []
  | x :: xs => litToCst x :: litsToCst xs
def pairsToCst : List (LitVal × LitVal) → List (Expr × Expr)
  | [] => []
  | (k, v) :: kvs => (litToCst k, litToCst v) :: pairsToCst kvs
end

mutual
/-- Every `int` inside the value can be converted with `str()` under the digit limit. -/
def LitVal.intsWithin (lim : Nat) : LitVal → Bool
  | .int z => digitsWithinLimit lim z.natAbs
  | .list xs | .tuple xs | .set xs => intsWithinList lim xs
  | .dict kvs => intsWithinPairs lim kvs
  | _ => true
def intsWithinList (lim : Nat) : List LitVal → Bool
  | [] => true
  | x :: xs => x.intsWithin lim && intsWithinList lim xs
def intsWithinPairs (lim : Nat) : List (LitVal × LitVal) → Bool
  | [] => true
  | (k, v) :: kvs => k.intsWithin lim && v.intsWithin lim && intsWithinPairs lim kvs
end

/-- `literal_to_cst` under the interpreter's str-digit limit (`none` = `ValueError`). -/
def litToCstLim (lim : Nat) (v : LitVal) : Option Expr :=
  if v.intsWithin lim then some (litToCst v) else none

/-! ## Validity of the produced nodes (the libcst validators + Python's token grammar) -/

mutual
def Expr.valid : Expr → Bool
  | .name id => id != ""
  | .integer ds => validDigits ds
  | .float _ => true
  | .str _ => true
  | .bytes _ => true
  | .badToken _ => false
  | .neg e => e.valid
  | .call f args => f != "" && validList args
  | .attr e a => e.valid && a != ""
  | .list es => validList es
  | .tuple es _ => validList es
  | .set es => !es.isEmpty && validList es
  | .dict kvs => validPairs kvs
def validList : List Expr → Bool
  | [] => true
  | e :: es => e.valid && validList es
def validPairs : List (Expr × Expr) → Bool
  | [] => true
  | (k, v) :: kvs => k.valid && v.valid && validPairs kvs
end

/-! ## Evaluation of the printed expression (abstract CPython) -/

/-- `float(text)` for the texts the renderers produce. -/
def floatOfText (s : Chars) : Option PyFloat :=
  if s = strInf then some (.inf false)
  else if s = strNegInf then some (.inf true)
  else if s = strNan then some (.nan false)
  else none

/-- Unary minus on a value (`int`, `float`; other operand types are outside the fragment). -/
def negVal : LitVal → Option LitVal
  | .int z => some (.int (-z))
  | .float f => some (.float f.neg)
  | _ => none

mutual
/-- Evaluate an expression in a namespace that binds only the builtins.  `none` = raises, or is
outside the modelled fragment (no claim). -/
def eval : Expr → Option LitVal
  | .name id =>
      if id = "None" then some .none else if id = "True" then some (.bool true)
      else if id = "False" then some (.bool false) else none
  | .integer ds => some (.int (ofDigits ds))
  | .float m => some (.float (.fin false m))
  | .str s => some (.str s)
  | .bytes b => some (.bytes b)
  | .badToken _ => none
  | .neg e => (eval e).bind negVal
  | .call f args =>
      match evalList args with
      | some vs =>
        if f = "set" then (match vs with | [] => some (.set []) | _ => none)
        else if f = "float" then (match vs with | [.str s] => (floatOfText s).map .float | _ => none)
        else if f = "complex" then
          (match vs with | [.float re, .float im] => some (.complex re im) | _ => none)
        else none
      | none => none
  | .attr _ _ => none
  | .list es => (evalList es).map .list
  | .tuple es _ => (evalList es).map .tuple
  | .set es => if es.isEmpty then none else (evalList es).map .set
  | .dict kvs => (evalPairs kvs).map .dict
def evalList : List Expr → Option (List LitVal)
  | [] => some []
  | e :: es => match eval e, evalList es with
    | some v, some vs => some (v :: vs)
    | _, _ => none
def evalPairs : List (Expr × Expr) → Option (List (LitVal × LitVal))
  | [] => some []
  | (k, v) :: kvs => match eval k, eval v, evalPairs kvs with
    | some a, some b, some r => some ((a, b) :: r)
    | _, _, _ => none
end

/-! ## Parsing (`parse_literal` and helpers) -/

/-- `_parse_int`. -/
def parseInt : Expr → Option Int
  | .integer ds => some (ofDigits ds)
  | .neg (.integer ds) => some (-(ofDigits ds : Int))
  | _ => none

/-- The unsigned part of `_parse_float` (repaired): a `Float` token or `float('inf'|'nan')`. -/
def parseUnsignedFloat : Expr → Option PyFloat
  | .float m => some (.fin false m)
  | .call f [.str s] =>
      if f = "float" then
        if s = strInf then some (.inf false)
        else if s = strNan then some (.nan false) else none
      else none
  | _ => none

/-- `_parse_float` (repaired). -/
def parseFloat : Expr → Option PyFloat
  | .neg e => (parseUnsignedFloat e).map PyFloat.neg
  | e => parseUnsignedFloat e

/-- `_parse_float` as it is on the unchanged tree. -/
def parseFloatOld : Expr → Option PyFloat
  | .float m => some (.fin false m)
  | .neg (.float m) => some (.fin true m)
  | _ => none

/-- `_parse_component`; `rd` is `float(int)` (`none` = `OverflowError`, mapped to "no value"). -/
def parseComponent (rd : Int → Option PyFloat) (e : Expr) : Option PyFloat :=
  match parseFloat e with
  | some f => some f
  | none => match parseInt e with
    | some z => rd z
    | none => none

/-- `_parse_complex`. -/
def parseComplex (rd : Int → Option PyFloat) : Expr → Option (PyFloat × PyFloat)
  | .call f [a, b] =>
      if f = "complex" then
        match parseComponent rd a, parseComponent rd b with
        | some re, some im => some (re, im)
        | _, _ => none
      else none
  | _ => none

mutual
/-- `ast.literal_eval(cst.Module([]).code_for_node(e))`; `none` = ValueError/SyntaxError. -/
def literalEval : Expr → Option LitVal
  | .name id =>
      if id = "None" then some .none else if id = "True" then some (.bool true)
      else if id = "False" then some (.bool false) else none
  | .integer ds => some (.int (ofDigits ds))
  | .float m => some (.float (.fin false m))
  | .str s => some (.str s)
  | .bytes b => some (.bytes b)
  | .badToken _ => none
  -- `_convert_signed_num`: the operand of a unary minus must itself be a number *constant*
  | .neg (.integer ds) => some (.int (-(ofDigits ds : Int)))
  | .neg (.float m) => some (.float (.fin true m))
  | .neg _ => none
  | .call f args => if f = "set" && args.isEmpty then some (.set []) else none
  | .attr _ _ => none
  | .list es => (literalEvalList es).map .list
  | .tuple es _ => (literalEvalList es).map .tuple
  | .set es => if es.isEmpty then none else (literalEvalList es).map .set
  | .dict kvs => (literalEvalPairs kvs).map .dict
def literalEvalList : List Expr → Option (List LitVal)
  | [] => some []
  | e :: es => match literalEval e, literalEvalList es with
    | some v, some vs => some (v :: vs)
    | _, _ => none
def literalEvalPairs : List (Expr × Expr) → Option (List (LitVal × LitVal))
  | [] => some []
  | (k, v) :: kvs => match literalEval k, literalEval v, literalEvalPairs kvs with
    | some a, some b, some r => some ((a, b) :: r)
    | _, _, _ => none
end

/-- `_parse_primitive_literal` for `raw ∈ {bool, int, float, str, bytes}`. -/
def parsePrimitive (raw : RawType) (e : Expr) : Option LitVal :=
  match raw with
  | .bool => match e with
    | .name id => if id = "True" then some (.bool true) else if id = "False" then some (.bool false)
                  else none
    | _ => none
  | .int => (parseInt e).map .int
  | .float => (parseFloat e).map .float
  | .str => match e with | .str s => some (.str s) | _ => none
  | .bytes => match e with | .bytes b => some (.bytes b) | _ => none
  | _ => none

/-- `parse_literal`.  The result `none` is Python's `None` return ("not parseable"). -/
def parseLiteral (rd : Int → Option PyFloat) (raw : RawType) (e : Expr) : Option LitVal :=
  match raw with
  | .complex => (parseComplex rd e).map (fun p => .complex p.1 p.2)
  | .bool | .int | .float | .str | .bytes => parsePrimitive raw e
  | .other => literalEval e
  | _ => match literalEval e with
    | some v => if v.isInstance raw then some v else none
    | none => none

/-! ## Generation and mutation as functions of the recorded draws

Every call the implementation makes to `pynguin.utils.randomness` or to the `ConstantProvider`
is one `Draw`, consumed in call order (DESIGN §3 "Randomness").  Float arithmetic is not modelled:
where the code computes a number from a gaussian draw (`round(gauss * max_int)`,
`current + gauss * max_delta`, `round(real, precision)`, …) the draw list carries the computed
result as an `arithInt` / `arithFloat` entry right after the draws it depends on. -/

/-- An exact non-negative fraction (a float in `[0, 1]` converted with `fractions.Fraction`). -/
structure Frac where
  num : Nat
  den : Nat
  deriving Repr, Inhabited, DecidableEq

/-- `a < b` on fractions with positive denominators. -/
def Frac.lt (a b : Frac) : Bool := a.num * b.den < b.num * a.den

/-- The float `0.2` (exactly `3602879701896397 / 2^54`). -/
def frac02 : Frac := ⟨3602879701896397, 18014398509481984⟩

structure Config where
  /-- `seeding.seeded_primitives_reuse_probability` -/
  seedProb : Frac
  /-- `string_statement.token_assembly_probability` -/
  assemblyProb : Frac
  /-- `test_creation.collection_reference_probability` -/
  refProb : Frac
  /-- `search_algorithm.random_perturbation` -/
  perturbProb : Frac
  /-- `test_creation.string_length` -/
  stringLength : Nat
  /-- `test_creation.bytes_length` -/
  bytesLength : Nat
  /-- `test_creation.collection_size` -/
  collectionSize : Nat
  /-- `string_statement.max_assembled_tokens` -/
  maxAssembledTokens : Nat
  deriving Repr, Inhabited

inductive Draw where
  /-- `randomness.next_float()` -/
  | flt (num den : Nat)
  /-- `randomness.next_bool()` -/
  | bool (b : Bool)
  /-- `randomness.next_int(lo, hi) = i` -/
  | int (lo hi i : Int)
  /-- `randomness.choice(seq)` with `len(seq) = n` returned `seq[i]` -/
  | choice (n i : Nat)
  /-- `randomness.next_gaussian()` (the value only enters float arithmetic) -/
  | gauss
  /-- result of the integer computation that used the preceding gaussian draw -/
  | arithInt (z : Int)
  /-- result of the float computation that used the preceding draws -/
  | arithFloat (f : PyFloat)
  /-- `randomness.next_string(len)` -/
  | string (len : Nat) (s : Chars)
  /-- `randomness.next_bytes(len)` -/
  | bytes (len : Nat) (b : Chars)
  /-- `constant_provider.get_constant_for(int)` … (`none` = Python `None`) -/
  | constInt (v : Option Int)
  | constFloat (v : Option PyFloat)
  | constComplex (v : Option (PyFloat × PyFloat))
  | constStr (v : Option Chars)
  | constBytes (v : Option Chars)
  /-- `constant_provider.get_all_constants_for(str)` in iteration order -/
  | allStr (pool : List Chars)
  deriving Repr, Inhabited

/-- A computation that consumes draws; `none` = the draw list does not fit the code path (or the
code raises, e.g. `randrange` on an empty range). -/
def Gen (α : Type) := List Draw → Option (α × List Draw)

namespace Gen
@[inline] protected def pure {α} (a : α) : Gen α := fun s => some (a, s)
@[inline] protected def bind {α β} (x : Gen α) (f : α → Gen β) : Gen β := fun s =>
  match x s with
  | none => none
  | some (a, s') => f a s'
instance : Monad Gen where
  pure := Gen.pure
  bind := Gen.bind
def fail {α} : Gen α := fun _ => none
end Gen

def nextFloat : Gen Frac
  | .flt n d :: r => some (⟨n, d⟩, r)
  | _ => none
def nextBool : Gen Bool
  | .bool b :: r => some (b, r)
  | _ => none
/-- `next_int(lo, hi)`: the recorded bounds must be the bounds the code computes. -/
def nextInt (lo hi : Int) : Gen Int
  | .int l h i :: r => if l = lo ∧ h = hi ∧ lo ≤ i ∧ i < hi then some (i, r) else none
  | _ => none
def nextNat (lo hi : Nat) : Gen Nat := fun s =>
  match nextInt lo hi s with
  | some (i, r) => some (i.toNat, r)
  | none => none
/-- `choice(seq)` over a sequence of length `n`: the chosen index. -/
def choiceIdx (n : Nat) : Gen Nat
  | .choice m i :: r => if m = n ∧ i < n then some (i, r) else none
  | _ => none
def nextGauss : Gen Unit
  | .gauss :: r => some ((), r)
  | _ => none
def arithInt : Gen Int
  | .arithInt z :: r => some (z, r)
  | _ => none
def arithFloat : Gen PyFloat
  | .arithFloat f :: r => some (f, r)
  | _ => none
def nextString (len : Nat) : Gen Chars
  | .string l s :: r => if l = len ∧ s.length = len then some (s, r) else none
  | _ => none
def nextBytes (len : Nat) : Gen Chars
  | .bytes l b :: r => if l = len ∧ b.length = len then some (b, r) else none
  | _ => none
def constInt : Gen (Option Int)
  | .constInt v :: r => some (v, r)
  | _ => none
def constFloat : Gen (Option PyFloat)
  | .constFloat v :: r => some (v, r)
  | _ => none
def constComplex : Gen (Option (PyFloat × PyFloat))
  | .constComplex v :: r => some (v, r)
  | _ => none
def constStr : Gen (Option Chars)
  | .constStr v :: r => some (v, r)
  | _ => none
def constBytes : Gen (Option Chars)
  | .constBytes v :: r => some (v, r)
  | _ => none
def allStr : Gen (List Chars)
  | .allStr p :: r => some (p, r)
  | _ => none

/-- `x() if c else None` for a draw-consuming `x`. -/
def whenG {α} (c : Bool) (g : Gen (Option α)) : Gen (Option α) := if c then g else pure none
/-- `a and x()` for a draw-consuming boolean `x` (short-circuit: no draw when `a` is false). -/
def andG (a : Bool) (g : Gen Bool) : Gen Bool := if a then g else pure false

/-- `_SPECIAL_INT_VALUES`. -/
def specialInts : List Int := [-1, 0, 1, 2, 3]
/-- `_TOKEN_SEPARATORS`. -/
def tokenSeparators : List Chars := [[], [32], [44], [58], [45], [46]]

/-- `"True" if b else "False"` as a `cst.Name`. -/
def boolName (b : Bool) : Expr := .name (if b then "True" else "False")

/-- `_gen_int`. -/
def genInt (cfg : Config) : Gen Expr := do
  let p ← nextFloat
  let seeded ← whenG (p.lt cfg.seedProb) constInt
  match seeded with
  | some z => pure (intToCst z)
  | none =>
    let q ← nextFloat
    if q.lt frac02 then do
      let i ← choiceIdx specialInts.length
      pure (intToCst (specialInts.getD i 0))
    else do
      nextGauss
      let z ← arithInt
      pure (intToCst z)

/-- `_gen_float`. -/
def genFloat (cfg : Config) : Gen Expr := do
  let p ← nextFloat
  let seeded ← whenG (p.lt cfg.seedProb) constFloat
  match seeded with
  | some f => pure (floatToCst f)
  | none =>
    nextGauss
    let f ← arithFloat
    pure (floatToCst f)

/-- `_gen_complex`. -/
def genComplex (cfg : Config) : Gen Expr := do
  let p ← nextFloat
  let seeded ← whenG (p.lt cfg.seedProb) constComplex
  match seeded with
  | some (re, im) => pure (complexToCst re im)
  | none =>
    nextGauss
    let _ ← nextInt 0 8
    let re ← arithFloat
    nextGauss
    let _ ← nextInt 0 8
    let im ← arithFloat
    pure (complexToCst re im)

/-- The token loop of `_assemble_seeded_tokens`: `none` when the provider hands out `None`. -/
def assembleTokens : Nat → Gen (Option (List Chars))
  | 0 => pure (some [])
  | n + 1 => do
    let t ← constStr
    match t with
    | none => pure none
    | some tok =>
      let rest ← assembleTokens n
      pure (rest.map (tok :: ·))

/-- `_token_separator`. -/
def tokenSeparator (pool : List Chars) : Gen Chars := do
  let single := pool.filter (·.length == 1)
  let useSingle ← andG (!single.isEmpty) nextBool
  if useSingle then do
    let i ← choiceIdx single.length
    pure (single.getD i [])
  else do
    let i ← choiceIdx tokenSeparators.length
    pure (tokenSeparators.getD i [])

/-- `sep.join(tokens)`. -/
def joinChars (sep : Chars) : List Chars → Chars
  | [] => []
  | [t] => t
  | t :: ts => t ++ sep ++ joinChars sep ts

/-- `_assemble_seeded_tokens`. -/
def assembleSeededTokens (cfg : Config) : Gen (Option Chars) := do
  let pool ← allStr
  if pool.length < 2 then pure none
  else do
    let count ← nextNat 2 (max 3 (cfg.maxAssembledTokens + 1))
    let toks ← assembleTokens count
    match toks with
    | none => pure none
    | some ts =>
      let sep ← tokenSeparator pool
      pure (some (joinChars sep ts))

/-- `_gen_str`. -/
def genStr (cfg : Config) : Gen Expr := do
  let a ← nextFloat
  let assembled ← whenG (a.lt cfg.assemblyProb) (assembleSeededTokens cfg)
  match assembled with
  | some s => pure (.str s)
  | none =>
    let p ← nextFloat
    let seeded ← whenG (p.lt cfg.seedProb) constStr
    match seeded with
    | some s => pure (.str s)
    | none =>
      let len ← nextNat 0 cfg.stringLength
      let s ← nextString len
      pure (.str s)

/-- `_gen_bytes`. -/
def genBytes (cfg : Config) : Gen Expr := do
  let p ← nextFloat
  let seeded ← whenG (p.lt cfg.seedProb) constBytes
  match seeded with
  | some b => pure (.bytes b)
  | none =>
    let len ← nextNat 1 (max 2 cfg.bytesLength)
    let b ← nextBytes len
    pure (.bytes b)

/-- `_random_primitive_element`: `choice((int, str, bool, float))`. -/
def randomPrimitiveElement (cfg : Config) : Gen Expr := do
  let i ← choiceIdx 4
  if i = 2 then do
    let b ← nextBool
    pure (boolName b)
  else if i = 0 then genInt cfg
  else if i = 3 then genFloat cfg
  else genStr cfg

/-- `_element_value`. -/
def elementValue (cfg : Config) (pool : List Expr) : Gen Expr := do
  let useRef ← andG (!pool.isEmpty) (do let p ← nextFloat; pure (p.lt cfg.refProb))
  if useRef then do
    let i ← choiceIdx pool.length
    pure (pool.getD i (.name "None"))
  else randomPrimitiveElement cfg

/-- `[Element(_element_value(...)) for _ in range(count)]`. -/
def elementValues (cfg : Config) (pool : List Expr) : Nat → Gen (List Expr)
  | 0 => pure []
  | n + 1 => do
    let e ← elementValue cfg pool
    let es ← elementValues cfg pool n
    pure (e :: es)

/-- `next_int(1, min(3, collection_size) + 1)`. -/
def collectionCount (cfg : Config) : Gen Nat := nextNat 1 (min 3 cfg.collectionSize + 1)

/-- `_gen_list`. -/
def genList (cfg : Config) (pool : List Expr) : Gen Expr := do
  let empty ← nextBool
  if empty then pure (.list [])
  else do
    let n ← collectionCount cfg
    let es ← elementValues cfg pool n
    pure (.list es)

/-- `_gen_set`. -/
def genSet (cfg : Config) (pool : List Expr) : Gen Expr := do
  let empty ← nextBool
  if empty then pure (.call "set" [])
  else do
    let n ← collectionCount cfg
    let es ← elementValues cfg pool n
    pure (.set es)

/-- `_gen_tuple` (`_tuple_elements` = the comma flag). -/
def genTuple (cfg : Config) (pool : List Expr) : Gen Expr := do
  let empty ← nextBool
  if empty then pure (.tuple [] false)
  else do
    let n ← collectionCount cfg
    let es ← elementValues cfg pool n
    pure (.tuple es (es.length == 1))

/-- One `DictElement(key=_gen_str(...), value=_element_value(...))`. -/
def dictEntry (cfg : Config) (pool : List Expr) : Gen (Expr × Expr) := do
  let k ← genStr cfg
  let v ← elementValue cfg pool
  pure (k, v)

def dictEntries (cfg : Config) (pool : List Expr) : Nat → Gen (List (Expr × Expr))
  | 0 => pure []
  | n + 1 => do
    let kv ← dictEntry cfg pool
    let r ← dictEntries cfg pool n
    pure (kv :: r)

/-- `_gen_dict`. -/
def genDict (cfg : Config) (pool : List Expr) : Gen Expr := do
  let empty ← nextBool
  if empty then pure (.dict [])
  else do
    let n ← nextNat 1 4
    let kvs ← dictEntries cfg pool n
    pure (.dict kvs)

/-- `generate_literal`. -/
def genLiteral (cfg : Config) (pool : List Expr) : RawType → Gen Expr
  | .bool => do let b ← nextBool; pure (boolName b)
  | .int => genInt cfg
  | .float => genFloat cfg
  | .complex => genComplex cfg
  | .str => genStr cfg
  | .bytes => genBytes cfg
  | .list => genList cfg pool
  | .set => genSet cfg pool
  | .tuple => genTuple cfg pool
  | .dict => genDict cfg pool
  | .other => pure (.name "None")

/-- `_mutate_bool`. -/
def mutateBool : Expr → Gen Expr
  | .name id => pure (.name (if id = "True" then "False" else "True"))
  | _ => do let b ← nextBool; pure (boolName b)

/-- `_mutate_int`. -/
def mutateInt (cfg : Config) (e : Expr) : Gen Expr :=
  match parseInt e with
  | none => genInt cfg
  | some current => do
    nextGauss
    let delta ← arithInt
    pure (intToCst (current + delta))

/-- `_mutate_float` (repaired: a non-finite current value is regenerated, as before the repair of
`_parse_float`). -/
def mutateFloat (cfg : Config) (e : Expr) : Gen Expr :=
  match parseFloat e with
  | none => genFloat cfg
  | some current =>
    if current.isFinite then do
      nextGauss
      let f ← arithFloat
      pure (floatToCst f)
    else genFloat cfg

/-- In `_mutate_complex`: `choice == 2` draws a precision, the other choices a gaussian delta. -/
def precisionOrGauss (c : Int) : Gen Unit :=
  if c = 2 then (do let _ ← nextInt 0 8; pure ()) else nextGauss

/-- `_mutate_complex` (repaired like `_mutate_float`).  The new component value
(`real + delta`, `round(imag, precision)`, …) is an `arithFloat` entry. -/
def mutateComplex (rd : Int → Option PyFloat) (cfg : Config) (e : Expr) : Gen Expr :=
  match parseComplex rd e with
  | none => genComplex cfg
  | some (re, im) =>
    if re.isFinite && im.isFinite then do
      let c ← nextInt 0 3
      precisionOrGauss c
      let onReal ← nextBool
      let x ← arithFloat
      if onReal then pure (complexToCst x im) else pure (complexToCst re x)
    else genComplex cfg

/-- `_mutate_str`. -/
def mutateStr (cfg : Config) : Expr → Gen Expr
  | .str s =>
    if s.length = 0 then do
      let c ← nextString 1
      pure (.str c)
    else do
      let op ← nextInt 0 3
      if op = 0 then do
        let pos ← nextNat 0 (s.length + 1)
        let ch ← nextString 1
        pure (.str (s.take pos ++ ch ++ s.drop pos))
      else if op = 1 then do
        let pos ← nextNat 0 s.length
        pure (.str (s.take pos ++ s.drop (pos + 1)))
      else do
        let pos ← nextNat 0 s.length
        let ch ← nextString 1
        pure (.str (s.take pos ++ ch ++ s.drop (pos + 1)))
  | _ => genStr cfg

/-- `_mutate_bytes`. -/
def mutateBytes (cfg : Config) : Expr → Gen Expr
  | .bytes _ => do
    let len ← nextNat 1 (max 2 cfg.bytesLength)
    let b ← nextBytes len
    pure (.bytes b)
  | _ => genBytes cfg

/-- The shared "remove a random element or append a fresh one" step of the collection mutators:
`if elems and next_bool(): idx = next_int(0, len(elems)); drop it  else: append`. -/
def removeOrAppend {α} (elems : List α) (fresh : Gen α) : Gen (List α) := do
  let remove ← andG (!elems.isEmpty) nextBool
  if remove then do
    let idx ← nextNat 0 elems.length
    pure (elems.eraseIdx idx)
  else do
    let x ← fresh
    pure (elems ++ [x])

/-- `_mutate_list`. -/
def mutateList (cfg : Config) (pool : List Expr) : Expr → Gen Expr
  | .list es => do
    let es' ← removeOrAppend es (elementValue cfg pool)
    pure (.list es')
  | _ => genList cfg pool

/-- `_mutate_tuple`. -/
def mutateTuple (cfg : Config) (pool : List Expr) : Expr → Gen Expr
  | .tuple es _ => do
    let es' ← removeOrAppend es (elementValue cfg pool)
    pure (.tuple es' (es'.length == 1))
  | _ => genTuple cfg pool

/-- `_mutate_dict`. -/
def mutateDict (cfg : Config) (pool : List Expr) : Expr → Gen Expr
  | .dict kvs => do
    let kvs' ← removeOrAppend kvs (dictEntry cfg pool)
    pure (.dict kvs')
  | _ => genDict cfg pool

/-- `_mutate_set`. -/
def mutateSet (cfg : Config) (pool : List Expr) : Expr → Gen Expr
  | .call _ _ => do
    let e ← elementValue cfg pool
    pure (.set [e])
  | .set es => do
    let es' ← removeOrAppend es (elementValue cfg pool)
    if es'.isEmpty then pure (.call "set" []) else pure (.set es')
  | _ => genSet cfg pool

/-- `_dispatch_mutate`. -/
def dispatchMutate (rd : Int → Option PyFloat) (cfg : Config) (pool : List Expr) (raw : RawType)
    (e : Expr) : Gen Expr :=
  match raw with
  | .bool => mutateBool e
  | .int => mutateInt cfg e
  | .float => mutateFloat cfg e
  | .complex => mutateComplex rd cfg e
  | .str => mutateStr cfg e
  | .bytes => mutateBytes cfg e
  | .list => mutateList cfg pool e
  | .tuple => mutateTuple cfg pool e
  | .dict => mutateDict cfg pool e
  | .set => mutateSet cfg pool e
  | .other => genLiteral cfg pool raw

/-- `mutate_literal`. -/
def mutateLiteral (rd : Int → Option PyFloat) (cfg : Config) (pool : List Expr) (raw : RawType)
    (e : Expr) : Gen Expr := do
  let p ← nextFloat
  if p.lt cfg.perturbProb then genLiteral cfg pool raw
  else dispatchMutate rd cfg pool raw e

/-! ## `float(int)` for `_parse_component` (round-half-even to binary64, as bit pattern) -/

/-- `float(n)` for `n ≥ 0` as the IEEE-754 binary64 bit pattern; `none` = `OverflowError`. -/
def natToFloatBits (n : Nat) : Option Nat :=
  if n = 0 then some 0
  else
    let k := n.log2
    let bits :=
      if k ≤ 52 then (k + 1023) * 2 ^ 52 + (n * 2 ^ (52 - k) - 2 ^ 52)
      else
        let sh := k - 52
        let q := n / 2 ^ sh
        let r := n % 2 ^ sh
        let half := 2 ^ (sh - 1)
        let q' := if r > half || (r == half && q % 2 == 1) then q + 1 else q
        (k + 1023) * 2 ^ 52 + (q' - 2 ^ 52)
    if bits < 0x7FF0000000000000 then some bits else none

/-- The executable instance of `float(int)` used by the driver. -/
def rdDefault (z : Int) : Option PyFloat :=
  (natToFloatBits z.natAbs).map (fun b => PyFloat.fin (z < 0) b)

end PynguinModel.Literals
