/-!
# C12 — model of pynguin's computation cache and the `changed` discipline (Mathlib-free)

Mirrors (Python ↔ Lean)
* `ga/computation_cache.py`  `ComputationCache` ↔ `Cache`, `_compute_fitness/_compute_is_covered/_compute_coverage`
  ↔ `comp` (one loop, `Kind` selects the body = `Cache.store`), `_check_cache` ↔ `checkCache`,
  `get_fitness/get_fitness_for/get_is_covered/get_coverage/get_coverage_for` ↔ `cacheQuery`,
  `invalidate_cache` ↔ `Cache.invalidate`, `add_*_function` ↔ `Cache.addFit/addCov`, `clone` ↔ value copy.
* `ga/computations.py` `_run_test_case_chromosome` ↔ `Tc.run`, `_run_test_suite_chromosome` ↔ `Suite.run`
  (`snapshot` = the `(chromosome, needs execution)` pairs taken first, `pendingResults` = what
  `execute_multiple` yields for the flagged positions, `handOut` = the loop that gives every flagged position the
  next result, clears the flag and invalidates the member's cache).  Suites hold member OBJECTS by reference
  (`Suite.objs` / `Suite.order`): the same chromosome object may sit at several positions of a suite.
* `ga/operators/mutation.py` `TestCaseMutation.mutate` ↔ `Tc.mutate`, `TestSuiteMutation.mutate` ↔ `Suite.mutate`;
  `ga/operators/crossover.py` `splice_test_case_chromosomes` ↔ `Tc.splice`, `splice_test_suite_chromosomes`
  + `SinglePointRelativeCrossOver.cross_over` ↔ `xoverSuite`; `TestCaseChromosome.cross_over` / `TestSuiteChromosome.cross_over`
  called directly with arbitrary positions ↔ `crossTc` / `crossSuite`; `TestSuiteChromosome.add/delete/set_test_case_chromosome`
  with a new object (`addTest`, `setTest`) or with an object that already is a member (`addAlias`, `setAlias`).

The *content* of a test case is an opaque identifier (`Content`, the interned source text; `0` = the empty
test case, `size() == 0`).  What the test factory does to the statements is not modelled: a mutation is
described by its *effect* (`MutEff`: which sub-steps ran, what each returned, the content after each).
Deterministic fitness / coverage functions are a parameter `Sem R` (pure functions of the execution
result `R`; a test case's result is determined by its content, a suite's by the list of its members' results).

Fitness values are non-negative finite floats; the model holds them *exactly* as `Nat` multiples of
`2^-60` (`1.0 = 2^60` units), so that values far below any absolute tolerance (`2^-60 ≈ 8.7e-19`) are ordinary
values of the model and "the fitness is zero" is an exact statement (`isCloseZero`).  Split positions of the
direct `cross_over(other, position1, position2)` calls are arbitrary naturals (`0`, `size`, `> size` included).

`Ver` selects the code version: `Ver.repo` is /repo with the two proposed C12 repairs
(proposed_fixes/C12-*.diff; this is what the driver runs), `Ver.orig` the unrepaired code (only used by the
`_cex` theorems), `Ver.fixed` additionally flags dropped empty tests (a repair that a pinned pynguin unit
test forbids; recorded as a known finding).
-/
namespace PynguinModel.Cache

abbrev Func := Nat
abbrev Content := Nat

/-- code version switches (all `true` = repaired code) -/
structure Ver where
  /-- `_check_cache` keeps `changed` when there was nothing to compute -/
  keepFlag : Bool
  /-- `TestCaseMutation.mutate` uses the result of the final `_mutation_insert()` -/
  useInsert : Bool
  /-- `TestSuiteMutation.mutate` sets `changed` when it drops an empty test -/
  flagFilter : Bool
  deriving DecidableEq, Repr

def Ver.fixed : Ver := ⟨true, true, true⟩
def Ver.repo : Ver := ⟨true, true, false⟩
def Ver.orig : Ver := ⟨false, false, false⟩

/-! ## Python dicts as insertion-ordered association lists -/

def lookup (k : Nat) : List (Nat × α) → Option α
  | [] => none
  | (k', v) :: l => if k' = k then some v else lookup k l

/-- `d[k] = v` -/
def upsert (k : Nat) (v : α) : List (Nat × α) → List (Nat × α)
  | [] => [(k, v)]
  | (k', v') :: l => if k' = k then (k', v) :: l else (k', v') :: upsert k v l

def keys (l : List (Nat × α)) : List Nat := l.map (·.1)

/-- duplicate-free list of the registered functions (first occurrence order is irrelevant for sums) -/
def dedup : List Nat → List Nat
  | [] => []
  | a :: l => if a ∈ dedup l then dedup l else a :: dedup l

/-- deterministic fitness / is-covered / coverage functions over execution results `R` -/
structure Sem (R : Type) where
  fit : Func → R → Nat
  cov : Func → R → Nat
  isCov : Func → R → Bool

/-- `compute_is_covered` agrees with "fitness is zero" (property C10; `_compute_fitness` relies on it) -/
def Sem.Consistent (S : Sem R) : Prop := ∀ f r, S.isCov f r = (S.fit f r == 0)

/-- `math.isclose(v, 0.0)` of `_compute_fitness` with the default tolerances (`rel_tol = 1e-09`, `abs_tol = 0.0`):
`abs(v - 0.0) <= max(rel_tol * max(abs(v), abs(0.0)), abs_tol)`, on exact non-negative values `v <= v / 10^9` -/
def isCloseZero (v : Nat) : Bool := decide (v * 1000000000 ≤ v)

/-- the same call with an absolute tolerance `abs_tol = tol` (NOT what the code does; only in `_cex`) -/
def isCloseZeroAbs (tol v : Nat) : Bool := decide (v * 1000000000 ≤ v) || decide (v ≤ tol)

structure Cache where
  funcs : List Func := []
  covFuncs : List Func := []
  fitC : List (Func × Nat) := []
  isC : List (Func × Bool) := []
  covC : List (Func × Nat) := []
  deriving DecidableEq, Repr

def Cache.invalidate (c : Cache) : Cache := { c with fitC := [], isC := [], covC := [] }
def Cache.addFit (c : Cache) (f : Func) : Cache := { c with funcs := c.funcs ++ [f] }
def Cache.addCov (c : Cache) (f : Func) : Cache := { c with covFuncs := c.covFuncs ++ [f] }

inductive Kind | fit | isCov | cov
  deriving DecidableEq, Repr

/-- `fitness_func not in self._…_cache` (negated) -/
def Cache.has (c : Cache) : Kind → Func → Bool
  | .fit, f => (lookup f c.fitC).isSome
  | .isCov, f => (lookup f c.isC).isSome
  | .cov, f => (lookup f c.covC).isSome

/-- body of the three `_compute_*` loops once the value has been computed from result `r` -/
def Cache.store (S : Sem R) (c : Cache) : Kind → Func → R → Cache
  | .fit, f, r => { c with fitC := upsert f (S.fit f r) c.fitC, isC := upsert f (isCloseZero (S.fit f r)) c.isC }
  | .isCov, f, r => { c with isC := upsert f (S.isCov f r) c.isC }
  | .cov, f, r => { c with covC := upsert f (S.cov f r) c.covC }

/-- `len(cache)` of `_check_cache` -/
def Cache.size (c : Cache) : Kind → Nat
  | .fit => c.fitC.length
  | .isCov => c.isC.length
  | .cov => c.covC.length

/-- `funcs` argument of `_check_cache` -/
def Cache.regs (c : Cache) : Kind → List Func
  | .fit => c.funcs
  | .isCov => c.funcs
  | .cov => c.covFuncs

/-- what the cache needs from the chromosome it belongs to -/
structure Host (χ R : Type) where
  /-- `_run_test_case_chromosome` / `_run_test_suite_chromosome` (called by every `compute_*`) -/
  run : χ → χ × R
  changed : χ → Bool
  /-- `self._chromosome.changed = False` -/
  clearChanged : χ → χ

/-- `for f in (funcs if only is None else (only,))` -/
def todo (only : Option Func) (fs : List Func) : List Func :=
  match only with
  | none => fs
  | some f => [f]

/-- `_compute_fitness / _compute_is_covered / _compute_coverage`: every missing value calls the
function's `compute_*`, which runs the chromosome (state change) and evaluates the result -/
def comp (H : Host χ R) (S : Sem R) (k : Kind) : List Func → χ → Cache → χ × Cache
  | [], x, c => (x, c)
  | f :: fs, x, c =>
    if c.has k f then comp H S k fs x c
    else
      let p := H.run x
      comp H S k fs p.1 (c.store S k f p.2)

/-- `_check_cache(comp, cache, funcs, only)` -/
def checkCache (H : Host χ R) (S : Sem R) (V : Ver) (k : Kind) (only : Option Func) (x : χ) (c : Cache) :
    χ × Cache :=
  if H.changed x then
    let p := comp H S k (todo only (c.regs k)) x c.invalidate
    if V.keepFlag && only.isNone && (c.regs k).isEmpty then p      -- repaired: nothing was computed
    else (H.clearChanged p.1, p.2)
  else if c.size k != (c.regs k).length then comp H S k (todo only (c.regs k)) x c
  else (x, c)

inductive Err | key | statistics | badRef
  deriving DecidableEq, Repr

inductive Out
  | unit
  | val (v : Nat)
  | flag (b : Bool)
  /-- `statistics.mean` of `n` values with sum `sum` -/
  | mean (sum n : Nat)
  | err (e : Err)
  deriving DecidableEq, Repr

inductive Query
  | fitness | fitnessFor (f : Func) | isCovered (f : Func) | coverage | coverageFor (f : Func)
  deriving DecidableEq, Repr

def outVal : Option Nat → Out
  | some v => .val v
  | none => .err .key

def outFlag : Option Bool → Out
  | some v => .flag v
  | none => .err .key

def vals (l : List (Nat × Nat)) : List Nat := l.map (·.2)

/-- the five getters of `ComputationCache` -/
def cacheQuery (H : Host χ R) (S : Sem R) (V : Ver) (q : Query) (x : χ) (c : Cache) : (χ × Cache) × Out :=
  match q with
  | .fitness =>
    let p := checkCache H S V .fit none x c
    (p, .val (vals p.2.fitC).sum)
  | .fitnessFor f =>
    let p := checkCache H S V .fit (some f) x c
    (p, outVal (lookup f p.2.fitC))
  | .isCovered f =>
    let p := checkCache H S V .isCov (some f) x c
    (p, outFlag (lookup f p.2.isC))
  | .coverage =>
    let p := checkCache H S V .cov none x c
    (p, if p.2.covC.isEmpty then .err .statistics else .mean (vals p.2.covC).sum p.2.covC.length)
  | .coverageFor f =>
    let p := checkCache H S V .cov (some f) x c
    (p, outVal (lookup f p.2.covC))

/-! ## Test-case chromosomes -/

structure Tc where
  content : Content
  changed : Bool := true
  /-- `_last_execution_result`: the content that was executed (the fake executor's result token) -/
  result : Option Content := none
  cache : Cache := {}
  deriving DecidableEq, Repr

/-- `TestCaseChromosomeComputation._run_test_case_chromosome` -/
def Tc.run (t : Tc) : Tc × Content :=
  match t.changed, t.result with
  | false, some r => (t, r)
  | _, _ => ({ t with result := some t.content, changed := false }, t.content)

def tcHost : Host Tc Content := ⟨Tc.run, (·.changed), fun t => { t with changed := false }⟩

def Tc.query (S : Sem Content) (V : Ver) (q : Query) (t : Tc) : Tc × Out :=
  let p := cacheQuery tcHost S V q t t.cache
  ({ p.1.1 with cache := p.1.2 }, p.2)

/-- one sub-step (`_mutation_delete/_mutation_change/_mutation_insert`): returned flag, content afterwards -/
structure SubEff where
  ret : Bool
  after : Content
  deriving DecidableEq, Repr

/-- observed effect of one `TestCaseMutation.mutate` call -/
structure MutEff where
  /-- `some c`: the chop branch ran (content afterwards) -/
  chop : Option Content
  /-- `none`: the random draw skipped the sub-step -/
  del : Option SubEff
  chg : Option SubEff
  ins : Option SubEff
  /-- `test_factory.has_call_on_sut(test_case)` -/
  hasCall : Bool
  /-- only when `hasCall = false`: the `_mutation_insert()` on the restored backup -/
  ins2 : SubEff
  deriving DecidableEq, Repr

def applySub (e : Option SubEff) (st : Content × Bool) : Content × Bool :=
  match e with
  | none => st
  | some e => (e.after, st.2 || e.ret)

def MutEff.start (e : MutEff) (c0 : Content) : Content × Bool :=
  match e.chop with
  | some c => (c, true)
  | none => (c0, false)

/-- content and local `changed` of `TestCaseMutation.mutate` after all steps -/
def MutEff.final (V : Ver) (e : MutEff) (c0 : Content) : Content × Bool :=
  let st := applySub e.ins (applySub e.chg (applySub e.del (e.start c0)))
  if e.hasCall then st else (e.ins2.after, if V.useInsert then st.2 || e.ins2.ret else st.2)

/-- `TestCaseMutation.mutate` -/
def Tc.mutate (V : Ver) (t : Tc) (e : MutEff) : Tc :=
  let st := e.final V t.content
  { t with content := st.1, changed := if st.2 then true else t.changed }

def subHonest (before : Content) : Option SubEff → Bool
  | none => true
  | some s => s.ret || s.after == before

def curOf (before : Content) : Option SubEff → Content
  | none => before
  | some s => s.after

/-- the test factory's contract: a sub-step that returns `False` left the statements alone
(the restored backup is the content after the chop) -/
def MutEff.honest (e : MutEff) (c0 : Content) : Bool :=
  let c1 := (e.start c0).1
  let c2 := curOf c1 e.del
  let c3 := curOf c2 e.chg
  subHonest c1 e.del && subHonest c2 e.chg && subHonest c3 e.ins &&
    (e.hasCall || e.ins2.ret || e.ins2.after == c1)

/-- `splice_test_case_chromosomes`: `some c` = offspring accepted (`size < chromosome_length`) -/
def Tc.splice (t : Tc) : Option Content → Tc
  | none => t
  | some c => { t with content := c, changed := true }

/-- a chromosome from the test-case chromosome factory -/
def Tc.new (c : Content) (fs : List Func) : Tc := { content := c, cache := { funcs := fs } }

/-! ## Test-suite chromosomes

Object identity: a suite holds member *objects* (`objs`, every `TestCaseChromosome` object once) and its
`test_case_chromosomes` list is `order`: per position a reference into `objs`.  The same object may sit at
several positions (`add_test_case_chromosome` / `set_test_case_chromosome` with a chromosome that already is a
member); everything done to it through one position is seen through the others.  `clone()` and the crossover
splice copy per position (every position of the copy is an object of its own).  Objects that no position refers
to any more stay in `objs` as garbage.  Member objects are never shared between two suites (not modelled). -/

structure Suite where
  /-- the member objects -/
  objs : List Tc := []
  /-- `test_case_chromosomes`: position ↦ object -/
  order : List Nat := []
  changed : Bool := true
  cache : Cache := {}
  deriving DecidableEq, Repr

/-- the object behind a reference (`step` never creates a dangling reference; a dangling one reads as a fresh
empty test that is never stored) -/
def objAt (st : List Tc) (i : Nat) : Tc := st.getD i (Tc.new 0 [])

/-- `test_case_chromosomes`, by value -/
def Suite.members (s : Suite) : List Tc := s.order.map (objAt s.objs)

/-- `test_case_chromosome.changed or test_case_chromosome.get_last_execution_result() is None` -/
def needsExec (t : Tc) : Bool := t.changed || t.result.isNone

/-- `set_last_execution_result(result); changed = False; invalidate_cache()` -/
def Tc.executed (t : Tc) (r : Content) : Tc :=
  { t with result := some r, changed := false, cache := t.cache.invalidate }

/-- the tuple of `(test_case_chromosome, needs execution)` pairs that `_run_test_suite_chromosome` builds first -/
def snapshot (st : List Tc) (order : List Nat) : List (Nat × Bool) :=
  order.map fun i => (i, needsExec (objAt st i))

/-- `execute_multiple(tc.test_case for tc, changed in pairs if changed)`: one result per flagged *position*, in
position order (the fake executor's result is the token of the executed content) -/
def pendingResults (st : List Tc) (pairs : List (Nat × Bool)) : List Content :=
  (pairs.filter (·.2)).map fun p => (objAt st p.1).content

/-- second loop of `_run_test_suite_chromosome`: a flagged position takes `next(changed_results_iterator)` (the
flag is the one of the snapshot, not re-evaluated), stores it in its object, clears `changed` and invalidates the
object's cache; an unflagged position returns its object's stored result.  `none` = `StopIteration` /
`assert result is not None`. -/
def handOut : List Tc → List (Nat × Bool) → List Content → Option (List Tc × List Content)
  | st, [], _ => some (st, [])
  | st, (i, true) :: ps, r :: it =>
    (handOut (st.set i ((objAt st i).executed r)) ps it).map fun p => (p.1, r :: p.2)
  | _, (_, true) :: _, [] => none
  | st, (i, false) :: ps, it =>
    match (objAt st i).result with
    | some r => (handOut st ps it).map fun p => (p.1, r :: p.2)
    | none => none

/-- `TestSuiteChromosomeComputation._run_test_suite_chromosome` -/
def Suite.run (s : Suite) : Suite × List Content :=
  let pairs := snapshot s.objs s.order
  match handOut s.objs pairs (pendingResults s.objs pairs) with
  | some p => ({ s with objs := p.1 }, p.2)
  | none => (s, [])

def suiteHost : Host Suite (List Content) := ⟨Suite.run, (·.changed), fun s => { s with changed := false }⟩

def Suite.query (S : Sem (List Content)) (V : Ver) (q : Query) (s : Suite) : Suite × Out :=
  let p := cacheQuery suiteHost S V q s s.cache
  ({ p.1.1 with cache := p.1.2 }, p.2)

/-- `add_test_case_chromosome(t)` with a new object `t` -/
def Suite.addTest (s : Suite) (t : Tc) : Suite :=
  { s with objs := s.objs ++ [t], order := s.order ++ [s.objs.length], changed := true }

/-- `add_test_case_chromosome(get_test_case_chromosome(k))`: the member object of position `k` once more -/
def Suite.addAlias (s : Suite) (k : Nat) : Suite :=
  match s.order[k]? with
  | some i => { s with order := s.order ++ [i], changed := true }
  | none => s

/-- `delete_test_case_chromosome`; `k` = index that `list.remove` found (`ValueError` is swallowed) -/
def Suite.delTest (s : Suite) (k : Nat) : Suite :=
  if k < s.order.length then { s with order := s.order.eraseIdx k, changed := true } else s

/-- `set_test_case_chromosome(k, t)` with a new object `t` -/
def Suite.setTest (s : Suite) (k : Nat) (t : Tc) : Suite :=
  { s with objs := s.objs ++ [t], order := s.order.set k s.objs.length, changed := true }

/-- `set_test_case_chromosome(k, get_test_case_chromosome(j))` -/
def Suite.setAlias (s : Suite) (k j : Nat) : Suite :=
  match s.order[j]? with
  | some i => { s with order := s.order.set k i, changed := true }
  | none => s

/-- `TestSuiteChromosome.clone()`: every position becomes an object of its own -/
def Suite.clone (s : Suite) : Suite := { s with objs := s.members, order := List.range s.order.length }

/-- `splice_test_suite_chromosomes(parent, other, p1, p2)`; `other` = the other parent's members by position,
each of `other[p2:]` is cloned into a new object -/
def Suite.splice (s : Suite) (other : List Tc) (p1 p2 : Nat) : Suite :=
  { s with objs := s.objs ++ other.drop p2,
           order := s.order.take p1 ++ (List.range (other.drop p2).length).map (· + s.objs.length),
           changed := true }

structure SuiteMutEff where
  /-- per *position*: `none` = not selected, `some e` = `test.mutate()` with effect `e` (an object that sits at
  two selected positions is mutated twice) -/
  per : List (Option MutEff)
  /-- chromosomes appended from the factory: content, registered fitness functions -/
  added : List (Content × List Func)
  deriving DecidableEq, Repr

/-- first loop of `TestSuiteMutation.mutate` over the positions; the flag is the local `changed` -/
def mutObjs (V : Ver) : List Tc → List Nat → List (Option MutEff) → List Tc × Bool
  | st, i :: is, some e :: es =>
    let t' := (objAt st i).mutate V e
    let r := mutObjs V (st.set i t') is es
    (r.1, t'.changed || r.2)
  | st, _ :: is, none :: es => mutObjs V st is es
  | st, _, _ => (st, false)

/-- `TestSuiteMutation.mutate` -/
def Suite.mutate (V : Ver) (s : Suite) (e : SuiteMutEff) : Suite :=
  let r := mutObjs V s.objs s.order e.per
  let objs2 := r.1 ++ e.added.map (fun p => Tc.new p.1 p.2)
  let order2 := s.order ++ (List.range e.added.length).map (· + r.1.length)
  let b2 := r.2 || !e.added.isEmpty
  let order3 := order2.filter (fun i => (objAt objs2 i).content != 0)
  let b3 := if V.flagFilter then b2 || order3.length != order2.length else b2
  { s with objs := objs2, order := order3, changed := if b3 then true else s.changed }

/-- the filter of `TestSuiteMutation.mutate` drops an empty test only when the local `changed` is set -/
def Suite.filterOk (V : Ver) (s : Suite) (e : SuiteMutEff) : Bool :=
  let r := mutObjs V s.objs s.order e.per
  r.2 || !e.added.isEmpty || s.order.all (fun i => (objAt r.1 i).content != 0)

/-- every selected position's effect is an honest report about the object as it is at that moment -/
def perHonest (V : Ver) : List Tc → List Nat → List (Option MutEff) → Bool
  | st, i :: is, some e :: es =>
    e.honest (objAt st i).content && perHonest V (st.set i ((objAt st i).mutate V e)) is es
  | st, _ :: is, none :: es => perHonest V st is es
  | _, _, _ => true

/-! ## Worlds and histories -/

structure World where
  tcs : List Tc := []
  suites : List Suite := []
  deriving DecidableEq, Repr

inductive Ref | tc (i : Nat) | su (s : Nat) | mem (s k : Nat)
  deriving DecidableEq, Repr

inductive Op
  | newTc (c : Content) (fs : List Func)
  | cloneTc (src dst : Nat)
  | mutateTc (i : Nat) (e : MutEff)
  /-- `SinglePointRelativeCrossOver` on two test cases: per parent `some c` = offspring accepted -/
  | xoverTc (i j : Nat) (ei ej : Option Content)
  | newSuite
  | cloneSuite (src dst : Nat)
  /-- `suite.add_test_case_chromosome(tcs[i].clone())` -/
  | addTest (s i : Nat)
  | delTest (s k : Nat)
  | setTest (s k i : Nat)
  /-- `suites[s].add_test_case_chromosome(suites[s].get_test_case_chromosome(k))`: the same OBJECT again -/
  | addAlias (s k : Nat)
  /-- `suites[s].set_test_case_chromosome(k, suites[s].get_test_case_chromosome(j))` -/
  | setAlias (s k j : Nat)
  | mutateSuite (s : Nat) (e : SuiteMutEff)
  /-- `SinglePointRelativeCrossOver` on two suites with split positions `p1`, `p2` -/
  | xoverSuite (s t p1 p2 : Nat)
  /-- `tcs[i].cross_over(tcs[j].clone(), position1, position2)` called directly (any positions):
  `e = some c` = offspring accepted -/
  | crossTc (i j : Nat) (e : Option Content)
  /-- `suites[s].cross_over(suites[t].clone(), p1, p2)` called directly: any positions (`0`, `size`, beyond),
  any sizes (empty suites), `s = t` allowed (the other parent is a clone) -/
  | crossSuite (s t p1 p2 : Nat)
  | addFit (r : Ref) (f : Func)
  | addCov (r : Ref) (f : Func)
  | invalidate (r : Ref)
  | query (r : Ref) (q : Query)
  deriving DecidableEq, Repr

/-- write slot `dst` (`dst = length` appends) -/
def put (l : List α) (dst : Nat) (a : α) : Option (List α) :=
  if dst < l.length then some (l.set dst a) else if dst = l.length then some (l ++ [a]) else none

/-- the two semantics: test-case level and suite level functions -/
structure Sems where
  tc : Sem Content
  su : Sem (List Content)

def onTc (w : World) (i : Nat) (f : Tc → Tc × Out) : World × Out :=
  match w.tcs[i]? with
  | none => (w, .err .badRef)
  | some t => let p := f t; ({ w with tcs := w.tcs.set i p.1 }, p.2)

def onSuite (w : World) (i : Nat) (f : Suite → Suite × Out) : World × Out :=
  match w.suites[i]? with
  | none => (w, .err .badRef)
  | some s => let p := f s; ({ w with suites := w.suites.set i p.1 }, p.2)

def onMem (w : World) (i k : Nat) (f : Tc → Tc × Out) : World × Out :=
  onSuite w i fun s =>
    match s.order[k]? with
    | none => (s, .err .badRef)
    | some i =>
      match s.objs[i]? with
      | none => (s, .err .badRef)
      | some t => let p := f t; ({ s with objs := s.objs.set i p.1 }, p.2)

/-- apply a cache-level edit to the referenced chromosome -/
def onCache (w : World) (r : Ref) (g : Cache → Cache) : World × Out :=
  match r with
  | .tc i => onTc w i fun t => ({ t with cache := g t.cache }, .unit)
  | .su s => onSuite w s fun x => ({ x with cache := g x.cache }, .unit)
  | .mem s k => onMem w s k fun t => ({ t with cache := g t.cache }, .unit)

def step (S : Sems) (V : Ver) (w : World) : Op → World × Out
  | .newTc c fs => ({ w with tcs := w.tcs ++ [Tc.new c fs] }, .unit)
  | .cloneTc src dst =>
    match w.tcs[src]? with
    | none => (w, .err .badRef)
    | some t =>
      match put w.tcs dst t with
      | none => (w, .err .badRef)
      | some l => ({ w with tcs := l }, .unit)
  | .mutateTc i e => onTc w i fun t => (t.mutate V e, .unit)
  | .xoverTc i j ei ej =>
    match w.tcs[i]?, w.tcs[j]? with
    | some ti, some tj =>
      if i = j then (w, .err .badRef)
      else ({ w with tcs := (w.tcs.set i (ti.splice ei)).set j (tj.splice ej) }, .unit)
    | _, _ => (w, .err .badRef)
  | .newSuite => ({ w with suites := w.suites ++ [{}] }, .unit)
  | .cloneSuite src dst =>
    match w.suites[src]? with
    | none => (w, .err .badRef)
    | some s =>
      match put w.suites dst s.clone with
      | none => (w, .err .badRef)
      | some l => ({ w with suites := l }, .unit)
  | .addTest s i =>
    match w.tcs[i]? with
    | none => (w, .err .badRef)
    | some t => onSuite w s fun x => (x.addTest t, .unit)
  | .delTest s k => onSuite w s fun x => (x.delTest k, .unit)
  | .setTest s k i =>
    match w.tcs[i]? with
    | none => (w, .err .badRef)
    | some t => onSuite w s fun x => if k < x.order.length then (x.setTest k t, .unit) else (x, .err .badRef)
  | .addAlias s k => onSuite w s fun x => if k < x.order.length then (x.addAlias k, .unit) else (x, .err .badRef)
  | .setAlias s k j =>
    onSuite w s fun x =>
      if k < x.order.length && j < x.order.length then (x.setAlias k j, .unit) else (x, .err .badRef)
  | .mutateSuite s e => onSuite w s fun x => (x.mutate V e, .unit)
  | .xoverSuite s t p1 p2 =>
    match w.suites[s]?, w.suites[t]? with
    | some a, some b =>
      if s = t then (w, .err .badRef)
      else if a.order.length < 2 || b.order.length < 2 then (w, .unit)
      else ({ w with suites := (w.suites.set s (a.splice b.members p1 p2)).set t (b.splice a.members p2 p1) }, .unit)
    | _, _ => (w, .err .badRef)
  | .crossTc i j e =>
    match w.tcs[i]?, w.tcs[j]? with
    | some ti, some _ => ({ w with tcs := w.tcs.set i (ti.splice e) }, .unit)
    | _, _ => (w, .err .badRef)
  | .crossSuite s t p1 p2 =>
    match w.suites[s]?, w.suites[t]? with
    | some a, some b => ({ w with suites := w.suites.set s (a.splice b.members p1 p2) }, .unit)
    | _, _ => (w, .err .badRef)
  | .addFit r f => onCache w r (·.addFit f)
  | .addCov r f => onCache w r (·.addCov f)
  | .invalidate r => onCache w r (·.invalidate)
  | .query r q =>
    match r with
    | .tc i => onTc w i (Tc.query S.tc V q)
    | .su s => onSuite w s (Suite.query S.su V q)
    | .mem s k => onMem w s k (Tc.query S.tc V q)

/-- run a history, collecting the outputs -/
def runOps (S : Sems) (V : Ver) : World → List Op → World × List Out
  | w, [] => (w, [])
  | w, op :: ops =>
    let p := step S V w op
    let r := runOps S V p.1 ops
    (r.1, p.2 :: r.2)

/-! ## The specification: values recomputed from scratch -/

/-- what a query must return for a chromosome whose current tests execute to `r` and whose registered
functions are `fs` / `cfs` -/
def expected (S : Sem R) (r : R) (fs cfs : List Func) : Query → Out
  | .fitness => .val ((dedup fs).map (S.fit · r)).sum
  | .fitnessFor f => .val (S.fit f r)
  | .isCovered f => .flag (S.isCov f r)
  | .coverage =>
    if cfs.isEmpty then .err .statistics else .mean ((dedup cfs).map (S.cov · r)).sum (dedup cfs).length
  | .coverageFor f => .val (S.cov f r)

/-- the query names a registered function (aggregates: always) -/
def registered (c : Cache) : Query → Bool
  | .fitness => true
  | .fitnessFor f => c.funcs.contains f
  | .isCovered f => c.funcs.contains f
  | .coverage => true
  | .coverageFor f => c.covFuncs.contains f

def refCache (w : World) : Ref → Option Cache
  | .tc i => (w.tcs[i]?).map (·.cache)
  | .su s => (w.suites[s]?).map (·.cache)
  | .mem s k => (w.suites[s]?).bind fun x => (x.order[k]?).bind fun i => (x.objs[i]?).map (·.cache)

/-- from-scratch value of a query on the current world (`none`: dangling reference) -/
def scratch (S : Sems) (w : World) (r : Ref) (q : Query) : Option Out :=
  match r with
  | .tc i => (w.tcs[i]?).map fun t => expected S.tc t.content t.cache.funcs t.cache.covFuncs q
  | .su s => (w.suites[s]?).map fun x =>
      expected S.su (x.members.map (·.content)) x.cache.funcs x.cache.covFuncs q
  | .mem s k => (w.suites[s]?).bind fun x => (x.order[k]?).bind fun i => (x.objs[i]?).map fun t =>
      expected S.tc t.content t.cache.funcs t.cache.covFuncs q

/-- admissible step: mutation effects are honest reports, queries name registered functions.
`strict` additionally excludes the known finding (an unflagged drop of an empty test). -/
def admissible (V : Ver) (strict : Bool) (w : World) : Op → Bool
  | .mutateTc i e => match w.tcs[i]? with | some t => e.honest t.content | none => true
  | .mutateSuite s e =>
    match w.suites[s]? with
    | some x => perHonest V x.objs x.order e.per && (!strict || V.flagFilter || x.filterOk V e)
    | none => true
  | .query r q => match refCache w r with | some c => registered c q | none => true
  | _ => true

/-- the output of a step is what the property demands -/
def outOk (S : Sems) (w : World) (op : Op) (out : Out) : Prop :=
  match op with
  | .query r q => ∀ e, scratch S w r q = some e → out = e
  | _ => True

def Admissible (S : Sems) (V : Ver) (strict : Bool) : World → List Op → Prop
  | _, [] => True
  | w, op :: ops => admissible V strict w op = true ∧ Admissible S V strict (step S V w op).1 ops

def AllOk (S : Sems) (V : Ver) : World → List Op → Prop
  | _, [] => True
  | w, op :: ops => outOk S w op (step S V w op).2 ∧ AllOk S V (step S V w op).1 ops

/-! ## Concrete deterministic functions used by the driver and the harness (`harness/c12.py`) -/

/-- the float `v`, `v / 4` or `v * 2**-60` (magnitude class `m % 3`) in units of `2^-60`: whole numbers,
quarters and values below every absolute tolerance -/
def mag (m v : Nat) : Nat :=
  match m % 3 with
  | 0 => v * 2 ^ 60
  | 1 => v * 2 ^ 58
  | _ => v

def tcSem : Sem Content where
  fit f c := mag (c + f) ((c * (f + 2) + f) % 5)
  cov f c := (c + 2 * f) % 5
  isCov f c := mag (c + f) ((c * (f + 2) + f) % 5) == 0

def suSem : Sem (List Content) where
  fit f cs := mag (cs.sum + f) ((cs.sum + f * cs.length + f) % 7)
  cov f cs := (cs.sum + 3 * f + cs.length) % 5
  isCov f cs := mag (cs.sum + f) ((cs.sum + f * cs.length + f) % 7) == 0

def stdSems : Sems := ⟨tcSem, suSem⟩

end PynguinModel.Cache
