/-!
# Model of `TestSuiteWriter.write` (pynguin/testcase/export.py) — property C18

Mathlib-free, executable.  Mirrors, decision by decision:

* `TestCase.remove_unused_variables`         ↔ `removeUnused` (backward liveness pass, `ruStep`; asserted
  variables are alive, a dropped binding keeps assertions and accessible)
* `_is_expected_exception`                   ↔ `isExpected`
* `TestSuiteWriter._build_test_function`     ↔ `stmtItems` / `stmtFailing` / `buildFn`
* exception reference used in `pytest.raises` ↔ `importableBase` (nearest class of the MRO that
  `from <module> import <name>` can bind; repaired code, see proposed_fixes/C18-*.diff)
* `assertion_to_cst` (which global names a rendered assertion mentions) ↔ `assertionRefs`
* `TestSuiteWriter.write` (needs_pytest, exception imports, SUT imports, seed preamble, order of
  the module-level statements)               ↔ `needsPytest`, `excImportTops`, `tops`
* CPython's module execution / name lookup, pytest's verdict for one test function
                                             ↔ `runTops`, `lookup`, `refOk`, `itemOk`, `outcome`

A *reference* is a pair (name mentioned in the emitted code, object the code means by it); a
*binding* is a pair (name bound at module level, object bound).  Builtins are the fallback scope.
-/
namespace PynguinModel.ExportImports

/-- Objects a module-level name of the emitted file can denote. -/
inductive Obj where
  | builtin (n : String)
  | pytestMod | sysMod | randomMod | weakrefMod
  | pkgRoot (n : String)
  | sut
  | sutAttr (n : String)
  | cls (m n : String)
  | helper (n : String)
  deriving DecidableEq, Repr

abbrev Binding := String × Obj
abbrev Ref := String × Obj

/-- One class of an exception type's MRO. `resolvable` = `getattr(sys.modules[module], name) is cls`
(for `builtins`: `getattr(builtins, name) is cls`). -/
structure Cls where
  module : String
  name : String
  resolvable : Bool
  deriving DecidableEq, Repr

def baseExc : Cls := ⟨"builtins", "BaseException", true⟩

inductive AKind where
  | float | object | typeName | isinstance | len | exception
  deriving DecidableEq, Repr

/-- An assertion attached to a statement. `root = none`: the source is rooted at the module alias
(static field); `some v`: rooted at the local variable `v`. `valueRefs`: the global names the rendered
value/type expression mentions (`float` for nan/inf, `set`, `complex`, an enum class, the alias). -/
structure Assertion where
  kind : AKind
  root : Option String
  valueRefs : List Ref
  deriving DecidableEq, Repr

/-- A statement of a test case, abstracted to what the writer looks at.
`uses` = `Statement.used_variables()` (every Name token outside assignment targets),
`reads` = the local variables the code really reads, `grefs` = the global names it mentions,
`acc` = `accessible.expected_exceptions` if the accessible is a callable,
`exc` = MRO of the exception type `_per_statement_exceptions` observed (none = no exception). -/
structure Stmt where
  bound : Option String
  simpleAssign : Bool
  uses : List String
  reads : List String
  grefs : List Ref
  asserts : List Assertion
  acc : Option (List String)
  exc : Option (List Cls)
  deriving DecidableEq, Repr

/-! ## `TestCase.remove_unused_variables` -/

def assertRoots (s : Stmt) : List String := s.asserts.filterMap (·.root)

/-- `Statement(node=new_node, bound_variable=None, bound_type=None, assertions=…, accessible=…)`: only the
binding goes away, the assertions and the accessible stay with the statement (/repo 44adcd2); a node that
is not a single-target assignment is kept as it is. -/
def dropBinding (s : Stmt) : Stmt :=
  if s.simpleAssign then { s with bound := none } else s

/-- One step of the backward pass. `alive_vars.update(_get_asserted_variables(stmt))` comes first: the roots
of the statement's assertions are alive at its end (a static-field assertion contributes the module alias,
which no statement binds: left out). -/
def ruStep (s : Stmt) (a : List Stmt × List String) : List Stmt × List String :=
  let alive := a.2 ++ assertRoots s
  match s.bound with
  | some bv =>
    if bv ∈ alive then (s :: a.1, alive.filter (fun v => v != bv) ++ s.uses)
    else (dropBinding s :: a.1, alive ++ s.uses)
  | none => (s :: a.1, alive ++ s.uses)

def removeUnusedAux (ss : List Stmt) : List Stmt × List String := ss.foldr ruStep ([], [])

def removeUnused (ss : List Stmt) : List Stmt := (removeUnusedAux ss).1

/-- Local variables read by the emitted function body that no textually earlier statement binds. -/
def freeReads : List Stmt → List String
  | [] => []
  | s :: rest => s.reads ++ (assertRoots s ++ freeReads rest).filter (fun v => some v != s.bound)

/-! ## `_build_test_function` -/

inductive Item where
  | bare (s : Stmt)
  | raises (c : Cls) (s : Stmt)
  | assertion (a : Assertion)
  deriving DecidableEq, Repr

/-- The class named in `pytest.raises(...)`: the first class of the MRO that can be imported by name. -/
def importableBase (mro : List Cls) : Cls := (mro.find? (·.resolvable)).getD baseExc

def excName (mro : List Cls) : String := (mro.head?.map (·.name)).getD ""

def isExpected (s : Stmt) (mro : List Cls) : Bool :=
  match s.acc with
  | some l => l.contains (excName mro)
  | none => false

def stmtItems (noXfail : Bool) (s : Stmt) : List Item :=
  (match s.exc with
   | none => [Item.bare s]
   | some mro =>
     if noXfail || isExpected s mro then [Item.raises (importableBase mro) s] else [Item.bare s])
  ++ (s.asserts.filter (fun a => a.kind != .exception)).map Item.assertion

def stmtFailing (noXfail : Bool) (s : Stmt) : Bool :=
  match s.exc with
  | none => false
  | some mro => !(noXfail || isExpected s mro)

structure Fn where
  items : List Item
  xfail : Bool
  deriving DecidableEq, Repr

def buildFn (noXfail : Bool) (ss : List Stmt) : Fn :=
  ⟨ss.flatMap (stmtItems noXfail), ss.any (stmtFailing noXfail)⟩

def usedExc (f : Fn) : List Cls :=
  f.items.filterMap fun | .raises c _ => some c | _ => none

def itemMentionsPytest : Item → Bool
  | .bare _ => false
  | .raises _ _ => true
  | .assertion a => a.kind == .float

/-- Does the rendered function mention the name `pytest` (decorator, `pytest.raises`, `pytest.approx`)? -/
def mentionsPytest (f : Fn) : Bool := f.xfail || f.items.any itemMentionsPytest

/-! ## `TestSuiteWriter.write` -/

structure Suite where
  sutName : String
  pkgRoot : String
  alias : String
  publicNames : List String
  seed : Option Nat
  noXfail : Bool
  tests : List (List Stmt)
  deriving Repr

def cleaned (s : Suite) : List (List Stmt) := s.tests.map removeUnused

def fns (s : Suite) : List Fn := (cleaned s).map (buildFn s.noXfail)

def anyExc (s : Suite) : Bool := (cleaned s).any (fun t => t.any (fun st => st.exc.isSome))

def needsPytest (s : Suite) : Bool := anyExc s || (fns s).any mentionsPytest || s.seed.isSome

def clsObj (sut m n : String) : Obj :=
  if m = "builtins" then .builtin n else if m = sut then .sutAttr n else .cls m n

/-- One module-level statement of the emitted file. -/
structure Top where
  needs : List Ref
  binds : List Binding
  importOk : Bool
  deriving Repr

def insertSorted (x : String) : List String → List String
  | [] => [x]
  | y :: ys => if x < y then x :: y :: ys else if x = y then y :: ys else y :: insertSorted x ys

/-- `sorted(set(l))` (structural insertion sort, so that `decide` can evaluate it). -/
def sortDedup (l : List String) : List String := l.foldr insertSorted []

def excImportTops (sut : String) (used : List Cls) : List Top :=
  let nb := used.filter (fun c => c.module != "builtins")
  (sortDedup (nb.map (·.module))).map fun m =>
    let cs := nb.filter (fun c => c.module == m)
    { needs := []
      binds := (sortDedup (cs.map (·.name))).map (fun n => (n, clsObj sut m n))
      importOk := cs.all (·.resolvable) }

def allUsedExc (s : Suite) : List Cls := (fns s).flatMap usedExc

def pytestRef : Ref := ("pytest", .pytestMod)

def sutImportTops (s : Suite) : List Top :=
  [ { needs := [], binds := [("sys", .sysMod)], importOk := true },
    { needs := [], binds := [(s.pkgRoot, .pkgRoot s.pkgRoot)], importOk := true },
    { needs := [("sys", .sysMod)], binds := [(s.alias, .sut)], importOk := true } ]
  ++ (if s.publicNames.isEmpty then [] else
      [ { needs := [], binds := s.publicNames.map (fun n => (n, Obj.sutAttr n)), importOk := true } ])

def fnTops (s : Suite) : List Top :=
  if (fns s).isEmpty then [ { needs := [], binds := [("test_empty", .helper "test_empty")], importOk := true } ]
  else (fns s).mapIdx fun i f =>
    { needs := if f.xfail then [pytestRef] else []
      binds := [("test_" ++ toString i, .helper ("test_" ++ toString i))]
      importOk := true }

def tops (s : Suite) : List Top :=
  match s.seed with
  | some _ =>
    [ { needs := [], binds := [("random", .randomMod)], importOk := true },
      { needs := [], binds := [pytestRef], importOk := true },
      { needs := [], binds := [("_pynguin_weakref", .weakrefMod)], importOk := true },
      { needs := [("random", .randomMod)], binds := [], importOk := true } ]
    ++ excImportTops s.sutName (allUsedExc s)
    ++ sutImportTops s
    ++ [ { needs := [pytestRef], binds := [("_pynguin_seed_random", .helper "_pynguin_seed_random")],
           importOk := true } ]
    ++ fnTops s
  | none =>
    (if needsPytest s then [ { needs := [], binds := [pytestRef], importOk := true } ] else [])
    ++ sutImportTops s
    ++ excImportTops s.sutName (allUsedExc s)
    ++ fnTops s

def moduleEnv (s : Suite) : List Binding := (tops s).flatMap (·.binds)

/-! ## Semantics of the emitted file: import, name lookup, pytest verdict -/

def lookup (env : List Binding) (n : String) : Option Obj :=
  (env.reverse.find? (fun b => b.1 == n)).map (·.2)

/-- The name resolves to the intended object (module scope first, builtins as fallback). -/
def refOk (env : List Binding) (r : Ref) : Bool :=
  match lookup env r.1 with
  | some o => o == r.2
  | none => r.2 == .builtin r.1

/-- Execute the module-level statements in order; `none` = the import of the test file fails. -/
def runTops : List Top → List Binding → Option (List Binding)
  | [], env => some env
  | t :: ts, env =>
    if t.importOk && t.needs.all (refOk env) then runTops ts (env ++ t.binds) else none

def assertionRefs (alias : String) (a : Assertion) : List Ref :=
  (match a.root with | none => [(alias, Obj.sut)] | some _ => [])
  ++ (match a.kind with
      | .float => [pytestRef]
      | .len => [("len", .builtin "len")]
      | .isinstance => [("isinstance", .builtin "isinstance")]
      | .typeName => [("type", .builtin "type")]
      | _ => [])
  ++ a.valueRefs

def itemRefs (sut alias : String) : Item → List Ref
  | .bare s => s.grefs
  | .raises c s => [pytestRef, (c.name, clsObj sut c.module c.name)] ++ s.grefs
  | .assertion a => assertionRefs alias a

/-- Global references evaluated when pytest calls the function (incl. the autouse seed fixture). -/
def fnRefs (s : Suite) (f : Fn) : List Ref :=
  (if s.seed.isSome then [("random", Obj.randomMod)] else []) ++ f.items.flatMap (itemRefs s.sutName s.alias)

/-- `pytest.raises(c)` accepts an exception whose type has `c` in its MRO (every type has
`BaseException` there). -/
def excMatches (mro : List Cls) (c : Cls) : Bool := mro.contains c || c == baseExc

/-- One body item runs through without failing the test. `beh` = what executing the statement under
pytest raises, `holds` = whether the assertion's comparison is true. -/
def itemOk (sut alias : String) (env : List Binding) (beh : Stmt → Option (List Cls))
    (holds : Assertion → Bool) (it : Item) : Bool :=
  (itemRefs sut alias it).all (refOk env) &&
  match it with
  | .bare s => (beh s).isNone
  | .raises c s => match beh s with | some mro => excMatches mro c | none => false
  | .assertion a => holds a

inductive Outcome where
  | passed | failed | xfailed | xpassStrictFailed
  deriving DecidableEq, Repr

def outcome (s : Suite) (env : List Binding) (beh : Stmt → Option (List Cls)) (holds : Assertion → Bool)
    (f : Fn) : Outcome :=
  let ok := (if s.seed.isSome then refOk env ("random", Obj.randomMod) else true) &&
            f.items.all (itemOk s.sutName s.alias env beh holds)
  if f.xfail then (if ok then .xpassStrictFailed else .xfailed)
  else (if ok then .passed else .failed)

/-- The whole file under pytest: `none` = collection error, else one verdict per test function. -/
def runFile (s : Suite) (beh : Stmt → Option (List Cls)) (holds : Assertion → Bool) : Option (List Outcome) :=
  match runTops (tops s) [] with
  | none => none
  | some env => some ((fns s).map (outcome s env beh holds))

end PynguinModel.ExportImports
