/-!
# The tracer's thread guard and thread-local traces (C32)

Mirrors `src/pynguin/instrumentation/tracer.py`:

* `ExecutionTracer.TracerLocalState(threading.local)` — per thread `enabled` and `trace`; a thread that
  never touched the tracer sees the defaults of `TracerLocalState.__init__` (`enabled = True`, an empty
  `ExecutionTrace`)  ↔ `Local`, `T.loc : Tid → Local`;
* the two shared fields `_current_thread_identifier` and `_import_trace` ↔ `T.current`, `T.imp`;
* `__enter__` (`current := ident of the calling thread`), `__exit__` = `stop` (`current := None`, whoever
  calls it), `check` (raises `TracingAbortedException` iff the caller is not `current`),
  `init_trace` (caller's trace := copy of the import trace), `store_import_trace`, `reset`,
  `enable`/`disable`, and the `@_early_return` callbacks (`if self.is_disabled(): return; self.check();
  <write to the caller's trace>`) ↔ `step`;

and `src/pynguin/testcase/execution.py`:

* `TestCaseExecutor._execute_test_case` (what the test thread does with the tracer: `init_trace`, `with
  tracer:`, per statement `check`/observers under `temporarily_disable`/statement/`check`/observers,
  result only put on the queue when no `TracingAbortedException` escaped) ↔ `execOps`, `threadOutcome`;
* `TestCaseExecutor.execute` (join with `min(max, per_statement * size)`, on a live thread `stop()`,
  second join with `max`, fresh `ExecutionResult(timeout=True)`; an empty queue also gives a timeout
  result) ↔ `firstJoin`, `waitBound`, `executeResult`;
* the result hand-over of `execute` (`return_queue = Queue()` per execution, `result_queue.put(result)` as
  the test thread's last action — possibly long after the execution was abandoned —, `get(block=False)`
  only when the thread is dead after the first join) ↔ `H`, `HEv`, `hstep`, `hresults` (`QMode.perExecution`;
  `QMode.shared` is the counterexample discipline).

A *schedule* is any list of events `(thread, operation)`: the interleaving is not constrained in any
way (any number of threads, abandoned threads that wake up at any later moment, code under test that
swallows `TracingAbortedException` and carries on).  No Mathlib.
-/
namespace PynguinModel.ThreadGuard

abbrev Tid := Nat

/-- The part of `ExecutionTrace` the property speaks about: executed code objects, covered lines,
executed predicates (evaluation counts), and the predicates whose true / false distance is `0.0`
(= branch taken at least once).  OrderedSets and dicts are insertion-ordered lists. -/
structure Trace where
  codes : List Nat
  lines : List Nat
  preds : List (Nat × Nat)
  tcov : List Nat
  fcov : List Nat
  deriving DecidableEq, Repr, Inhabited

def Trace.empty : Trace := ⟨[], [], [], [], []⟩

/-- `OrderedSet.add` -/
def addSet (xs : List Nat) (x : Nat) : List Nat := if x ∈ xs then xs else xs ++ [x]

/-- `executed_predicates[p] = executed_predicates.get(p, 0) + 1` -/
def bump : List (Nat × Nat) → Nat → List (Nat × Nat)
  | [], p => [(p, 1)]
  | (q, c) :: t, p => if q = p then (q, c + 1) :: t else (q, c) :: bump t p

/-- The writes the `@_early_return` callbacks perform on the caller's trace. -/
inductive Cb
  /-- `executed_code_object(c)` -/
  | code (c : Nat)
  /-- `track_line_visit(l)` -/
  | line (l : Nat)
  /-- `executed_bool_predicate / executed_compare_predicate / executed_exception_match` for
  predicate `p` whose condition evaluates to `b` (`_update_metrics`: count + 1, the distance of the
  taken side becomes `min(old, 0.0)`) -/
  | pred (p : Nat) (b : Bool)
  deriving DecidableEq, Repr, Inhabited

def Cb.apply (tr : Trace) : Cb → Trace
  | .code c => { tr with codes := addSet tr.codes c }
  | .line l => { tr with lines := addSet tr.lines l }
  | .pred p true => { tr with preds := bump tr.preds p, tcov := addSet tr.tcov p }
  | .pred p false => { tr with preds := bump tr.preds p, fcov := addSet tr.fcov p }

/-- One call into the tracer. -/
inductive Op
  | initTrace     -- `init_trace()`
  | enter         -- `__enter__()`
  | exit          -- `__exit__(...)` (calls `stop()`)
  | stop          -- `stop()`
  | check         -- `check()`
  | enable
  | disable
  | cb (c : Cb)   -- an `@_early_return` callback
  | storeImport   -- `store_import_trace()` (import hook, after the module body ran)
  | reset         -- `reset()`
  deriving DecidableEq, Repr, Inhabited

structure Local where
  enabled : Bool
  trace : Trace
  deriving DecidableEq, Repr, Inhabited

/-- `TracerLocalState.__init__` -/
def Local.fresh : Local := ⟨true, Trace.empty⟩

/-- The tracer. -/
structure T where
  current : Option Tid
  imp : Trace
  loc : Tid → Local

/-- `ExecutionTracer()` -/
def T.init : T := ⟨none, Trace.empty, fun _ => Local.fresh⟩

def T.setLoc (s : T) (t : Tid) (l : Local) : T :=
  { s with loc := fun u => if u = t then l else s.loc u }

/-- Thread `t` calls `op`.  Returns the new tracer and whether `TracingAbortedException` is raised
in `t`. -/
def step (s : T) (t : Tid) : Op → T × Bool
  | .initTrace => (s.setLoc t { s.loc t with trace := s.imp }, false)
  | .enter => ({ s with current := some t }, false)
  | .exit => ({ s with current := none }, false)
  | .stop => ({ s with current := none }, false)
  | .check => (s, decide (s.current ≠ some t))
  | .enable => (s.setLoc t { s.loc t with enabled := true }, false)
  | .disable => (s.setLoc t { s.loc t with enabled := false }, false)
  | .cb c =>
    if (s.loc t).enabled = false then (s, false)           -- `if self.is_disabled(): return`
    else if s.current ≠ some t then (s, true)              -- `self.check()` raises
    else (s.setLoc t { s.loc t with trace := c.apply (s.loc t).trace }, false)
  | .storeImport =>
    -- `_import_trace = <caller's trace>; init_trace()`
    ({ s with imp := (s.loc t).trace }, false)
  | .reset =>
    -- `_import_trace = ExecutionTrace(); init_trace()`
    ({ current := s.current, imp := Trace.empty,
       loc := fun u => if u = t then { s.loc t with trace := Trace.empty } else s.loc u }, false)

structure Ev where
  tid : Tid
  op : Op
  deriving DecidableEq, Repr, Inhabited

/-- Run a schedule. -/
def run (s : T) : List Ev → T
  | [] => s
  | e :: es => run (step s e.tid e.op).1 es

/-- Run a schedule and report, per event, whether it raised. -/
def runLog (s : T) : List Ev → List Bool
  | [] => []
  | e :: es => (step s e.tid e.op).2 :: runLog (step s e.tid e.op).1 es

/-- Neither `store_import_trace` nor `reset` (they belong to module import, not to test execution). -/
def Op.isImportOp : Op → Bool
  | .storeImport => true
  | .reset => true
  | _ => false

def noImportOps (es : List Ev) : Bool := es.all fun e => !e.op.isImportOp

/-- The operations thread `t` issues in the schedule, in order. -/
def opsOf (t : Tid) (es : List Ev) : List Op := (es.filter fun e => e.tid = t).map (·.op)

/-- The operations of `t` that did not raise. -/
def effective (t : Tid) (s : T) : List Ev → List Op
  | [] => []
  | e :: es =>
    (if e.tid = t ∧ (step s e.tid e.op).2 = false then [e.op] else [])
      ++ effective t (step s e.tid e.op).1 es

/-- Did any call of `t` raise `TracingAbortedException`? -/
def raisedBy (t : Tid) (s : T) : List Ev → Bool
  | [] => false
  | e :: es => (decide (e.tid = t) && (step s e.tid e.op).2) || raisedBy t (step s e.tid e.op).1 es

/-! ## The thread on its own (specification): nobody else touches the tracer, every guard passes -/

def soloStep (imp : Trace) (l : Local) : Op → Local
  | .initTrace => { l with trace := imp }
  | .enable => { l with enabled := true }
  | .disable => { l with enabled := false }
  | .cb c => if l.enabled = false then l else { l with trace := c.apply l.trace }
  | _ => l

def soloRun (imp : Trace) (l : Local) (ops : List Op) : Local := ops.foldl (soloStep imp) l

/-! ## What a trace contains, as a set of items (lines, branches, …) -/

inductive Item
  | code (c : Nat) | line (l : Nat) | pred (p : Nat) | tbranch (p : Nat) | fbranch (p : Nat)
  deriving DecidableEq, Repr

/-- the keys of `executed_predicates` -/
def keys : List (Nat × Nat) → List Nat
  | [] => []
  | (q, _) :: t => q :: keys t

def Trace.items (tr : Trace) : List Item :=
  tr.codes.map .code ++ tr.lines.map .line ++ (keys tr.preds).map .pred
    ++ tr.tcov.map .tbranch ++ tr.fcov.map .fbranch

def Cb.items : Cb → List Item
  | .code c => [.code c]
  | .line l => [.line l]
  | .pred p true => [.pred p, .tbranch p]
  | .pred p false => [.pred p, .fbranch p]

/-! ## The executor (`testcase/execution.py`) -/

/-- One statement of a test case as the tracer sees it: callbacks caused by observers before the
statement, by the statement itself (module under test), by observers after it. -/
structure Stmt where
  before : List Cb
  body : List Cb
  after : List Cb
  deriving Repr, Inhabited

/-- `_before_statement_execution; _exec_statement; _after_statement_execution` -/
def Stmt.ops (st : Stmt) : List Op :=
  [.check, .disable] ++ st.before.map .cb ++ [.enable] ++ st.body.map .cb
    ++ [.check, .disable] ++ st.after.map .cb ++ [.enable]

/-- `_execute_test_case` when no `TracingAbortedException` occurs. -/
def execOps (stmts : List Stmt) : List Op :=
  [.initTrace, .enter] ++ stmts.flatMap Stmt.ops ++ [.exit]

/-- The trace of the test case executed on its own: the import trace plus its statements' events. -/
def soloTrace (imp : Trace) (stmts : List Stmt) : Trace :=
  (stmts.flatMap (·.body)).foldl Cb.apply imp

/-- What the test thread leaves in `result_queue`. -/
inductive Outcome
  | delivered (tr : Trace)
  | nothing
  deriving DecidableEq, Repr

/-- `except TracingAbortedException: return` — no result when any tracer call raised. -/
def threadOutcome (t : Tid) (s : T) (es : List Ev) : Outcome :=
  if raisedBy t s es then .nothing else .delivered ((run s es).loc t).trace

inductive Result
  | timeout
  | ok (tr : Trace)
  deriving DecidableEq, Repr

/-- `TestCaseExecutor.execute` after the first join: `alive` = `thread.is_alive()`. -/
def executeResult (alive : Bool) (q : Outcome) : Result :=
  if alive then .timeout
  else match q with
    | .nothing => .timeout       -- "Finished thread did not return a result."
    | .delivered tr => .ok tr

/-- `min(self._maximum_test_execution_timeout, self._test_execution_time_per_statement * size)` -/
def firstJoin (maxT perStmt size : Nat) : Nat := min maxT (perStmt * size)

/-- The longest time `execute` blocks in `join`: first join, then (thread alive) `join(max)`. -/
def waitBound (maxT perStmt size : Nat) : Nat := firstJoin maxT perStmt size + maxT

/-! ## The result hand-over of `TestCaseExecutor.execute` (`return_queue`)

`execute` number `k` creates `return_queue = Queue()`, starts a thread with that queue, joins, and — only
when the thread is dead after the *first* join — does `return_queue.get(block=False)` (`Empty` ⇒ a
timeout result).  The thread of execution `k` does `result_queue.put(result)` as its very last action,
with `result.execution_trace = tracer.get_trace()` (its own thread-local trace) and
`result.exceptions` (a local of that thread).  An abandoned thread that is already past its last
`check()` (slow after-statement observer of the last statement, slow context-manager exit, slow
after-test-case observer) still performs its `put` — at any later moment of the history. -/

/-- The payload of an `ExecutionResult`: the trace and the exceptions `(statement index, type id)`. -/
structure Res where
  trace : Trace
  exc : List (Nat × Nat)
  deriving DecidableEq, Repr, Inhabited

/-- Which queue object execution `k` hands to its thread and reads. -/
inductive QMode
  /-- `return_queue = Queue()` inside `execute` — the code -/
  | perExecution
  /-- one queue for the executor's lifetime — the counterexample -/
  | shared
  deriving DecidableEq, Repr

def QMode.qid : QMode → Nat → Nat
  | .perExecution, k => k
  | .shared, _ => 0

/-- The state of a history: the tracer and the queues (FIFO, oldest first).  Every entry is tagged
with the execution whose thread put it (ghost information, used by the theorems only). -/
structure H where
  tr : T
  q : Nat → List (Nat × Res)

/-- A new executor on tracer `s`: all queues empty. -/
def H.init (s : T) : H := ⟨s, fun _ => []⟩

def H.setQ (h : H) (i : Nat) (l : List (Nat × Res)) : H :=
  { h with q := fun j => if j = i then l else h.q j }

/-- The events of a history. -/
inductive HEv
  /-- a tracer call by some thread -/
  | call (e : Ev)
  /-- the thread `t` of execution `k` reaches `result_queue.put(result)` -/
  | put (k : Nat) (t : Tid) (exc : List (Nat × Nat))
  /-- the main thread of `execute` number `k` after the joins: `alive` = `timed_out` -/
  | collect (k : Nat) (alive : Bool)
  deriving Repr, Inhabited

/-- What `execute` returns: a fresh `ExecutionResult(timeout=True)`, or the dequeued result (with
the execution that produced it). -/
inductive HResult
  | timeout
  | ok (producer : Nat) (r : Res)
  deriving DecidableEq, Repr

def hstep (m : QMode) (h : H) : HEv → H × Option (Nat × HResult)
  | .call e => ({ h with tr := (step h.tr e.tid e.op).1 }, none)
  | .put k t exc =>
    (h.setQ (m.qid k) (h.q (m.qid k) ++ [(k, ⟨(h.tr.loc t).trace, exc⟩)]), none)
  | .collect k alive =>
    if alive then (h, some (k, .timeout))                      -- `if timed_out:` — the queue is not read
    else match h.q (m.qid k) with
      | [] => (h, some (k, .timeout))                          -- `except Empty:`
      | (p, r) :: rest => (h.setQ (m.qid k) rest, some (k, .ok p r))

/-- The state after a history. -/
def hfinal (m : QMode) (h : H) : List HEv → H
  | [] => h
  | e :: es => hfinal m (hstep m h e).1 es

/-- What the `execute` calls of a history returned, in order. -/
def hresults (m : QMode) (h : H) : List HEv → List (Nat × HResult)
  | [] => []
  | e :: es => (hstep m h e).2.toList ++ hresults m (hstep m h e).1 es

/-- The tracer schedule of a history. -/
def callsOf : List HEv → List Ev
  | [] => []
  | .call e :: es => e :: callsOf es
  | _ :: es => callsOf es

/-- `hfinal` and `hresults` in one pass (what the driver runs; `hrun_eq`). -/
def hrun (m : QMode) (h : H) (acc : List (Nat × HResult)) : List HEv → H × List (Nat × HResult)
  | [] => (h, acc.reverse)
  | e :: es =>
    let r := hstep m h e
    match r.2 with
    | none => hrun m r.1 acc es
    | some x => hrun m r.1 (x :: acc) es

/-! ## Inside a callback: the guard and the write are two steps; what `stop()` waits for

`@_early_return` is `if self.is_disabled(): return; self.check(); func(self, …)`, and `func` of the
predicate callbacks *evaluates the comparison of the module under test itself* (`_compare_distances`,
`if value:` under `temporarily_disable`) before it writes to the caller's thread-local trace.  A test
thread can therefore sit INSIDE a tracer call for ever (`x in <endless generator>`, an `__eq__` /
`__bool__` that never returns): it passed the guard and has not written yet.  `FOp` splits a callback
into `cbBegin` (flag test + `check()`) and `cbEnd c` (the write); `F.inside` says which threads are between
the two.  `TestCaseExecutor.execute` (the watchdog, main thread) calls `stop()` after the first join:
`LockMode.none` is the code (`stop()` is one assignment, it waits for nobody); `LockMode.updateLock` is the
counterexample discipline (a reentrant lock held around `check()` + update and acquired by `stop()`):
there a call may be *not enabled* — the caller would wait — and a schedule in which a blocked call
happens does not exist (`frun … = none`). -/

inductive LockMode
  /-- the code: no lock anywhere -/
  | none
  /-- an `RLock` around `check(); func(…)` in `_early_return`, also acquired by `stop()` -/
  | updateLock
  deriving DecidableEq, Repr

/-- A step of a thread at the finer grain. -/
inductive FOp
  /-- a whole tracer call in one step (for `.cb c`: guard and write back to back) -/
  | plain (op : Op)
  /-- entering a callback: `if self.is_disabled(): return; [acquire]; self.check()` -/
  | cbBegin
  /-- leaving it: the write to the caller's trace `[release]` -/
  | cbEnd (c : Cb)
  deriving DecidableEq, Repr, Inhabited

structure F where
  tr : T
  /-- threads that passed the guard of a callback and have not written yet -/
  inside : Tid → Bool
  /-- the holder of the update lock (`LockMode.updateLock` only) -/
  owner : Option Tid

def F.init (s : T) : F := ⟨s, fun _ => false, none⟩

def lockFreeFor (s : F) (t : Tid) : Bool := decide (s.owner = none ∨ s.owner = some t)

/-- Can thread `t` take this step now, or would it wait for a lock? -/
def fenabled : LockMode → F → Tid → FOp → Bool
  | .none, _, _, _ => true
  | .updateLock, s, t, .plain .stop => lockFreeFor s t
  | .updateLock, s, t, .plain .exit => lockFreeFor s t
  | .updateLock, s, t, .plain (.cb _) => !(s.tr.loc t).enabled || lockFreeFor s t
  | .updateLock, s, t, .cbBegin => !(s.tr.loc t).enabled || lockFreeFor s t
  | .updateLock, _, _, _ => true

def LockMode.acquire : LockMode → Option Tid → Tid → Option Tid
  | .none, o, _ => o
  | .updateLock, _, t => some t

def LockMode.release : LockMode → Option Tid → Option Tid
  | .none, o => o
  | .updateLock, _ => Option.none

/-- Thread `t` takes the step; returns the new state and whether `TracingAbortedException` is raised. -/
def fstep (m : LockMode) (s : F) (t : Tid) : FOp → F × Bool
  | .plain op => ({ s with tr := (step s.tr t op).1 }, (step s.tr t op).2)
  | .cbBegin =>
    if (s.tr.loc t).enabled = false then (s, false)
    else if s.tr.current ≠ some t then (s, true)
    else ({ s with inside := fun u => if u = t then true else s.inside u,
                   owner := m.acquire s.owner t }, false)
  | .cbEnd c =>
    if s.inside t = true then
      ({ tr := s.tr.setLoc t { s.tr.loc t with trace := c.apply (s.tr.loc t).trace },
         inside := fun u => if u = t then false else s.inside u,
         owner := m.release s.owner }, false)
    else (s, false)

structure FEv where
  tid : Tid
  op : FOp
  deriving DecidableEq, Repr, Inhabited

/-- Run a fine-grained schedule; `none` = some step of it would have to wait (the schedule cannot
happen under this lock discipline). -/
def frun (m : LockMode) (s : F) : List FEv → Option F
  | [] => some s
  | e :: es => if fenabled m s e.tid e.op then frun m (fstep m s e.tid e.op).1 es else Option.none

/-- The raised flags along a fine-grained schedule (as far as it runs). -/
def frunLog (m : LockMode) (s : F) : List FEv → List Bool
  | [] => []
  | e :: es =>
    if fenabled m s e.tid e.op then (fstep m s e.tid e.op).2 :: frunLog m (fstep m s e.tid e.op).1 es
    else []

end PynguinModel.ThreadGuard
