/-!
# C27 — which callables of a module are marked "under test" (`pynguin/analyses/module.py`)

Mathlib-free executable model.  Python ↔ Lean:

* `str.startswith / str.endswith / str.rpartition(".")[2]`          ↔ `startsWith / endsWith / lastSegment`
* `re.compile(...).fullmatch` for the fragment used by `__NAME_MANGLED_PATTERN`
  (a sequence of single-character classes with `1`, `*`, `+`)          ↔ `RItem`, `matchItems`, `fullmatch`
* `__is_private`, `__is_protected`, `__is_name_mangled`, `__should_skip_by_visibility`,
  `__is_constructor`, `__is_annotate`, `MODULE_BLACKLIST`, `METHOD_BLACKLIST`, the `("main", "test")`
  prefixes of `_is_blacklisted`  ↔ the fields of `Preds`; the instance `Generated.preds` is
  re-emitted from the live source by the translator on every run (`Generated/C27Visibility.lean`)
* `_is_blacklisted` (module / class / function branches), `_is_method_blacklisted` ↔ `moduleBlacklisted`,
  `classBlacklisted`, `funcBlacklisted`, `methodListed`
* `__analyse_function`, `__analyse_method`, `__analyse_class`         ↔ `analyseFunction`, `analyseMethod`, `analyseClass`
* `__analyse_included_classes` (work list + `seen_classes`, bases appended unfiltered) ↔ `classLoop`
* `__analyse_included_functions` (`seen_functions`)                    ↔ `funcLoop`
* `__resolve_dependencies` (queue of modules, `seen_modules`)          ↔ `moduleLoop`, `visits`
* `test_cluster.accessible_objects_under_test`                         ↔ `underTest`

The traversal (`visits`) records *which* class / function is analysed with *which* `add_to_test`;
the analysis of one visit (`analyseVisit`) decides what is added under test.  In the Python code both
are interleaved; they are independent (the analysis never changes the work lists or the seen sets).
Names are `List Char` (ASCII identifiers; `\w` is modelled for ASCII only).
-/
namespace PynguinModel.ClusterFilter

abbrev Name := List Char

/-- `pynguin.configuration.ElementVisibility` -/
inductive Vis | PUBLIC | PROTECTED | ALL
  deriving DecidableEq, Repr

/-! ## strings -/
def startsWith (n p : Name) : Bool := p.isPrefixOf n
def endsWith (n p : Name) : Bool := p.isSuffixOf n
/-- `n.rpartition(".")[2]` -/
def lastSegment (n : Name) : Name := (n.reverse.takeWhile (· != '.')).reverse

/-! ## the regular-expression fragment -/
inductive CClass
  | lit (c : Char)
  | ranges (rs : List (Char × Char))   -- `[A-Za-z0-9]`: inclusive ranges (a single char is a range)
  | word                               -- `\w`, ASCII only
  deriving Repr

/-- membership in a union of inclusive code-point ranges -/
def inRanges (rs : List (Char × Char)) (x : Char) : Bool :=
  rs.any (fun r => r.1.toNat ≤ x.toNat && x.toNat ≤ r.2.toNat)

/-- `\w` on ASCII: `[A-Za-z0-9_]` -/
def asciiWord : List (Char × Char) := [('A', 'Z'), ('a', 'z'), ('0', '9'), ('_', '_')]

def CClass.test : CClass → Char → Bool
  | .lit c, x => x == c
  | .ranges rs, x => inRanges rs x
  | .word, x => inRanges asciiWord x

inductive RItem
  | one (c : CClass) | star (c : CClass) | plus (c : CClass)
  deriving Repr

/-- `c*` followed by the continuation `k` (all ways of splitting are tried, as backtracking does). -/
def starMatch (test : Char → Bool) (k : Name → Bool) : Name → Bool
  | [] => k []
  | x :: t => k (x :: t) || (test x && starMatch test k t)

def matchItems : List RItem → Name → Bool
  | [] => fun s => s.isEmpty
  | .one c :: r => fun s => match s with
      | [] => false
      | x :: t => c.test x && matchItems r t
  | .star c :: r => starMatch c.test (matchItems r)
  | .plus c :: r => fun s => match s with
      | [] => false
      | x :: t => c.test x && starMatch c.test (matchItems r) t

/-- `pattern.fullmatch(s) is not None` -/
def fullmatch (p : List RItem) (s : Name) : Bool := matchItems p s

/-! ## the predicates taken from the source -/
structure Preds where
  /-- `__should_skip_by_visibility(name, add_to_test=…)` under `config.configuration.element_visibility` -/
  shouldSkip : Vis → Name → Bool → Bool
  isConstructor : Name → Bool
  isAnnotate : Name → Bool
  moduleBlacklist : List Name
  methodBlacklist : List Name
  /-- `func.__qualname__.startswith(("main", "test"))` -/
  funcPrefixBlacklist : List Name

structure Cfg where
  visibility : Vis
  ignoreModules : List Name
  ignoreMethods : List Name

/-! ## what `inspect` shows of the modules -/
structure Func where
  id : Nat                  -- object identity
  module : Name             -- `__module__`
  qualname : Name           -- `__qualname__`
  isCoroutine : Bool        -- `iscoroutinefunction or isasyncgenfunction`
  isLambda : Bool           -- `__name__ == "<lambda>"`
  lambdaName : Option Name  -- `_get_lambda_assigned_name(...)`
  deriving DecidableEq, Repr

structure Meth where
  name : Name               -- key of `inspect.getmembers(cls, inspect.isfunction)`
  qualified : Name          -- `f"{method.__module__}.{method.__qualname__}"` (matched against the method blacklist)
  definer : Option Nat      -- `get_class_that_defined_method(method)`: identity (`Cls.id`) of the class object found at
                            -- `getattr(inspect.getmodule(method), <class part of __qualname__>)`; `none` = no such class
  isCoroutine : Bool
  deriving DecidableEq, Repr

structure Cls where
  id : Nat
  module : Name
  qualname : Name
  isAbstract : Bool
  isEnum : Bool
  enumNames : Nat           -- `len(GenericEnum(type_info).names)`
  methods : List Meth
  bases : List Nat
  deriving DecidableEq, Repr

/-- `__is_method_defined_in_class(class_, method)`: `class_ == get_class_that_defined_method(method)` — an
identity comparison of class objects (NOT of names: `class Handler(base.Handler)` has the same `__qualname__`
as its base, the methods it inherits are still defined in the other class). -/
def Meth.definedIn (m : Meth) (c : Cls) : Bool := m.definer == some c.id

structure Mod where
  name : Name
  classes : List Nat        -- classes among `vars(module).values()`, in order
  funcs : List Func         -- `_is_function` members of `vars(module).values()`, in order
  submodules : List Name    -- modules among `vars(module).values()`
  deriving Repr

structure Env where
  classes : List Cls
  modules : List Mod

def Env.findClass (env : Env) (id : Nat) : Option Cls := env.classes.find? (fun c => c.id == id)
def Env.findModule (env : Env) (n : Name) : Option Mod := env.modules.find? (fun m => m.name == n)

/-! ## `_is_blacklisted` -/
def moduleBlacklisted (P : Preds) (cfg : Cfg) (m : Name) : Bool :=
  P.moduleBlacklist.contains m || cfg.ignoreModules.contains m

def methodListed (P : Preds) (cfg : Cfg) (q : Name) : Bool :=
  P.methodBlacklist.contains q || cfg.ignoreMethods.contains q

/-- `f"{func.__module__}.{func.__qualname__}"` -/
def Func.qualified (f : Func) : Name := f.module ++ '.' :: f.qualname

def funcBlacklisted (P : Preds) (cfg : Cfg) (f : Func) : Bool :=
  moduleBlacklisted P cfg f.module
    || P.funcPrefixBlacklist.any (fun p => startsWith f.qualname p)
    || methodListed P cfg f.qualified

/-- class branch of `_is_blacklisted` (the builtins exception is irrelevant: builtins are never the root) -/
def classBlacklisted (P : Preds) (cfg : Cfg) (c : Cls) : Bool := moduleBlacklisted P cfg c.module

/-! ## accessibles under test -/
inductive Acc
  | func (f : Func) (name : Name)   -- `GenericFunction(func, …, func_name)`
  | ctor (c : Cls)                  -- `GenericConstructor`
  | enum (c : Cls)                  -- `GenericEnum`
  | meth (c : Cls) (m : Meth)       -- `GenericMethod`
  deriving DecidableEq, Repr

/-- the name the visibility rule is applied to (the assigned name for a lambda) -/
def Func.visibleName (f : Func) : Option Name :=
  if f.isLambda then f.lambdaName else some (lastSegment f.qualname)

/-- the name under which the function is put into the cluster -/
def Func.clusterName (f : Func) : Option Name :=
  if f.isLambda then f.lambdaName else some f.qualname

def analyseFunction (P : Preds) (cfg : Cfg) (f : Func) (addToTest : Bool) : List Acc :=
  match f.visibleName, f.clusterName with
  | some vn, some cn =>
    if P.shouldSkip cfg.visibility vn addToTest then []
    else if f.isCoroutine then []
    else if addToTest then [.func f cn] else []
  | _, _ => []   -- a lambda that is not assigned to a module-level name

def analyseMethod (P : Preds) (cfg : Cfg) (c : Cls) (m : Meth) (addToTest : Bool) : List Acc :=
  if P.isAnnotate m.name || P.shouldSkip cfg.visibility (lastSegment m.name) addToTest
      || P.isConstructor m.name || !m.definedIn c then []
  else if methodListed P cfg m.qualified then []
  else if m.isCoroutine then []
  else if addToTest then [.meth c m] else []

def analyseClass (P : Preds) (cfg : Cfg) (c : Cls) (addToTest : Bool) : List Acc :=
  if c.isEnum && c.enumNames == 0 then []
  else
    (if !c.isAbstract && addToTest then [if c.isEnum then .enum c else .ctor c] else [])
      ++ c.methods.flatMap (fun m => analyseMethod P cfg c m addToTest)

/-! ## traversal -/
inductive Visit
  | cls (c : Cls) (addToTest : Bool)
  | fn (f : Func) (addToTest : Bool)
  deriving DecidableEq, Repr

def analyseVisit (P : Preds) (cfg : Cfg) : Visit → List Acc
  | .cls c a => analyseClass P cfg c a
  | .fn f a => analyseFunction P cfg f a

/-- `__analyse_included_classes`: `work_list.pop(0)`, `seen_classes`, bases appended.
`none`: fuel exhausted or an unknown class id (malformed input). -/
def classLoop (env : Env) (root : Name) : Nat → List Nat → List Nat → Option (List Nat × List Visit)
  | _, [], seen => some (seen, [])
  | 0, _ :: _, _ => none
  | fuel + 1, cur :: rest, seen =>
    if seen.contains cur then classLoop env root fuel rest seen
    else match env.findClass cur with
      | none => none
      | some c =>
        match classLoop env root fuel (rest ++ c.bases) (cur :: seen) with
        | none => none
        | some (s, vs) => some (s, .cls c (c.module == root) :: vs)

/-- `__analyse_included_functions` (the blacklist filter is applied by the caller) -/
def funcLoop (root : Name) : List Func → List Func → List Func × List Visit
  | [], seen => (seen, [])
  | f :: fs, seen =>
    if seen.contains f then funcLoop root fs seen
    else
      let r := funcLoop root fs (f :: seen)
      (r.1, .fn f (f.module == root) :: r.2)

structure Seen where
  mods : List Name
  classes : List Nat
  funcs : List Func

/-- class ids of `vars(module)` that pass `not _is_blacklisted(x)` (unknown ids are kept: `classLoop` fails on them) -/
def initialClasses (P : Preds) (cfg : Cfg) (env : Env) (md : Mod) : List Nat :=
  md.classes.filter (fun id => match env.findClass id with
    | some c => !classBlacklisted P cfg c
    | none => true)

/-- `__resolve_dependencies`: the `while not wait_list.empty()` loop -/
def moduleLoop (P : Preds) (cfg : Cfg) (env : Env) (root : Name) (cfuel : Nat) :
    Nat → List Name → Seen → Option (List Visit)
  | _, [], _ => some []
  | 0, _ :: _, _ => none
  | fuel + 1, m :: q, st =>
    if st.mods.contains m || moduleBlacklisted P cfg m then moduleLoop P cfg env root cfuel fuel q st
    else match env.findModule m with
      | none => none
      | some md =>
        match classLoop env root cfuel (initialClasses P cfg env md) st.classes with
        | none => none
        | some (seenC, vc) =>
          let rf := funcLoop root (md.funcs.filter (fun f => !funcBlacklisted P cfg f)) st.funcs
          match moduleLoop P cfg env root cfuel fuel (q ++ md.submodules)
                  { mods := m :: st.mods, classes := seenC, funcs := rf.1 } with
          | none => none
          | some rest => some (vc ++ rf.2 ++ rest)

/-- everything analysed, in order, starting at the module under test -/
def visits (P : Preds) (cfg : Cfg) (env : Env) (root : Name) (fuel : Nat) : Option (List Visit) :=
  moduleLoop P cfg env root fuel fuel [root] { mods := [], classes := [], funcs := [] }

/-- `test_cluster.accessible_objects_under_test` after `analyse_module` -/
def underTest (P : Preds) (cfg : Cfg) (env : Env) (root : Name) (fuel : Nat) : Option (List Acc) :=
  (visits P cfg env root fuel).map (fun vs => vs.flatMap (analyseVisit P cfg))

/-! ## what a member is, for stating the property -/
def Acc.module : Acc → Name
  | .func f _ => f.module
  | .ctor c => c.module
  | .enum c => c.module
  | .meth c _ => c.module

/-- the name the visibility setting applies to (`none`: constructors / enums — the class name is not filtered) -/
def Acc.visibleName : Acc → Option Name
  | .func f _ => f.visibleName
  | .meth _ m => some (lastSegment m.name)
  | _ => none

/-- the qualified name the `ignore_methods` list is matched against -/
def Acc.qualified : Acc → Option Name
  | .func f _ => some f.qualified
  | .meth _ m => some m.qualified
  | _ => none

end PynguinModel.ClusterFilter
