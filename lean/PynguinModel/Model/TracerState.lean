/-!
# The tracer's enabled flag under exceptions (C05)

Mirrors `src/pynguin/instrumentation/tracer.py`: `ExecutionTracer.TracerLocalState.enabled`,
`is_disabled/enable/disable`, the `_early_return` decorator, and every callback the instrumented
code makes, as far as the flag and the recorded trace are concerned:

* `track_line_visit` (`covered_line_ids`), `executed_code_object` (`executed_code_objects`);
* `executed_compare_predicate/executed_bool_predicate/executed_in_presence_predicate/
  executed_exception_match` (`executed_predicates`): the operands are evaluated inside
  `with self.temporarily_disable()` — this runs operator code of the module under test
  (`__lt__`, `__eq__`, `__bool__`, `__contains__`), which is instrumented itself, makes callbacks of
  its own and may raise *any* `BaseException`;
* the checked-coverage callbacks `track_generic/track_memory_access/track_jump/track_call/
  track_return` (append to `executed_instructions`) and `track_attribute_access`, which resolves
  the attribute itself (`attribute_lookup`, `getattr`) *without touching the flag* — property
  getters / `__getattr__` of the module under test run there, make callbacks and may raise — and
  appends only afterwards;
* `AbstractExecutionTracer.temporarily_disable` and `temporarily_enable`;

and the way `TestCaseExecutor` (`testcase/execution.py`) brackets every statement: observers under
`temporarily_disable`, the statement itself inside `try/except BaseException`, observers again under
`temporarily_disable` (the assertion observer uses `temporarily_enable` inside).

Exceptions come in two kinds (`Exc`): derived from `Exception`, or only from `BaseException`
(`SystemExit`, `KeyboardInterrupt`, `GeneratorExit`); handlers of the module under test catch either
`Exception` or `BaseException` (`Catch`).

`Variant.repaired` is the code of the tree (`try: yield finally: self.enable()`); `Variant.legacy`
the code before the repair (the statement after `yield` is skipped when the body raises);
`Variant.exceptionOnly` a context manager that restores in `except Exception:` (+ after the `yield`)
instead of `finally:`.  The last two only serve as counterexamples.  No Mathlib.
-/
namespace PynguinModel.TracerState

inductive Variant
  | repaired | legacy | exceptionOnly
  deriving DecidableEq, Repr, Inhabited

/-- The kind of a raised exception: an instance of `Exception`, or of `BaseException` only. -/
inductive Exc
  | exception | base
  deriving DecidableEq, Repr, Inhabited

/-- A handler: `except Exception:` or `except BaseException:` (also a bare `except:`). -/
inductive Catch
  | exception | base
  deriving DecidableEq, Repr, Inhabited

def Catch.catches : Catch → Exc → Bool
  | .base, _ => true
  | .exception, .exception => true
  | .exception, .base => false

/-- Does the restoring statement of `temporarily_disable/temporarily_enable` run when the body of
the `with` ended with `r` (`none`: normally)? -/
def Variant.restores : Variant → Option Exc → Bool
  | _, none => true
  | .repaired, some _ => true
  | .legacy, some _ => false
  | .exceptionOnly, some .exception => true
  | .exceptionOnly, some .base => false

/-- What the trace records: `covered_line_ids` (an `OrderedSet`), `executed_predicates`
(a dict predicate id ↦ number of evaluations), `executed_instructions` (a list, checked coverage)
and `executed_code_objects` (an `OrderedSet`), all in insertion order. -/
structure Trace where
  lines : List Nat
  preds : List (Nat × Nat)
  instrs : List Nat
  codeObjs : List Nat
  deriving DecidableEq, Repr, Inhabited

structure State where
  enabled : Bool
  trace : Trace
  deriving DecidableEq, Repr, Inhabited

/-- `OrderedSet.add` -/
def addLine (ls : List Nat) (l : Nat) : List Nat := if l ∈ ls then ls else ls ++ [l]

/-- `executed_predicates[p] = executed_predicates.get(p, 0) + 1` -/
def bump : List (Nat × Nat) → Nat → List (Nat × Nat)
  | [], p => [(p, 1)]
  | (q, c) :: t, p => if q = p then (q, c + 1) :: t else (q, c) :: bump t p

def Trace.addLine (t : Trace) (l : Nat) : Trace := { t with lines := TracerState.addLine t.lines l }
def Trace.bump (t : Trace) (p : Nat) : Trace := { t with preds := TracerState.bump t.preds p }
/-- `executed_instructions.append(...)` -/
def Trace.addInstr (t : Trace) (i : Nat) : Trace := { t with instrs := t.instrs ++ [i] }
/-- `executed_code_objects.add(c)` -/
def Trace.addCodeObj (t : Trace) (c : Nat) : Trace :=
  { t with codeObjs := TracerState.addLine t.codeObjs c }

/-- Code that runs in the thread of a test case, as far as the tracer can tell. -/
inductive Ev
  /-- `tracer.track_line_visit(l)` -/
  | line (l : Nat)
  /-- `tracer.executed_code_object(c)` -/
  | codeObj (c : Nat)
  /-- `tracer.track_generic/track_memory_access/track_jump/track_call/track_return(..., i, ...)` -/
  | instr (i : Nat)
  /-- `tracer.executed_*_predicate(..., p, ...)`; `body` is the code that evaluating the operands'
  comparison / truth value / membership test runs (operators of the module under test): it runs
  inside `with self.temporarily_disable()` and may raise -/
  | pred (p : Nat) (body : List Ev)
  /-- `tracer.track_attribute_access(..., i, ..., attr_name, obj)`; `body` is the code that
  resolving the attribute runs (property getter, `__getattr__`): it runs with the flag as it is and
  may raise (e.g. `AttributeError`), in which case nothing is appended -/
  | attr (i : Nat) (body : List Ev)
  /-- `with tracer.temporarily_disable(): body` -/
  | withDisabled (body : List Ev)
  /-- `with tracer.temporarily_enable(): body` -/
  | withEnabled (body : List Ev)
  /-- `try: body` / `except <c>: pass` — a handler of the module under test, or the executor's own
  wrapper around `exec` (`c = .base`) -/
  | tryExcept (c : Catch) (body : List Ev)
  /-- the code raises by itself -/
  | raise (e : Exc)
  deriving Repr, Inhabited

/-- Exit of `temporarily_disable` (`flag = true`) / `temporarily_enable` (`flag = false`) that had
to switch the flag on entry. -/
def restore (v : Variant) (flag : Bool) (r : State × Option Exc) : State × Option Exc :=
  if v.restores r.2 then ({ r.1 with enabled := flag }, r.2) else r

/-- End of a predicate callback that was entered with tracing enabled: `_update_metrics` (still
inside the `with`), then the exit of `temporarily_disable`. -/
def predFinish (v : Variant) (p : Nat) (r : State × Option Exc) : State × Option Exc :=
  match r.2 with
  | none => ({ r.1 with enabled := true, trace := r.1.trace.bump p }, none)
  | some _ => restore v true r

/-- End of `track_attribute_access`: `add_attribute_instruction` unless the lookup raised. -/
def attrFinish (i : Nat) (r : State × Option Exc) : State × Option Exc :=
  match r.2 with
  | none => ({ r.1 with trace := r.1.trace.addInstr i }, none)
  | some _ => r

/-- `except <c>: pass` -/
def handle {α : Type} (c : Catch) (r : α × Option Exc) : α × Option Exc :=
  match r.2 with
  | none => r
  | some e => if c.catches e then (r.1, none) else r

mutual
/-- Run one event: the new state and the exception that propagates out of it, if any. -/
def exec (v : Variant) (s : State) : Ev → State × Option Exc
  | .line l =>
    -- @_early_return: `if self.is_disabled(): return`
    if !s.enabled then (s, none) else ({ s with trace := s.trace.addLine l }, none)
  | .codeObj c =>
    if !s.enabled then (s, none) else ({ s with trace := s.trace.addCodeObj c }, none)
  | .instr i =>
    if !s.enabled then (s, none) else ({ s with trace := s.trace.addInstr i }, none)
  | .pred p body =>
    if !s.enabled then (s, none)
    else
      -- `with self.temporarily_disable():` — enabled here, so `self.disable()` … `self.enable()`
      predFinish v p (execList v { s with enabled := false } body)
  | .attr i body =>
    if !s.enabled then (s, none)
    else attrFinish i (execList v s body)      -- no flag handling at all
  | .withDisabled body =>
    if !s.enabled then execList v s body        -- `if self.is_disabled(): yield; return`
    else restore v true (execList v { s with enabled := false } body)
  | .withEnabled body =>
    if s.enabled then execList v s body         -- `if not self.is_disabled(): yield; return`
    else restore v false (execList v { s with enabled := true } body)
  | .tryExcept c body => handle c (execList v s body)
  | .raise e => (s, some e)

/-- Run a block: stops at the first event that raises. -/
def execList (v : Variant) (s : State) : List Ev → State × Option Exc
  | [] => (s, none)
  | e :: es =>
    let r := exec v s e
    if r.2.isSome then r else execList v r.1 es
end

/-! ## Reference semantics: what *should* be recorded

There is no flag: whether a callback records is decided by the lexical context `ctx`
(inside `with temporarily_disable()` — hence inside the operand evaluation of a predicate callback —
nothing is recorded, inside `with temporarily_enable()` everything is), and exceptions only affect
control flow. -/

def refPredFinish (p : Nat) (r : Trace × Option Exc) : Trace × Option Exc :=
  match r.2 with
  | none => (r.1.bump p, none)
  | some _ => r

def refAttrFinish (i : Nat) (r : Trace × Option Exc) : Trace × Option Exc :=
  match r.2 with
  | none => (r.1.addInstr i, none)
  | some _ => r

mutual
def ref (ctx : Bool) (t : Trace) : Ev → Trace × Option Exc
  | .line l => (if ctx then t.addLine l else t, none)
  | .codeObj c => (if ctx then t.addCodeObj c else t, none)
  | .instr i => (if ctx then t.addInstr i else t, none)
  | .pred p body => if ctx then refPredFinish p (refList false t body) else (t, none)
  | .attr i body => if ctx then refAttrFinish i (refList true t body) else (t, none)
  | .withDisabled body => refList false t body
  | .withEnabled body => refList true t body
  | .tryExcept c body => handle c (refList ctx t body)
  | .raise e => (t, some e)

def refList (ctx : Bool) (t : Trace) : List Ev → Trace × Option Exc
  | [] => (t, none)
  | e :: es =>
    let r := ref ctx t e
    if r.2.isSome then r else refList ctx r.1 es
end

/-! ## Statements of a test case (`TestCaseExecutor._execute_test_case`) -/

/-- One statement of a test case: observers before, the statement's own code (module under test),
observers after. -/
structure Stmt where
  before : List Ev
  body : List Ev
  after : List Ev
  deriving Repr, Inhabited

/-- `_before_statement_execution`; `_exec_statement` (catches `BaseException`);
`_after_statement_execution`. -/
def Stmt.events (st : Stmt) : List Ev :=
  [.withDisabled st.before, .tryExcept .base st.body, .withDisabled st.after]

/-- A script of tracer callbacks made by the module under test in which every callback sits in a
`try` of the module with handler `c` (the flat histories of the property statement). -/
def caughtScript (c : Catch) (cbs : List Ev) : List Ev := cbs.map fun cb => .tryExcept c [cb]

/-- The code run by a callback's operand / attribute evaluation does nothing the tracer sees, or
just raises something the handler `c` catches. -/
def simpleBody (c : Catch) : List Ev → Bool
  | [] => true
  | [.raise e] => c.catches e
  | _ => false

/-- `Ev` is a plain callback whose exception (if any) the handler `c` catches. -/
def Ev.isCallback (c : Catch) : Ev → Bool
  | .line _ => true
  | .codeObj _ => true
  | .instr _ => true
  | .pred _ body => simpleBody c body
  | .attr _ body => simpleBody c body
  | _ => false

/-- The snapshots `(is_disabled, covered lines, executed predicates, executed instructions, executed
code objects)` after every primitive event, in execution order (what the correspondence run
compares step by step). -/
structure Snap where
  disabled : Bool
  lines : List Nat
  preds : List (Nat × Nat)
  instrs : List Nat
  codeObjs : List Nat
  deriving DecidableEq, Repr

def snap (s : State) : Snap :=
  ⟨!s.enabled, s.trace.lines, s.trace.preds, s.trace.instrs, s.trace.codeObjs⟩

mutual
def execLog (v : Variant) (s : State) : Ev → List Snap
  | .line l => [snap (exec v s (.line l)).1]
  | .codeObj c => [snap (exec v s (.codeObj c)).1]
  | .instr i => [snap (exec v s (.instr i)).1]
  | .pred p body =>
    (if !s.enabled then [] else execListLog v { s with enabled := false } body)
      ++ [snap (exec v s (.pred p body)).1]
  | .attr i body =>
    (if !s.enabled then [] else execListLog v s body) ++ [snap (exec v s (.attr i body)).1]
  | .withDisabled body =>
    if !s.enabled then execListLog v s body
    else execListLog v { s with enabled := false } body ++ [snap (exec v s (.withDisabled body)).1]
  | .withEnabled body =>
    if s.enabled then execListLog v s body
    else execListLog v { s with enabled := true } body ++ [snap (exec v s (.withEnabled body)).1]
  | .tryExcept _ body => execListLog v s body
  | .raise _ => []

def execListLog (v : Variant) (s : State) : List Ev → List Snap
  | [] => []
  | e :: es =>
    let r := exec v s e
    execLog v s e ++ (if r.2.isSome then [] else execListLog v r.1 es)
end

/-- The value of the flag after every event of a block, up to the first one that raises (what the
executor sees between the statements of a test case). -/
def flagsAfter (v : Variant) (s : State) : List Ev → List Bool
  | [] => []
  | e :: es =>
    let r := exec v s e
    r.1.enabled :: (if r.2.isSome then [] else flagsAfter v r.1 es)

end PynguinModel.TracerState
