/-!
# The tracer's enabled flag under exceptions (C05)

Mirrors `src/pynguin/instrumentation/tracer.py`: `ExecutionTracer.TracerLocalState.enabled`,
`is_disabled/enable/disable`, the `_early_return` decorator, `track_line_visit`,
`executed_compare_predicate/executed_bool_predicate/executed_exception_match` (as far as the flag
and `executed_predicates` are concerned), `AbstractExecutionTracer.temporarily_disable` and
`temporarily_enable`; and the way `TestCaseExecutor` (`testcase/execution.py`) brackets every
statement: observers under `temporarily_disable`, the statement itself inside `try/except
BaseException`, observers again under `temporarily_disable` (the assertion observer uses
`temporarily_enable` inside).

`Variant.repaired` is the code after `proposed_fixes/C05-temporarily-disable-finally.diff`
(`try: yield finally: self.enable()`), `Variant.legacy` the code before it (the statement after
`yield` is skipped when the body raises).  No Mathlib.
-/
namespace PynguinModel.TracerState

inductive Variant
  | repaired | legacy
  deriving DecidableEq, Repr, Inhabited

/-- What the trace records: `covered_line_ids` (an `OrderedSet`) and `executed_predicates`
(a dict predicate id ↦ number of evaluations), both in insertion order. -/
structure Trace where
  lines : List Nat
  preds : List (Nat × Nat)
  deriving DecidableEq, Repr, Inhabited

structure State where
  enabled : Bool
  trace : Trace
  deriving DecidableEq, Repr, Inhabited

/-- `covered_line_ids.add(line_id)` -/
def addLine (ls : List Nat) (l : Nat) : List Nat := if l ∈ ls then ls else ls ++ [l]

/-- `executed_predicates[p] = executed_predicates.get(p, 0) + 1` -/
def bump : List (Nat × Nat) → Nat → List (Nat × Nat)
  | [], p => [(p, 1)]
  | (q, c) :: t, p => if q = p then (q, c + 1) :: t else (q, c) :: bump t p

def Trace.addLine (t : Trace) (l : Nat) : Trace := { t with lines := TracerState.addLine t.lines l }
def Trace.bump (t : Trace) (p : Nat) : Trace := { t with preds := TracerState.bump t.preds p }

/-- Code that runs in the thread of a test case, as far as the tracer can tell. -/
inductive Ev
  /-- `tracer.track_line_visit(l)` -/
  | line (l : Nat)
  /-- `tracer.executed_*_predicate(..., p, ...)`; `raises`: evaluating the operands' comparison
  (or truth value) raises, so the body of the callback raises inside `with temporarily_disable()` -/
  | pred (p : Nat) (raises : Bool)
  /-- `with tracer.temporarily_disable(): body` -/
  | withDisabled (body : List Ev)
  /-- `with tracer.temporarily_enable(): body` -/
  | withEnabled (body : List Ev)
  /-- `try: body` / `except BaseException: pass` — a handler of the module under test, or the
  executor's own wrapper around `exec` -/
  | tryExcept (body : List Ev)
  /-- the code raises by itself -/
  | raise
  deriving Repr, Inhabited

mutual
/-- Run one event: the new state and whether an exception propagates out of it. -/
def exec (v : Variant) (s : State) : Ev → State × Bool
  | .line l =>
    -- @_early_return: `if self.is_disabled(): return`
    if !s.enabled then (s, false) else ({ s with trace := s.trace.addLine l }, false)
  | .pred p raises =>
    if !s.enabled then (s, false)
    else
      -- `with self.temporarily_disable():` — enabled here, so `self.disable()` … `self.enable()`
      let s1 := { s with enabled := false }
      if raises then
        -- the body raises before `_update_metrics`
        match v with
        | .repaired => ({ s1 with enabled := true }, true)   -- finally: self.enable()
        | .legacy => (s1, true)                               -- `self.enable()` is skipped
      else ({ s1 with enabled := true, trace := s1.trace.bump p }, false)
  | .withDisabled body =>
    if !s.enabled then execList v s body        -- `if self.is_disabled(): yield; return`
    else
      let r := execList v { s with enabled := false } body
      match v, r.2 with
      | .legacy, true => r                      -- `self.enable()` is skipped
      | _, _ => ({ r.1 with enabled := true }, r.2)
  | .withEnabled body =>
    if s.enabled then execList v s body         -- `if not self.is_disabled(): yield; return`
    else
      let r := execList v { s with enabled := true } body
      match v, r.2 with
      | .legacy, true => r                      -- `self.disable()` is skipped
      | _, _ => ({ r.1 with enabled := false }, r.2)
  | .tryExcept body => ((execList v s body).1, false)
  | .raise => (s, true)

/-- Run a block: stops at the first event that raises. -/
def execList (v : Variant) (s : State) : List Ev → State × Bool
  | [] => (s, false)
  | e :: es =>
    let r := exec v s e
    if r.2 then r else execList v r.1 es
end

/-! ## Reference semantics: what *should* be recorded

There is no flag: whether a callback records is decided by the lexical context `ctx`
(inside `with temporarily_disable()` nothing is recorded, inside `with temporarily_enable()`
everything is), and exceptions only affect control flow. -/

mutual
def ref (ctx : Bool) (t : Trace) : Ev → Trace × Bool
  | .line l => (if ctx then t.addLine l else t, false)
  | .pred p raises => if ctx then (if raises then (t, true) else (t.bump p, false)) else (t, false)
  | .withDisabled body => refList false t body
  | .withEnabled body => refList true t body
  | .tryExcept body => ((refList ctx t body).1, false)
  | .raise => (t, true)

def refList (ctx : Bool) (t : Trace) : List Ev → Trace × Bool
  | [] => (t, false)
  | e :: es =>
    let r := ref ctx t e
    if r.2 then r else refList ctx r.1 es
end

/-! ## Statements of a test case (`TestCaseExecutor._execute_test_case`) -/

/-- One statement of a test case: observers before, the statement's own code (module under test),
observers after. -/
structure Stmt where
  before : List Ev
  body : List Ev
  after : List Ev
  deriving Repr, Inhabited

/-- `_before_statement_execution`; `_exec_statement` (catches `BaseException`);
`_after_statement_execution`. -/
def Stmt.events (st : Stmt) : List Ev :=
  [.withDisabled st.before, .tryExcept st.body, .withDisabled st.after]

/-- A script of tracer callbacks made by the module under test in which every callback that raises
is caught by the module (the flat histories of the property statement). -/
def caughtScript (cbs : List Ev) : List Ev := cbs.map fun c => .tryExcept [c]

/-- `Ev` is a plain callback (`line` or `pred`). -/
def Ev.isCallback : Ev → Bool
  | .line _ => true
  | .pred _ _ => true
  | _ => false

/-- The snapshots `(is_disabled, covered lines, executed predicates)` after every primitive event,
in execution order (what the correspondence run compares step by step). -/
structure Snap where
  disabled : Bool
  lines : List Nat
  preds : List (Nat × Nat)
  deriving DecidableEq, Repr

def snap (s : State) : Snap := ⟨!s.enabled, s.trace.lines, s.trace.preds⟩

mutual
def execLog (v : Variant) (s : State) : Ev → List Snap
  | .line l => [snap (exec v s (.line l)).1]
  | .pred p r => [snap (exec v s (.pred p r)).1]
  | .withDisabled body =>
    if !s.enabled then execListLog v s body
    else execListLog v { s with enabled := false } body ++ [snap (exec v s (.withDisabled body)).1]
  | .withEnabled body =>
    if s.enabled then execListLog v s body
    else execListLog v { s with enabled := true } body ++ [snap (exec v s (.withEnabled body)).1]
  | .tryExcept body => execListLog v s body
  | .raise => []

def execListLog (v : Variant) (s : State) : List Ev → List Snap
  | [] => []
  | e :: es =>
    let r := exec v s e
    execLog v s e ++ (if r.2 then [] else execListLog v r.1 es)
end

end PynguinModel.TracerState
