/-
Model of the editing core of `pynguin.testcase.testcase.TestCase` (libcst-backed, name-based) and of
the composites that edit test cases by name: `TestFactory.delete_statement_gracefully`,
`crossover.splice_test_case_chromosomes`, the chop at the head of `TestCaseMutation.mutate` and the
length guard of `TestCaseMutation._mutation_insert`.

* A name is either `var k` (the string `var_<k>`, `k` in canonical decimal) or `ext s` (any other
  identifier: module alias, builtin, attribute, keyword, parameter name ...).  `next_var_name()`
  produces `var counter`.
* A statement (`Stmt`) is what the editing code looks at of a `Statement`: `bound_variable`,
  `bound_type` (an opaque type id), `used_variables()` (every `Name` leaf outside an assignment target,
  in the iteration order of the frozenset), the source names of the attached assertions, and whether
  `_transform_assign_to_expr` changes the node (`simpleAssign`: a `SimpleStatementLine` holding an
  `Assign` with one target).
* `_type_registry` is an insertion-ordered dict `type -> [names]` (association list).
* Python sets of indices are lists / boolean masks; `randomness.choice(seq)` is `seq[r % len(seq)]`
  for a supplied natural `r` (every possible draw is some `r`).
* `while changed:` loops run on fuel (`none` = fuel exhausted; `closureMask_spec` / `forward_deps_total` /
  `delete_gracefully_total` show it never is).
* `IndexError`s of `list.pop`, `list[i] = x`, `list[i]` are `none`.
Every function is written the way the Python code is written.  Mathlib-free.
-/
namespace PynguinModel.TestCase

inductive Name where
  | var (k : Nat)
  | ext (s : String)
  deriving DecidableEq, Repr, Inhabited

def Name.isVar : Name → Bool
  | .var _ => true
  | .ext _ => false

abbrev Ty := Nat

structure Stmt where
  bound : Option Name
  btype : Option Ty
  /-- `used_variables()` -/
  uses : List Name
  /-- root variable of the `source` of each attached assertion (`source.split(".")[0]`) -/
  asserts : List Name
  /-- `_transform_assign_to_expr(node) is not node` -/
  simpleAssign : Bool
  deriving DecidableEq, Repr, Inhabited

abbrev Registry := List (Ty × List Name)

/-- `reg.setdefault(t, []).append(v)` -/
def regAdd : Registry → Ty → Name → Registry
  | [], t, v => [(t, [v])]
  | (t', vs) :: r, t, v => if t' = t then (t', vs ++ [v]) :: r else (t', vs) :: regAdd r t v

/-- `TestCase._register` -/
def register (reg : Registry) (s : Stmt) : Registry :=
  match s.bound, s.btype with
  | some v, some t => regAdd reg t v
  | _, _ => reg

/-- `TestCase._rebuild_registry` -/
def rebuild (l : List Stmt) : Registry := l.foldl register []

def regGet : Registry → Ty → List Name
  | [], _ => []
  | (t', vs) :: r, t => if t' = t then vs else regGet r t

structure TC where
  stmts : List Stmt
  counter : Nat
  registry : Registry
  deriving DecidableEq, Repr, Inhabited

/-- `TestCase()` -/
def TC.empty : TC := ⟨[], 0, []⟩

def TC.size (tc : TC) : Nat := tc.stmts.length

/-- names bound by a statement list, in order -/
def boundNames (l : List Stmt) : List Name := l.filterMap (·.bound)

/-- `variables_of_type(t)` -/
def TC.variablesOfType (tc : TC) (t : Ty) : List Name := regGet tc.registry t

/-- `next_var_name()` -/
def TC.nextVar (tc : TC) : Name × TC := (.var tc.counter, { tc with counter := tc.counter + 1 })

/-- `add_statement` (incremental `_register`, no rebuild) -/
def TC.add (tc : TC) (s : Stmt) : TC :=
  { tc with stmts := tc.stmts ++ [s], registry := register tc.registry s }

/-- the statement list with a rebuilt registry (every other primitive ends in `_rebuild_registry`) -/
def TC.withStmts (tc : TC) (l : List Stmt) : TC := { tc with stmts := l, registry := rebuild l }

/-- `insert_statement(i, s)` for `0 <= i` (`list.insert` clamps to the end) -/
def TC.insert (tc : TC) (i : Nat) (s : Stmt) : TC :=
  tc.withStmts (tc.stmts.take i ++ s :: tc.stmts.drop i)

/-- `remove_statement(i)` (`list.pop(i)`, `none` = IndexError) -/
def TC.remove (tc : TC) (i : Nat) : Option (Stmt × TC) :=
  match tc.stmts[i]? with
  | none => none
  | some s => some (s, tc.withStmts (tc.stmts.eraseIdx i))

/-- `replace_statement(i, s)` (`none` = IndexError) -/
def TC.replace (tc : TC) (i : Nat) (s : Stmt) : Option TC :=
  if i < tc.stmts.length then some (tc.withStmts (tc.stmts.set i s)) else none

/-- keep the statements whose mask entry is `false` (mask entry `true` = index is in the set) -/
def maskFilter : List Stmt → List Bool → List Stmt
  | [], _ => []
  | s :: l, [] => s :: l
  | s :: l, b :: m => if b then maskFilter l m else s :: maskFilter l m

/-- `[i in idxs for i in range(k, k+n)]` -/
def idxMaskFrom (idxs : List Nat) : Nat → Nat → List Bool
  | _, 0 => []
  | k, n + 1 => decide (k ∈ idxs) :: idxMaskFrom idxs (k + 1) n

/-- `remove_statements_batch(indices)` -/
def TC.removeBatch (tc : TC) (idxs : List Nat) : TC :=
  tc.withStmts (maskFilter tc.stmts (idxMaskFrom idxs 0 tc.stmts.length))

/-- `set(range(a, b))` -/
def pyRange (a b : Nat) : List Nat := List.range' a (b - a)

/-- `chop(position)` -/
def TC.chop (tc : TC) (position : Int) : TC :=
  if position < 0 then tc.removeBatch (pyRange 0 tc.size)
  else tc.removeBatch (pyRange (position.toNat + 1) tc.size)

/-! ### forward-dependency closures (`forward_dependencies`, `delete_statement_gracefully`) -/

/-- `tainted.add(bv)` when `bv is not None and bv not in tainted` -/
def taintAdd (t : List Name) : Option Name → List Name
  | some v => if v ∈ t then t else v :: t
  | none => t

/-- `stmt.used_variables() & tainted` is non-empty -/
def usesAny (s : Stmt) (t : List Name) : Bool := s.uses.any (fun u => decide (u ∈ t))

/-- One `for` sweep over the statements after the root; `m` marks the indices already in the closure.
`strict = false`: `forward_dependencies` (`changed = True` whenever an index is added);
`strict = true`: `delete_statement_gracefully` (`changed = True` only when a new dead variable appears).
Returns `(tainted', mask', changed)`. -/
def closurePass (strict : Bool) : List Name → List Stmt → List Bool → List Name × List Bool × Bool
  | t, [], _ => (t, [], false)
  | t, s :: l, m =>
    if m.headD false then
      let r := closurePass strict t l m.tail
      (r.1, true :: r.2.1, r.2.2)
    else if usesAny s t then
      let t' := taintAdd t s.bound
      let r := closurePass strict t' l m.tail
      (r.1, true :: r.2.1, if strict then (decide (t' ≠ t) || r.2.2) else true)
    else
      let r := closurePass strict t l m.tail
      (r.1, false :: r.2.1, r.2.2)

/-- `changed = True; while changed: changed = False; <sweep>` -/
def closureLoop (strict : Bool) : Nat → List Name → List Stmt → List Bool → Option (List Name × List Bool)
  | 0, _, _, _ => none
  | fuel + 1, t, l, m =>
    let r := closurePass strict t l m
    if r.2.2 then closureLoop strict fuel r.1 l r.2.1 else some (r.1, r.2.1)

/-- the closure as a mask over all statements: `false` before `index`, `true` at `index`, then the
mask of the statements after it.  `none`: `self._statements[index]` raises IndexError. -/
def closureMask (strict : Bool) (l : List Stmt) (index : Nat) : Option (List Bool) :=
  match l[index]? with
  | none => none
  | some root =>
    let suffix := l.drop (index + 1)
    match closureLoop strict (suffix.length + 1) (taintAdd [] root.bound) suffix [] with
    | none => none
    | some r => some (List.replicate index false ++ true :: r.2)

def maskIdxs (m : List Bool) : List Nat :=
  (List.range m.length).filter (fun i => m.getD i false)

/-- `forward_dependencies(index)` (as a sorted index list) -/
def TC.forwardDeps (tc : TC) (index : Nat) : Option (List Nat) :=
  (closureMask false tc.stmts index).map maskIdxs

/-- `remove_statement_with_forward_dependencies(index)`: the new test case and the removed indices -/
def TC.removeFwd (tc : TC) (index : Nat) : Option (TC × List Nat) :=
  match closureMask false tc.stmts index with
  | none => none
  | some m => some (tc.withStmts (maskFilter tc.stmts m), maskIdxs m)

/-- `TestFactory.delete_statement_gracefully(test_case, position)` for `position >= 0`:
`(test_case', returned bool)`.  (`none` only if the loop ran out of fuel, which it never does.) -/
def TC.deleteGracefully (tc : TC) (position : Nat) : Option (TC × Bool) :=
  if position < tc.size then
    match closureMask true tc.stmts position with
    | none => none
    | some m => some (tc.withStmts (maskFilter tc.stmts m), true)
  else some (tc, false)

/-! ### `remove_unused_variables` -/

/-- the `Statement(node=new_node, bound_variable=None, bound_type=None)` built for a dead assignment:
assertions and accessible are NOT carried over (this is what the code does). -/
def Stmt.unbound (s : Stmt) : Stmt :=
  { bound := none, btype := none, uses := s.uses, asserts := [], simpleAssign := false }

/-- the backward pass: `(alive_vars before this suffix, rewritten suffix)` -/
def ruGo : List Stmt → List Name × List Stmt
  | [] => ([], [])
  | s :: rest =>
    let r := ruGo rest
    match s.bound with
    | some bv =>
      if bv ∈ r.1 then (r.1.filter (fun x => decide (x ≠ bv)) ++ s.uses, s :: r.2)
      else (r.1 ++ s.uses, (if s.simpleAssign then s.unbound else s) :: r.2)
    | none => (r.1 ++ s.uses, s :: r.2)

/-- `remove_unused_variables()` -/
def TC.removeUnused (tc : TC) : TC := tc.withStmts (ruGo tc.stmts).2

/-! #### the same pass with `proposed_fixes/C19-remove-unused-keeps-assertions.diff` applied
(`asserts` holds the root variable of each assertion source): the variables read by a statement's
assertions are alive at the end of that statement, and the rebuilt statement keeps its assertions.
`ruGo` / `Stmt.unbound` above stay the snapshot's behaviour (C19 and C22 refer to them). -/

def Stmt.unboundKeep (s : Stmt) : Stmt :=
  { s with bound := none, btype := none, simpleAssign := false }

def ruKeep : List Stmt → List Name × List Stmt
  | [] => ([], [])
  | s :: rest =>
    let r := ruKeep rest
    let alive := r.1 ++ s.asserts
    match s.bound with
    | some bv =>
      if bv ∈ alive then (alive.filter (fun x => decide (x ≠ bv)) ++ s.uses, s :: r.2)
      else (alive ++ s.uses, (if s.simpleAssign then s.unboundKeep else s) :: r.2)
    | none => (alive ++ s.uses, s :: r.2)

/-- `remove_unused_variables()`; `keep = true`: the tree has the C19 repair -/
def TC.removeUnusedV (keep : Bool) (tc : TC) : TC :=
  if keep then tc.withStmts (ruKeep tc.stmts).2 else tc.removeUnused

/-! ### `clone`, `append_test_case_from` -/

/-- `clone()` (statements are immutable values here; counter copied, registry rebuilt) -/
def TC.clone (tc : TC) : TC := tc.withStmts tc.stmts

/-- `dict.get(n)` on a dict built by successive `d[k] = v` (newest first) -/
def dlookup {β : Type} : List (Name × β) → Name → Option β
  | [], _ => none
  | (k, v) :: d, n => if k = n then some v else dlookup d n

/-- `randomness.choice(cands)` with draw `r` -/
def pick (cands : List Name) (r : Nat) : Name := cands.getD (r % cands.length) default

/-- `_VariableRenamer(rename)` on one `Name` leaf -/
def renameName (rn : List (Name × Name)) (n : Name) : Name := (dlookup rn n).getD n

/-- `head_types`: variables bound by `other` before `start`, with their types (later wins) -/
def headTypes (head : List Stmt) : List (Name × Option Ty) :=
  head.foldl (fun d s => match s.bound with | some v => (v, s.btype) :: d | none => d) []

/-- `self.variables_of_type(head_type) if head_type is not None else []` -/
def TC.candidates (tc : TC) : Option Ty → List Name
  | some t => tc.variablesOfType t
  | none => []

/-- `_resolve_head_references`: the `for name in stmt.used_variables()` loop.
Returns `(result, rename', remaining draws)`; `rename` is mutated in place also when `False` is returned. -/
def resolveHead (tc : TC) (head : List (Name × Option Ty)) (dropped : List Name) :
    List Name → List (Name × Name) → List Nat → Bool × List (Name × Name) × List Nat
  | [], rn, ch => (true, rn, ch)
  | n :: ns, rn, ch =>
    if n ∈ dropped then (false, rn, ch)
    else if (dlookup rn n).isSome then resolveHead tc head dropped ns rn ch
    else match dlookup head n with
      | none => resolveHead tc head dropped ns rn ch
      | some ht =>
        let cands := tc.candidates ht
        if cands.isEmpty then (false, rn, ch)
        else resolveHead tc head dropped ns ((n, pick cands (ch.headD 0)) :: rn) ch.tail

structure AppState where
  tc : TC
  rename : List (Name × Name)
  dropped : List Name
  draws : List Nat
  deriving Repr

/-- one iteration of `for stmt in other.statements()[start:]` -/
def appendStep (head : List (Name × Option Ty)) (st : AppState) (s : Stmt) : AppState :=
  let r := resolveHead st.tc head st.dropped s.uses st.rename st.draws
  if r.1 then
    match s.bound with
    | some bv =>
      let nv := st.tc.nextVar
      let rn := (bv, nv.1) :: r.2.1
      let s' : Stmt := { s with bound := some nv.1, uses := s.uses.map (renameName rn) }
      { tc := nv.2.add s', rename := rn, dropped := st.dropped, draws := r.2.2 }
    | none =>
      let rn := r.2.1
      let s' : Stmt := { s with uses := s.uses.map (renameName rn) }
      { tc := st.tc.add s', rename := rn, dropped := st.dropped, draws := r.2.2 }
  else
    { tc := st.tc, rename := r.2.1, draws := r.2.2,
      dropped := match s.bound with | some bv => bv :: st.dropped | none => st.dropped }

/-- `append_test_case_from(other, start)` with the draws of `randomness.choice` -/
def TC.appendFrom (tc : TC) (other : List Stmt) (start : Nat) (draws : List Nat) : TC :=
  ((other.drop start).foldl (appendStep (headTypes (other.take start))) ⟨tc, [], [], draws⟩).tc

/-! ### composites -/

/-- `splice_test_case_chromosomes`: `(offspring, offspring accepted)`; `chromLen` = `chromosome_length` -/
def splice (chromLen : Nat) (parent other : TC) (position1 position2 : Nat) (draws : List Nat) : TC × Bool :=
  let off := parent.clone
  let off := if off.size > position1 then off.removeBatch (pyRange position1 off.size) else off
  let off := off.appendFrom other.stmts position2 draws
  (off, decide (off.size < chromLen))

/-- `parent.test_case` after `splice_test_case_chromosomes` -/
def spliceResult (chromLen : Nat) (parent other : TC) (p1 p2 : Nat) (draws : List Nat) : TC :=
  let r := splice chromLen parent other p1 p2 draws
  if r.2 then r.1 else parent

/-- head of `TestCaseMutation.mutate`: chop behind the last mutatable statement when the test case
reached `chromosome_length` (`last` = `get_last_mutatable_statement()`) -/
def mutateChop (chopMax : Bool) (chromLen : Nat) (last : Option Nat) (tc : TC) : TC :=
  if chopMax && decide (tc.size ≥ chromLen) then
    match last with
    | some p => tc.removeBatch (pyRange (p + 1) tc.size)
    | none => tc
  else tc

/-- one iteration of the `_mutation_insert` loop around `insert_random_statement`: `before` is the
backup taken before the factory ran, `after` the test case the factory produced; an insertion that
pushed the test case beyond `chromosome_length` is undone. -/
def insertGuard (chromLen : Nat) (before after : TC) : TC :=
  if after.size > chromLen then before else after

/-! ### executable checks used by the driver (proved equivalent to the `Prop`s in `Props/C15.lean`) -/

def readsOKb : List Name → List Stmt → Bool
  | _, [] => true
  | bs, s :: rest =>
    s.uses.all (fun u => !u.isVar || decide (u ∈ bs)) && readsOKb (bs ++ s.bound.toList) rest

/-- the name is some `var_k` with `k < counter` -/
def Name.below (counter : Nat) : Name → Bool
  | .var k => decide (k < counter)
  | .ext _ => false

/-- executable well-formedness -/
def wfB (tc : TC) : Bool :=
  readsOKb [] tc.stmts && decide (boundNames tc.stmts).Nodup &&
    (boundNames tc.stmts).all (Name.below tc.counter) && decide (tc.registry = rebuild tc.stmts)

/-- executable factory contract for `insert_statement(i, s)` / `add_statement(s)` -/
def insertOKb (tc : TC) (i : Nat) (s : Stmt) : Bool :=
  s.uses.all (fun u => !u.isVar || decide (u ∈ boundNames (tc.stmts.take i))) &&
    (match s.bound with
     | some v => decide (v ∉ boundNames tc.stmts) && v.below tc.counter
     | none => true)

/-- executable contract for `replace_statement(i, s)` -/
def replaceOKb (tc : TC) (i : Nat) (s : Stmt) : Bool :=
  s.uses.all (fun u => !u.isVar || decide (u ∈ boundNames (tc.stmts.take i))) &&
    (match tc.stmts[i]? with
     | none => true
     | some o => decide (s.bound = o.bound) ||
        (decide (o.bound = none) &&
          (match s.bound with
           | some v => decide (v ∉ boundNames tc.stmts) && v.below tc.counter
           | none => true)))

end PynguinModel.TestCase
