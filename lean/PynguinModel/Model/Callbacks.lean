/-!
# C01 — the Python side of the instrumentation: callbacks that "may only observe values"

The stack machine (`Model/StackMachine.lean`) shows that the inserted *bytecode* hands observed values
to a callback and restores the stack.  The callbacks themselves run inside the module under test, on
the module's own operands.  This file models the two families of callbacks that do more than store
their arguments:

* **Predicate callbacks** of the branch tracer (`instrumentation/tracer.py`): `_missed_branch_distance`,
  `_compare_distances`, `ExecutionTracer.executed_compare_predicate` / `executed_bool_predicate` and the
  assertions of `_update_metrics`.  The comparison of the module (`compare(val1, val2)`), the truth
  test and the distance *estimates* (`_lt`, `_le`, `_eq`, `_neq`, `_in`, `_nin`, `_falsy_distance`, which
  apply converse / reflected user operators) are computations with an arbitrary outcome: a value or
  an exception of any class.
* **Seeding callbacks** of `analyses/constants.py`: `DynamicConstantProvider.add_value`,
  `add_value_for_strings`, `add_value_for_startswith`, `add_value_for_endswith`: their type guards and
  every operator / method they apply to an operand.  An operand is described by what the guards can
  see (`type(v)`, `isinstance`), its length and the result of its `is…()` method.

Mirrors the code, does not idealise it.  No Mathlib.
-/
namespace PynguinModel.Callbacks

/-! ## Part 1 — predicate callbacks -/

/-- Exception classes, as far as the `except` clauses of the tracer can tell them apart. -/
inductive Exc where
  | typeError
  | valueError
  | overflowError
  | assertionError
  /-- any other subclass of `Exception` (KeyError, NotImplementedError, ZeroDivisionError, custom …) -/
  | other (id : Nat)
  /-- derives from `BaseException` only (KeyboardInterrupt, SystemExit, GeneratorExit, custom) -/
  | base (id : Nat)
  deriving DecidableEq, Repr, Inhabited

/-- `isinstance(e, Exception)` -/
def Exc.isException : Exc → Bool
  | .base _ => false
  | _ => true

/-- A float, as far as `distance > 0.0`, `== 0.0` and `>= 0.0` can tell. -/
inductive F where
  | negInf | neg | zero | pos | posInf | nan
  deriving DecidableEq, Repr, Inhabited

/-- `d > 0.0` -/
def F.gtZero : F → Bool
  | .pos | .posInf => true
  | _ => false

/-- `d >= 0.0` -/
def F.geZero : F → Bool
  | .zero | .pos | .posInf => true
  | _ => false

/-- `d == 0.0` -/
def F.isZero : F → Bool
  | .zero => true
  | _ => false

/-- outcome of a computation that runs user code: a value or a raised exception -/
abbrev Out (α : Type) := Except Exc α

/-- `_missed_branch_distance(estimate)`:
```
try:
    distance = estimate()
except Exception:
    return inf
return distance if distance > 0.0 else inf
``` -/
def missedBranchDistance (estimate : Out F) : Out F :=
  match estimate with
  | .error e => if e.isException then .ok .posInf else .error e
  | .ok d => .ok (if d.gtZero then d else .posInf)

/-- `_compare_distances(cmp_op, val1, val2)`; `primary` is the outcome of `compare(val1, val2)` including
its truth test, `trueDist` / `falseDist` the outcomes of the two distance functions of `_COMPARISONS[cmp_op]`
(only the one of the branch that is not taken is evaluated).  Result: `(distance_true, distance_false)`. -/
def compareDistances (primary : Out Bool) (trueDist falseDist : Out F) : Out (F × F) :=
  match primary with
  | .error e => .error e
  | .ok true => (missedBranchDistance falseDist).map fun d => (F.zero, d)
  | .ok false => (missedBranchDistance trueDist).map fun d => (d, F.zero)

/-- the three assertions of `_update_metrics(distance_false, distance_true, predicate)` -/
def updateMetrics (dt df : F) : Out (F × F) :=
  if dt.geZero && df.geZero && (dt.isZero != df.isZero) then .ok (dt, df) else .error .assertionError

/-- `ExecutionTracer.executed_compare_predicate` (tracer enabled, right thread): what it records, or raises -/
def executedComparePredicate (primary : Out Bool) (trueDist falseDist : Out F) : Out (F × F) :=
  match compareDistances primary trueDist falseDist with
  | .error e => .error e
  | .ok (dt, df) => updateMetrics dt df

/-- `ExecutionTracer.executed_bool_predicate`: `truth` = outcome of `if value:`, `falsy` = outcome of
`_falsy_distance(value)` -/
def executedBoolPredicate (truth : Out Bool) (falsy : Out F) : Out (F × F) :=
  match truth with
  | .error e => .error e
  | .ok true =>
    match missedBranchDistance falsy with
    | .error e => .error e
    | .ok d => updateMetrics .zero d
  | .ok false => updateMetrics .pos .zero

/-! ## Part 2 — seeding callbacks of `DynamicConstantProvider` -/

/-- the builtin types the guards mention (`other`: an instance of none of them) -/
inductive Base where
  | str | bytes | int | float | complex | bool | tuple | none | other
  deriving DecidableEq, Repr, Inhabited

/-- What the provider can learn about an operand without running user code. -/
structure Operand where
  /-- the most specific listed builtin type the value is an instance of -/
  base : Base
  /-- `type(v) is base`: no method / operator of `v` can be overridden.  `false`: an instance of a
  subclass (or of an unrelated class): every operator applied to it may be user code. -/
  exact : Bool
  /-- `len(v)` (str / bytes) -/
  len : Nat
  /-- the result of the instrumented `is…()` method on `v` -/
  pred : Bool
  deriving DecidableEq, Repr, Inhabited

/-- `type(v) is b` -/
def Operand.typeIs (o : Operand) (b : Base) : Bool := o.exact && o.base == b

/-- `isinstance(v, b)` (`bool` is a subclass of `int`) -/
def Operand.isInstance (o : Operand) (b : Base) : Bool :=
  o.base == b || (o.base == .bool && b == .int)

/-- `type(v) in typing.get_args(ConstantTypes)` with `ConstantTypes = float | int | str | bytes | complex` -/
def Operand.isConstantType (o : Operand) : Bool :=
  o.typeIs .float || o.typeIs .int || o.typeIs .str || o.typeIs .bytes || o.typeIs .complex

/-- What a callback does with its operands. -/
inductive Call where
  /-- operator / method `op` dispatched on operand `i` whose class may override it: USER CODE -/
  | user (i : Nat) (op : String)
  /-- operator / method `op` on an operand whose type is exactly a builtin type -/
  | prim (op : String)
  /-- `ConstantPool.add_constant` of a value of builtin type `b` with length `len` -/
  | poolAdd (b : Base) (len : Nat)
  deriving DecidableEq, Repr, Inhabited

def Call.isUser : Call → Bool
  | .user _ _ => true
  | _ => false

/-- apply operator / method `op` to operand number `i` -/
def dispatch (i : Nat) (o : Operand) (op : String) : Call :=
  if o.exact && o.base != .other then .prim op else .user i op

/-- `DynamicConstantProvider.add_value(value)`:
```
if type(value) in typing.get_args(ConstantTypes):
    if isinstance(value, str | bytes) and len(value) > self._max_constant_length:
        return
    self._pool.add_constant(value)        # dict lookup by type(value), OrderedSet.add: hash
``` -/
def addValue (maxLen : Nat) (i : Nat) (o : Operand) : List Call :=
  if o.isConstantType then
    if o.isInstance .str || o.isInstance .bytes then
      dispatch i o "__len__" ::
        (if o.len > maxLen then [] else [dispatch i o "__hash__", .poolAdd o.base o.len])
    else [dispatch i o "__hash__", .poolAdd o.base o.len]
  else []

/-- One entry of `STRING_FUNCTION_LOOKUP`: the operators the lambda applies to `value` besides the
predicate method, and the length of the string it returns. -/
structure StrFn where
  thenOps : List String
  thenLen : Nat → Nat
  elseOps : List String
  elseLen : Nat → Nat

/-- `STRING_FUNCTION_LOOKUP` (`f"{value}…"` is `format(value, "")`; `os.linesep` has length 1) -/
def strFn : String → Option StrFn
  | "isalnum" => some ⟨["__format__"], (· + 1), [], fun _ => 7⟩
  | "islower" => some ⟨["upper"], id, ["lower"], id⟩
  | "isupper" => some ⟨["lower"], id, ["upper"], id⟩
  | "isdecimal" => some ⟨[], fun _ => 11, [], fun _ => 10⟩
  | "isalpha" => some ⟨["__format__"], (· + 1), [], fun _ => 7⟩
  | "isdigit" => some ⟨["__format__"], (· + 1), [], fun _ => 1⟩
  | "isidentifier" => some ⟨["__format__"], (· + 1), [], fun _ => 13⟩
  | "isnumeric" => some ⟨["__format__"], (· + 1), [], fun _ => 6⟩
  | "isprintable" => some ⟨["__format__"], (· + 1), [], fun _ => 12⟩
  | "isspace" => some ⟨["__format__"], (· + 1), [], fun _ => 3⟩
  | "istitle" => some ⟨["__format__"], (· + 4), [], fun _ => 8⟩
  | _ => none

/-- a value the provider computed from exact builtin operands: an exact `str` / `bytes` -/
def derived (b : Base) (len : Nat) : Operand := ⟨b, true, len, false⟩

/-- the body of `add_value_for_strings` once its guard has let `value` through -/
def stringsBody (maxLen : Nat) (v : Operand) (name : String) (f : StrFn) : List Call :=
  addValue maxLen 0 v ++ [dispatch 0 v name] ++
    (if v.pred then f.thenOps.map (dispatch 0 v) ++ addValue maxLen 2 (derived .str (f.thenLen v.len))
     else f.elseOps.map (dispatch 0 v) ++ addValue maxLen 2 (derived .str (f.elseLen v.len)))

/-- `add_value_for_strings(value, name)` with the exact-type guard:
```
if type(value) is str and name in self.STRING_FUNCTION_LOOKUP:
    self.add_value(value)
    self.add_value(self.STRING_FUNCTION_LOOKUP[name](value))
``` -/
def addValueForStrings (maxLen : Nat) (v : Operand) (name : String) : List Call :=
  match strFn name with
  | none => []
  | some f => if v.typeIs .str then stringsBody maxLen v name f else []

/-- the same with the guard `isinstance(value, str)` (pynguin before
`proposed_fixes/C01-seeding-strings-exact-type.diff`): kept for the counterexample -/
def addValueForStringsIsinstance (maxLen : Nat) (v : Operand) (name : String) : List Call :=
  match strFn name with
  | none => []
  | some f => if v.isInstance .str then stringsBody maxLen v name f else []

/-- `l + r`: `type(l).__add__` and, when that does not apply, `type(r).__radd__` may be consulted -/
def binaryAdd (il : Nat) (l : Operand) (ir : Nat) (r : Operand) : List Call :=
  [dispatch il l "__add__", dispatch ir r "__radd__"]

/-- the guard of `add_value_for_startswith` / `add_value_for_endswith`:
`type(value) is type(other) and type(value) in {str, bytes}` -/
def textPairExact (v p : Operand) : Bool :=
  (v.typeIs .str && p.typeIs .str) || (v.typeIs .bytes && p.typeIs .bytes)

/-- the isinstance-based guard (`any(isinstance(a, t) and isinstance(b, t) for t in (str, bytes))`): counterexample only -/
def textPairIsinstance (v p : Operand) : Bool :=
  (v.isInstance .str && p.isInstance .str) || (v.isInstance .bytes && p.isInstance .bytes)

/-- `add_value_for_startswith(value, prefix)`: `self.add_value(prefix + value)` behind `guard`;
operand 0 = value, operand 1 = prefix -/
def addValueForStartswithWith (guard : Operand → Operand → Bool) (maxLen : Nat) (v p : Operand) : List Call :=
  if guard v p then binaryAdd 1 p 0 v ++ addValue maxLen 2 (derived v.base (p.len + v.len)) else []

/-- `add_value_for_endswith(value, suffix)`: `self.add_value(value + suffix)` behind `guard` -/
def addValueForEndswithWith (guard : Operand → Operand → Bool) (maxLen : Nat) (v s : Operand) : List Call :=
  if guard v s then binaryAdd 0 v 1 s ++ addValue maxLen 2 (derived v.base (v.len + s.len)) else []

def addValueForStartswith := addValueForStartswithWith textPairExact
def addValueForEndswith := addValueForEndswithWith textPairExact

/-- the entry points the seeding adapter installs -/
inductive Entry where
  | addValue
  | strings (name : String)
  | startswith
  | endswith
  deriving DecidableEq, Repr, Inhabited

/-- everything the provider does when the instrumented code calls `entry` with operands `v` (and `p`) -/
def provider (maxLen : Nat) : Entry → Operand → Operand → List Call
  | .addValue, v, _ => addValue maxLen 0 v
  | .strings name, v, _ => addValueForStrings maxLen v name
  | .startswith, v, p => addValueForStartswith maxLen v p
  | .endswith, v, p => addValueForEndswith maxLen v p

def userCalls (cs : List Call) : List Call := cs.filter Call.isUser

def poolAdds (cs : List Call) : List (Base × Nat) :=
  cs.filterMap fun | .poolAdd b n => some (b, n) | _ => none

end PynguinModel.Callbacks
