import PynguinModel.Model.Cdg
/-
Model of DynaMOSA's goal management (`pynguin.ga.algorithms.dynamosaalgorithm`):
`_BranchFitnessGraph._build_graph`, `_GoalsManager.__init__/update`, with the part of
`CoverageArchive` (`add_goals`, `update`, `covered_goals`) that `update` relies on.
Goals are natural numbers (indices into the list of branch fitness functions). Mathlib-free.
-/
namespace PynguinModel.GoalGraph

abbrev Goal := Nat

/-- The goal graph: root goals and structural edges parent → child. -/
structure GG where
  roots : List Goal
  edges : List (Goal × Goal)
  deriving Repr

def children (G : GG) (g : Goal) : List Goal := (G.edges.filter (fun e => e.1 == g)).map (·.2)

/-- `OrderedSet.add` on a list. -/
def ins (l : List Goal) (g : Goal) : List Goal := if l.contains g then l else l ++ [g]

structure St where
  current : List Goal      -- `_GoalsManager._current_goals`
  covered : List Goal      -- keys of `CoverageArchive._covered`
  objectives : List Goal   -- `CoverageArchive._objectives`
  deriving Repr

/-- `CoverageArchive.add_goals`. -/
def addGoals (s : St) (gs : List Goal) : St := { s with objectives := gs.foldl ins s.objectives }

/-- `CoverageArchive.update(solutions)` seen through `covered_goals`: an objective becomes covered as
soon as some solution of the batch covers it (`cov`); covered goals stay covered. -/
def archiveUpdate (cov : Goal → Bool) (s : St) : St :=
  { s with covered := s.objectives.foldl (fun c g => if cov g then ins c g else c) s.covered }

/-- One iteration of the `while new_goals_added` loop of `_GoalsManager.update`. -/
def pass (G : GG) (cov : Goal → Bool) (s : St) : St × Bool :=
  let s1 := archiveUpdate cov s
  let r := s1.current.foldl (fun (acc : List Goal × Bool) g =>
      if s1.covered.contains g then
        (children G g).foldl (fun (a : List Goal × Bool) c =>
          if !s1.current.contains c && !s1.covered.contains c then (ins a.1 c, true) else a) acc
      else (ins acc.1 g, acc.2)) ([], false)
  (addGoals { s1 with current := r.1 } r.1, r.2)

/-- `_GoalsManager.update`; `fuel` bounds the number of loop iterations. -/
def update (G : GG) (cov : Goal → Bool) : Nat → St → St
  | 0, s => s
  | fuel + 1, s =>
    let r := pass G cov s
    if r.2 then update G cov fuel r.1 else r.1

/-- `_GoalsManager.__init__`: current goals = root branches, registered with the archive. -/
def init (G : GG) : St :=
  let cur := G.roots.foldl ins []
  addGoals { current := cur, covered := [], objectives := [] } cur

/-- A search history: one batch of solutions (its coverage predicate) per `update` call. -/
def runUpdates (G : GG) (fuel : Nat) (s : St) (covs : List (Goal → Bool)) : St :=
  covs.foldl (fun s cov => update G cov fuel s) s

/-! ### `_BranchFitnessGraph._build_graph` -/

inductive GoalKind where
  | branchless (co : Nat)
  | branch (co : Nat) (pred : Nat) (value : Bool)
  deriving DecidableEq, Repr

/-- Registered predicate: id, code object, CDG node. -/
structure Pred where
  id : Nat
  co : Nat
  node : Nat
  deriving Repr

/-- What `_build_graph` needs from one code object's CDG. -/
structure CoInfo where
  co : Nat
  rootDep : Nat → Bool                  -- `cdg.is_control_dependent_on_root(node)`
  deps : Nat → List (Nat × Bool)        -- `cdg.get_control_dependencies(node)`

inductive BuildErr where
  | keyError (node : Nat)       -- `nodes_predicates[dependency.node]`
  | goalNotFound                -- `_goal_to_fitness_function` raised
  | sanity                      -- the "Root branches" assertion
  | noPredicate | noCodeObject
  deriving Repr, DecidableEq

def findGoal (goals : List GoalKind) (g : GoalKind) : Option Nat :=
  let k := goals.findIdx (fun x => x == g)
  if k < goals.length then some k else none

def buildOne (goals : List GoalKind) (preds : List Pred) (cos : List CoInfo)
    (acc : List Goal × List (Goal × Goal)) (i : Nat) (g : GoalKind) :
    Except BuildErr (List Goal × List (Goal × Goal)) :=
  match g with
  | .branchless _ => .ok (ins acc.1 i, acc.2)
  | .branch _ pid _ =>
    match preds.find? (fun p => p.id == pid) with
    | none => .error .noPredicate
    | some pm =>
      match cos.find? (fun c => c.co == pm.co) with
      | none => .error .noCodeObject
      | some ci =>
        let roots := if ci.rootDep pm.node then ins acc.1 i else acc.1
        (ci.deps pm.node).foldlM (fun (a : List Goal × List (Goal × Goal)) (d : Nat × Bool) =>
          -- nodes_predicates: the LAST registered predicate of this code object sitting on that node
          match (preds.filter (fun p => p.co == pm.co && p.node == d.1)).getLast? with
          | none => .error (.keyError d.1)
          | some dp =>
            match findGoal goals (.branch pm.co dp.id d.2) with
            | none => .error .goalNotFound
            | some j => .ok (a.1, if a.2.contains (j, i) then a.2 else a.2 ++ [(j, i)]))
          (roots, acc.2)

def buildGraph (goals : List GoalKind) (preds : List Pred) (cos : List CoInfo) : Except BuildErr GG := do
  let r ← (goals.zipIdx).foldlM (fun acc (gi : GoalKind × Nat) => buildOne goals preds cos acc gi.2 gi.1)
    (([] : List Goal), ([] : List (Goal × Goal)))
  -- sanity check: every goal without incoming edge is a root
  let ok := (List.range goals.length).all (fun i => r.2.any (fun e => e.2 == i) || r.1.contains i)
  if ok then .ok ⟨r.1, r.2⟩ else .error .sanity

end PynguinModel.GoalGraph
