import PynguinModel.Model.Cdg
/-
Model of DynaMOSA's goal management (`pynguin.ga.algorithms.dynamosaalgorithm`):
`_BranchFitnessGraph._build_graph`, `_GoalsManager.__init__/update`, with the part of
`CoverageArchive` (`add_goals`, `update`, `covered_goals`) that `update` relies on.
Goals are natural numbers (indices into the list of branch fitness functions). Mathlib-free.
-/
namespace PynguinModel.GoalGraph

abbrev Goal := Nat

/-- The goal graph: root goals and structural edges parent → child. -/
structure GG where
  roots : List Goal
  edges : List (Goal × Goal)
  deriving Repr

def children (G : GG) (g : Goal) : List Goal := (G.edges.filter (fun e => e.1 == g)).map (·.2)

/-- `OrderedSet.add` on a list. -/
def ins (l : List Goal) (g : Goal) : List Goal := if l.contains g then l else l ++ [g]

structure St where
  current : List Goal      -- `_GoalsManager._current_goals`
  covered : List Goal      -- keys of `CoverageArchive._covered`
  objectives : List Goal   -- `CoverageArchive._objectives`
  deriving Repr

/-- `CoverageArchive.add_goals`. -/
def addGoals (s : St) (gs : List Goal) : St := { s with objectives := gs.foldl ins s.objectives }

/-- `CoverageArchive.update(solutions)` seen through `covered_goals`: an objective becomes covered as
soon as some solution of the batch covers it (`cov`); covered goals stay covered. -/
def archiveUpdate (cov : Goal → Bool) (s : St) : St :=
  { s with covered := s.objectives.foldl (fun c g => if cov g then ins c g else c) s.covered }

/-- One iteration of the `while new_goals_added` loop of `_GoalsManager.update`. -/
def pass (G : GG) (cov : Goal → Bool) (s : St) : St × Bool :=
  let s1 := archiveUpdate cov s
  let r := s1.current.foldl (fun (acc : List Goal × Bool) g =>
      if s1.covered.contains g then
        (children G g).foldl (fun (a : List Goal × Bool) c =>
          if !s1.current.contains c && !s1.covered.contains c then (ins a.1 c, true) else a) acc
      else (ins acc.1 g, acc.2)) ([], false)
  (addGoals { s1 with current := r.1 } r.1, r.2)

/-- `_GoalsManager.update`; `fuel` bounds the number of loop iterations. -/
def update (G : GG) (cov : Goal → Bool) : Nat → St → St
  | 0, s => s
  | fuel + 1, s =>
    let r := pass G cov s
    if r.2 then update G cov fuel r.1 else r.1

/-- `_GoalsManager.__init__`: current goals = root branches, registered with the archive. -/
def init (G : GG) : St :=
  let cur := G.roots.foldl ins []
  addGoals { current := cur, covered := [], objectives := [] } cur

/-- A search history: one batch of solutions (its coverage predicate) per `update` call. -/
def runUpdates (G : GG) (fuel : Nat) (s : St) (covs : List (Goal → Bool)) : St :=
  covs.foldl (fun s cov => update G cov fuel s) s

/-! ### `_BranchFitnessGraph._build_graph` -/

inductive GoalKind where
  | branchless (co : Nat)
  | branch (co : Nat) (pred : Nat) (value : Bool)
  deriving DecidableEq, Repr

/-- Registered predicate (`existing_predicates[id] = PredicateMetaData(code_object_id, node)`). -/
structure Pred where
  id : Nat
  co : Nat
  node : Nat
  deriving DecidableEq, Repr

/-- What `_build_graph` asks one code object's CDG. -/
structure CoInfo where
  co : Nat
  hasNode : Nat → Bool                  -- `node in cdg.graph.nodes`
  rootDep : Nat → Bool                  -- `cdg.is_control_dependent_on_root(node)`
  deps : Nat → List (Nat × Bool)        -- `cdg.get_control_dependencies(node)`

inductive BuildErr where
  | keyError (node : Nat)       -- `nodes_predicates[dependency.node]`
  | goalNotFound                -- `_goal_to_fitness_function` raised RuntimeError
  | sanity                      -- the "Root branches cannot depend on other branches" assertion
  | nodeMissing                 -- the predicate's node is not in the CDG (networkx / `assert node in ...`)
  | noPredicate | noCodeObject  -- `existing_predicates[...]` / `existing_code_objects[...]` KeyError
  deriving Repr, DecidableEq

/-- `_goal_to_fitness_function`: index of the first fitness function with that goal. -/
def findGoal (goals : List GoalKind) (g : GoalKind) : Option Nat :=
  let k := goals.findIdx (fun x => x == g)
  if k < goals.length then some k else none

/-- `Except`-valued map, left to right, stopping at the first error. -/
def mapE {α β ε : Type} (f : α → Except ε β) : List α → Except ε (List β)
  | [] => .ok []
  | a :: as =>
    match f a with
    | .error e => .error e
    | .ok b =>
      match mapE f as with
      | .error e => .error e
      | .ok bs => .ok (b :: bs)

/-- `nodes_predicates[node]` (a dict comprehension over `existing_predicates` restricted to the code
object: the LAST registered predicate sitting on that node wins). -/
def nodePred (preds : List Pred) (co node : Nat) : Option Pred :=
  (preds.filter (fun p => p.co == co && p.node == node)).getLast?

/-- One iteration of `for dependency in dependencies`: the parent fitness function. -/
def resolveDep (goals : List GoalKind) (preds : List Pred) (co : Nat) (d : Nat × Bool) :
    Except BuildErr Goal :=
  match nodePred preds co d.1 with
  | none => .error (.keyError d.1)
  | some dp =>
    match findGoal goals (.branch co dp.id d.2) with
    | none => .error .goalNotFound
    | some j => .ok j

/-- What one iteration of the main loop of `_build_graph` contributes for one fitness function:
whether it is added to `_root_branches`, and the sources of the edges added towards it (in order). -/
structure Plan where
  root : Bool
  parents : List Goal
  deriving Repr, DecidableEq

def goalPlan (goals : List GoalKind) (preds : List Pred) (cos : List CoInfo) (g : GoalKind) :
    Except BuildErr Plan :=
  match g with
  | .branchless _ => .ok ⟨true, []⟩
  | .branch _ pid _ =>
    match preds.find? (fun p => p.id == pid) with
    | none => .error .noPredicate
    | some pm =>
      match cos.find? (fun c => c.co == pm.co) with
      | none => .error .noCodeObject
      | some ci =>
        if !ci.hasNode pm.node then .error .nodeMissing
        else
          match mapE (resolveDep goals preds pm.co) (ci.deps pm.node) with
          | .error e => .error e
          | .ok ps => .ok ⟨ci.rootDep pm.node, ps⟩

/-- `DiGraph.add_edge(parent, child)`: one edge per pair, first insertion fixes the position. -/
def addEdge (i : Goal) (es : List (Goal × Goal)) (j : Goal) : List (Goal × Goal) :=
  if es.contains (j, i) then es else es ++ [(j, i)]

/-- Root set and edges accumulated over all fitness functions (in their order). -/
def assemble (plans : List Plan) : GG :=
  let ps := plans.zipIdx
  ⟨ps.foldl (fun r (p : Plan × Nat) => if p.1.root then ins r p.2 else r) [],
   ps.foldl (fun es (p : Plan × Nat) => p.1.parents.foldl (addEdge p.2) es) []⟩

/-- The sanity check at the end of `_build_graph`: every node of in-degree 0 is a root branch. -/
def sanityOk (n : Nat) (G : GG) : Bool :=
  (List.range n).all (fun i => G.edges.any (fun e => e.2 == i) || G.roots.contains i)

def buildGraph (goals : List GoalKind) (preds : List Pred) (cos : List CoInfo) : Except BuildErr GG :=
  match mapE (goalPlan goals preds cos) goals with
  | .error e => .error e
  | .ok plans =>
    let G := assemble plans
    if sanityOk goals.length G then .ok G else .error .sanity

/-! ### `InstrumentationTransformer._create_covered_cdg`: removing a node from the CDG -/

open PynguinModel.Cdg (Node Label)

/-- A stored CDG: edges in insertion order, one per (source, target). -/
abbrev CG := List (Node × Node × Label)

/-- `predecessors.discard(node); successors.discard(node); remove_node(node);
for pred in predecessors: for succ in successors: add_edge(pred, succ)` — the new edges carry NO
branch value; an edge that already exists keeps its attributes. -/
def removeNode (g : CG) (x : Node) : CG :=
  let ps := ((g.filter (fun e => e.2.1 == x && e.1 != x)).map (fun e => e.1)).eraseDups
  let ss := ((g.filter (fun e => e.1 == x && e.2.1 != x)).map (fun e => e.2.1)).eraseDups
  let g' := g.filter (fun e => e.1 != x && e.2.1 != x)
  (ps.flatMap (fun p => ss.map (fun s => (p, s)))).foldl
    (fun acc (q : Node × Node) =>
      if acc.any (fun e => e.1 == q.1 && e.2.1 == q.2) then acc else acc ++ [(q.1, q.2, none)]) g'

def removeNodes (g : CG) (xs : List Node) : CG := xs.foldl removeNode g

/-! ### `_create_covered_cdg`: WHICH nodes are removed — and the exclusion gate of `visit_node`

Both functions look at the same three facts of a basic block: whether it holds a real instruction at all
(blocks made of `TryBegin`/`TryEnd` pseudo instructions only are never touched), whether the line of its
last instruction carries a conditional statement that is to be covered, and whether at least one of its
instructions sits on a line that is to be covered.  `BlockInfo` is what the harness exports per node of the
unpruned CDG (the answers of the real `AstInfo`), in the order of `tuple(cdg.graph)`. -/

structure BlockInfo where
  node : Node
  isBlock : Bool                  -- `isinstance(node, cf.BasicBlockNode)`
  elems : List Bool               -- per element of `node.basic_block`: `isinstance(instr, Instr)`
  last : Option (Option Bool)     -- `try_get_instruction(-1)`: none / lineno not an int / `should_cover_conditional_statement`
  lines : List (Option Bool)      -- per original instruction: lineno not an int / `should_cover_line(lineno)`
  deriving Repr

/-- `last_instr is None or not isinstance(last_instr.lineno, int) or should_cover_conditional_statement(..)` -/
def condOk (b : BlockInfo) : Bool :=
  match b.last with
  | none => true
  | some none => true
  | some (some c) => c

/-- `any(not isinstance(instr.lineno, int) or should_cover_line(instr.lineno) for instr in original_instructions)` -/
def lineOk (b : BlockInfo) : Bool :=
  b.lines.any (fun l => match l with
    | none => true
    | some c => c)

/-- The two `continue`s of the removal loop: artificial nodes and blocks WITHOUT ANY real instruction are
skipped (`all(not isinstance(instr, Instr) ...)`), and so are blocks that are to be covered. -/
def keepNode (b : BlockInfo) : Bool :=
  (!b.isBlock || b.elems.all (fun e => !e)) || (condOk b && lineOk b)

/-- The nodes `_create_covered_cdg` removes, in removal order (`ast_info is None`: nothing is removed). -/
def removedNodes (hasAst : Bool) (bs : List BlockInfo) : List Node :=
  if hasAst then (bs.filter (fun b => !keepNode b)).map (·.node) else []

/-- `BranchCoverageInstrumentation.visit_node` (3.11+) up to the point where it inspects the kind of jump:
`false` = returned early (no last instruction, excluded conditional statement, no line to cover). -/
def visitGate (hasAst : Bool) (b : BlockInfo) : Bool :=
  match b.last with
  | none => false
  | some l =>
    (!hasAst || (match l with
      | none => true
      | some c => c)) && (!hasAst || lineOk b)

/-- `_create_covered_cdg` as a whole: the unpruned CDG `full` with the excluded nodes removed. -/
def coveredCdg (hasAst : Bool) (bs : List BlockInfo) (full : CG) : CG := removeNodes full (removedNodes hasAst bs)

/-- `ProgramGraph.entry_node`: the first node (in node order) without incoming edge. -/
def entryNode (nodes : List Node) (g : CG) : Option Node :=
  nodes.find? (fun n => !g.any (fun e => e.2.1 == n))

/-! ### Checked certificates for the hypotheses of the reachability theorem

The theorems of `Props/C07.lean` need, per code object: every predicate node is reachable from the
CDG root; every labelled edge leaving a basic block leaves a *registered* predicate node; and the
answers `get_control_dependencies` / `is_control_dependent_on_root` gave are the ones the graph
defines.  These are decided per real module by the checkers below (soundness proved in
`Lemmas/GoalGraphBuild.lean`); the certificates are found by unverified search. -/

/-- An edge that `_retrieve_control_dependencies` / `_is_control_dependent_on_root` walks through. -/
def isPass (isBlock : Node → Bool) (e : Node × Node × Label) : Bool := !(isBlock e.1 && e.2.2.isSome)

/-- Executable hypothesis checker for the pruning theorem (`Props/C07.covered_cdg_ok`): the root is an artificial
node, and every labelled edge of the unpruned CDG that leaves a basic block leaves a block that holds a real last
instruction and for which `visit_node`, when its gate lets it through, registered a predicate. -/
def checkPrune (preds : List Pred) (co : Nat) (hasAst : Bool) (isBlock : Node → Bool) (root : Node)
    (bs : List BlockInfo) (full : CG) : Bool :=
  bs.all (fun b => b.node != root || !b.isBlock) &&
  full.all (fun e => isPass isBlock e ||
    (bs.any (fun b => b.node == e.1) &&
     bs.all (fun b => b.node != e.1 ||
       (b.isBlock && b.elems.any (fun x => x) && b.last.isSome &&
        (!visitGate hasAst b || preds.any (fun p => p.co == co && p.node == e.1))))))


/-- `S` (latest discovery first) lists nodes that reach `n` backwards along pass edges. -/
def wfBack (g : CG) (isBlock : Node → Bool) (n : Node) : List Node → Bool
  | [] => false
  | [m] => m == n
  | m :: rest => g.any (fun e => e.1 == m && isPass isBlock e && rest.contains e.2.1) && wfBack g isBlock n rest

/-- `S` is closed under pass predecessors. -/
def closedBack (g : CG) (isBlock : Node → Bool) (S : List Node) : Bool :=
  g.all (fun e => !(S.contains e.2.1 && isPass isBlock e) || S.contains e.1)

/-- The control dependencies the graph defines for a node whose backward pass closure is `S`. -/
def specDeps (g : CG) (isBlock : Node → Bool) (S : List Node) : List (Node × Bool) :=
  g.filterMap (fun e => if isBlock e.1 && S.contains e.2.1 then e.2.2.map (fun b => (e.1, b)) else none)

/-- Forward reachability certificate from `root` (latest discovery first). -/
def wfFwd (g : CG) (root : Node) : List Node → Bool
  | [] => false
  | [m] => m == root
  | m :: rest => g.any (fun e => e.2.1 == m && rest.contains e.1) && wfFwd g root rest

/-- Per predicate node: what the implementation answered, plus the closure certificate. -/
structure NodeAns where
  node : Node
  deps : List (Node × Bool)
  rootDep : Bool
  back : List Node
  deriving Repr

/-- One code object as exported from the implementation. -/
structure CoData where
  co : Nat
  nodes : List Node
  blocks : List Node
  root : Node
  g : CG
  fwd : List Node
  rank : List (Node × Nat)       -- any ranking of the nodes (the driver uses the pass distance from the root)
  ans : List NodeAns
  deriving Repr

def CoData.isBlock (c : CoData) (n : Node) : Bool := c.blocks.contains n

def CoData.rankOf (c : CoData) (n : Node) : Nat :=
  match c.rank.find? (fun x => x.1 == n) with
  | some x => x.2
  | none => 0

def CoData.toInfo (c : CoData) : CoInfo where
  co := c.co
  hasNode := fun n => c.nodes.contains n
  rootDep := fun n => match c.ans.find? (fun a => a.node == n) with
    | some a => a.rootDep
    | none => false
  deps := fun n => match c.ans.find? (fun a => a.node == n) with
    | some a => a.deps
    | none => []

def checkAns (c : CoData) (a : NodeAns) : Bool :=
  c.nodes.contains a.node && c.fwd.contains a.node && a.node != c.root &&
  wfBack c.g c.isBlock a.node a.back && closedBack c.g c.isBlock a.back &&
  a.deps.all (fun d => (specDeps c.g c.isBlock a.back).contains d) &&
  (specDeps c.g c.isBlock a.back).all (fun d => a.deps.contains d) &&
  -- `is_control_dependent_on_root` marks nodes it meets over labelled edges as visited and may therefore
  -- miss a pass path from the root; then some control dependency must sit strictly closer to the root
  (a.rootDep || !a.back.contains c.root ||
    a.deps.any (fun d => c.rankOf d.1 < c.rankOf a.node &&
      c.ans.any (fun ap => ap.node == d.1 && ap.back.contains c.root && wfBack c.g c.isBlock ap.node ap.back)))

/-- All hypotheses about one code object (`preds` = all registered predicates). -/
def checkCo (preds : List Pred) (c : CoData) : Bool :=
  !c.isBlock c.root && wfFwd c.g c.root c.fwd &&
  -- every labelled edge leaving a basic block leaves a registered predicate node
  c.g.all (fun e => isPass c.isBlock e || preds.any (fun p => p.co == c.co && p.node == e.1)) &&
  -- every registered predicate of this code object has a checked answer
  preds.all (fun p => p.co != c.co || c.ans.any (fun a => a.node == p.node)) &&
  c.ans.all (checkAns c)

/-- Hypotheses about the registries (`existing_predicates`, the branch goal pool). -/
def checkRegistry (goals : List GoalKind) (preds : List Pred) (cos : List CoData) : Bool :=
  preds.all (fun p => preds.find? (fun q => q.id == p.id) == some p) &&
  preds.all (fun p => goals.contains (.branch p.co p.id true) && goals.contains (.branch p.co p.id false)) &&
  preds.all (fun p => (cos.find? (fun c => c.co == p.co)).isSome) &&
  goals.all (fun g => match g with
    | .branch c pid _ => match preds.find? (fun p => p.id == pid) with
      | some pm => pm.co == c
      | none => false
    | .branchless _ => true)

def checkModule (goals : List GoalKind) (preds : List Pred) (cos : List CoData) : Bool :=
  checkRegistry goals preds cos && cos.all (checkCo preds)

end PynguinModel.GoalGraph
