/-!
# C09 — backward dynamic slicing over an execution trace (statement-event granularity)

Mirrors `pynguin/slicer/dynamicslicer.py` (`DynamicSlicer.slice`, `_setup_slicing_configuration`,
`check_control_dependency`, `add_control_dependency`, `check_explicit_data_dependency` /
`_check_variables` / `_check_scope_for_def`, `add_uses`, `_trace_housekeeping`,
`map_instructions_to_lines`) and `pynguin/ga/checked_coverage.py`
(`compute_statement_checked_lines` with `_cleanse_included_implicit_return_none`,
`compute_assertion_checked_coverage`).

Abstraction level: one *event* per executed statement-level step (an assignment, the evaluation of
a branch condition, a call, a return) instead of one per bytecode instruction; the operand-stack
simulation (`TraceStack`, implicit data dependencies inside one statement) is collapsed into the
event's `uses → defs` flow.  Everything else follows the Python code: the slicer walks the trace
*backwards once*, keeping a set of variable uses that still need a definition (`local_var_uses` /
`global_var_uses`, keyed by `(name, scope)`), a set of instructions that still need their
controlling branch (`instr_ctrl_deps`), and the list `instr_in_slice`.

No Mathlib.
-/
namespace PynguinModel.Slice

/-- `(name, scope)` key of `local_var_uses` / `global_var_uses`: scope is the code-object id (or the
frame instance, for the exact dependence relation) resp. the file for globals. -/
structure Var where
  scope : Nat
  name : Nat
  deriving DecidableEq, Repr, Inhabited

/-- One executed statement-level step.
* `line`   line number in the module under test (`0` = instruction of the test case, `AST_FILENAME`)
* `node`   id of the basic block (CDG node) the step belongs to
* `defs`/`uses`  variables written / read (`is_def` / `is_use` instructions of the statement)
* `isBranch`  the step ends in a conditional jump (`is_cond_branch`)
* `anc`    nodes of the conditional branches whose CDG descendants contain `node`
           (`node ∈ cdg.get_descendants(b)` ⇔ `b ∈ anc`)
* `pend`   guard of `add_control_dependency`: the node has a real CDG ancestor that is not one of its
           own descendants -/
structure Ev where
  line : Nat
  node : Nat
  defs : List Var
  uses : List Var
  isBranch : Bool
  anc : List Nat
  pend : Bool
  deriving Repr, Inhabited

def Ev.nil : Ev := ⟨0, 0, [], [], false, [], false⟩

abbrev Trace := List Ev

/-- `trace.executed_instructions[i]` (total: positions outside the trace behave as an inert step). -/
def evAt (tr : Trace) (i : Nat) : Ev := tr.getD i Ev.nil

/-- `SlicingContext` -/
structure Ctx where
  inSlice : List Nat      -- instr_in_slice (trace positions, most recently added first)
  ctrlDeps : List Nat     -- instr_ctrl_deps
  varUses : List Var      -- local_var_uses ∪ global_var_uses
  deriving Repr

/-- `check_control_dependency`: a conditional branch is in the slice iff some instruction waiting in
`instr_ctrl_deps` lies in a CDG descendant of the branch's node; those are removed. -/
def checkControlDependency (tr : Trace) (cx : Ctx) (e : Ev) : Bool × Ctx :=
  if e.isBranch then
    let dominated := cx.ctrlDeps.filter (fun p => (evAt tr p).anc.contains e.node)
    (!dominated.isEmpty,
     { cx with ctrlDeps := cx.ctrlDeps.filter (fun p => !(evAt tr p).anc.contains e.node) })
  else (false, cx)

/-- `check_explicit_data_dependency` / `_check_scope_for_def`: a definition is in the slice iff it
defines a variable whose use is waiting; the satisfied uses are removed (complete cover). -/
def checkExplicitDataDependency (cx : Ctx) (e : Ev) : Bool × Ctx :=
  (cx.varUses.any (fun v => e.defs.contains v),
   { cx with varUses := cx.varUses.filter (fun v => !e.defs.contains v) })

/-- `add_control_dependency` -/
def addControlDependency (cx : Ctx) (pos : Nat) (e : Ev) : Ctx :=
  if e.pend then { cx with ctrlDeps := pos :: cx.ctrlDeps } else cx

/-- `add_uses` -/
def addUses (cx : Ctx) (e : Ev) : Ctx := { cx with varUses := e.uses ++ cx.varUses }

/-- One iteration of the `while True` loop of `DynamicSlicer.slice` for the step at `pos`
(`_trace_housekeeping` at the end). -/
def step (tr : Trace) (cx : Ctx) (pos : Nat) : Ctx :=
  let e := evAt tr pos
  let r1 := checkControlDependency tr cx e
  let r2 := checkExplicitDataDependency r1.2 e
  if r1.1 || r2.1 then
    addUses (addControlDependency { r2.2 with inSlice := pos :: r2.2.inSlice } pos e) e
  else r2.2

/-- `_setup_slicing_configuration`: the criterion is in the slice; its control dependency and (via
the operand stack) its uses are requested. -/
def init (tr : Trace) (c : Nat) : Ctx :=
  addUses (addControlDependency ⟨[c], [], []⟩ c (evAt tr c)) (evAt tr c)

/-- The backward walk: positions `n-1, n-2, …, 0`. -/
def walk (tr : Trace) : Nat → Ctx → Ctx
  | 0, cx => cx
  | n + 1, cx => walk tr n (step tr cx n)

/-- `DynamicSlicer.slice(trace, SlicingCriterion(c))` as trace positions. -/
def sliceBack (tr : Trace) (c : Nat) : List Nat := (walk tr c (init tr c)).inSlice

/-- `map_instructions_to_lines`: lines of the module under test (test-case instructions dropped). -/
def linesOf (tr : Trace) (ps : List Nat) : List Nat :=
  (ps.map (fun p => (evAt tr p).line)).filter (· != 0)

def sliceLines (tr : Trace) (c : Nat) : List Nat := linesOf tr (sliceBack tr c)

/-- Lines executed in this execution (what line coverage reports). -/
def executedLines (tr : Trace) : List Nat := (tr.map (·.line)).filter (· != 0)

/-- `compute_assertion_checked_coverage` (and `compute_statement_checked_lines` before its
cleansing step): union over all slicing criteria. -/
def checkedLines (tr : Trace) (crits : List Nat) : List Nat := crits.flatMap (sliceLines tr)

/-! ## `compute_statement_checked_lines`: per-statement cleansing, then accumulation

`retNone p` says that the step at trace position `p` is a `RETURN_CONST None` (the `return None` a
void function ends with).  A slice is in trace order, its criterion (the statement's `STORE`) last. -/

/-- `version.end_with_explicit_return_none(statement_slice[:-1])` together with
`statement_slice[-RETURN_NONE_SIZE - 1]` (Python 3.12: `RETURN_NONE_SIZE = 1`): the line that is taken
out of the statement's line set — the line of the `return None` directly before the criterion, when
the slice element before it lies on another line.  (The code compares raw `lineno`s; an instruction
of the test case has line `0` here, so the model assumes no `return None` on the line number the
executor gives the test statements, which holds in the fragment: such a line is never line 1.) -/
def cleanseLine (tr : Trace) (retNone : Nat → Bool) (sl : List Nat) : Option Nat :=
  match sl.reverse with
  | _ :: r :: q :: _ =>
    if retNone r && (evAt tr q).line != (evAt tr r).line then some (evAt tr r).line else none
  | _ => none

/-- `_cleanse_included_implicit_return_none` on the line set of ONE statement (`set.remove`). -/
def cleanse (tr : Trace) (retNone : Nat → Bool) (sl : List Nat) (lines : List Nat) : List Nat :=
  match cleanseLine tr retNone sl with
  | some l => lines.filter (· != l)
  | none => lines

/-- `statement_checked_lines` of one loop iteration: map the slice to lines, then cleanse. -/
def stmtLines (tr : Trace) (retNone : Nat → Bool) (c : Nat) : List Nat :=
  cleanse tr retNone (sliceBack tr c) (sliceLines tr c)

/-- The loop of `compute_statement_checked_lines` over the criteria of the bound statements:
`checked_lines_ids.update(statement_checked_lines)` — the accumulated set only ever grows. -/
def stmtCheckedLoop (tr : Trace) (retNone : Nat → Bool) : List Nat → List Nat → List Nat
  | [], acc => acc
  | c :: rest, acc => stmtCheckedLoop tr retNone rest (acc ++ stmtLines tr retNone c)

/-- `compute_statement_checked_lines`. -/
def stmtCheckedLines (tr : Trace) (retNone : Nat → Bool) (crits : List Nat) : List Nat :=
  stmtCheckedLoop tr retNone crits []

/-! ## The dependence relation the slice is measured against (defined *forwards*) -/

/-- `j` is the last step before `i` that defines `v`. -/
def LastDef (tr : Trace) (i : Nat) (v : Var) (j : Nat) : Prop :=
  j < i ∧ v ∈ (evAt tr j).defs ∧ ∀ k, j < k → k < i → v ∉ (evAt tr k).defs

/-- `b` is a conditional branch controlling step `i`. -/
def Controls (tr : Trace) (i b : Nat) : Prop :=
  (evAt tr b).isBranch = true ∧ (evAt tr b).node ∈ (evAt tr i).anc

/-- `j` is the last executed controlling branch before `i` (dynamic control dependence). -/
def CtrlPar (tr : Trace) (i j : Nat) : Prop :=
  (evAt tr i).pend = true ∧ j < i ∧ Controls tr i j ∧ ∀ k, j < k → k < i → ¬ Controls tr i k

/-- Step `i` directly depends on step `j` (data or control). -/
def Dep (tr : Trace) (i j : Nat) : Prop :=
  (∃ v ∈ (evAt tr i).uses, LastDef tr i v j) ∨ CtrlPar tr i j

/-- Transitive dynamic dependence on the criterion `c`. -/
inductive Reach (tr : Trace) (c : Nat) : Nat → Prop
  | refl : Reach tr c c
  | step {i j : Nat} : Reach tr c i → Dep tr i j → Reach tr c j

/-! ## Keying variables by code object instead of by frame (what the real slicer does) -/

def Ev.rekey (f : Nat → Nat) (e : Ev) : Ev :=
  { e with defs := e.defs.map (fun v => ⟨f v.scope, v.name⟩),
           uses := e.uses.map (fun v => ⟨f v.scope, v.name⟩) }

/-- The trace as the real slicer sees it when frames `s` are identified with their code object
`f s` (`local_var_uses` holds `(name, code_object_id)`). -/
def rekey (f : Nat → Nat) (tr : Trace) : Trace := tr.map (Ev.rekey f)

/-! ## Replaying a sub-trace (semantic reading of the data part of a slice) -/

/-- Environment before step `n` when only the steps selected by `sel` are executed; `sem i ρ v` is
the value step `i` writes to `v` when run in `ρ`. -/
def replay (tr : Trace) (sem : Nat → (Var → Int) → Var → Int) (sel : Nat → Bool)
    (ρ0 : Var → Int) : Nat → Var → Int
  | 0 => ρ0
  | n + 1 =>
    let ρ := replay tr sem sel ρ0 n
    if sel n then fun v => if (evAt tr n).defs.contains v then sem n ρ v else ρ v else ρ

/-! ## Attribute uses: the address-qualified key `'<hex address>_<name>'` and its conversion into
class-level variable names at the creation of the object
(`ExecutedAttributeInstruction.combined_attr`, `_add_attribute_uses`, the `arg_address and
object_creation` block of `check_explicit_data_dependency`).  Strings are `List Char`. -/

def hexChar (d : Nat) : Char :=
  if d < 10 then Char.ofNat (48 + d) else Char.ofNat (87 + d)

def hexAux : Nat → Nat → List Char → List Char
  | 0, _, acc => acc
  | f + 1, n, acc =>
    if n < 16 then hexChar n :: acc else hexAux f (n / 16) (hexChar (n % 16) :: acc)

/-- Python's `hex(n)` (the fuel `n + 1` is never exhausted; compared with CPython on every case). -/
def pyHex (n : Nat) : List Char := '0' :: 'x' :: hexAux (n + 1) n []

/-- `combined_attr`: `f"{hex(self.src_address)}_{self.argument}"`. -/
def attrUseKey (addr : Nat) (name : List Char) : List Char := pyHex addr ++ '_' :: name

/-- `s.split("_")`. -/
def splitU : List Char → List (List Char)
  | [] => [[]]
  | c :: cs =>
    if c = '_' then [] :: splitU cs
    else match splitU cs with
      | [] => [[c]]
      | h :: t => (c :: h) :: t

/-- `"_".join(parts)`. -/
def joinU : List (List Char) → List Char
  | [] => []
  | [x] => x
  | x :: y :: r => x ++ '_' :: joinU (y :: r)

/-- `"_".join(use.split("_")[1:])`: the attribute name of a pending attribute use. -/
def attrNameOfKey (use : List Char) : List Char := joinU (splitU use).tail

/-- `use.startswith(hex(arg_address)) and len(use) > len(hex(arg_address))`. -/
def attrUseOf (addr : Nat) (use : List Char) : Bool :=
  (pyHex addr).isPrefixOf use && decide ((pyHex addr).length < use.length)

/-- The conversion at an object creation (`if arg_address and object_creation:`): the pending
attribute uses on the created object become names of class-level variables to look for
(`attribute_creation_uses`), and leave `context.attr_uses`.  Result: (names, remaining uses). -/
def convertAttrUses (addr : Nat) (attrUses : List (List Char)) : List (List Char) × List (List Char) :=
  if addr = 0 then ([], attrUses)
  else ((attrUses.filter (attrUseOf addr)).map attrNameOfKey, attrUses.filter (fun u => !attrUseOf addr u))

/-- A different way of cutting the name out of the key (drop the prefix, strip the separator with
`lstrip('_')`): NOT equivalent — see `attr_name_lstrip_cex`. -/
def attrNameLstrip (addr : Nat) (use : List Char) : List Char :=
  (use.drop (pyHex addr).length).dropWhile (· = '_')

end PynguinModel.Slice
