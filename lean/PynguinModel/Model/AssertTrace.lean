import PynguinModel.Model.AssertRender
/-
Model of the *observer path* of assertion generation: `RemoteAssertionTraceObserver`
(`after_statement_execution` → `_handle` → `_check_reference` → `_check_value` /
`_check_type_and_recurse`, `_check_static_class_fields`) over a whole test case, and of the snapshot
`copy.deepcopy(value)` takes of the observed value.

Python                                              Lean
--------------------------------------------------  ------------------------------------------
a mutable container object with identity             `Cell` at an address of a `Heap`
a value as stored in a container / attribute          `Item` (immediate value or reference)
`copy.deepcopy(value)`                                `reify` (reads the whole reachable tree)
`copy.copy(value)` / no copy (NOT what the code does) `CopyMode.shallow` / `CopyMode.alias`
the namespace after statement `i`, as far as the
  observer looks at it                                `SnapshotOf Item` + `Heap` (= `HSnapshot`)
  … with every value deep-copied                      `Snapshot` (= `SnapshotOf AVal`)
`_check_reference` on a variable / dotted path        `checkRef` (`checkFields`: one recursion step)
`_handle`                                             `handle` (watch list threaded through)
`_check_static_class_fields` / `_is_static_field_owner` `staticAssertions` / `isStaticOwner`
the trace after the test case ran                     `trace` / `recordHistory`

Source paths (`var_0`, `var_0.rows`, `alias.REG`, `alias.Store.shared`) are atomic names of the
namespace the rendered assertion is evaluated in (`Snapshot.flat`): resolving a dotted path with
`getattr` is Python's business, not Pynguin's.  What a statement does to the heap is not modelled
either (that is the module under test): a history is an arbitrary sequence of heaps.  Mathlib-free.
-/
namespace PynguinModel.AssertRender
open PynguinModel.Literals

/-! ## Heap -/

/-- What a container slot / an attribute holds: an immutable value, or a reference to a container. -/
inductive Item where
  | imm (v : AVal)
  | ref (a : Nat)
  deriving Repr, Inhabited

/-- A container object (lists, sets and dicts are mutable; a tuple is not, its items may be). -/
inductive Cell where
  | list (xs : List Item)
  | tuple (xs : List Item)
  | set (xs : List Item)
  | dict (kvs : List (Item × Item))
  deriving Repr, Inhabited

abbrev Heap := List (Nat × Cell)

def Heap.get : Heap → Nat → Option Cell
  | [], _ => none
  | (a', c) :: r, a => if a = a' then some c else Heap.get r a

/-- All or nothing. -/
def allSome {α : Type} : List (Option α) → Option (List α)
  | [] => some []
  | some x :: r => (allSome r).map (x :: ·)
  | none :: _ => none

def reifyPair (rec : Item → Option AVal) (p : Item × Item) : Option (AVal × AVal) :=
  match rec p.1, rec p.2 with
  | some k, some v => some (k, v)
  | _, _ => none

/-- Copy one container, its items through `rec`. -/
def reifyCell (rec : Item → Option AVal) : Cell → Option AVal
  | .list xs => (allSome (xs.map rec)).map .list
  | .tuple xs => (allSome (xs.map rec)).map .tuple
  | .set xs => (allSome (xs.map rec)).map .set
  | .dict kvs => (allSome (kvs.map (reifyPair rec))).map .dict

/-- What stands for everything nested deeper than the depth bound (cyclic structures are unbounded):
an opaque object.  `is_assertable` gives up below depth 4, so nothing the observer does looks at it
when the bound is larger than that. -/
def tooDeep : AVal := .obj ⟨"<deeper than the bound>", [], 0⟩ none

/-- `copy.deepcopy`: the tree reachable from the item in heap `h`, cut off below depth `fuel`
(`none` = dangling reference). -/
def reify (h : Heap) : Nat → Item → Option AVal
  | _, .imm v => some v
  | 0, .ref _ => some tooDeep
  | n + 1, .ref a => (h.get a).bind (reifyCell (reify h n))

/-- How the observer could keep the expected value of an `ObjectAssertion`.  The code uses `deep`
(`copy.deepcopy(value)`); the other two are what a "cheaper" observer would do. -/
inductive CopyMode where
  | deep | shallow | alias
  deriving DecidableEq, Repr

/-- The expected value of an `ObjectAssertion` *when it is rendered* — after the whole test case ran
(heap `hEnd`) — for a value observed in heap `hObs`. -/
def expectedAtRender (fuel : Nat) : CopyMode → (hObs hEnd : Heap) → Item → Option AVal
  | .deep, hObs, _, it => reify hObs fuel it
  | .alias, _, hEnd, it => reify hEnd fuel it
  | .shallow, _, _, .imm v => some v
  | .shallow, hObs, hEnd, .ref a =>
      -- the outer container is copied when observed, its items still point into the live heap
      (hObs.get a).bind (reifyCell (reify hEnd fuel))

/-! ## The namespace as the observer sees it -/

/-- What a reference path resolves to.  `inst`: an object with a `__dict__`, with its public,
non-ignored (`_should_ignore`) instance attributes in `vars()` order — the observer recurses one step
into those.  Everything else is `plain`. -/
inductive NValOf (α : Type) where
  | plain (v : α)
  | inst (ty : TypeId) (len : Option Nat) (fields : List (String × α))
  deriving Repr, Inhabited

/-- The namespace after one statement. -/
structure SnapshotOf (α : Type) where
  /-- `statement.bound_variable` -/
  bound : String
  /-- the test case's variables bound so far -/
  vars : List (String × NValOf α)
  /-- public, non-ignored attributes of the module under test, `vars(module)` order -/
  modFields : List (String × NValOf α)
  /-- public, non-ignored class attributes of the classes of the test's variables -/
  classFields : List (TypeId × List (String × NValOf α))
  deriving Repr, Inhabited

abbrev NVal := NValOf AVal
abbrev Snapshot := SnapshotOf AVal

/-- A live namespace: items in a heap. -/
structure HSnapshot where
  heap : Heap
  ns : SnapshotOf Item
  deriving Repr, Inhabited

def traverseAssoc {κ α β : Type} (f : α → Option β) (xs : List (κ × α)) : Option (List (κ × β)) :=
  allSome (xs.map (fun p => (f p.2).map (fun b => (p.1, b))))

def NValOf.traverse {α β : Type} (f : α → Option β) : NValOf α → Option (NValOf β)
  | .plain v => (f v).map .plain
  | .inst ty len fs => (traverseAssoc f fs).map (.inst ty len)

def SnapshotOf.traverse {α β : Type} (f : α → Option β) (s : SnapshotOf α) : Option (SnapshotOf β) :=
  match traverseAssoc (NValOf.traverse f) s.vars, traverseAssoc (NValOf.traverse f) s.modFields,
        traverseAssoc (traverseAssoc (NValOf.traverse f)) s.classFields with
  | some vs, some ms, some cs => some ⟨s.bound, vs, ms, cs⟩
  | _, _, _ => none

/-- What the observer records about the namespace after a statement: a deep snapshot, taken in the
heap of *that* moment. -/
def HSnapshot.observe (fuel : Nat) (s : HSnapshot) : Option Snapshot :=
  s.ns.traverse (reify s.heap fuel)

/-- The same with another copy discipline, looked at when the assertions are rendered (`hEnd`). -/
def HSnapshot.observeWith (fuel : Nat) (mode : CopyMode) (hEnd : Heap) (s : HSnapshot) : Option Snapshot :=
  s.ns.traverse (expectedAtRender fuel mode s.heap hEnd)

/-! ## `_handle` -/

/-- `type(value) in PRIMITIVES`. -/
def AVal.isPrimitive : AVal → Bool
  | .int _ | .str _ | .bytes _ | .bool _ | .float _ | .complex _ _ => true
  | _ => false

def NValOf.isPrimitive : NVal → Bool
  | .plain v => v.isPrimitive
  | .inst _ _ _ => false

def NValOf.typeOf : NVal → TypeId
  | .plain v => v.typeOf
  | .inst ty _ _ => ty

/-- The field loop of `_check_type_and_recurse` (`depth + 1 = max_depth`: no further recursion). -/
def checkFields (te : TypeEnv) (src : String) : List (String × AVal) → List Assertion
  | [] => []
  | (f, v) :: r => checkValue te (src ++ "." ++ f) v ++ checkFields te src r

/-- `_check_reference` at depth 0 on a resolved path: `_check_value`, and for an object that is
neither a float nor assertable nor `Sized` one recursion step into its public attributes. -/
def checkRef (te : TypeEnv) (src : String) : NVal → List Assertion
  | .plain v => checkValue te src v
  | .inst ty len fields =>
      checkTypeAndLen te src (.obj ty len) ++
      (match len with
       | some _ => []
       | none => checkFields te src fields)

/-- `for field … : self._check_reference(namespace, f"{prefix}{field}", …)`. -/
def checkRefs (te : TypeEnv) (pfx : String) : List (String × NVal) → List Assertion
  | [] => []
  | (f, nv) :: r => checkRef te (pfx ++ f) nv ++ checkRefs te pfx r

/-- `_check_reference` on a variable name (`_resolve_source`: an unknown root gives nothing). -/
def checkVar (te : TypeEnv) (vars : List (String × NVal)) (x : String) : List Assertion :=
  match lookup x vars with
  | some nv => checkRef te x nv
  | none => []

def checkVars (te : TypeEnv) (vars : List (String × NVal)) : List String → List Assertion
  | [] => []
  | x :: r => checkVar te vars x ++ checkVars te vars r

/-- The watch list after the statement: a primitive is checked once, anything else whose type does
not come from `builtins` is watched from now on. -/
def nextWatch (watch : List String) (s : Snapshot) : List String :=
  match lookup s.bound s.vars with
  | some nv =>
      if nv.isPrimitive then watch
      else if nv.typeOf.module != "builtins" then watch ++ [s.bound] else watch
  | none => watch

/-- `_is_static_field_owner` (for the class objects of watched values). -/
def isStaticOwner (te : TypeEnv) (t : TypeId) : Bool :=
  t.module == te.moduleName && !t.qual.contains "<locals>"

def lookupType {α : Type} (t : TypeId) : List (TypeId × α) → Option α
  | [] => none
  | (t', x) :: r => if t = t' then some x else lookupType t r

/-- `{type(namespace.get(name)) for name in watch_list}` (order: first occurrence). -/
def seenTypes (vars : List (String × NVal)) : List String → List TypeId
  | [] => []
  | x :: r =>
      let rest := seenTypes vars r
      match lookup x vars with
      | some nv => if rest.contains nv.typeOf then rest else nv.typeOf :: rest
      | none => rest

/-- `".".join([module_alias, *qualname.split(".")])`. -/
def classSource (alias : String) (t : TypeId) : String := joinDots (alias :: t.qual)

def staticOf (te : TypeEnv) (alias : String) (s : Snapshot) : List TypeId → List Assertion
  | [] => []
  | t :: r =>
      (if isStaticOwner te t then
        match lookupType t s.classFields with
        | some fs => checkRefs te (classSource alias t ++ ".") fs
        | none => []
       else []) ++ staticOf te alias s r

/-- `_check_static_class_fields`. -/
def staticAssertions (te : TypeEnv) (alias : String) (s : Snapshot) (watch : List String) : List Assertion :=
  staticOf te alias s (seenTypes s.vars watch)

/-- The freshly bound variable, if primitive. -/
def boundAssertions (te : TypeEnv) (s : Snapshot) : List Assertion :=
  match lookup s.bound s.vars with
  | some nv => if nv.isPrimitive then checkRef te s.bound nv else []
  | none => []

/-- `_handle`: the new watch list and the assertions recorded for this position. -/
def handle (te : TypeEnv) (alias : String) (watch : List String) (s : Snapshot) :
    List String × List Assertion :=
  let watch' := nextWatch watch s
  (watch', boundAssertions te s ++ checkVars te s.vars watch' ++ checkRefs te (alias ++ ".") s.modFields
            ++ staticAssertions te alias s watch')

/-- The watch list after a run of statements. -/
def watchAfter : List String → List Snapshot → List String
  | w, [] => w
  | w, s :: r => watchAfter (nextWatch w s) r

/-- The assertion trace (position ↦ assertions) of a run that starts with watch list `w`. -/
def traceFrom (te : TypeEnv) (alias : String) : List String → List Snapshot → List (List Assertion)
  | _, [] => []
  | w, s :: r => (handle te alias w s).2 :: traceFrom te alias (nextWatch w s) r

/-- The assertion trace of a test case whose statements all succeed. -/
def trace (te : TypeEnv) (alias : String) (ss : List Snapshot) : List (List Assertion) :=
  traceFrom te alias [] ss

/-- What the observer has recorded when the test case is over: every position is observed in the
heap of its own moment. -/
def recordHistory (fuel : Nat) (te : TypeEnv) (alias : String) (hs : List HSnapshot) :
    Option (List (List Assertion)) :=
  (allSome (hs.map (HSnapshot.observe fuel))).map (trace te alias)

/-! ## The namespace a recorded assertion is evaluated in -/

def flatNVal (src : String) : NVal → List (String × AVal)
  | .plain v => [(src, v)]
  | .inst ty len fs => (src, .obj ty len) :: fs.map (fun p => (src ++ "." ++ p.1, p.2))

def flatRefs (pfx : String) : List (String × NVal) → List (String × AVal)
  | [] => []
  | (f, nv) :: r => flatNVal (pfx ++ f) nv ++ flatRefs pfx r

def flatClasses (alias : String) : List (TypeId × List (String × NVal)) → List (String × AVal)
  | [] => []
  | (t, fs) :: r => flatRefs (classSource alias t ++ ".") fs ++ flatClasses alias r

/-- Every reference path of the snapshot with the value it resolves to. -/
def SnapshotOf.flat (alias : String) (s : Snapshot) : List (String × AVal) :=
  flatRefs "" s.vars ++ flatRefs (alias ++ ".") s.modFields ++ flatClasses alias s.classFields

/-- The namespace of the exported test right after the statement of this snapshot. -/
def nsAt (alias : String) (enums : List String) (globals : List (String × PyRef)) (world : World)
    (s : Snapshot) : Namespace :=
  { vars := s.flat alias, enumClasses := enums, globals := globals, world := world, hasPytest := true }

end PynguinModel.AssertRender
