/-
Model of the decision logic of `pynguin.assertion.assertiongenerator` that C21 is about:

* `_select_minimal_assertions`          → `universeOf`, `candidates`, `scan`, `greedy`, `prune`,
                                           `selectMinimal?` / `selectMinimal`
* `_MutationMetrics.get_score`          → `getScore`
* `_MutationSummary.get_killed/get_timeout/get_survived/get_metrics` → `isKilled`, `isTimedOut`,
                                           `isSurvived`, `getMetrics`
* `MutationAnalysisAssertionGenerator.__compute_mutation_summary`  → `upd`, `computeSummary`
* `AssertionVerificationTrace.was_violated / merge` → `VTrace.wasViolated`, `VTrace.merge`
* `MutationAnalysisAssertionGenerator.__build_kill_map`             → `buildKillMap`
* `… .__minimize_assertions` / `… .__remove_non_relevant_assertions` → `minimizeTest`, `relevantTest`
* `… ._handle_add_assertions` (column collection, unchecked mutants)  → `collect`, `handleAdd`
* `… ._abort_after_first_timeout`                                     → `abortAfterFirstTimeout`

Python `set[int]` values are lists (membership is all that is ever used, the result of a set
operation is kept duplicate-free where the code takes `len`); the `dict` kill map is an association
list in insertion order (Python dict keys are unique: the theorems carry that as a hypothesis, the
driver rejects maps that violate it).  Mathlib-free.
-/
namespace PynguinModel.SetCover

/-- `(stmt_idx, assertion_idx)` -/
abbrev Key := Nat × Nat
abbrev Mutant := Nat
/-- `dict[tuple[int, int], set[int]]` in insertion order. -/
abbrev KillMap := List (Key × List Mutant)

/-! ### Small Python primitives -/

/-- tuple comparison `a <= b` on `(int, int)` -/
def keyLe (a b : Key) : Bool := a.1 < b.1 || (a.1 == b.1 && a.2 ≤ b.2)

def insertSorted {α} (le : α → α → Bool) (x : α) : List α → List α
  | [] => [x]
  | y :: ys => if le x y then x :: y :: ys else y :: insertSorted le x ys

/-- `sorted(...)` (insertion sort; keys are distinct so stability is irrelevant). -/
def isort {α} (le : α → α → Bool) (l : List α) : List α := l.foldr (insertSorted le) []

/-- `s.add(x)` on a set kept as a duplicate-free list -/
def setInsert (u : List Mutant) (x : Mutant) : List Mutant := if x ∈ u then u else u ++ [x]

/-- `u |= ks` -/
def setUnion (u ks : List Mutant) : List Mutant := ks.foldl setInsert u

/-- `a <= b` on sets -/
def subsetB (a b : List Mutant) : Bool := a.all (fun x => b.contains x)

/-- `kill_map[key]` (the default `[]` is never used: every key looked up was taken from the map,
see `Lemmas.greedy_keys`). -/
def kills : KillMap → Key → List Mutant
  | [], _ => []
  | (k', ks) :: m, k => if k' = k then ks else kills m k

/-! ### `_select_minimal_assertions` -/

/-- `universe = set(); for kills in kill_map.values(): universe |= kills` -/
def universeOf (m : KillMap) : List Mutant := m.foldl (fun u e => setUnion u e.2) []

/-- `{key: kills for key, kills in kill_map.items() if kills}` -/
def candidates (m : KillMap) : KillMap := m.filter (fun e => !e.2.isEmpty)

/-- `len(candidates[key] & uncovered)` (`uncovered` is duplicate-free). -/
def cover (ks uncovered : List Mutant) : Nat := (uncovered.filter (fun x => ks.contains x)).length

/-- The body of `for key in sorted(candidates)`: strict `>` keeps the first (lowest) key on ties. -/
def scanStep (unc : List Mutant) (best : Option Key × Nat) (e : Key × List Mutant) : Option Key × Nat :=
  let c := cover e.2 unc
  if c > best.2 then (some e.1, c) else best

/-- One pass of the inner `for` loop: `(best_key, best_cover)`. -/
def scan (cands : KillMap) (unc : List Mutant) : Option Key × Nat :=
  (isort (fun a b => keyLe a.1 b.1) cands).foldl (scanStep unc) (none, 0)

/-- The `while uncovered:` loop with an explicit iteration budget; `none` = budget exhausted
(the loop did not finish).  `Lemmas.greedy_terminates` shows `cands.length + 1` iterations always
suffice and `Lemmas.greedy_fuel_irrelevant` that any larger budget gives the same answer, so this
*is* the unbounded loop. -/
def greedy : Nat → KillMap → List Mutant → List Key → Option (List Key)
  | 0, _, _, _ => none
  | fuel + 1, cands, unc, keep =>
    if unc.isEmpty then some keep            -- `while uncovered:` is false
    else match (scan cands unc).1 with
      | none => some keep                     -- `if best_key is None: break`
      | some k =>
        greedy fuel (cands.filter (fun e => e.1 ≠ k))          -- `del candidates[best_key]`
          (unc.filter (fun x => !(kills cands k).contains x))  -- `uncovered -= candidates[best_key]`
          (keep ++ [k])                                        -- `keep.add(best_key)`

/-- `others = set(); for other in keep: if other != key: others |= kill_map[other]` -/
def othersUnion (m : KillMap) (keep : List Key) (key : Key) : List Mutant :=
  (keep.filter (fun o => o ≠ key)).foldl (fun acc o => setUnion acc (kills m o)) []

/-- `if kill_map[key] <= others: keep.discard(key)` -/
def pruneStep (m : KillMap) (keep : List Key) (key : Key) : List Key :=
  if subsetB (kills m key) (othersUnion m keep key) then keep.filter (fun o => o ≠ key) else keep

/-- `for key in sorted(keep, reverse=True): …` (the sorted list is a snapshot, `keep` is live). -/
def prune (m : KillMap) (keep : List Key) : List Key :=
  (isort keyLe keep).reverse.foldl (pruneStep m) keep

/-- `_select_minimal_assertions` with the iteration budget `len(candidates) + 1`. -/
def selectMinimal? (m : KillMap) : Option (List Key) :=
  (greedy ((candidates m).length + 1) (candidates m) (universeOf m) []).map (prune m)

/-! ### Mutation summary and score -/

/-- What `__compute_mutation_summary` reads from an `ExecutionResult`:
`timeout` and `len(trace.error) > 0 or len(trace.failed) > 0 or has_test_exceptions()`. -/
structure Obs where
  timeout : Bool
  violated : Bool
  deriving Repr, DecidableEq

/-- `_MutantInfo` -/
structure MutantInfo where
  mutNum : Nat
  timedOutBy : List Nat
  killedBy : List Nat
  deriving Repr, DecidableEq

/-- The body of the inner loop of `__compute_mutation_summary` for one `(info, result)` pair. -/
def upd (testNum : Nat) (info : MutantInfo) (r : Option Obs) : MutantInfo :=
  match r with
  | none => info
  | some o =>
    if !info.timedOutBy.isEmpty then info
    else if o.timeout then { info with timedOutBy := info.timedOutBy ++ [testNum] }
    else if o.violated then { info with killedBy := info.killedBy ++ [testNum] }
    else info

/-- `for test_num, row in enumerate(rows): for info, result in zip(infos, row, strict=True): …`;
`none` = `ValueError` from `zip(strict=True)`. -/
def summaryLoop : Nat → List MutantInfo → List (List (Option Obs)) → Option (List MutantInfo)
  | _, infos, [] => some infos
  | t, infos, row :: rows =>
    if row.length = infos.length then summaryLoop (t + 1) (List.zipWith (upd t) infos row) rows
    else none

def initInfos (n : Nat) : List MutantInfo := (List.range n).map (fun i => ⟨i, [], []⟩)

/-- `__compute_mutation_summary(number_of_mutants, tests_mutants_results)` -/
def computeSummary (n : Nat) (rows : List (List (Option Obs))) : Option (List MutantInfo) :=
  summaryLoop 0 (initInfos n) rows

def isTimedOut (i : MutantInfo) : Bool := !i.timedOutBy.isEmpty
/-- `get_killed`: `info.killed_by and not info.timed_out_by` -/
def isKilled (i : MutantInfo) : Bool := !i.killedBy.isEmpty && i.timedOutBy.isEmpty
/-- `get_survived`: `not info.killed_by and not info.timed_out_by` -/
def isSurvived (i : MutantInfo) : Bool := i.killedBy.isEmpty && i.timedOutBy.isEmpty

/-- `_MutationMetrics` (a dataclass of arbitrary ints). -/
structure Metrics where
  created : Int
  killed : Int
  timeout : Int
  deriving Repr, DecidableEq

/-- `_MutationSummary.get_metrics` -/
def getMetrics (infos : List MutantInfo) : Metrics :=
  { created := infos.length
    killed := (infos.filter isKilled).length
    timeout := (infos.filter isTimedOut).length }

/-- `_MutationMetrics.get_score` as an exact fraction `(numerator, denominator)`;
`none` = `AssertionError` (`assert divisor >= 0`); `1.0` is `(1, 1)`. -/
def getScore (mt : Metrics) : Option (Int × Int) :=
  let divisor := mt.created - mt.timeout
  if divisor < 0 then none
  else if divisor = 0 then some (1, 1)
  else some (mt.killed, divisor)

/-! ### Verification traces, kill map, assertion removal -/

/-- `AssertionVerificationTrace`: `dict[int, OrderedSet[int]]` twice. -/
structure VTrace where
  failed : List (Nat × List Nat)
  error : List (Nat × List Nat)
  deriving Repr, DecidableEq

def dictHas (d : List (Nat × List Nat)) (s a : Nat) : Bool := d.any (fun e => e.1 == s && e.2.contains a)

/-- `was_violated(stmt_idx, assertion_idx)` -/
def VTrace.wasViolated (t : VTrace) (s a : Nat) : Bool := dictHas t.failed s a || dictHas t.error s a

/-- `self.failed[pos].update(assertions)` on a `defaultdict(OrderedSet)`. -/
def dictUpdate (d : List (Nat × List Nat)) (pos : Nat) (xs : List Nat) : List (Nat × List Nat) :=
  if d.any (fun e => e.1 == pos) then d.map (fun e => if e.1 == pos then (e.1, setUnion e.2 xs) else e)
  else d ++ [(pos, setUnion [] xs)]

/-- `merge(other)` -/
def VTrace.merge (t o : VTrace) : VTrace :=
  { failed := o.failed.foldl (fun d e => dictUpdate d e.1 e.2) t.failed
    error := o.error.foldl (fun d e => dictUpdate d e.1 e.2) t.error }

/-- An `ExecutionResult` of a test on a mutant, as far as the generator reads it. -/
structure Res where
  timeout : Bool
  trace : VTrace
  exc : Bool            -- `has_test_exceptions()`
  deriving Repr, DecidableEq

def Res.obs (r : Res) : Obs :=
  { timeout := r.timeout
    violated := !r.trace.error.isEmpty || !r.trace.failed.isEmpty || r.exc }

/-- One assertion of a statement: an identity and whether it is an `ExceptionAssertion`. -/
structure Assertion where
  id : Nat
  isExc : Bool
  deriving Repr, DecidableEq

abbrev Stmt := List Assertion
abbrev Test := List Stmt

/-- `Statement.has_only_exception_assertion` -/
def hasOnlyException : Stmt → Bool
  | [a] => a.isExc
  | _ => false

/-- `enumerate(zip(results, infos, strict=True))` filtered by
`result is not None and len(mut.timed_out_by) == 0`, keeping the mutant index (the two lists have
equal length whenever this is reached: both have one entry per checked mutant). -/
def validResultsFrom : Nat → List (Option Res) → List MutantInfo → List (Nat × Res)
  | j, r :: rs, i :: is =>
    (match r with
      | some r => if i.timedOutBy.isEmpty then [(j, r)] else []
      | none => []) ++ validResultsFrom (j + 1) rs is
  | _, _, _ => []

def validResults (results : List (Option Res)) (infos : List MutantInfo) : List (Nat × Res) :=
  validResultsFrom 0 results infos

/-- The set comprehension of `__build_kill_map` for one `(stmt_idx, assertion_idx)`. -/
def killSet (valid : List (Nat × Res)) (s a : Nat) : List Mutant :=
  (valid.filter (fun p => p.2.trace.wasViolated s a)).map (·.1)

/-- `for stmt_idx, statement in enumerate(test.statements()): …` of `__build_kill_map`. -/
def buildKillMapFrom (valid : List (Nat × Res)) : Nat → Test → KillMap
  | _, [] => []
  | s, st :: rest =>
    (if hasOnlyException st then []
     else (List.range st.length).map (fun a => ((s, a), killSet valid s a)))
      ++ buildKillMapFrom valid (s + 1) rest

/-- `__build_kill_map(test, results, summary)` -/
def buildKillMap (test : Test) (valid : List (Nat × Res)) : KillMap := buildKillMapFrom valid 0 test

/-- Removal by position (`reversed(list(enumerate(assertions)))` + `remove(assertion)`; removal by
value and by position agree when the assertions of a statement are pairwise distinct). -/
def keepPositions (st : Stmt) (p : Nat → Bool) : Stmt :=
  (st.zipIdx.filter (fun q => p q.2)).map (·.1)

/-- The removal loop of `__minimize_assertions` for one test, given the selected keys. -/
def applyKeepFrom (keep : List Key) : Nat → Test → Test
  | _, [] => []
  | s, st :: rest =>
    (if hasOnlyException st then st else keepPositions st (fun a => keep.contains (s, a)))
      :: applyKeepFrom keep (s + 1) rest

def applyKeep (test : Test) (keep : List Key) : Test := applyKeepFrom keep 0 test

def minimizeTest? (test : Test) (valid : List (Nat × Res)) : Option Test :=
  (selectMinimal? (buildKillMap test valid)).map (applyKeep test)

/-- the merged trace of the non-minimising path -/
def mergedTrace (valid : List (Nat × Res)) : VTrace :=
  valid.foldl (fun t p => t.merge p.2.trace) ⟨[], []⟩

def relevantFrom (merged : VTrace) : Nat → Test → Test
  | _, [] => []
  | s, st :: rest => keepPositions st (fun a => merged.wasViolated s a) :: relevantFrom merged (s + 1) rest

/-- `__remove_non_relevant_assertions` without minimisation, one test. -/
def relevantTest (test : Test) (valid : List (Nat × Res)) : Test :=
  relevantFrom (mergedTrace valid) 0 test

/-- `_abort_after_first_timeout`: results up to and including the first timeout, then `None`s. -/
def abortAfterFirstTimeout : List (Option Res) → List (Option Res)
  | [] => []
  | r :: rest =>
    r :: (if (match r with | some x => x.timeout | none => false) then rest.map (fun _ => none)
          else abortAfterFirstTimeout rest)

/-! ### `_handle_add_assertions`: which mutants get a column -/

/-- `rows[i].append(col[i])`; `none` = `IndexError` (column longer than the number of tests) or the
`ValueError` that a shorter column provokes later in `zip(strict=True)`. -/
def appendColumn (rows : List (List (Option Res))) (col : List (Option Res)) : Option (List (List (Option Res))) :=
  if col.length = rows.length then some (List.zipWith (fun row r => row ++ [r]) rows col) else none

/-- The loop over `_execute_test_case_on_mutants`: the stream has one entry per mutant that was
reached before the time budget ran out; `none` = skipped (invalid module).  Returns
`(num_checked, tests_mutants_results)`. -/
def collect : List (Option (List (Option Res))) → Nat × List (List (Option Res)) → Option (Nat × List (List (Option Res)))
  | [], acc => some acc
  | none :: rest, acc => collect rest acc
  | some col :: rest, (n, rows) =>
    match appendColumn rows col with
    | some rows' => collect rest (n + 1, rows')
    | none => none

/-- plumbing: a list of optional values, all of which must be present -/
def allSome {α} : List (Option α) → Option (List α)
  | [] => some []
  | none :: _ => none
  | some a :: rest => (allSome rest).map (a :: ·)

structure Outcome where
  infos : List MutantInfo
  metrics : Metrics
  score : Option (Int × Int)
  tests : List Test
  deriving Repr

/-- `_handle_add_assertions(test_cases)` on a given stream of per-mutant results. -/
def handleAdd (minimize : Bool) (tests : List Test) (stream : List (Option (List (Option Res)))) : Option Outcome :=
  match collect stream (0, tests.map (fun _ => [])) with
  | none => none
  | some (n, rows) =>
    match computeSummary n (rows.map (fun row => row.map (fun r => r.map Res.obs))) with
    | none => none
    | some infos =>
      let mt := getMetrics infos
      let newTests : Option (List Test) :=
        if minimize then
          allSome ((List.zip tests rows).map (fun p => minimizeTest? p.1 (validResults p.2 infos)))
        else some ((List.zip tests rows).map (fun p => relevantTest p.1 (validResults p.2 infos)))
      newTests.map (fun ts => { infos := infos, metrics := mt, score := getScore mt, tests := ts })

/-- `_handle_add_assertions` on top of `_execute_test_case_on_mutant`: with the in-process executor
(`lazy`) each mutant's results pass through `_abort_after_first_timeout`, with the subprocess
executor they are used as they are. -/
def handleAddExec (lazy minimize : Bool) (tests : List Test)
    (stream : List (Option (List (Option Res)))) : Option Outcome :=
  handleAdd minimize tests (if lazy then stream.map (Option.map abortAfterFirstTimeout) else stream)

end PynguinModel.SetCover
