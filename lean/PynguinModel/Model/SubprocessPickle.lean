import PynguinModel.Model.SubprocessAlign
/-!
# What `dill.detect.baditems` answers (C31, value round trips)

Third part of the model of `src/pynguin/testcase/subprocess_executor.py`: in `Model/SubprocessAlign.lean` the
answer of `dill.detect.baditems` inside `_fix_unpicklable` is an input (`Probe`).  Here it is computed from
what a pickle round trip does to each single item, the way `dill.detect` does it:

* `dill.detect.pickles(obj, exact)`  ↔ `pickles`: `copy = dill.copy(obj)`; raises → `False`;
  `copy == obj` → `True`; otherwise, unless `exact`, `type(copy) == type(obj)` (or equal `repr` of the types)
* `dill.detect.badobjects(obj, 0, exact)` ↔ `badObject` (`None` or the object itself)
* `dill.detect.baditems(obj, exact)` ↔ `badItems`:
  `_obj = []; [_obj.append(badobjects(i, 0, exact)) for i in obj if i not in _obj]; [j for j in _obj if j is not None]`
* `list(itertools.chain(*result.assertion_trace.trace.values()))` ↔ `allAssertions`
* the two probes of `_fix_result_for_pickle` that touch the compared projection ↔ `probesOf`; the code passes no
  `exact=` (`codeExact = false`): an item whose copy has the same type is picklable, equal or not.

A value that is not equal to itself (a float NaN, a complex NaN, an object holding one) never equals its
pickled copy: `RoundTrip.sameType`.  No Mathlib.
-/
namespace PynguinModel.SubprocessAlign

/-- What `dill.copy` (dumps + loads) does to one item, as `dill.detect.pickles` looks at it. -/
inductive RoundTrip where
  /-- `dumps`/`loads` raises (a generator, an exception whose constructor cannot be re-called, …) -/
  | raises
  /-- `copy == original` -/
  | equal
  /-- `copy != original` but `type(copy) == type(original)`: values that are not equal to themselves -/
  | sameType
  /-- `copy != original` and another type -/
  | otherType
  deriving DecidableEq, Repr

/-- `dill.detect.pickles(obj, exact)`. -/
def pickles (exact : Bool) : RoundTrip → Bool
  | .raises => false
  | .equal => true
  | .sameType => !exact
  | .otherType => false

/-- `dill.detect.badobjects(obj, depth=0, exact)`: `None` when the object pickles, else the object. -/
def badObject (exact : Bool) (rt : α → RoundTrip) (i : α) : Option α :=
  if pickles exact (rt i) then none else some i

/-- The list comprehension of `baditems`: `_obj.append(badobjects(i)) for i in obj if i not in _obj`. -/
def badItemsLoop [DecidableEq α] (exact : Bool) (rt : α → RoundTrip) (acc : List (Option α)) :
    List α → List (Option α)
  | [] => acc
  | i :: r =>
    if some i ∈ acc then badItemsLoop exact rt acc r
    else badItemsLoop exact rt (acc ++ [badObject exact rt i]) r

/-- `dill.detect.baditems(obj, exact)` for an iterable `obj`. -/
def badItems [DecidableEq α] (exact : Bool) (rt : α → RoundTrip) (items : List α) : List α :=
  (badItemsLoop exact rt [] items).filterMap id

/-- `list(itertools.chain(*trace.values()))`. -/
def allAssertions (t : Trace) : List Assertion := t.flatMap (·.2)

/-- The pickle round trip of everything a result holds: exceptions (identified by statement position: one
exception object per position), assertions, and the combined effect of the remaining five probes on the
fields outside the projection. -/
structure Trips where
  exc : Nat → RoundTrip
  asrt : Assertion → RoundTrip
  aux : List String → List String

/-- The `exact` argument `_fix_unpicklable` passes to `dill.detect.baditems`: none, i.e. the default. -/
def codeExact : Bool := false

/-- The answers of the first two `_fix_unpicklable` calls of `_fix_result_for_pickle` (`result.exceptions` — a
dict, so its `.values()` — and the chained assertion sets), for `exact` flags `xe`/`xa`. -/
def probesOf (xe xa : Bool) (tr : Trips) (r : Res) : Probes :=
  { excs := .bad (badItems xe tr.exc (r.excs.map (·.1))),
    asserts := .bad (badItems xa tr.asrt (allAssertions r.trace)),
    aux := tr.aux }

/-- `_fix_result_for_pickle` as the code calls it. -/
def fixForPickleRT (tr : Trips) (r : Res) : Res := fixForPickle (probesOf codeExact codeExact tr r) r

end PynguinModel.SubprocessAlign
