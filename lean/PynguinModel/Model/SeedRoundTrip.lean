/-!
# C24 — exported tests round-trip through the seed parser (model, Mathlib-free)

Python (pynguin)                                                       ↔ Lean (this file)
--------------------------------------------------------------------------------------------------
libcst expression nodes pynguin's factory / exporter emit              ↔ `Expr` (`opaque tag subs` = any other node)
`SimpleStatementLine` small statements, `with …:` blocks               ↔ `Small`, `Line`
`deserializer._dotted_chain` / `_build_chain`                          ↔ `chain` / `buildChain`
`_SutReferenceNormalizer` (`_resolve`, `_handle_import(_from)`,
  `visit_Name/Attribute/Arg`, `leave_SimpleStatementLine`),
  `normalize_sut_references`, the per-function pass                    ↔ `resolve`, `normE`, `normSmall`, `normLines`, `headerBindings`
`_RootNameCollector`                                                   ↔ `readsE` / `readsSmall` / `readsLine`
`_BlockBindingCollector`                                               ↔ `internalE` / `internalSmall` / `internalLine`
`_LocalRenamer`                                                        ↔ `renameE` / `renameSmall` / `renameLine`
`_try_literal` (`ast.literal_eval`)                                    ↔ `literalEval`
`type_utils.is_assertable` (on literal values)                         ↔ `isAssertable`
`assertion_to_ast._value_to_cst`, `_make_float_literal`                ↔ `valueToCst`, `makeFloat`
`assertion_to_cst` (5 renderers)                                       ↔ `renderTest` / `renderAssertion`
`parse_assertion` + the 4 shape parsers + `_resolve_type_ref`          ↔ `parseAssertion`, `parseBare`, `parseIsinstance`, `parseLen`, `parseEqLit`
`CstStatementDeserializer._admit_small_statement`,
  `_handle_ordinary_statement`, `_handle_assert`,
  `_handle_compound_statement`, `deserialize_function`                 ↔ `admitSmall`, `handleOrdinary`, `handleAssert`, `handleCompound`, `step`, `deserialize`
`seeding.parse_seed_module` (header imports, one test per function)    ↔ `parseFunction`
`seeding.parse_seed_module` (loop over the functions, `size() > 0`)      ↔ `parseFunctions` / `collect` / `parseSeedModule`
`TestSuiteWriter._build_test_function` body (statement, then its
  assertions; `exc_types` all `None`)                                  ↔ `renderBody`

The model is of the **repaired** code (proposed_fixes/C24-*.diff, four fixes).  Three behaviours of the
unchanged tree are kept behind `Cfg` flags (`attachToBinder`, `lambdaReads`, `kwRewrite`) for the
counterexample theorems; the fourth (`_RootNameCollector` counting the member name of an impure chain
such as `type(x).__module__` as a read) is noted at `readsE`.  Not modelled: `accessible` / `bound_type` (call resolution against the
test cluster; they do not influence the rendered code), disposition counters.
-/
namespace PynguinModel.SeedRoundTrip

abbrev Name := String

/-- Constants as Python's `ast` reports them (values, not source tokens); `True`/`False`/`None` are
constants here although libcst prints them from `cst.Name` nodes. -/
inductive Const where
  | int (n : Nat)
  | float (tok : String)       -- `repr` of a non-negative float (`inf` for `1e999`)
  | str (tok : String)
  | bytes (tok : String)
  | true | false | none
  deriving DecidableEq, Repr, Inhabited

inductive CmpOp where
  | eq | is_ | other (tag : String)
  deriving DecidableEq, Repr, Inhabited

inductive Expr where
  | name (n : Name)
  | attr (e : Expr) (a : Name)
  | call (f : Expr) (args : List Expr)
  /-- `cst.Arg(keyword=k, value=v)`; only occurs as an element of `call` args -/
  | kwarg (k : Name) (v : Expr)
  /-- `*v` (n = 1) / `**v` (n = 2); only occurs as an element of `call` args -/
  | star (n : Nat) (v : Expr)
  | const (c : Const)
  | neg (e : Expr)
  | list (es : List Expr)
  | tuple (es : List Expr)
  | set (es : List Expr)
  /-- alternating key, value -/
  | dict (kvs : List Expr)
  | lam (params : List Name) (body : Expr)
  | cmp (l : Expr) (op : CmpOp) (r : Expr)
  | or_ (l r : Expr)
  /-- f-string; text parts are `const (str _)` -/
  | fstr (parts : List Expr)
  /-- any other expression node, children in source order -/
  | opaque (tag : String) (subs : List Expr)
  deriving Repr, Inhabited

inductive Small where
  | assign (targets : List Expr) (v : Expr)
  | expr (e : Expr)
  | assert_ (t : Expr)
  /-- `import a.b [as x]` (one alias) -/
  | impMod (dotted : List Name) (asname : Option Name)
  /-- `from a.b import n [as m], …` (absolute, no star) -/
  | impFrom (dotted : List Name) (names : List (Name × Option Name))
  | other (tag : String)
  deriving Repr, Inhabited

inductive Line where
  | small (s : Small)
  /-- `with <items>: <body>` without `as` targets (the exporter's `pytest.raises` wrapper) -/
  | with_ (items : List Expr) (body : List Small)
  deriving Repr, Inhabited

/-! ## Chains -/

def chain : Expr → Option (List Name)
  | .name n => some [n]
  | .attr e a => (chain e).map (· ++ [a])
  | _ => none

def buildChainFrom (root : Expr) : List Name → Expr
  | [] => root
  | a :: as => buildChainFrom (.attr root a) as

/-- `_build_chain(parts)`; `parts` is never empty in the code. -/
def buildChain : List Name → Expr
  | [] => .name ""
  | p :: ps => buildChainFrom (.name p) ps

/-! ## SUT-reference normalisation -/

/-- local name ↦ (required_next, substitution_head); most recent binding first -/
abbrev Bindings := List (Name × List Name × List Name)

structure Cfg where
  alias : Name
  /-- dotted module name, split -/
  moduleName : List Name
  ambient : List Name
  builtinNames : List Name
  createAssertions : Bool := true
  /-- unchanged tree: a lifted assertion is attached to the statement that bound its variable -/
  attachToBinder : Bool := false
  /-- unchanged tree: lambda parameters count as external reads of an ordinary statement -/
  lambdaReads : Bool := false
  /-- unchanged tree: keyword names and member names of impure chains are rewritten like references -/
  kwRewrite : Bool := false
  deriving Repr, Inhabited

def lookupB (bs : Bindings) (root : Name) : Option (List Name × List Name) :=
  match bs.find? (fun b => b.1 == root) with
  | some b => some b.2
  | none => none

def resolve (alias : Name) (bs : Bindings) : List Name → Option (List Name)
  | [] => none
  | root :: rest =>
    match lookupB bs root with
    | none => none
    | some (req, sub) =>
      if rest.take req.length = req then some (alias :: (sub ++ rest.drop req.length)) else none

/-- what the unchanged normaliser does to a keyword / member name: the rendered text of the chain -/
def rewriteName (alias : Name) (bs : Bindings) (flag : Bool) (n : Name) : Name :=
  if flag then
    match resolve alias bs [n] with
    | some r => ".".intercalate r
    | none => n
  else n

mutual
def normE (c : Cfg) (bs : Bindings) : Expr → Expr
  | .name n => match resolve c.alias bs [n] with
    | some r => buildChain r
    | none => .name n
  | .attr e a => match chain (.attr e a) with
    | some ch => (match resolve c.alias bs ch with
      | some r => buildChain r
      | none => .attr e a)
    | none => .attr (normE c bs e) (rewriteName c.alias bs c.kwRewrite a)
  | .call f args => .call (normE c bs f) (normEs c bs args)
  | .kwarg k v => .kwarg (rewriteName c.alias bs c.kwRewrite k) (normE c bs v)
  | .star n v => .star n (normE c bs v)
  | .const k => .const k
  | .neg e => .neg (normE c bs e)
  | .list es => .list (normEs c bs es)
  | .tuple es => .tuple (normEs c bs es)
  | .set es => .set (normEs c bs es)
  | .dict es => .dict (normEs c bs es)
  | .lam ps b => .lam ps (normE c bs b)
  | .cmp l op r => .cmp (normE c bs l) op (normE c bs r)
  | .or_ l r => .or_ (normE c bs l) (normE c bs r)
  | .fstr ps => .fstr (normEs c bs ps)
  | .opaque t ss => .opaque t (normEs c bs ss)
def normEs (c : Cfg) (bs : Bindings) : List Expr → List Expr
  | [] => []
  | e :: es => normE c bs e :: normEs c bs es
end

/-- `_handle_import` / `_handle_import_from`: `none` = the line is dropped and bindings are added -/
def importBindings (c : Cfg) : Small → Option Bindings
  | .impMod dotted asname =>
    if dotted = c.moduleName then
      match asname with
      | some a => some [(a, [], [])]
      | none => match dotted with
        | [] => some []
        | r :: rest => some [(r, rest, [])]
    else none
  | .impFrom dotted names =>
    if dotted = c.moduleName then
      some ((names.map (fun p => ((p.2.getD p.1), ([] : List Name), [p.1]))).reverse)
    else none
  | _ => none

def normSmall (c : Cfg) (bs : Bindings) : Small → Small
  | .assign ts v => .assign (normEs c bs ts) (normE c bs v)
  | .expr e => .expr (normE c bs e)
  | .assert_ t => .assert_ (normE c bs t)
  | s => s

def normSmalls (c : Cfg) (bs : Bindings) : List Small → List Small
  | [] => []
  | s :: ss => normSmall c bs s :: normSmalls c bs ss

/-- The visitor walks the statements in source order; a SUT import registers its bindings when its
line is left, so only later lines are rewritten. -/
def normLines (c : Cfg) : Bindings → List Line → Bindings × List Line
  | bs, [] => (bs, [])
  | bs, .small s :: rest =>
    match importBindings c s with
    | some nb => normLines c (nb ++ bs) rest
    | none =>
      let r := normLines c bs rest
      (r.1, .small (normSmall c bs s) :: r.2)
  | bs, .with_ items body :: rest =>
    let r := normLines c bs rest
    (r.1, .with_ (normEs c bs items) (normSmalls c bs body) :: r.2)

/-- bindings established by the module-level statements before the test functions -/
def headerBindings (c : Cfg) (header : List Small) : Bindings :=
  header.foldl (fun bs s => match importBindings c s with
    | some nb => nb ++ bs
    | none => bs) []

/-! ## Name collection and renaming -/

mutual
def readsE : Expr → List Name
  | .name n => [n]
  | .attr e a => match chain (.attr e a) with
    | some ch => [ch.headD ""]
    | none => readsE e   -- repaired: the member name of an impure chain is not a read (unchanged tree: `++ [a]`)
  | .call f args => readsE f ++ readsEs args
  | .kwarg _ v => readsE v
  | .star _ v => readsE v
  | .const _ => []
  | .neg e => readsE e
  | .list es => readsEs es
  | .tuple es => readsEs es
  | .set es => readsEs es
  | .dict es => readsEs es
  | .lam ps b => ps ++ readsE b
  | .cmp l _ r => readsE l ++ readsE r
  | .or_ l r => readsE l ++ readsE r
  | .fstr ps => readsEs ps
  | .opaque _ ss => readsEs ss
def readsEs : List Expr → List Name
  | [] => []
  | e :: es => readsE e ++ readsEs es
end

mutual
def internalE : Expr → List Name
  | .name _ => []
  | .attr e _ => internalE e
  | .call f args => internalE f ++ internalEs args
  | .kwarg _ v => internalE v
  | .star _ v => internalE v
  | .const _ => []
  | .neg e => internalE e
  | .list es => internalEs es
  | .tuple es => internalEs es
  | .set es => internalEs es
  | .dict es => internalEs es
  | .lam ps b => ps ++ internalE b
  | .cmp l _ r => internalE l ++ internalE r
  | .or_ l r => internalE l ++ internalE r
  | .fstr ps => internalEs ps
  | .opaque _ ss => internalEs ss
def internalEs : List Expr → List Name
  | [] => []
  | e :: es => internalE e ++ internalEs es
end

def renameName (m : List (Name × Name)) (n : Name) : Name :=
  match m.find? (fun p => p.1 == n) with
  | some p => p.2
  | none => n

mutual
def renameE (m : List (Name × Name)) : Expr → Expr
  | .name n => .name (renameName m n)
  | .attr e a => .attr (renameE m e) (renameName m a)
  | .call f args => .call (renameE m f) (renameEs m args)
  | .kwarg k v => .kwarg (renameName m k) (renameE m v)
  | .star n v => .star n (renameE m v)
  | .const k => .const k
  | .neg e => .neg (renameE m e)
  | .list es => .list (renameEs m es)
  | .tuple es => .tuple (renameEs m es)
  | .set es => .set (renameEs m es)
  | .dict es => .dict (renameEs m es)
  | .lam ps b => .lam (ps.map (renameName m)) (renameE m b)
  | .cmp l op r => .cmp (renameE m l) op (renameE m r)
  | .or_ l r => .or_ (renameE m l) (renameE m r)
  | .fstr ps => .fstr (renameEs m ps)
  | .opaque t ss => .opaque t (renameEs m ss)
def renameEs (m : List (Name × Name)) : List Expr → List Expr
  | [] => []
  | e :: es => renameE m e :: renameEs m es
end

/-- targets of an assignment as `_BlockBindingCollector._add_targets` sees them -/
def targetNames : Expr → List Name
  | .name n => [n]
  | _ => []

def readsSmall : Small → List Name
  | .assign _ v => readsE v
  | .expr e => readsE e
  | .assert_ t => readsE t
  | _ => []

def internalSmall : Small → List Name
  | .assign ts v => ts.flatMap targetNames ++ internalE v
  | .expr e => internalE e
  | .assert_ t => internalE t
  | _ => []

def renameSmall (m : List (Name × Name)) : Small → Small
  | .assign ts v => .assign (renameEs m ts) (renameE m v)
  | .expr e => .expr (renameE m e)
  | .assert_ t => .assert_ (renameE m t)
  | s => s

def readsLine : Line → List Name
  | .small s => readsSmall s
  | .with_ items body => readsEs items ++ body.flatMap readsSmall

def internalLine : Line → List Name
  | .small s => internalSmall s
  | .with_ items body => internalEs items ++ body.flatMap internalSmall

def renameLine (m : List (Name × Name)) : Line → Line
  | .small s => .small (renameSmall m s)
  | .with_ items body => .with_ (renameEs m items) (body.map (renameSmall m))

/-! ## Literal values -/

/-- a float value: sign bit + `repr` of the magnitude (`inf`, `nan` possible) -/
structure FloatV where
  neg : Bool
  tok : String
  deriving DecidableEq, Repr, Inhabited

inductive Val where
  | none
  | bool (b : Bool)
  | int (z : Int)
  | float (f : FloatV)
  | str (tok : String)
  | bytes (tok : String)
  | list (xs : List Val)
  | tuple (xs : List Val)
  | set (xs : List Val)
  /-- alternating key, value -/
  | dict (kvs : List Val)
  deriving Repr, Inhabited

def constVal : Const → Val
  | .int n => .int n
  | .float t => .float ⟨false, t⟩
  | .str t => .str t
  | .bytes t => .bytes t
  | .true => .bool true
  | .false => .bool false
  | .none => .none

mutual
/-- `ast.literal_eval` on the printed expression (`_try_literal`) -/
def literalEval : Expr → Option Val
  | .const k => some (constVal k)
  | .neg (.const (.int n)) => some (.int (-(n : Int)))
  | .neg (.const (.float t)) => some (.float ⟨true, t⟩)
  | .list es => (literalEvals es).map .list
  | .tuple es => (literalEvals es).map .tuple
  | .set es => (literalEvals es).map .set
  | .dict es => (literalEvals es).map .dict
  | .call (.name "set") [] => some (.set [])
  | _ => none
def literalEvals : List Expr → Option (List Val)
  | [] => some []
  | e :: es => match literalEval e, literalEvals es with
    | some v, some vs => some (v :: vs)
    | _, _ => none
end

mutual
/-- `is_assertable(value, depth)` on literal values -/
def isAssertable : Val → Nat → Bool
  | .float _, _ => false
  | .none, d => decide (d ≤ 4)
  | .bool _, d => decide (d ≤ 4)
  | .int _, d => decide (d ≤ 4)
  | .str _, d => decide (d ≤ 4)
  | .bytes _, d => decide (d ≤ 4)
  | .list xs, d => decide (d ≤ 4) && allAssertable xs (d + 1)
  | .tuple xs, d => decide (d ≤ 4) && allAssertable xs (d + 1)
  | .set xs, d => decide (d ≤ 4) && allAssertable xs (d + 1)
  | .dict xs, d => decide (d ≤ 4) && allAssertable xs (d + 1)
def allAssertable : List Val → Nat → Bool
  | [], _ => true
  | x :: xs, d => isAssertable x d && allAssertable xs d
end

/-- `_make_float_literal` -/
def makeFloat (f : FloatV) : Expr :=
  if f.tok = "nan" then .call (.name "float") [.const (.str "nan")]
  else if f.tok = "inf" then .call (.name "float") [.const (.str (if f.neg then "-inf" else "inf"))]
  else if f.neg then .neg (.const (.float f.tok))
  else .const (.float f.tok)

def intExpr (z : Int) : Expr :=
  if z < 0 then .neg (.const (.int z.natAbs)) else .const (.int z.natAbs)

mutual
/-- `_value_to_cst` -/
def valueToCst : Val → Expr
  | .none => .const .none
  | .bool b => .const (if b then .true else .false)
  | .int z => intExpr z
  | .float f => makeFloat f
  | .str t => .const (.str t)
  | .bytes t => .const (.bytes t)
  | .list xs => .list (valuesToCst xs)
  | .tuple xs => .tuple (valuesToCst xs)
  | .set [] => .call (.name "set") []
  | .set (x :: xs) => .set (valuesToCst (x :: xs))
  | .dict xs => .dict (valuesToCst xs)
def valuesToCst : List Val → List Expr
  | [] => []
  | v :: vs => valueToCst v :: valuesToCst vs
end

/-! ## Assertions -/

inductive Assertion where
  | object (src : List Name) (v : Val)
  | float (src : List Name) (f : FloatV)
  | isinstance (src : List Name) (module : List Name) (qual : List Name)
  | len (src : List Name) (n : Int)
  | typeName (src : List Name) (module : String) (qual : String)
  deriving Repr, Inhabited

def Assertion.withSource (src : List Name) : Assertion → Assertion
  | .object _ v => .object src v
  | .float _ f => .float src f
  | .isinstance _ m q => .isinstance src m q
  | .len _ n => .len src n
  | .typeName _ m q => .typeName src m q

/-- `get_module_alias` -/
def aliasOf (module : List Name) : Name := module.getLastD "" ++ "_"

def precision : Expr := .const (.float "0.01")

/-- the `test` of the `assert` that `assertion_to_cst` builds -/
def renderTest : Assertion → Expr
  | .float src f =>
    .cmp (buildChain src) .eq
      (.call (.attr (.name "pytest") "approx") [makeFloat f, .kwarg "abs" precision, .kwarg "rel" precision])
  | .object src v =>
    match v with
    | .none => .cmp (buildChain src) .is_ (valueToCst v)
    | .bool _ => .cmp (buildChain src) .is_ (valueToCst v)
    | _ => .cmp (buildChain src) .eq (valueToCst v)
  | .typeName src m q =>
    let ty := Expr.call (.name "type") [buildChain src]
    .cmp (.fstr [.attr ty "__module__", .const (.str "."), .attr ty "__qualname__"]) .eq
      (.const (.str (m ++ "." ++ q)))
  | .isinstance src m q =>
    .call (.name "isinstance")
      [buildChain src, if m = ["builtins"] then .name (".".intercalate q) else buildChain (aliasOf m :: q)]
  | .len src n => .cmp (.call (.name "len") [buildChain src]) .eq (intExpr n)

def renderAssertion (a : Assertion) : Line := .small (.assert_ (renderTest a))

/-- the value of a call argument (`test.args[i].value`) -/
def argValue : Expr → Expr
  | .kwarg _ v => v
  | .star _ v => v
  | e => e

def parseBare (known : List Name) : Expr → Option (Name × Assertion)
  | .name n => if n ∈ known then some (n, .object [n] (.bool true)) else none
  | _ => none

/-- `_resolve_type_ref` -/
def resolveTypeRef (c : Cfg) (e : Expr) : Option (List Name × List Name) :=
  match e with
  | .name n => if n ∈ c.builtinNames then some (["builtins"], [n]) else none
  | _ => match chain e with
    | some (_ :: q :: qs) => some (c.moduleName, q :: qs)
    | _ => none

def parseIsinstance (c : Cfg) (known : List Name) : Expr → Option (Name × Assertion)
  | .call (.name "isinstance") [a0, a1] =>
    match argValue a0 with
    | .name r =>
      if r ∈ known then
        match resolveTypeRef c (argValue a1) with
        | some (m, q) => some (r, .isinstance [r] m q)
        | none => none
      else none
    | _ => none
  | _ => none

def parseLen (known : List Name) : Expr → Option (Name × Assertion)
  | .cmp (.call (.name "len") [a]) .eq rhs =>
    match argValue a, literalEval rhs with
    | .name r, some (.int z) => if r ∈ known then some (r, .len [r] z) else none
    | _, _ => none
  | _ => none

def parseEqLit (known : List Name) : Expr → Option (Name × Assertion)
  | .cmp (.name l) op rhs =>
    if (op = .eq ∨ op = .is_) ∧ l ∈ known then
      match literalEval rhs with
      | some (.float f) => some (l, .float [l] f)
      | some v => if isAssertable v 0 then some (l, .object [l] v) else none
      | none => none
    else none
  | _ => none

def parseShapes (c : Cfg) (known : List Name) (t : Expr) : Option (Name × Assertion) :=
  (parseBare known t).orElse fun _ =>
  (parseIsinstance c known t).orElse fun _ =>
  (parseLen known t).orElse fun _ =>
  parseEqLit known t

/-- `parse_assertion`: `a or b` tries each operand in turn -/
def parseAssertion (c : Cfg) (known : List Name) : Expr → Option (Name × Assertion)
  | .or_ l r => (parseAssertion c known l).orElse fun _ => parseAssertion c known r
  | t => parseShapes c known t

/-! ## Statement deserialisation -/

structure PStmt where
  node : Line
  bound : Option Name := none
  assertions : List Assertion := []
  deriving Repr, Inhabited

structure St where
  known : List Name
  stmts : List PStmt := []
  renameMap : List (Name × Name) := []
  lastIdx : List (Name × Nat) := []
  /-- keys of `bound_types_by_orig` -/
  boundKeys : List Name := []
  counter : Nat := 0
  deriving Repr, Inhabited

def subsetB (xs ys : List Name) : Bool := xs.all (fun x => ys.contains x)

def removeAll (xs ys : List Name) : List Name := xs.filter (fun x => !ys.contains x)

def lookupIdx (m : List (Name × Nat)) (n : Name) : Option Nat :=
  match m.find? (fun p => p.1 == n) with
  | some p => some p.2
  | none => none

/-- `_admit_small_statement`: `some (bound variable, value)` or `none` (unsupported shape) -/
def admitSmall : Small → Option (Option Name × Expr)
  | .assign [.name t] v => some (some t, v)
  | .expr e => some (none, e)
  | _ => none

def appendAssertion (ps : List PStmt) (i : Nat) (a : Assertion) : List PStmt :=
  ps.modify i (fun p => { p with assertions := p.assertions ++ [a] })

def handleOrdinary (c : Cfg) (st : St) (s : Small) : St :=
  match admitSmall s with
  | none => st
  | some (bv, value) =>
    let names0 := readsSmall s
    let names1 := match bv with
      | some b => removeAll names0 [b]
      | none => names0
    let names := if c.lambdaReads then names1 else removeAll names1 (internalE value)
    if !subsetB names st.known then st
    else
      match bv with
      | some b =>
        let fresh := !st.boundKeys.contains b
        let nb := if fresh then b else s!"var_{st.counter}"
        let rm := (b, nb) :: st.renameMap
        { known := b :: st.known
          stmts := st.stmts ++ [{ node := .small (renameSmall rm s), bound := some nb }]
          renameMap := rm
          lastIdx := (b, st.stmts.length) :: st.lastIdx
          boundKeys := b :: st.boundKeys
          counter := if fresh then st.counter else st.counter + 1 }
      | none =>
        { st with stmts := st.stmts ++ [{ node := .small (renameSmall st.renameMap s) }] }

def handleAssert (c : Cfg) (st : St) (t : Expr) : St :=
  match parseAssertion c st.boundKeys t with
  | some (var, a) =>
    match lookupIdx st.lastIdx var with
    | some idx =>
      let src := match st.stmts[idx]? with
        | some p => (match p.bound with | some b => [b] | none => [var])
        | none => [var]
      let tgt := if c.attachToBinder then idx else st.stmts.length - 1
      { st with stmts := appendAssertion st.stmts tgt (a.withSource src) }
    | none => st
  | none =>
    if !subsetB (readsE t) st.known then st
    else { st with stmts := st.stmts ++ [{ node := .small (renameSmall st.renameMap (.assert_ t)) }] }

def handleCompound (st : St) (l : Line) : St :=
  if !subsetB (removeAll (readsLine l) (internalLine l)) st.known then st
  else { st with stmts := st.stmts ++ [{ node := renameLine st.renameMap l }] }

/-- `_imported_local_names` -/
def importedLocalNames : Small → List Name
  | .impMod dotted asname => match asname with
    | some a => [a]
    | none => [dotted.headD ""]
  | .impFrom _ names => names.map (fun p => p.2.getD p.1)
  | _ => []

def isImport : Small → Bool
  | .impMod _ _ => true
  | .impFrom _ _ => true
  | _ => false

def step (c : Cfg) (st : St) : Line → St
  | .with_ items body => handleCompound st (.with_ items body)
  | .small (.assert_ t) => if c.createAssertions then handleAssert c st t else st
  | .small s =>
    if isImport s then
      { st with known := importedLocalNames s ++ st.known, stmts := st.stmts ++ [{ node := .small s }] }
    else handleOrdinary c st s

def run (c : Cfg) : St → List Line → St
  | st, [] => st
  | st, l :: ls => run c (step c st l) ls

def initSt (c : Cfg) : St := { known := c.ambient }

/-- `deserialize_function(fn).test_case` on an already normalised body -/
def deserialize (c : Cfg) (body : List Line) : List PStmt := (run c (initSt c) body).stmts

/-- `_build_test_function` body with all `exc_types` `None`: statement node, then its assertions -/
def renderBody : List PStmt → List Line
  | [] => []
  | p :: ps => (p.node :: p.assertions.map renderAssertion) ++ renderBody ps

/-- `parse_seed_module` for one test function: module-level normalisation (bindings from the header),
then the per-function pass (its own fresh normaliser), then statement deserialisation. -/
def parseFunction (c : Cfg) (header : List Small) (body : List Line) : List PStmt :=
  let b1 := (normLines c (headerBindings c header) body).2
  let b2 := (normLines c [] b1).2
  deserialize c b2

/-- All test functions of a module in file order.  `normalize_sut_references` runs ONE normaliser over
the whole module, so a SUT import inside an earlier function's body stays registered for every later
function (files written by pynguin have no such imports; then this is `parseFunction` per function). -/
def parseFunctions (c : Cfg) : Bindings → List (List Line) → List (List PStmt)
  | _, [] => []
  | bs, body :: rest =>
    let r := normLines c bs body
    deserialize c (normLines c [] r.2).2 :: parseFunctions c r.1 rest

/-- the loop of `parse_seed_module` over the deserialised test functions (file order): a function
contributes its test case iff at least one statement was admitted (`testcase.size() > 0`); nothing
else decides — in particular NOT whether an equal-looking test case was imported before. -/
def collect (tcs : List (List PStmt)) : List (List PStmt) := tcs.filter (fun tc => !tc.isEmpty)

/-- `parse_seed_module`: the returned list of test cases -/
def parseSeedModule (c : Cfg) (bs : Bindings) (fns : List (List Line)) : List (List PStmt) :=
  collect (parseFunctions c bs fns)

/-- file-order positions of the functions whose test case is returned (what the driver reports) -/
def contributingFrom : Nat → List (List PStmt) → List Nat
  | _, [] => []
  | i, tc :: rest => if tc.isEmpty then contributingFrom (i + 1) rest else i :: contributingFrom (i + 1) rest

def contributing (tcs : List (List PStmt)) : List Nat := contributingFrom 0 tcs

/-- NOT the code: the loop with a de-duplication step (`elif testcase in testcases: skip`), for any
notion `same` of "already imported" — kept to state what goes wrong (`C24_dedup_cex`). -/
def collectDedup (same : List PStmt → List PStmt → Bool) :
    List (List PStmt) → List (List PStmt) → List (List PStmt)
  | acc, [] => acc
  | acc, tc :: rest =>
    if tc.isEmpty then collectDedup same acc rest
    else if acc.any (fun t => same tc t) then collectDedup same acc rest
    else collectDedup same (acc ++ [tc]) rest

/-- the module-level normal forms that go with `parseFunctions` -/
def specBodies (c : Cfg) : Bindings → List (List Line) → List (List Line)
  | _, [] => []
  | bs, body :: rest =>
    let r := normLines c bs body
    r.2 :: specBodies c r.1 rest

/-- the specification's normal form of an exported body: SUT references in alias form (for a
configuration with `kwRewrite = false`, i.e. the repaired normaliser) -/
def specBody (c : Cfg) (header : List Small) (body : List Line) : List Line :=
  (normLines c (headerBindings c header) body).2

def isAssertLine : Line → Bool
  | .small (.assert_ _) => true
  | _ => false

end PynguinModel.SeedRoundTrip
