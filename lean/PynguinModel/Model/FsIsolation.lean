/-!
# Model of `pynguin.utils.fs_isolation.FilesystemIsolation` (C29)

Mathlib-free, executable.  Mirrors `src/pynguin/utils/fs_isolation.py` **with
`proposed_fixes/C29-record-only-new-paths.diff` applied** (see design_notes/C29.md):

* `_created`                        ↔ `St.created` (a list used as a set)
* `_is_isolated` / `_owns` / `_refuse_overwrite` ↔ `covered` / `owns` / `!owns`
* `_create_tracked_method`          ↔ `tracked` (check `forget` ∈ created, refuse a replaced non-isolated
  destination, decide `owned` *before* the call, call, forget, then record `owned`)
* `_create_open_tracked`, `_os_open_tracked` ↔ `trackedOpen` (same shape after the repair)
* `_create_path_rename_replace_tracked` ↔ `pathRename`
* the `patches` table of `_initialize_patches` ↔ the `Track` records used by `osMkdir`, `makedirs`, …
* `__exit__`                        ↔ `exitCleanup` (deepest first; `rmtree` for directories, `unlink` otherwise)

The patched library functions call each other through the patched module attributes (e.g.
`os.makedirs → os.mkdir`, `Path.write_text → Path.open → io.open`, `shutil.copy → copyfile → open`,
`shutil.move → os.rename`, `shutil.rmtree → os.rmdir`); the model composes the tracked functions in the
same way.  The operating system is a finite map from paths (component lists below the sandbox root)
to nodes.  Subtree operations are used for `unlink`/`rmdir` as well; on a well-formed tree (files have
no children, `rmdir` needs an empty directory) they coincide with the single-entry operations.
-/

namespace PynguinModel.FsIsolation

abbrev Path := List String

inductive Node where
  | file (content : List Nat)
  | dir
  deriving DecidableEq, Repr

abbrev FS := List (Path × Node)

/-- `fs[p]` — first matching entry. -/
def get : FS → Path → Option Node
  | [], _ => none
  | (q, n) :: rest, p => if q = p then some n else get rest p

def pexists (fs : FS) (p : Path) : Bool := (get fs p).isSome

def isDir (fs : FS) (p : Path) : Bool :=
  match get fs p with
  | some .dir => true
  | _ => false

def isFile (fs : FS) (p : Path) : Bool :=
  match get fs p with
  | some (.file _) => true
  | _ => false

/-- `p` is `r` or an ancestor of `r`. -/
def under (p r : Path) : Bool := p.isPrefixOf r

def parent (p : Path) : Path := p.dropLast

def base (p : Path) : String := p.getLast?.getD ""

/-- some entry strictly below `p` exists -/
def hasBelow (fs : FS) (p : Path) : Bool := fs.any (fun e => under p e.1 && e.1 != p)

def put (fs : FS) (p : Path) (n : Node) : FS := (p, n) :: fs.filter (fun e => e.1 != p)

def removeSubtree (fs : FS) (p : Path) : FS := fs.filter (fun e => !under p e.1)

def removeBelow (fs : FS) (p : Path) : FS := fs.filter (fun e => !(under p e.1 && e.1 != p))

def rekey (p q r : Path) : Path := q ++ r.drop p.length

/-- move the subtree rooted at `p` to `q` (whatever was at or below `q` is replaced) -/
def renameSubtree (fs : FS) (p q : Path) : FS :=
  (fs.filter (fun e => !under p e.1 && !under q e.1))
    ++ (fs.filter (fun e => under p e.1)).map (fun e => (rekey p q e.1, e.2))

/-! ## The unpatched operating-system calls (`none` = the call raises an `OSError`) -/

structure OpenSpec where
  create : Bool := false
  excl : Bool := false
  trunc : Bool := false
  append : Bool := false
  writable : Bool := false
  dirOk : Bool := false
  directory : Bool := false

/-- what a write of `data` right after opening leaves in the file -/
def written (sp : OpenSpec) (old data : List Nat) : List Nat :=
  let old := if sp.trunc then [] else old
  if !sp.writable then old
  else if sp.append then old ++ data
  else data ++ old.drop data.length

/-- `open`/`os.open` followed by one `write(data)` (if writable) and `close`. -/
def rawOpen (sp : OpenSpec) (fs : FS) (p : Path) (data : List Nat) : Option FS :=
  match get fs p with
  | none =>
    if sp.create && isDir fs (parent p) && !sp.directory then some (put fs p (.file (written sp [] data)))
    else none
  | some .dir => if sp.dirOk then some fs else none
  | some (.file old) =>
    if (sp.create && sp.excl) || sp.directory then none
    else if sp.writable || sp.trunc then some (put fs p (.file (written sp old data)))
    else some fs

inductive MkErr where | notFound | other
  deriving DecidableEq

/-- `os.mkdir` distinguishes `FileNotFoundError` (used by `Path.mkdir(parents=True)`). -/
def rawMkdir (fs : FS) (p : Path) : Except MkErr FS :=
  if pexists fs p then .error .other
  else match get fs (parent p) with
    | none => .error .notFound
    | some .dir => .ok (put fs p .dir)
    | some (.file _) => .error .other

/-- POSIX `rename(2)` (= `os.rename` = `os.replace`). -/
def rawRename (fs : FS) (p q : Path) : Option FS :=
  match get fs p with
  | none => none
  | some src =>
    if p = q then some fs
    else if under p q then none                       -- EINVAL: into its own subtree
    else if !isDir fs (parent q) then none            -- ENOENT / ENOTDIR
    else match src, get fs q with
      | _, none => some (renameSubtree fs p q)
      | .file _, some (.file _) => some (renameSubtree fs p q)
      | .file _, some .dir => none                    -- EISDIR
      | .dir, some (.file _) => none                  -- ENOTDIR
      | .dir, some .dir => if hasBelow fs q then none else some (renameSubtree fs p q)   -- ENOTEMPTY

def rawUnlink (fs : FS) (p : Path) : Option FS :=
  if isFile fs p then some (removeSubtree fs p) else none

def rawRmdir (fs : FS) (p : Path) : Option FS :=
  if isDir fs p && !hasBelow fs p then some (removeSubtree fs p) else none

/-! ## The isolation layer -/

structure St where
  fs : FS
  created : List Path

inductive Res where
  | ok
  | refused      -- PermissionError raised by the isolation layer
  | failed       -- any other exception
  | notFound     -- FileNotFoundError of `os.mkdir` (reported as `failed`)
  | unmodelled   -- `shutil.move` fell back to `copytree` (not modelled; state left unchanged)
  deriving DecidableEq, Repr

/-- `_is_isolated`: the path or one of its ancestors is in `_created`. -/
def covered (cr : List Path) (r : Path) : Bool := cr.any (fun c => under c r)

/-- `_owns`: the path does not exist yet, or lives inside the isolation. -/
def owns (s : St) (p : Path) : Bool := !pexists s.fs p || covered s.created p

/-- `_forget`: `set.discard`. -/
def forget (cr : List Path) (p : Path) : List Path := cr.filter (fun c => c != p)

def forgetOpt (cr : List Path) : Option Path → List Path
  | none => cr
  | some p => forget cr p

/-- `_record_created`: `set.update`. -/
def record (cr : List Path) (ps : List Path) : List Path := cr ++ ps

def optList : Option Path → List Path
  | none => []
  | some p => [p]

/-- one entry of the `patches` table, with the actual arguments filled in -/
structure Track where
  recArg : Option Path := none
  dstArg : Option Path := none
  forgetArg : Option Path := none
  replacesDst : Bool := false

/-- `_create_tracked_method(original, **track_kwargs)` applied to concrete arguments. -/
def tracked (t : Track) (body : St → St × Res) (s : St) : St × Res :=
  if (optList t.forgetArg).any (fun p => !decide (p ∈ s.created)) then (s, .refused)
  else if t.replacesDst && (optList t.dstArg).any (fun q => !owns s q) then (s, .refused)
  else
    let owned := (optList t.recArg ++ optList t.dstArg).filter (owns s)
    let r := body s
    if r.2 = .ok then (⟨r.1.fs, record (forgetOpt r.1.created t.forgetArg) owned⟩, .ok)
    else r

/-- an unpatched call as a state transformer -/
def liftRaw (f : FS → Option FS) (s : St) : St × Res :=
  match f s.fs with
  | some fs' => (⟨fs', s.created⟩, .ok)
  | none => (s, .failed)

/-- `_create_open_tracked` / `_os_open_tracked`: `write` = `_is_write_mode(mode)` resp. `flags & write_flags`. -/
def trackedOpen (write : Bool) (p : Path) (inner : St → St × Res) (s : St) : St × Res :=
  if write && !owns s p then (s, .refused)
  else
    let r := inner s
    if r.2 = .ok then (if write then (⟨r.1.fs, record r.1.created [p]⟩, .ok) else r)
    else r

inductive Mode where
  | r | w | a | x | rp | wp | ap | rb | wb | ab
  deriving DecidableEq, Repr

/-- `_is_write_mode`: any of the characters `w a x +`. -/
def isWriteMode : Mode → Bool
  | .r | .rb => false
  | _ => true

def modeSpec : Mode → OpenSpec
  | .r | .rb => {}
  | .w | .wb | .wp => { create := true, trunc := true, writable := true }
  | .a | .ab | .ap => { create := true, append := true, writable := true }
  | .x => { create := true, excl := true, writable := true }
  | .rp => { writable := true }

/-- the `os.open` flag combinations used by the harness -/
inductive Flags where
  | rdonly | rdonlyDir | wronly | rdwr | creat | creatTrunc | creatExcl | append | rdonlyCreat | wrTrunc
  deriving DecidableEq, Repr

/-- `flags & write_flags` with write_flags = O_WRONLY|O_RDWR|O_CREAT|O_TRUNC|O_APPEND. -/
def flagged : Flags → Bool
  | .rdonly | .rdonlyDir => false
  | _ => true

def flagSpec : Flags → OpenSpec
  | .rdonly => { dirOk := true }
  | .rdonlyDir => { dirOk := true, directory := true }
  | .wronly | .rdwr => { writable := true }
  | .creat => { create := true, writable := true }
  | .creatTrunc => { create := true, trunc := true, writable := true }
  | .creatExcl => { create := true, excl := true, writable := true }
  | .append => { append := true, writable := true }
  | .rdonlyCreat => { create := true }
  | .wrTrunc => { trunc := true, writable := true }

/-- `builtins.open` / `io.open` -/
def builtinOpen (p : Path) (m : Mode) (data : List Nat) : St → St × Res :=
  trackedOpen (isWriteMode m) p (liftRaw (fun fs => rawOpen (modeSpec m) fs p data))

/-- `Path.open` (patched) calls `io.open` (patched) -/
def pathOpen (p : Path) (m : Mode) (data : List Nat) : St → St × Res :=
  trackedOpen (isWriteMode m) p (builtinOpen p m data)

/-- `os.open` (+ `os.write`, `os.close`) -/
def osOpen (p : Path) (fl : Flags) (data : List Nat) : St → St × Res :=
  trackedOpen (flagged fl) p (liftRaw (fun fs => rawOpen (flagSpec fl) fs p data))

def liftMkdir (p : Path) (s : St) : St × Res :=
  match rawMkdir s.fs p with
  | .ok fs' => (⟨fs', s.created⟩, .ok)
  | .error .notFound => (s, .notFound)
  | .error .other => (s, .failed)

/-- `(os, "mkdir"): {"record_arg_idx": 0}` -/
def osMkdir (p : Path) : St → St × Res := tracked { recArg := some p } (liftMkdir p)

/-- `(os, "rename")` / `(os, "replace")`: `{"forget_arg_idx": 0, "record_dst_idx": 1, "replaces_dst": True}` -/
def osRename (p q : Path) : St → St × Res :=
  tracked { forgetArg := some p, dstArg := some q, replacesDst := true } (liftRaw (fun fs => rawRename fs p q))

/-- `(os, "remove")` / `(os, "unlink")`: `{"forget_arg_idx": 0}` -/
def osUnlink (p : Path) : St → St × Res := tracked { forgetArg := some p } (liftRaw (fun fs => rawUnlink fs p))

/-- `(os, "rmdir"): {"forget_arg_idx": 0}` -/
def osRmdir (p : Path) : St → St × Res := tracked { forgetArg := some p } (liftRaw (fun fs => rawRmdir fs p))

/-- `os.makedirs(name, exist_ok=…)`; the recursion on the head goes through the patched `os.makedirs`,
the leaf through the patched `os.mkdir`.  `fuel` bounds the recursion depth (`p.length + 1` suffices). -/
def makedirsAux : Nat → Path → Bool → St → St × Res
  | 0, _, _, s => (s, .failed)
  | fuel + 1, p, existOk, s =>
    tracked { recArg := some p } (fun s =>
      let r1 := if p ≠ [] ∧ !pexists s.fs (parent p) then makedirsAux fuel (parent p) existOk s else (s, .ok)
      if r1.2 ≠ .ok then r1
      else
        let r2 := osMkdir p r1.1
        if r2.2 = .ok then r2
        else if existOk && isDir r2.1.fs p then (r2.1, .ok)
        else r2) s

def makedirs (p : Path) (existOk : Bool) : St → St × Res := makedirsAux (p.length + 1) p existOk

/-- `Path.mkdir(parents=…, exist_ok=…)`: `(Path, "mkdir"): {"record_arg_idx": 0}` around `os.mkdir`. -/
def pathMkdirAux : Nat → Path → Bool → Bool → St → St × Res
  | 0, _, _, _, s => (s, .failed)
  | fuel + 1, p, parents, existOk, s =>
    tracked { recArg := some p } (fun s =>
      let r1 := osMkdir p s
      if r1.2 = .ok then r1
      else if r1.2 = .notFound then
        if !parents || p = [] then r1
        else
          let r2 := pathMkdirAux fuel (parent p) true true r1.1
          if r2.2 ≠ .ok then r2
          else pathMkdirAux fuel p false existOk r2.1
      else if existOk && isDir r1.1.fs p then (r1.1, .ok)
      else r1) s

def pathMkdir (p : Path) (parents existOk : Bool) : St → St × Res :=
  pathMkdirAux (2 * p.length + 2) p parents existOk

/-- `Path.touch(exist_ok=…)`: `(Path, "touch"): {"record_arg_idx": 0}`; `os.utime` first, else `os.open`. -/
def touch (p : Path) (existOk : Bool) : St → St × Res :=
  tracked { recArg := some p } (fun s =>
    if existOk && pexists s.fs p then (s, .ok)
    else osOpen p (if existOk then .creat else .creatExcl) [] s)

/-- `Path.write_text` / `Path.write_bytes`: `{"record_arg_idx": 0}` around `Path.open(mode="w")`. -/
def writeText (p : Path) (data : List Nat) : St → St × Res :=
  tracked { recArg := some p } (pathOpen p .w data)

def contentOf (fs : FS) (p : Path) : List Nat :=
  match get fs p with
  | some (.file c) => c
  | _ => []

/-- `shutil.copyfile`: `{"record_dst_idx": 1}`; `open(src, "rb")` then `open(dst, "wb")`, both patched. -/
def copyfile (p q : Path) : St → St × Res :=
  tracked { dstArg := some q } (fun s =>
    if p = q && pexists s.fs p then (s, .failed)           -- SameFileError
    else
      let r1 := builtinOpen p .rb [] s
      if r1.2 ≠ .ok then r1
      else builtinOpen q .wb (contentOf r1.1.fs p) r1.1)

/-- `shutil.copy` / `shutil.copy2`: `{"record_dst_idx": 1}`; a directory destination means "into it". -/
def copy (p q : Path) : St → St × Res :=
  tracked { dstArg := some q } (fun s =>
    copyfile p (if isDir s.fs q then q ++ [base p] else q) s)

/-- the part of `shutil.move` after `real_dst` is known -/
def moveTo (p q real : Path) (s : St) : St × Res :=
  let r1 := osRename p real s
  if r1.2 = .ok then r1
  else if isDir r1.1.fs p then
    if under p q then (r1.1, .failed)                       -- `_destinsrc`
    else if pexists r1.1.fs real then (r1.1, .failed)       -- copytree → makedirs(real_dst) FileExistsError
    else (r1.1, .unmodelled)                                -- copytree fallback
  else
    -- `copy_function` is the *unpatched* `copy2` (default argument), which calls the patched `copyfile`
    let r2 := copyfile p real r1.1
    if r2.2 ≠ .ok then r2 else osUnlink p r2.1

/-- `shutil.move`: `{"forget_arg_idx": 0, "record_dst_idx": 1}` -/
def move (p q : Path) : St → St × Res :=
  tracked { forgetArg := some p, dstArg := some q } (fun s =>
    if isDir s.fs q then
      if p = q then osRename p q s                           -- `_samefile`
      else if pexists s.fs (q ++ [base p]) then (s, .failed)
      else moveTo p q (q ++ [base p]) s
    else moveTo p q q s)

/-- `_create_path_rename_replace_tracked` around `Path.rename`/`Path.replace` (which call `os.rename`/`os.replace`). -/
def pathRename (p q : Path) (s : St) : St × Res :=
  if !decide (p ∈ s.created) then (s, .refused)
  else
    let owned := owns s q
    let r := osRename p q s
    if r.2 = .ok then (⟨r.1.fs, record (forget r.1.created p) (if owned then [q] else [])⟩, .ok)
    else r

/-- `Path.unlink()`: `{"forget_arg_idx": 0}` around `os.unlink` -/
def pathUnlink (p : Path) : St → St × Res := tracked { forgetArg := some p } (osUnlink p)

/-- `Path.rmdir()`: `{"forget_arg_idx": 0}` around `os.rmdir` -/
def pathRmdir (p : Path) : St → St × Res := tracked { forgetArg := some p } (osRmdir p)

/-- `shutil.rmtree(path)`: `{"forget_arg_idx": 0}`; the entries are removed through `dir_fd`-relative calls
(passed through unrecorded), the top directory through the patched `os.rmdir(path)`. -/
def rmtree (p : Path) : St → St × Res :=
  tracked { forgetArg := some p } (fun s =>
    if !isDir s.fs p then (s, .failed)
    else osRmdir p ⟨removeBelow s.fs p, s.created⟩)

/-! ## Operations offered to the code under test -/

inductive OpenApi where | builtin | io | path
  deriving DecidableEq, Repr
inductive RenameApi where | osRename | osReplace | pathRename | pathReplace
  deriving DecidableEq, Repr
inductive CopyApi where | copyfile | copy | copy2
  deriving DecidableEq, Repr
inductive RemoveApi where | osRemove | osUnlink | pathUnlink
  deriving DecidableEq, Repr
inductive RmdirApi where | os | path
  deriving DecidableEq, Repr

inductive Op where
  | fopen (api : OpenApi) (p : Path) (mode : Mode) (data : List Nat)
  | osopen (p : Path) (flags : Flags) (data : List Nat)
  | writeText (p : Path) (data : List Nat)
  | touch (p : Path) (existOk : Bool)
  | mkdir (p : Path)
  | makedirs (p : Path) (existOk : Bool)
  | pmkdir (p : Path) (parents : Bool) (existOk : Bool)
  | rename (api : RenameApi) (p q : Path)
  | copy (api : CopyApi) (p q : Path)
  | move (p q : Path)
  | remove (api : RemoveApi) (p : Path)
  | rmdir (api : RmdirApi) (p : Path)
  | rmtree (p : Path)
  deriving Repr

def step (op : Op) : St → St × Res :=
  match op with
  | .fopen .builtin p m d => builtinOpen p m d
  | .fopen .io p m d => builtinOpen p m d
  | .fopen .path p m d => pathOpen p m d
  | .osopen p fl d => osOpen p fl d
  | .writeText p d => writeText p d
  | .touch p e => touch p e
  | .mkdir p => osMkdir p
  | .makedirs p e => makedirs p e
  | .pmkdir p ps e => pathMkdir p ps e
  | .rename .osRename p q => osRename p q
  | .rename .osReplace p q => osRename p q
  | .rename .pathRename p q => pathRename p q
  | .rename .pathReplace p q => pathRename p q
  | .copy .copyfile p q => copyfile p q
  | .copy .copy p q => copy p q
  | .copy .copy2 p q => copy p q
  | .move p q => move p q
  | .remove .osRemove p => osUnlink p
  | .remove .osUnlink p => osUnlink p
  | .remove .pathUnlink p => pathUnlink p
  | .rmdir .os p => osRmdir p
  | .rmdir .path p => pathRmdir p
  | .rmtree p => rmtree p

/-- The code under test: every operation is attempted, exceptions are swallowed by the caller. -/
def run (ops : List Op) (s : St) : St := ops.foldl (fun s op => (step op s).1) s

/-- the same, keeping the per-operation outcomes (driver) -/
def runLog (ops : List Op) (s : St) : St × List Res :=
  ops.foldl (fun acc op => let r := step op acc.1; (r.1, acc.2 ++ [r.2])) (s, [])

/-- sort key of `__exit__`: `(p.count(os.sep), p)`, reversed -/
def exitBefore (a b : Path) : Bool :=
  a.length > b.length || (a.length == b.length && !(String.intercalate "/" a < String.intercalate "/" b))

/-- `__exit__`: for every recorded path, deepest first: directories by `shutil.rmtree(ignore_errors=True)`,
everything else by `unlink` (a missing path is skipped). -/
def exitCleanup (s : St) : FS := (s.created.mergeSort exitBefore).foldl removeSubtree s.fs

/-- enter (nothing recorded yet), run the code under test, exit -/
def isolatedRun (init : FS) (ops : List Op) : FS := exitCleanup (run ops ⟨init, []⟩)

/-- every ancestor of an existing path exists (true of any real directory tree) -/
def PrefixClosed (fs : FS) : Prop := ∀ r q, get fs r ≠ none → q <+: r → get fs q ≠ none

/-- executable form of `PrefixClosed` (used by the driver to reject ill-formed initial trees) -/
def prefixClosedB (fs : FS) : Bool :=
  fs.all (fun e => (List.range (e.1.length + 1)).all (fun k => pexists fs (e.1.take k)))

/-- `_create_open_tracked` as it was BEFORE the repair (kept only for the counterexample `C29_legacy_…_cex`):
no refusal, and a write-mode open always records its target, even if the file existed before. -/
def legacyTrackedOpen (write : Bool) (p : Path) (inner : St → St × Res) (s : St) : St × Res :=
  let r := inner s
  if r.2 = .ok then (if write then (⟨r.1.fs, record r.1.created [p]⟩, .ok) else r) else r

end PynguinModel.FsIsolation
