/-
Model of the fitness / coverage / covered-verdict computations of pynguin and of trace merging
(properties C10 and C11).

Mirrored Python code (one Lean definition per Python function, written the way the code is written):

* `pynguin.instrumentation.tracer.ExecutionTrace`      → `Trace` (`merge`, `_merge_min`,
  `update_predicate_distances`); `OrderedSet.update` → `osUpdate`; `dict` → `Dict` (`dget`, `dset`)
* `pynguin.instrumentation.tracer.SubjectProperties`   → `Registry` (`branch_less_code_objects`)
* `pynguin.ga.fitness_metrics`                         → `normalise`, `analyze`, `predicateFitness`,
  `branchFitness`, `branchIsCovered` (repaired: `.items()`), `branchIsCoveredOrig` (unchanged code,
  kept for the counterexample theorem), `lineIsCovered`, `checkedIsCovered`, `branchCoverage`,
  `lineCoverage`
* `pynguin.ga.computations`                            → `lineSuiteFitness`, `checkedSuiteFitness`,
  `checkedCoverage` (statement-checked coverage), `derivedCovered` (`ComputationCache`'s verdict)
* `pynguin.utils.controlflowdistance`                  → `CFD`, `rootDistance`, `nonRootDistance`,
  `resultingFitness`
* `pynguin.ga.coveragegoals`                           → `branchGoalIsCovered`, `branchlessGoalIsCovered`,
  `lineGoalIsCovered`, `checkedGoalIsCovered`, `lineGoalFitness`, …

Numbers: Python floats are modelled by `Dist` = exact rational (core `Rat`) or `+inf`; NaN is not
modelled (C04 guarantees NaN-free distances).  Exceptions the Python code can raise are modelled
explicitly (`Except Err`): `KeyError` (`d[k]`), `RuntimeError` (`normalise` of a negative value),
`AssertionError` (the `assert` statements).  networkx' `shortest_path_length` on the CDG is a
parameter: the table `CodeMeta.paths` (absent entry = `NetworkXNoPath`/`NodeNotFound`); the CFG
diameter is the field `CodeMeta.diameter`.
Mathlib-free.
-/
namespace PynguinModel.Fitness

/-! ### Floats that are distances -/

/-- A Python float used as a distance / fitness: an exact rational or `+inf`. -/
inductive Dist where
  | fin (q : Rat)
  | inf
  deriving DecidableEq, Repr, Inhabited

/-- `v == 0.0` (also `math.isclose(v, 0.0)`: with the default `abs_tol = 0` it holds only for 0). -/
def Dist.isZero : Dist → Bool
  | .fin q => decide (q = 0)
  | .inf => false

/-- `a < b` on floats. -/
def Dist.lt : Dist → Dist → Bool
  | .fin a, .fin b => decide (a < b)
  | .fin _, .inf => true
  | .inf, _ => false

/-- `v >= 0` on floats. -/
def Dist.nonneg : Dist → Bool
  | .fin q => decide (0 ≤ q)
  | .inf => true

/-- Python `min(a, b)`: the first argument unless the second is strictly smaller. -/
def dmin (a b : Dist) : Dist := if Dist.lt b a then b else a

/-- float addition (no NaN can arise: `-inf` is not representable). -/
def Dist.add : Dist → Dist → Dist
  | .fin a, .fin b => .fin (a + b)
  | _, _ => .inf

inductive Err where
  | key        -- KeyError
  | runtime    -- RuntimeError
  | assertion  -- AssertionError
  deriving DecidableEq, Repr, Inhabited

deriving instance DecidableEq for Except

/-! ### `dict[int, V]` as an insertion-ordered association list with unique keys -/

abbrev Dict (V : Type) := List (Nat × V)

def keys {V} (d : Dict V) : List Nat := d.map (·.1)

/-- `d.get(k)` -/
def dget {V} : Dict V → Nat → Option V
  | [], _ => none
  | (k', v) :: d, k => if k' = k then some v else dget d k

/-- `d[k] = v` (keeps the position of an existing key, appends a new one). -/
def dset {V} : Dict V → Nat → V → Dict V
  | [], k, v => [(k, v)]
  | (k', v') :: d, k, v => if k' = k then (k', v) :: d else (k', v') :: dset d k v

/-- `OrderedSet.add` -/
def osAdd (l : List Nat) (x : Nat) : List Nat := if x ∈ l then l else l ++ [x]

/-- `OrderedSet.update(iterable)` -/
def osUpdate (l xs : List Nat) : List Nat := xs.foldl osAdd l

/-! ### Execution traces -/

/-- The coverage-relevant part of `ExecutionTrace` (`executed_instructions`, `object_addresses`,
`executed_assertions` are used by no fitness or coverage function modelled here). -/
structure Trace where
  code : List Nat        -- executed_code_objects : OrderedSet[int]
  cnt : Dict Nat         -- executed_predicates   : dict[int, int]
  dT : Dict Dist         -- true_distances        : dict[int, float]
  dF : Dict Dist         -- false_distances       : dict[int, float]
  lines : List Nat       -- covered_line_ids      : OrderedSet[int]
  checked : List Nat     -- checked_lines         : OrderedSet[int]
  deriving Repr, Inhabited

def Trace.empty : Trace := ⟨[], [], [], [], [], []⟩

/-- The loop `for key, value in source.items(): target[key] = f(target.get(key), value)`. -/
def mergeWith {V} (f : Option V → V → V) (target source : Dict V) : Dict V :=
  source.foldl (fun acc e => dset acc e.1 (f (dget acc e.1) e.2)) target

/-- `self.executed_predicates[key] = self.executed_predicates.get(key, 0) + value` -/
def addCnt (old : Option Nat) (v : Nat) : Nat := old.getD 0 + v

/-- `target[key] = min(target.get(key, inf), value)` -/
def minDist (old : Option Dist) (v : Dist) : Dist := dmin (old.getD .inf) v

/-- `ExecutionTrace._merge_min` -/
def mergeMin (target source : Dict Dist) : Dict Dist := mergeWith minDist target source

/-- `ExecutionTrace.merge` (returns the new value of `self`). -/
def merge (t o : Trace) : Trace :=
  { code := osUpdate t.code o.code
    cnt := mergeWith addCnt t.cnt o.cnt
    dT := mergeMin t.dT o.dT
    dF := mergeMin t.dF o.dF
    lines := osUpdate t.lines o.lines
    checked := osUpdate t.checked o.checked }

/-- `fitness_metrics.analyze_results`: `merged = ExecutionTrace(); for r in results: merged.merge(r)`. -/
def analyze (ts : List Trace) : Trace := ts.foldl merge Trace.empty

/-- `ExecutionTrace.update_predicate_distances` -/
def updatePredicateDistances (t : Trace) (distT distF : Dist) (p : Nat) : Trace :=
  { t with
    cnt := dset t.cnt p ((dget t.cnt p).getD 0 + 1)
    dT := dset t.dT p (dmin ((dget t.dT p).getD .inf) distT)
    dF := dset t.dF p (dmin ((dget t.dF p).getD .inf) distF) }

/-! ### Subject properties -/

structure CodeMeta where
  id : Nat
  diameter : Nat                       -- `existing_code_objects[id].cfg.diameter`
  paths : List (Nat × Nat × Nat)       -- (source node, target node, `nx.shortest_path_length` in the CDG)
  deriving Repr, Inhabited

structure PredMeta where
  id : Nat
  code : Nat                           -- `PredicateMetaData.code_object_id`
  node : Nat                           -- `PredicateMetaData.node`
  deriving Repr, Inhabited

structure Registry where
  codes : List CodeMeta                -- existing_code_objects (dict, in insertion order)
  preds : List PredMeta                -- existing_predicates
  lines : List Nat                     -- existing_lines (keys)
  deriving Repr, Inhabited

def Registry.codeIds (r : Registry) : List Nat := r.codes.map (·.id)
def Registry.predIds (r : Registry) : List Nat := r.preds.map (·.id)

/-- `SubjectProperties.branch_less_code_objects` -/
def Registry.branchless (r : Registry) : List Nat :=
  r.codeIds.filter (fun c => r.preds.all (fun m => decide (c ≠ m.code)))

/-- `existing_predicates[p]` -/
def Registry.findPred (r : Registry) (p : Nat) : Option PredMeta := r.preds.find? (fun m => m.id = p)
/-- `existing_code_objects[c]` -/
def Registry.findCode (r : Registry) (c : Nat) : Option CodeMeta := r.codes.find? (fun m => m.id = c)

/-- `nx.shortest_path_length(cdg.graph, a, b)`; `none` = `NetworkXNoPath` / `NodeNotFound`. -/
def CodeMeta.pathLen (c : CodeMeta) (a b : Nat) : Option Nat :=
  (c.paths.find? (fun e => e.1 = a ∧ e.2.1 = b)).map (·.2.2)

/-! ### `fitness_metrics` -/

/-- `normalise` -/
def normalise : Dist → Except Err Rat
  | .fin q => if q < 0 then .error .runtime else .ok (q / (1 + q))
  | .inf => .ok 1

/-- `(p, 0.0) in d.items()` -/
def zeroAt (d : Dict Dist) (p : Nat) : Bool :=
  match dget d p with
  | some v => v.isZero
  | none => false

/-- `_predicate_fitness(predicate, branch_distances, trace)` -/
def predicateFitness (p : Nat) (bd : Dict Dist) (t : Trace) : Except Err Rat :=
  if zeroAt bd p then .ok 0
  else
    match dget t.cnt p with
    | some c =>
      if 2 ≤ c then
        match dget bd p with
        | some d => normalise d
        | none => .error .key
      else .ok 1
    | none => .ok 1

/-- Sum of `f p` over the list in order, stopping at the first exception. -/
def sumExcept (f : Nat → Except Err Rat) : List Nat → Except Err Rat
  | [] => .ok 0
  | p :: ps =>
    match f p with
    | .error e => .error e
    | .ok a =>
      match sumExcept f ps with
      | .error e => .error e
      | .ok s => .ok (a + s)

/-- The two `_predicate_fitness` summands of one loop iteration. -/
def predTerm (t : Trace) (exT exF : List Nat) (p : Nat) : Except Err Rat :=
  match (if p ∈ exT then .ok 0 else predicateFitness p t.dT t) with
  | .error e => .error e
  | .ok a =>
    match (if p ∈ exF then .ok 0 else predicateFitness p t.dF t) with
    | .error e => .error e
    | .ok b => .ok (a + b)

/-- `code_objects_missing` -/
def codeObjectsMissing (t : Trace) (r : Registry) (exCode : List Nat) : Nat :=
  r.branchless.countP (fun c => decide (c ∉ t.code ∧ c ∉ exCode))

/-- `compute_branch_distance_fitness` -/
def branchFitness (t : Trace) (r : Registry) (exCode exT exF : List Nat) : Except Err Rat :=
  match sumExcept (predTerm t exT exF) r.predIds with
  | .error e => .error e
  | .ok s => .ok ((codeObjectsMissing t r exCode : Nat) + s)

/-- `compute_branch_distance_fitness_is_covered` **as repaired** (`… not in trace.true_distances.items()`). -/
def branchIsCovered (t : Trace) (r : Registry) (exCode exT exF : List Nat) : Bool :=
  if r.branchless.any (fun c => decide (c ∉ t.code ∧ c ∉ exCode)) then false
  else r.predIds.all (fun p => (decide (p ∈ exT) || zeroAt t.dT p) && (decide (p ∈ exF) || zeroAt t.dF p))

/-- The unchanged code: `(predicate, 0.0) not in trace.true_distances` tests a tuple against the
dict's **keys** (ints), which is never a member. -/
def branchIsCoveredOrig (t : Trace) (r : Registry) (exCode exT exF : List Nat) : Bool :=
  if r.branchless.any (fun c => decide (c ∉ t.code ∧ c ∉ exCode)) then false
  else r.predIds.all (fun p => decide (p ∈ exT) && decide (p ∈ exF))

/-- `compute_line_coverage_fitness_is_covered` -/
def lineIsCovered (t : Trace) (r : Registry) : Bool := decide (t.lines.length = r.lines.length)
/-- `compute_checked_coverage_statement_fitness_is_covered` -/
def checkedIsCovered (t : Trace) (r : Registry) : Bool := decide (t.checked.length = r.lines.length)

/-- `coverage = 1.0 if existing == 0 else covered / existing; assert 0.0 <= coverage <= 1.0` -/
def ratio (covered existing : Nat) : Except Err Rat :=
  let c : Rat := if existing = 0 then 1 else (covered : Rat) / (existing : Rat)
  if 0 ≤ c ∧ c ≤ 1 then .ok c else .error .assertion

def zeroCount (d : Dict Dist) : Nat := (d.filter (fun e => e.2.isZero)).length

def branchCovered (t : Trace) (r : Registry) : Nat :=
  (t.code.filter (fun c => decide (c ∈ r.branchless))).length + zeroCount t.dT + zeroCount t.dF
def branchExisting (r : Registry) : Nat := r.branchless.length + r.preds.length * 2

/-- `compute_branch_coverage` -/
def branchCoverage (t : Trace) (r : Registry) : Except Err Rat := ratio (branchCovered t r) (branchExisting r)
/-- `compute_line_coverage` -/
def lineCoverage (t : Trace) (r : Registry) : Except Err Rat := ratio t.lines.length r.lines.length
/-- `TestSuiteStatementCheckedCoverageFunction.compute_coverage` (and the test-case variant). -/
def checkedCoverage (t : Trace) (r : Registry) : Except Err Rat := ratio t.checked.length r.lines.length

/-! ### `computations`: the suite fitness functions that are not in `fitness_metrics` -/

/-- `LineTestSuiteFitnessFunction.compute_fitness` -/
def lineSuiteFitness (t : Trace) (r : Registry) : Int := (r.lines.length : Int) - (t.lines.length : Int)
/-- `StatementCheckedTestSuiteFitnessFunction.compute_fitness` -/
def checkedSuiteFitness (t : Trace) (r : Registry) : Int := (r.lines.length : Int) - (t.checked.length : Int)

/-- `ComputationCache._compute_fitness`: `is_covered := math.isclose(fitness, 0.0)`. -/
def derivedCovered (f : Rat) : Bool := decide (f = 0)

/-! ### `controlflowdistance` and the goals of `coveragegoals` -/

/-- `ControlFlowDistance` -/
structure CFD where
  approach : Nat
  branch : Dist
  deriving DecidableEq, Repr, Inhabited

/-- `ControlFlowDistance.__lt__`: tuple comparison. -/
def CFD.lt (a b : CFD) : Bool :=
  decide (a.approach < b.approach) || (decide (a.approach = b.approach) && Dist.lt a.branch b.branch)

/-- `min(distance, candidate)` -/
def cfdMin (a b : CFD) : CFD := if CFD.lt b a then b else a

/-- `get_resulting_branch_fitness` -/
def resultingFitness (d : CFD) : Except Err Rat :=
  match normalise d.branch with
  | .error e => .error e
  | .ok n => .ok ((d.approach : Nat) + n)

/-- `get_root_control_flow_distance` -/
def rootDistance (t : Trace) (r : Registry) (c : Nat) : Except Err CFD :=
  if c ∉ r.branchless then .error .assertion
  else if c ∈ t.code then .ok ⟨0, .fin 0⟩ else .ok ⟨1, .fin 0⟩

/-- `controlflowdistance._predicate_fitness`: `branch_distances.get(predicate, inf)` -/
def getInf (d : Dict Dist) (p : Nat) : Dist := (dget d p).getD .inf

/-- The loop over `trace.executed_predicates` of `get_non_root_control_flow_distance`. -/
def approachLoop (t : Trace) (r : Registry) (cm : CodeMeta) (code target : Nat) :
    List Nat → CFD → Except Err CFD
  | [], dist => .ok dist
  | e :: es, dist =>
    match r.findPred e with
    | none => .error .key
    | some em =>
      if em.code ≠ code then approachLoop t r cm code target es dist
      else
        match cm.pathLen em.node target with
        | none => approachLoop t r cm code target es dist
        | some n =>
          let bd := Dist.add (getInf t.dT e) (getInf t.dF e)
          if bd.nonneg then approachLoop t r cm code target es (cfdMin dist ⟨n, bd⟩)
          else .error .assertion

/-- `get_non_root_control_flow_distance` -/
def nonRootDistance (t : Trace) (r : Registry) (p : Nat) (value : Bool) : Except Err CFD :=
  match r.findPred p with
  | none => .error .key
  | some pm =>
    if pm.code ∉ t.code then
      match r.findCode pm.code with
      | none => .error .key
      | some cm => .ok ⟨cm.diameter, .fin 0⟩
    else if (dget t.cnt p).isSome then
      let bd := getInf (if value then t.dT else t.dF) p
      if bd.nonneg then .ok ⟨0, bd⟩ else .error .assertion
    else
      match r.findCode pm.code with
      | none => .error .key
      | some cm => approachLoop t r cm pm.code pm.node (keys t.cnt) ⟨cm.diameter, .fin 0⟩

/-- `BranchCoverageTestFitness.compute_fitness` for a `BranchGoal` -/
def branchGoalFitness (t : Trace) (r : Registry) (p : Nat) (value : Bool) : Except Err Rat :=
  match nonRootDistance t r p value with
  | .error e => .error e
  | .ok d => resultingFitness d

/-- `BranchCoverageTestFitness.compute_fitness` for a `BranchlessCodeObjectGoal` -/
def branchlessGoalFitness (t : Trace) (r : Registry) (c : Nat) : Except Err Rat :=
  match rootDistance t r c with
  | .error e => .error e
  | .ok d => resultingFitness d

/-- `BranchGoal.is_covered` -/
def branchGoalIsCovered (t : Trace) (p : Nat) (value : Bool) : Except Err Bool :=
  if (dget t.cnt p).isSome then
    match dget (if value then t.dT else t.dF) p with
    | none => .error .key
    | some v => .ok v.isZero
  else .ok false

/-- `BranchlessCodeObjectGoal.is_covered` -/
def branchlessGoalIsCovered (t : Trace) (c : Nat) : Bool := decide (c ∈ t.code)
/-- `LineCoverageGoal.is_covered` -/
def lineGoalIsCovered (t : Trace) (l : Nat) : Bool := decide (l ∈ t.lines)
/-- `CheckedCoverageGoal.is_covered` -/
def checkedGoalIsCovered (t : Trace) (l : Nat) : Bool := decide (l ∈ t.checked)
/-- `LineCoverageTestFitness.compute_fitness` -/
def lineGoalFitness (t : Trace) (l : Nat) : Rat := if lineGoalIsCovered t l then 0 else 1
/-- `StatementCheckedCoverageTestFitness.compute_fitness` -/
def checkedGoalFitness (t : Trace) (l : Nat) : Rat := if checkedGoalIsCovered t l then 0 else 1

end PynguinModel.Fitness
