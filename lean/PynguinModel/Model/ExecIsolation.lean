/-!
# Process state around one test-case execution (C30)

Mirrors, statement by statement,

* `src/pynguin/testcase/execution_isolation.py`: `OutputSuppressionContext.__init__/__enter__/restore/
  __exit__` (`Ctx`, `enter`, `restore`), the class attribute `_null_file` shared by all contexts
  (`Proc.nullClosed`, `Proc.nullFd`), `suppress_logging` (`suppressLogging`), `_make_deterministic`
  (`makeDeterministic`, with its `is not randomness.RNG` guard);
* `src/pynguin/generator.py`: `_patch_random` (`seedOf`: `seed(None)` uses the configured seed; the
  set of tracked instances is `Proc.tracked`, which contains Pynguin's own `randomness.RNG`);
* `src/pynguin/testcase/execution.py`: `TestCaseExecutor._execute_test_case` / `execute`
  (`execute`: `_make_deterministic()`, enter the context, run the statements until the first one
  that raises, leave the context; `executeTimeout`: the main thread calls `restore()` once more).

`Cfg.repaired` is the code after `proposed_fixes/C30-restore-logging-stdin-nullfile.diff`
(`execute` wraps the wait for the thread in `preserve_stdin_and_logging()`, `__enter__` reopens a
closed `_null_file`), `Cfg.legacy` the code before it.

The operating system is modelled as far as `os.dup` / `os.dup2` / `os.close` / `os.open` go: a table
`fd ↦ open file description`, `dup`/`open` return the lowest free descriptor.  A Python stream
object is `orig` (the interpreter's own `sys.__stdin__/__stdout__/__stderr__`, created with
`closefd=False`), `null` (`_null_file`) or an object bound by the module under test.  A
`random.Random` state is `(seed it was last seeded with, numbers drawn since)`.  No Mathlib.
-/
namespace PynguinModel.ExecIsolation

/-! ## File-descriptor table -/

/-- `fd ↦ open file description` (association list, first match wins). -/
abbrev FdTable := List (Nat × Nat)

def lookup (t : FdTable) (fd : Nat) : Option Nat :=
  match t with
  | [] => none
  | (k, d) :: r => if k = fd then some d else lookup r fd

def erase (t : FdTable) (fd : Nat) : FdTable := t.filter (fun p => p.1 != fd)

def set (t : FdTable) (fd d : Nat) : FdTable := (fd, d) :: erase t fd

def maxKey : FdTable → Nat
  | [] => 0
  | (k, _) :: r => max k (maxKey r)

/-- The lowest descriptor number that is not open (what `dup`/`open` return). -/
def lowestFree (t : FdTable) : Nat :=
  ((List.range (maxKey t + 2)).find? (fun n => (lookup t n).isNone)).getD (maxKey t + 1)

/-- Number of open descriptors. -/
def openCount (t : FdTable) : Nat := ((t.map (·.1)).eraseDups).length

/-! ## Process state -/

inductive Obj where
  /-- the interpreter's original stream object of the slot -/
  | orig
  /-- `OutputSuppressionContext._null_file` -/
  | null
  /-- an object bound by the module under test (fresh per binding; `closed` = its own flag) -/
  | other (closed : Bool)
  deriving DecidableEq, Repr, Inhabited

inductive Slot where
  | inp | out | err
  deriving DecidableEq, Repr, Inhabited

structure Rng where
  seed : Nat
  draws : Nat
  deriving DecidableEq, Repr, Inhabited

/-- A `random.Random` instance in `random.Random.seed.__pynguin_instances__`. -/
structure Inst where
  /-- `inst is randomness.RNG` -/
  isPynguin : Bool
  rng : Rng
  deriving DecidableEq, Repr, Inhabited

structure Proc where
  /-- `sys.stdin`, `sys.stdout`, `sys.stderr` -/
  inp : Obj
  out : Obj
  err : Obj
  /-- `sys.__stdin__.closed` etc. -/
  origInClosed : Bool
  origOutClosed : Bool
  origErrClosed : Bool
  /-- `OutputSuppressionContext._null_file.closed` and its descriptor -/
  nullClosed : Bool
  nullFd : Nat
  fds : FdTable
  /-- `logging.root.manager.disable` -/
  logDisable : Nat
  /-- the module-level `random` generator -/
  globalRng : Rng
  tracked : List Inst
  /-- a global variable of the module under test (hidden state) -/
  glob : Int
  /-- `config.configuration.seeding.seed` -/
  cfgSeed : Nat
  deriving DecidableEq, Repr, Inhabited

/-- The open file description of `/dev/null` (a token different from the descriptions 0, 1, 2). -/
def devNull : Nat := 999

structure Cfg where
  restoreLogging : Bool
  restoreStdin : Bool
  reopenNull : Bool
  deriving DecidableEq, Repr, Inhabited

def Cfg.repaired : Cfg := ⟨true, true, true⟩
def Cfg.legacy : Cfg := ⟨false, false, false⟩

/-! ## What the module under test can do in one statement -/

inductive Action where
  /-- `print("…", file=sys.stderr if isErr else sys.stdout)` -/
  | print (isErr : Bool)
  /-- `raise ValueError` -/
  | raise
  /-- `sys.<slot>.close()` -/
  | close (s : Slot)
  /-- `sys.<slot> = <new open object>` -/
  | bind (s : Slot)
  /-- `os.close(fd)` (or `with open(fd, "w"): pass`) -/
  | closeFd (fd : Nat)
  /-- `os.open(os.devnull, os.O_WRONLY)`; the result is the new descriptor -/
  | openNew
  /-- `logging.disable(level)` -/
  | logDisable (level : Nat)
  /-- `random.seed(x)` with an integer (`random.seed` is bound to the unpatched method) -/
  | seed (x : Nat)
  /-- `R_i.seed(x)` for the `i`-th tracked instance (`None` ↦ the configured seed, `_patch_random`) -/
  | instSeed (i : Nat) (x : Option Nat)
  /-- `random.random()` -/
  | rand
  /-- `R_i.random()` for the `i`-th tracked instance -/
  | instRand (i : Nat)
  /-- `global G; G = v` -/
  | setGlobal (v : Int)
  /-- `return G` -/
  | getGlobal
  deriving DecidableEq, Repr, Inhabited

inductive Outcome where
  | ok
  | fd (n : Nat)
  /-- the number drawn: the `draws`-th output of a generator seeded with `seed` -/
  | rnd (seed draws : Nat)
  | val (v : Int)
  /-- `ValueError: I/O operation on closed file` -/
  | closedFile
  /-- `OSError` (bad file descriptor) -/
  | osError
  /-- the exception raised by the module itself -/
  | raised
  /-- not something the module under test does (index of Pynguin's own generator / no such instance) -/
  | notSut
  deriving DecidableEq, Repr, Inhabited

def Outcome.isExc : Outcome → Bool
  | .closedFile | .osError | .raised | .notSut => true
  | _ => false

def Proc.get (s : Proc) : Slot → Obj
  | .inp => s.inp | .out => s.out | .err => s.err

def Proc.put (s : Proc) (sl : Slot) (o : Obj) : Proc :=
  match sl with
  | .inp => { s with inp := o } | .out => { s with out := o } | .err => { s with err := o }

def Proc.origClosed (s : Proc) : Slot → Bool
  | .inp => s.origInClosed | .out => s.origOutClosed | .err => s.origErrClosed

/-- `obj.closed` for the object bound to the slot. -/
def Proc.isClosed (s : Proc) (sl : Slot) : Bool :=
  match s.get sl with
  | .orig => s.origClosed sl
  | .null => s.nullClosed
  | .other c => c

/-- `sys.<slot>.close()`: closing the shared `_null_file` also releases its descriptor; the original
stream objects were created with `closefd=False`; closing twice is harmless. -/
def Proc.closeSlot (s : Proc) (sl : Slot) : Proc :=
  match s.get sl with
  | .orig =>
    match sl with
    | .inp => { s with origInClosed := true }
    | .out => { s with origOutClosed := true }
    | .err => { s with origErrClosed := true }
  | .null => if s.nullClosed then s else { s with nullClosed := true, fds := erase s.fds s.nullFd }
  | .other _ => s.put sl (.other true)

/-- `_patch_random`'s `_deterministic_random_seed`: `None` ↦ the configured seed. -/
def seedOf (s : Proc) (x : Option Nat) : Nat := x.getD s.cfgSeed

def setInst (l : List Inst) (i : Nat) (r : Rng) : List Inst :=
  match l, i with
  | [], _ => []
  | x :: t, 0 => { x with rng := r } :: t
  | x :: t, i + 1 => x :: setInst t i r

def step (a : Action) (s : Proc) : Proc × Outcome :=
  match a with
  | .print isErr =>
    if s.isClosed (if isErr then .err else .out) then (s, .closedFile) else (s, .ok)
  | .raise => (s, .raised)
  | .close sl => (s.closeSlot sl, .ok)
  | .bind sl => (s.put sl (.other false), .ok)
  | .closeFd fd =>
    match lookup s.fds fd with
    | none => (s, .osError)
    | some _ => ({ s with fds := erase s.fds fd }, .ok)
  | .openNew =>
    let n := lowestFree s.fds
    ({ s with fds := set s.fds n devNull }, .fd n)
  | .logDisable l => ({ s with logDisable := l }, .ok)
  | .seed x => ({ s with globalRng := ⟨x, 0⟩ }, .ok)
  | .instSeed i x =>
    match s.tracked[i]? with
    | none => (s, .notSut)
    | some inst =>
      if inst.isPynguin then (s, .notSut)
      else ({ s with tracked := setInst s.tracked i ⟨seedOf s x, 0⟩ }, .ok)
  | .rand =>
    ({ s with globalRng := { s.globalRng with draws := s.globalRng.draws + 1 } },
     .rnd s.globalRng.seed s.globalRng.draws)
  | .instRand i =>
    match s.tracked[i]? with
    | none => (s, .notSut)
    | some inst =>
      if inst.isPynguin then (s, .notSut)
      else ({ s with tracked := setInst s.tracked i { inst.rng with draws := inst.rng.draws + 1 } },
            .rnd inst.rng.seed inst.rng.draws)
  | .setGlobal v => ({ s with glob := v }, .ok)
  | .getGlobal => (s, .val s.glob)

/-- The statement loop of `_execute_test_case`: stop after the first statement that raises. -/
def runStmts : List Action → Proc → Proc × List Outcome
  | [], s => (s, [])
  | a :: as, s =>
    let r := step a s
    if r.2.isExc then (r.1, [r.2])
    else
      let r' := runStmts as r.1
      (r'.1, r.2 :: r'.2)

/-! ## `OutputSuppressionContext` -/

structure Ctx where
  restored : Bool
  /-- `_saved_fds` in insertion order: `(fd, saved_fd)` -/
  savedFds : List (Nat × Nat)
  deriving DecidableEq, Repr, Inhabited

/-- `OutputSuppressionContext()` -/
def Ctx.new : Ctx := ⟨false, []⟩

/-- `d[k] = v` on an insertion-ordered dict: an existing key keeps its position. -/
def dictSet : List (Nat × Nat) → Nat → Nat → List (Nat × Nat)
  | [], k, v => [(k, v)]
  | (k', v') :: r, k, v => if k' = k then (k, v) :: r else (k', v') :: dictSet r k v

/-- `with contextlib.suppress(OSError): self._saved_fds[fd] = os.dup(fd)` -/
def saveFd (fd : Nat) (x : FdTable × List (Nat × Nat)) : FdTable × List (Nat × Nat) :=
  match lookup x.1 fd with
  | none => x
  | some d =>
    let n := lowestFree x.1
    (set x.1 n d, dictSet x.2 fd n)

/-- repaired `__enter__`: `if cls._null_file.closed: cls._null_file = open(os.devnull, "w")` -/
def reopenNull (cfg : Cfg) (s : Proc) : Proc :=
  if cfg.reopenNull && s.nullClosed then
    let n := lowestFree s.fds
    { s with nullClosed := false, nullFd := n, fds := set s.fds n devNull }
  else s

/-- `__enter__` -/
def enter (cfg : Cfg) (c : Ctx) (s : Proc) : Ctx × Proc :=
  let s := reopenNull cfg s
  let r := saveFd 2 (saveFd 1 (saveFd 0 (s.fds, c.savedFds)))
  ({ c with savedFds := r.2 }, { s with fds := r.1, out := .null, err := .null })

/-- `os.dup2(saved_fd, fd)` then `os.close(saved_fd)`, both under `suppress(OSError)`. -/
def restoreFd (t : FdTable) (p : Nat × Nat) : FdTable :=
  match lookup t p.2 with
  | none => t
  | some d => erase (set t p.1 d) p.2

/-- `restore()` (idempotent through `_restored`). -/
def restore (c : Ctx) (s : Proc) : Ctx × Proc :=
  if c.restored then (c, s)
  else
    ({ c with restored := true, savedFds := [] },
     { s with fds := c.savedFds.foldl restoreFd s.fds, out := .orig, err := .orig })

/-- `suppress_logging()` around `body`: `disable(CRITICAL)` … `finally: disable(NOTSET)`. -/
def suppressLogging (body : Proc → Proc) (s : Proc) : Proc :=
  { body { s with logDisable := 50 } with logDisable := 0 }

/-! ## `_make_deterministic` and the executor -/

def makeDeterministic (s : Proc) : Proc :=
  { s with
    globalRng := ⟨s.cfgSeed, 0⟩
    tracked := s.tracked.map (fun i => if i.isPynguin then i else { i with rng := ⟨s.cfgSeed, 0⟩ }) }

/-- A test case: one action of the module under test per statement. -/
abbrev Test := List Action

/-- repaired `execute`: the exit of `with preserve_stdin_and_logging():` in the waiting thread;
`s0` is the state when the `with` was entered. -/
def putBack (cfg : Cfg) (s0 s : Proc) : Proc :=
  let s1 := if cfg.restoreStdin then { s with inp := s0.inp } else s
  if cfg.restoreLogging then { s1 with logDisable := s0.logDisable } else s1

/-- `TestCaseExecutor.execute`: (the thread:) `_make_deterministic()`, `with
output_suppression_context:` the statements, `__exit__`; (the waiting thread:) put `sys.stdin` and
the `logging.disable` level back. -/
def execute (cfg : Cfg) (s : Proc) (t : Test) : Proc × List Outcome :=
  let e := enter cfg Ctx.new (makeDeterministic s)
  let r := runStmts t e.2
  (putBack cfg s (restore e.1 r.1).2, r.2)

/-- The same when the waiting thread gives up and calls `restore()` as well (after the thread has
unwound; interleavings with a thread that is still running belong to C32). -/
def executeTimeout (cfg : Cfg) (s : Proc) (t : Test) : Proc × List Outcome :=
  let e := enter cfg Ctx.new (makeDeterministic s)
  let r := runStmts t e.2
  let x := restore e.1 r.1
  (putBack cfg s (restore x.1 x.2).2, r.2)

/-- Execute a history of test cases one after the other. -/
def runHistory (cfg : Cfg) : Proc → List Test → Proc × List (List Outcome)
  | s, [] => (s, [])
  | s, t :: ts =>
    let r := execute cfg s t
    let r' := runHistory cfg r.1 ts
    (r'.1, r.2 :: r'.2)

/-! ## Raw protocol on context objects (for the correspondence run) -/

inductive CtxOp where
  /-- `ctx = OutputSuppressionContext()` -/
  | new
  | enter
  | restore
  /-- `_make_deterministic()` -/
  | deterministic
  /-- code of the module under test -/
  | act (a : Action)
  deriving DecidableEq, Repr, Inhabited

def ctxStep (cfg : Cfg) (x : Ctx × Proc) : CtxOp → (Ctx × Proc) × Option Outcome
  | .new => ((Ctx.new, x.2), none)
  | .enter => (enter cfg x.1 x.2, none)
  | .restore => (restore x.1 x.2, none)
  | .deterministic => ((x.1, makeDeterministic x.2), none)
  | .act a => let r := step a x.2; ((x.1, r.1), some r.2)

end PynguinModel.ExecIsolation
