import PynguinModel.Model.Slice
/-!
# C09 — PyMini: the supported language fragment and its tracing interpreter

A structured fragment of Python (int locals / parameters, module globals, assignment, `if/else`,
`while`, calls of module functions that end in `return e`, **classes**: class-level attribute
defaults, `__init__`, methods reading / writing `self.a<i>`, calls `self.m(...)`, and **void**
functions / methods, which end in the implicit `return None` carried by their last statement's line)
together with a test case in pynguin's shape (`int_k = <const>` / `int_k = module.f(int_i, …)` /
`obj_k = module.C(int_i, …)` / `x_k = obj_j.m(int_i, …)` / `int_k = obj_j.a<i>`, optional
`assert int_k == …`).
`run` executes a program and emits one `Slice.Ev` per executed statement-level step, i.e. the
*execution trace* the slicer of `Model/Slice.lean` works on:

* variables are keyed by the **frame instance** (exact dynamic data dependence); `codeOf` recovers
  the code object of a frame, which is what pynguin's slicer keys local variables by;
* attributes are keyed by the **object** (`objScope`), class-level defaults by the class (`clsScope`);
  an object's reference is the pseudo variable `refName` of its scope (defined by its creation);
* the positions of the executed implicit `return None` steps are recorded (`retNone`): that is what
  `_cleanse_included_implicit_return_none` of `ga/checked_coverage.py` looks at;
* `anc` are the executed branch nodes (frame-qualified) whose region contains the statement, plus
  the node of the call that created the frame (interprocedural control dependence).

The same generator output is rendered as Python source by `harness/c09.py`; CPython's results and
executed lines are compared with `run`'s on every case.  No Mathlib.
-/
namespace PynguinModel.PyMini
open PynguinModel.Slice

inductive BinOp | add | sub | mul | mod
  deriving DecidableEq, Repr
inductive CmpOp | lt | le | eq | ne | gt | ge
  deriving DecidableEq, Repr

/-- The object an attribute access / method call goes through: `self` (inside a method) or a local
holding an object (the test case's `obj_k`). -/
inductive Recv | self | l (i : Nat)
  deriving DecidableEq, Repr

inductive Expr
  | k (n : Int)
  | l (i : Nat)            -- local / parameter
  | g (i : Nat)            -- module global
  | bin (op : BinOp) (a b : Expr)
  | at (r : Recv) (i : Nat)   -- `<r>.a<i>`
  deriving Repr

structure Cond where
  op : CmpOp
  a : Expr
  b : Expr
  deriving Repr

inductive Tgt | l (i : Nat) | g (i : Nat) | at (r : Recv) (i : Nat)
  deriving Repr

inductive Stmt
  | asg (ln : Nat) (tg : Tgt) (e : Expr)
  | ite (ln : Nat) (c : Cond) (a b : List Stmt)
  | wh (ln : Nat) (c : Cond) (a : List Stmt)
  | call (ln : Nat) (tg : Tgt) (f : Nat) (args : List Expr)
  /-- `[tg =] <r>.m<f>(args)`; `tg = none`: expression statement (result dropped) -/
  | mcall (ln : Nat) (tg : Option Tgt) (r : Recv) (f : Nat) (args : List Expr)
  /-- `tg = C<c>(args)`: object creation, runs `__init__` when the class has one -/
  | new (ln : Nat) (tg : Tgt) (c : Nat) (args : List Expr)

/-- A module function (`cls = 0`) or a method of class `cls - 1` (first parameter `self`, not counted
in `np`).  `void`: no `return` statement — the implicit `return None` sits on line `retLn`, the line
of the last statement of the body; `ret` is ignored. -/
structure Fun where
  defLn : Nat
  np : Nat
  body : List Stmt
  retLn : Nat
  ret : Expr
  void : Bool
  cls : Nat

/-- `class C<c>:` with class-level defaults `a<i> = n` as (line, i, n) and optionally `__init__`. -/
structure Cls where
  ln : Nat
  defaults : List (Nat × Nat × Int)
  init : Option Nat                      -- index of `__init__` in `Prog.funs`

inductive TStmt
  | const (n : Int)                      -- int_k = n
  | call (f : Nat) (args : List Nat)     -- x_k = module.f(int_a, …)   (None for a void function)
  | new (c : Nat) (args : List Nat)      -- obj_k = module.C<c>(int_a, …)
  | mcall (o : Nat) (f : Nat) (args : List Nat)   -- x_k = obj_o.m<f>(int_a, …)
  | attr (o : Nat) (i : Nat)             -- int_k = obj_o.a<i>

structure Prog where
  ginit : List (Nat × Nat × Int)         -- module level `G<i> = n` as (line, i, n)
  funs : List Fun
  classes : List Cls
  test : List TStmt
  asserts : List Nat                     -- statements followed by `assert int_k == …`

abbrev Env := List (Nat × Int)

def lookup (env : Env) (i : Nat) : Int := ((env.find? (·.1 == i)).map (·.2)).getD 0
def update (env : Env) (i : Nat) (v : Int) : Env := (i, v) :: env.filter (·.1 != i)
def has (env : Env) (i : Nat) : Bool := env.any (·.1 == i)

def globalScope : Nat := 0
def mainFrame : Nat := 1
def retName : Nat := 9999
def selfName : Nat := 9998
def refName : Nat := 9997
def nodeOf (frame ln : Nat) : Nat := frame * 65536 + ln
def callNode (frame : Nat) : Nat := frame * 65536
/-- Scope of the attributes (and of the reference `refName`) of object `o` (objects are numbered from 1). -/
def objScope (o : Nat) : Nat := 1000000 + o
/-- Scope of the class-level defaults of class `c`. -/
def clsScope (c : Nat) : Nat := 2000000 + c
def attrKey (o i : Nat) : Nat := o * 64 + i
/-- Name of method `f` (index in `Prog.funs`) in the namespace of its class: defined by the `def` line in
the class body, read by every call through an instance (`obj.m(…)`, `self.m(…)`). -/
def methName (f : Nat) : Nat := 5000 + f

def evalBin : BinOp → Int → Int → Int
  | .add, a, b => a + b
  | .sub, a, b => a - b
  | .mul, a, b => a * b
  | .mod, a, b => a % b     -- generator: b is a positive constant (Python's `%` = `Int.emod` there)

def evalCmp : CmpOp → Int → Int → Bool
  | .lt, a, b => a < b
  | .le, a, b => a ≤ b
  | .eq, a, b => a == b
  | .ne, a, b => a != b
  | .gt, a, b => a > b
  | .ge, a, b => a ≥ b

/-- `hp r i` = current value of `<r>.a<i>`. -/
def eval (env gl : Env) (hp : Recv → Nat → Int) : Expr → Int
  | .k n => n
  | .l i => lookup env i
  | .g i => lookup gl i
  | .bin op a b => evalBin op (eval env gl hp a) (eval env gl hp b)
  | .at r i => hp r i

def recvVar (frame : Nat) : Recv → Var
  | .self => ⟨frame, selfName⟩
  | .l i => ⟨frame, i⟩

/-- `av r i` = the location `<r>.a<i>` is read from (instance attribute or class default). -/
def varsOf (frame : Nat) (av : Recv → Nat → Var) : Expr → List Var
  | .k _ => []
  | .l i => [⟨frame, i⟩]
  | .g i => [⟨globalScope, i⟩]
  | .bin _ a b => varsOf frame av a ++ varsOf frame av b
  | .at r i => [recvVar frame r, av r i]

def condVars (frame : Nat) (av : Recv → Nat → Var) (c : Cond) : List Var :=
  varsOf frame av c.a ++ varsOf frame av c.b

/-- The object a receiver denotes in a frame with locals `env` and receiver object `self`. -/
def objOf (env : Env) (self : Nat) : Recv → Nat
  | .self => self
  | .l i => (lookup env i).toNat

def tgtVar (frame : Nat) (env : Env) (self : Nat) : Tgt → Var
  | .l i => ⟨frame, i⟩
  | .g i => ⟨globalScope, i⟩
  | .at r i => ⟨objScope (objOf env self r), i⟩

/-- Variables read to find the stored-to location (`self` in `self.a = …`). -/
def tgtUses (frame : Nat) : Tgt → List Var
  | .at r _ => [recvVar frame r]
  | _ => []

/-- Interpreter state: the trace (newest first), module globals, frame counter, frame → code object,
instance attributes (`attrKey`), object counter, object → class, positions of the executed implicit
`return None` steps. -/
structure St where
  rev : List Ev
  gl : Env
  nextFrame : Nat
  codeOf : List (Nat × Nat)
  heap : Env
  nextObj : Nat
  clsOf : List (Nat × Nat)
  retNone : List Nat

def St.emit (st : St) (e : Ev) : St := { st with rev := e :: st.rev }

def codeOfFn (tbl : List (Nat × Nat)) (s : Nat) : Nat := ((tbl.find? (·.1 == s)).map (·.2)).getD 0

def clsDefault (classes : List Cls) (c i : Nat) : Int :=
  match classes[c]? with
  | some k => ((k.defaults.find? (·.2.1 == i)).map (·.2.2)).getD 0
  | none => 0

/-- Python's attribute lookup on an instance: the instance dictionary first, then the class.
(An attribute that exists nowhere reads `0` here; CPython would raise — the generator gives every
attribute a class-level default and the values are compared with CPython's on every case.) -/
def attrVal (p : Prog) (st : St) (o i : Nat) : Int :=
  if has st.heap (attrKey o i) then lookup st.heap (attrKey o i)
  else clsDefault p.classes (codeOfFn st.clsOf o) i

def attrVar (st : St) (o i : Nat) : Var :=
  if has st.heap (attrKey o i) then ⟨objScope o, i⟩ else ⟨clsScope (codeOfFn st.clsOf o), i⟩

def store (tg : Tgt) (v : Int) (env : Env) (self : Nat) (st : St) : Env × St :=
  match tg with
  | .l i => (update env i v, st)
  | .g i => (env, { st with gl := update st.gl i v })
  | .at r i => (env, { st with heap := update st.heap (attrKey (objOf env self r) i) v })

def bindParams (vals : List Int) : Env := vals.zipIdx.map (fun p => (p.2, p.1))

/-- What the three call-like statements have in common. -/
structure CallSpec where
  ln : Nat
  tg : Option Tgt
  f : Option Nat                    -- the code that runs (`none`: class without `__init__`)
  args : List Expr
  selfObj : Nat                     -- receiver object of the new frame (`0`: module function)
  selfUses : Option (List Var)      -- what `self` is bound from (`none`: no `self`)
  callUses : List Var               -- what selects the callee (the receiver of a method call and the
                                    -- class-level definition of the method found through it)
  created : Option (Nat × Nat)      -- object creation: (object, class)

def callSpec (p : Prog) (frame : Nat) (env : Env) (self : Nat) (st : St) : Stmt → Option CallSpec
  | .call ln tg f args =>
    match p.funs[f]? with
    | some fn => if fn.cls == 0 then some ⟨ln, some tg, some f, args, 0, none, [], none⟩ else none
    | none => none
  | .mcall ln tg r f args =>
    let o := objOf env self r
    match p.funs[f]? with
    | some fn =>
      -- monomorphic fragment: `f` must be a method of the receiver's class
      if o != 0 && fn.cls == codeOfFn st.clsOf o + 1 then
        some ⟨ln, tg, some f, args, o, some [recvVar frame r],
              [recvVar frame r, ⟨clsScope (codeOfFn st.clsOf o), methName f⟩], none⟩
      else none
    | none => none
  | .new ln tg c args =>
    match p.classes[c]? with
    | some k =>
      let o := st.nextObj
      some ⟨ln, some tg, k.init, args, o, some [⟨objScope o, refName⟩], [], some (o, c)⟩
    | none => none
  | _ => none

/-- Big-step execution of a statement list in frame `frame` (receiver object `self`, `0` = none)
whose statements are controlled by the executed branches `anc`.  `none` = out of fuel / unknown
function / ill-formed call. -/
def execBlock (p : Prog) (carried : Bool) :
    Nat → Bool → Nat → Nat → List Nat → List Stmt → Env → St → Option (Env × St)
  | 0, _, _, _, _, _, _, _ => none
  | _ + 1, _, _, _, _, [], env, st => some (env, st)
  | fuel + 1, again, frame, self, anc, s :: rest, env, st =>
    let pend := !anc.isEmpty
    let hp : Recv → Nat → Int := fun r i => attrVal p st (objOf env self r) i
    let av : Recv → Nat → Var := fun r i => attrVar st (objOf env self r) i
    match s with
    | .asg ln tg e =>
      let st1 := st.emit ⟨ln, nodeOf frame ln, [tgtVar frame env self tg],
                          varsOf frame av e ++ tgtUses frame tg, false, anc, pend⟩
      let r := store tg (eval env st.gl hp e) env self st1
      execBlock p carried fuel false frame self anc rest r.1 r.2
    | .ite ln c a b =>
      let st1 := st.emit ⟨ln, nodeOf frame ln, [], condVars frame av c, true, anc, pend⟩
      let br := if evalCmp c.op (eval env st.gl hp c.a) (eval env st.gl hp c.b) then a else b
      match execBlock p carried fuel false frame self (nodeOf frame ln :: anc) br env st1 with
      | none => none
      | some r => execBlock p carried fuel false frame self anc rest r.1 r.2
    | .wh ln c a =>
      -- `carried = false` mirrors pynguin on single-block loop bodies: only the first evaluation of the
      -- loop test acts as the controlling branch of the body (see the known finding in Props/C09)
      let st1 := st.emit ⟨ln, nodeOf frame ln, [], condVars frame av c, carried || !again,
                          nodeOf frame ln :: anc, true⟩
      if evalCmp c.op (eval env st.gl hp c.a) (eval env st.gl hp c.b) then
        match execBlock p carried fuel false frame self (nodeOf frame ln :: anc) a env st1 with
        | none => none
        | some r => execBlock p carried fuel true frame self anc (s :: rest) r.1 r.2
      else execBlock p carried fuel false frame self anc rest env st1
    | s' =>
      match callSpec p frame env self st s' with
      | none => none
      | some sp =>
        let ln := sp.ln
        -- object creation: defines the reference of the new object
        let stA : St := match sp.created with
          | some (o, c) =>
            { st.emit ⟨ln, nodeOf frame ln, [⟨objScope o, refName⟩], [], false, anc, pend⟩ with
              nextObj := o + 1, clsOf := (o, c) :: st.clsOf,
              codeOf := (objScope o, objScope o) :: st.codeOf }
          | none => st
        match sp.f with
        | none =>
          match sp.tg with
          | none => execBlock p carried fuel false frame self anc rest env stA
          | some tg =>
            let st3 := stA.emit ⟨ln, nodeOf frame ln, [tgtVar frame env self tg],
                                 [⟨objScope sp.selfObj, refName⟩] ++ tgtUses frame tg, false, anc, pend⟩
            let r' := store tg (Int.ofNat sp.selfObj) env self st3
            execBlock p carried fuel false frame self anc rest r'.1 r'.2
        | some f =>
          match p.funs[f]? with
          | none => none
          | some fn =>
            let fr := stA.nextFrame
            let vals := sp.args.map (eval env st.gl hp)
            -- the call itself (controls everything executed in the new frame) …
            let st0 := stA.emit ⟨ln, callNode fr, [], sp.callUses, true, anc, pend⟩
            -- … one binding of `self` and one parameter binding per argument
            let selfBind : List Ev := match sp.selfUses with
              | some us => [⟨ln, nodeOf frame ln, [⟨fr, selfName⟩], us, false, anc, pend⟩]
              | none => []
            let binds : List Ev := selfBind ++ sp.args.zipIdx.map (fun a =>
              ⟨ln, nodeOf frame ln, [⟨fr, a.2⟩], varsOf frame av a.1, false, anc, pend⟩)
            let st1 := { st0 with rev := binds.reverse ++ st0.rev,
                                  nextFrame := fr + 1, codeOf := (fr, f + 2) :: st0.codeOf }
            match execBlock p carried fuel false fr sp.selfObj [callNode fr] fn.body (bindParams vals) st1 with
            | none => none
            | some r =>
              let hp' : Recv → Nat → Int := fun q i => attrVal p r.2 (objOf r.1 sp.selfObj q) i
              let av' : Recv → Nat → Var := fun q i => attrVar r.2 (objOf r.1 sp.selfObj q) i
              -- `return e`, or the implicit `return None` on the last statement's line
              let st2 : St :=
                if fn.void then
                  { r.2.emit ⟨fn.retLn, nodeOf fr fn.retLn, [⟨fr, retName⟩], [], false, [callNode fr], true⟩
                    with retNone := r.2.rev.length :: r.2.retNone }
                else r.2.emit ⟨fn.retLn, nodeOf fr fn.retLn, [⟨fr, retName⟩], varsOf fr av' fn.ret,
                               false, [callNode fr], true⟩
              let rv : Int := match sp.created with
                | some _ => Int.ofNat sp.selfObj
                | none => if fn.void then 0 else eval r.1 r.2.gl hp' fn.ret
              let resUses : List Var := match sp.created with
                | some _ => [⟨objScope sp.selfObj, refName⟩]
                | none => [⟨fr, retName⟩]
              match sp.tg with
              | none => execBlock p carried fuel false frame self anc rest env st2
              | some tg =>
                let st3 := st2.emit ⟨ln, nodeOf frame ln, [tgtVar frame env self tg],
                                     resUses ++ tgtUses frame tg, false, anc, pend⟩
                let r' := store tg rv env self st3
                execBlock p carried fuel false frame self anc rest r'.1 r'.2

/-- The test case as statements of the main frame (`x_k` is local `k`, all on line `0`). -/
def testStmts (test : List TStmt) : List Stmt :=
  test.zipIdx.map (fun p => match p.1 with
    | .const n => Stmt.asg 0 (.l p.2) (.k n)
    | .call f args => Stmt.call 0 (.l p.2) f (args.map Expr.l)
    | .new c args => Stmt.new 0 (.l p.2) c (args.map Expr.l)
    | .mcall o f args => Stmt.mcall 0 (some (.l p.2)) (.l o) f (args.map Expr.l)
    | .attr o i => Stmt.asg 0 (.l p.2) (.at (.l o) i))

/-- Structural insertion sort by line (reduces in the kernel, unlike `List.mergeSort`). -/
def insertByLine (x : Nat × List Var) : List (Nat × List Var) → List (Nat × List Var)
  | [] => [x]
  | y :: ys => if x.1 ≤ y.1 then x :: y :: ys else y :: insertByLine x ys

def sortByLine (l : List (Nat × List Var)) : List (Nat × List Var) := l.foldr insertByLine []

/-- Module import: `G<i> = n`, `def f`, `class C` and class-level `a<i> = n` lines, in line order. -/
def importEvents (p : Prog) : List Ev :=
  let gs := p.ginit.map (fun t => (t.1, [(⟨globalScope, t.2.1⟩ : Var)]))
  -- `def m` in a class body defines the class-level name `m` (module functions: called by name from the
  -- test case / the module, their `def` line is not part of the fragment's dependence relation)
  let fs := p.funs.zipIdx.map (fun f =>
    (f.1.defLn, if f.1.cls == 0 then ([] : List Var) else [(⟨clsScope (f.1.cls - 1), methName f.2⟩ : Var)]))
  let cs := p.classes.zipIdx.flatMap (fun k =>
    (k.1.ln, ([] : List Var)) :: k.1.defaults.map (fun t => (t.1, [(⟨clsScope k.2, t.2.1⟩ : Var)])))
  let all := sortByLine (gs ++ fs ++ cs)
  all.map (fun t => ⟨t.1, nodeOf 0 t.1, t.2, [], false, [], false⟩)

structure Result where
  trace : Trace
  vals : List Int           -- per test statement (objects: their number, `None`: 0)
  crits : List Nat          -- per test statement: position of the step storing `x_k`
  acrits : List Nat         -- per asserted statement: position of the assertion's branch
  codeOf : List (Nat × Nat)
  retNone : List Nat        -- positions of the executed implicit `return None` steps

/-- Execute the test statement by statement (so the criteria positions are known). -/
def runTest (p : Prog) (carried : Bool) (asserts : List Nat) (fuel : Nat) :
    List (Stmt × Nat) → Env → St → List Nat → List Nat → Option (Env × St × List Nat × List Nat)
  | [], env, st, cs, acs => some (env, st, cs.reverse, acs.reverse)
  | (s, k) :: rest, env, st, cs, acs =>
    match execBlock p carried fuel false mainFrame 0 [] [s] env st with
    | none => none
    | some r =>
      let pos := r.2.rev.length - 1
      if asserts.contains k then
        let st' := r.2.emit ⟨0, nodeOf mainFrame 0, [], [⟨mainFrame, k⟩], true, [], false⟩
        runTest p carried asserts fuel rest r.1 st' (pos :: cs) ((pos + 1) :: acs)
      else runTest p carried asserts fuel rest r.1 r.2 (pos :: cs) acs

def run (p : Prog) (fuel : Nat) (carried : Bool := true) : Option Result :=
  let imp := importEvents p
  let scopes := (List.range p.classes.length).map (fun c => (clsScope c, clsScope c))
  let st0 : St := ⟨imp.reverse, p.ginit.foldl (fun g t => update g t.2.1 t.2.2) [], 2,
                   scopes ++ [(0, 0), (1, 1)], [], 1, [], []⟩
  match runTest p carried p.asserts fuel (testStmts p.test).zipIdx [] st0 [] [] with
  | none => none
  | some (env, st, cs, acs) =>
    some ⟨st.rev.reverse, (List.range p.test.length).map (lookup env), cs, acs, st.codeOf, st.retNone⟩

end PynguinModel.PyMini
