import PynguinModel.Model.Slice
/-!
# C09 — PyMini: the supported language fragment and its tracing interpreter

A structured fragment of Python (int locals / parameters, module globals, assignment, `if/else`,
`while`, calls of module functions that end in `return e`) together with a test case in pynguin's
shape (`int_k = <const>` / `int_k = module.f(int_i, …)`, optional `assert int_k == …`).
`run` executes a program and emits one `Slice.Ev` per executed statement-level step, i.e. the
*execution trace* the slicer of `Model/Slice.lean` works on:

* variables are keyed by the **frame instance** (exact dynamic data dependence); `codeOf` recovers
  the code object of a frame, which is what pynguin's slicer keys local variables by;
* `anc` are the executed branch nodes (frame-qualified) whose region contains the statement, plus
  the node of the call that created the frame (interprocedural control dependence).

The same generator output is rendered as Python source by `harness/c09.py`; CPython's results and
executed lines are compared with `run`'s on every case.  No Mathlib.
-/
namespace PynguinModel.PyMini
open PynguinModel.Slice

inductive BinOp | add | sub | mul | mod
  deriving DecidableEq, Repr
inductive CmpOp | lt | le | eq | ne | gt | ge
  deriving DecidableEq, Repr

inductive Expr
  | k (n : Int)
  | l (i : Nat)            -- local / parameter
  | g (i : Nat)            -- module global
  | bin (op : BinOp) (a b : Expr)
  deriving Repr

structure Cond where
  op : CmpOp
  a : Expr
  b : Expr
  deriving Repr

inductive Tgt | l (i : Nat) | g (i : Nat)
  deriving Repr

inductive Stmt
  | asg (ln : Nat) (tg : Tgt) (e : Expr)
  | ite (ln : Nat) (c : Cond) (a b : List Stmt)
  | wh (ln : Nat) (c : Cond) (a : List Stmt)
  | call (ln : Nat) (tg : Tgt) (f : Nat) (args : List Expr)

structure Fun where
  defLn : Nat
  np : Nat
  body : List Stmt
  retLn : Nat
  ret : Expr

inductive TStmt
  | const (n : Int)                      -- int_k = n
  | call (f : Nat) (args : List Nat)     -- int_k = module.f(int_a, …)

structure Prog where
  ginit : List (Nat × Nat × Int)         -- module level `G<i> = n` as (line, i, n)
  funs : List Fun
  test : List TStmt
  asserts : List Nat                     -- statements followed by `assert int_k == …`

abbrev Env := List (Nat × Int)

def lookup (env : Env) (i : Nat) : Int := ((env.find? (·.1 == i)).map (·.2)).getD 0
def update (env : Env) (i : Nat) (v : Int) : Env := (i, v) :: env.filter (·.1 != i)

def globalScope : Nat := 0
def mainFrame : Nat := 1
def retName : Nat := 9999
def nodeOf (frame ln : Nat) : Nat := frame * 65536 + ln
def callNode (frame : Nat) : Nat := frame * 65536

def evalBin : BinOp → Int → Int → Int
  | .add, a, b => a + b
  | .sub, a, b => a - b
  | .mul, a, b => a * b
  | .mod, a, b => a % b     -- generator: b is a positive constant (Python's `%` = `Int.emod` there)

def evalCmp : CmpOp → Int → Int → Bool
  | .lt, a, b => a < b
  | .le, a, b => a ≤ b
  | .eq, a, b => a == b
  | .ne, a, b => a != b
  | .gt, a, b => a > b
  | .ge, a, b => a ≥ b

def eval (env gl : Env) : Expr → Int
  | .k n => n
  | .l i => lookup env i
  | .g i => lookup gl i
  | .bin op a b => evalBin op (eval env gl a) (eval env gl b)

def varsOf (frame : Nat) : Expr → List Var
  | .k _ => []
  | .l i => [⟨frame, i⟩]
  | .g i => [⟨globalScope, i⟩]
  | .bin _ a b => varsOf frame a ++ varsOf frame b

def condVars (frame : Nat) (c : Cond) : List Var := varsOf frame c.a ++ varsOf frame c.b

def tgtVar (frame : Nat) : Tgt → Var
  | .l i => ⟨frame, i⟩
  | .g i => ⟨globalScope, i⟩

/-- Interpreter state: the trace (newest first), module globals, frame counter, frame → code object. -/
structure St where
  rev : List Ev
  gl : Env
  nextFrame : Nat
  codeOf : List (Nat × Nat)

def St.emit (st : St) (e : Ev) : St := { st with rev := e :: st.rev }

def store (tg : Tgt) (v : Int) (env : Env) (st : St) : Env × St :=
  match tg with
  | .l i => (update env i v, st)
  | .g i => (env, { st with gl := update st.gl i v })

def bindParams (vals : List Int) : Env := vals.zipIdx.map (fun p => (p.2, p.1))

/-- Big-step execution of a statement list in frame `frame` whose statements are controlled by the
executed branches `anc`.  `none` = out of fuel / unknown function. -/
def execBlock (funs : List Fun) (carried : Bool) :
    Nat → Bool → Nat → List Nat → List Stmt → Env → St → Option (Env × St)
  | 0, _, _, _, _, _, _ => none
  | _ + 1, _, _, _, [], env, st => some (env, st)
  | fuel + 1, again, frame, anc, s :: rest, env, st =>
    let pend := !anc.isEmpty
    match s with
    | .asg ln tg e =>
      let st1 := st.emit ⟨ln, nodeOf frame ln, [tgtVar frame tg], varsOf frame e, false, anc, pend⟩
      let r := store tg (eval env st.gl e) env st1
      execBlock funs carried fuel false frame anc rest r.1 r.2
    | .ite ln c a b =>
      let st1 := st.emit ⟨ln, nodeOf frame ln, [], condVars frame c, true, anc, pend⟩
      let br := if evalCmp c.op (eval env st.gl c.a) (eval env st.gl c.b) then a else b
      match execBlock funs carried fuel false frame (nodeOf frame ln :: anc) br env st1 with
      | none => none
      | some r => execBlock funs carried fuel false frame anc rest r.1 r.2
    | .wh ln c a =>
      -- `carried = false` mirrors pynguin on single-block loop bodies: only the first evaluation of the
      -- loop test acts as the controlling branch of the body (see the known finding in Props/C09)
      let st1 := st.emit ⟨ln, nodeOf frame ln, [], condVars frame c, carried || !again,
                          nodeOf frame ln :: anc, true⟩
      if evalCmp c.op (eval env st.gl c.a) (eval env st.gl c.b) then
        match execBlock funs carried fuel false frame (nodeOf frame ln :: anc) a env st1 with
        | none => none
        | some r => execBlock funs carried fuel true frame anc (s :: rest) r.1 r.2
      else execBlock funs carried fuel false frame anc rest env st1
    | .call ln tg f args =>
      match funs[f]? with
      | none => none
      | some fn =>
        let fr := st.nextFrame
        let vals := args.map (eval env st.gl)
        -- the call itself (controls everything executed in the new frame) …
        let st0 := st.emit ⟨ln, callNode fr, [], [], true, anc, pend⟩
        -- … and one parameter binding per argument
        let binds : List Ev := args.zipIdx.map (fun a =>
          ⟨ln, nodeOf frame ln, [⟨fr, a.2⟩], varsOf frame a.1, false, anc, pend⟩)
        let st1 := { st0 with rev := binds.reverse ++ st0.rev,
                              nextFrame := fr + 1, codeOf := (fr, f + 2) :: st.codeOf }
        match execBlock funs carried fuel false fr [callNode fr] fn.body (bindParams vals) st1 with
        | none => none
        | some r =>
          let st2 := r.2.emit ⟨fn.retLn, nodeOf fr fn.retLn, [⟨fr, retName⟩], varsOf fr fn.ret,
                               false, [callNode fr], true⟩
          let st3 := st2.emit ⟨ln, nodeOf frame ln, [tgtVar frame tg], [⟨fr, retName⟩], false, anc, pend⟩
          let r' := store tg (eval r.1 r.2.gl fn.ret) env st3
          execBlock funs carried fuel false frame anc rest r'.1 r'.2

/-- The test case as statements of the main frame (`int_k` is local `k`, all on line `0`). -/
def testStmts (test : List TStmt) : List Stmt :=
  test.zipIdx.map (fun p => match p.1 with
    | .const n => Stmt.asg 0 (.l p.2) (.k n)
    | .call f args => Stmt.call 0 (.l p.2) f (args.map Expr.l))

/-- Module import: `G<i> = n` and `def f` lines, in line order. -/
def importEvents (p : Prog) : List Ev :=
  let gs := p.ginit.map (fun t => (t.1, [(⟨globalScope, t.2.1⟩ : Var)]))
  let fs := p.funs.map (fun f => (f.defLn, ([] : List Var)))
  let all := (gs ++ fs).mergeSort (fun a b => a.1 ≤ b.1)
  all.map (fun t => ⟨t.1, nodeOf 0 t.1, t.2, [], false, [], false⟩)

structure Result where
  trace : Trace
  vals : List Int
  crits : List Nat          -- per test statement: position of the step storing `int_k`
  acrits : List Nat         -- per asserted statement: position of the assertion's branch
  codeOf : List (Nat × Nat)

/-- Execute the test statement by statement (so the criteria positions are known). -/
def runTest (funs : List Fun) (carried : Bool) (asserts : List Nat) (fuel : Nat) :
    List (Stmt × Nat) → Env → St → List Nat → List Nat → Option (Env × St × List Nat × List Nat)
  | [], env, st, cs, acs => some (env, st, cs.reverse, acs.reverse)
  | (s, k) :: rest, env, st, cs, acs =>
    match execBlock funs carried fuel false mainFrame [] [s] env st with
    | none => none
    | some r =>
      let pos := r.2.rev.length - 1
      if asserts.contains k then
        let st' := r.2.emit ⟨0, nodeOf mainFrame 0, [], [⟨mainFrame, k⟩], true, [], false⟩
        runTest funs carried asserts fuel rest r.1 st' (pos :: cs) ((pos + 1) :: acs)
      else runTest funs carried asserts fuel rest r.1 r.2 (pos :: cs) acs

def run (p : Prog) (fuel : Nat) (carried : Bool := true) : Option Result :=
  let imp := importEvents p
  let st0 : St := ⟨imp.reverse, p.ginit.foldl (fun g t => update g t.2.1 t.2.2) [], 2, [(0, 0), (1, 1)]⟩
  match runTest p.funs carried p.asserts fuel (testStmts p.test).zipIdx [] st0 [] [] with
  | none => none
  | some (env, st, cs, acs) =>
    some ⟨st.rev.reverse, (List.range p.test.length).map (lookup env), cs, acs, st.codeOf⟩

def codeOfFn (tbl : List (Nat × Nat)) (s : Nat) : Nat := ((tbl.find? (·.1 == s)).map (·.2)).getD 0

end PynguinModel.PyMini
