/-!
# The `random.Random.seed` patch: generation time vs. the emitted test file (C18)

Python ↔ Lean (Mathlib-free, mirrors the code):

* `pynguin.generator._patch_random` (`_deterministic_random_seed(self, x=None)`, installed before the module
  under test is imported, the run seed read from the configuration) ↔ `genSeed`;
* the function `_pynguin_deterministic_seed(self, x=None)` that `TestSuiteWriter._create_patch_nodes(seed)`
  writes into the test file (the run seed is baked into the text) ↔ `exportSeed`;
* `execution_isolation._make_deterministic` (before every test-case execution) ↔ `genReseed`,
  the emitted autouse fixture `_pynguin_seed_random` ↔ `exportReseed`.

Both functions look at three things of the argument only: is it `None`, does its type use the identity
hash (`type(x).__hash__ is object.__hash__`), and — for the (wrong) compacted rule `x = x or seed` — its
truth value.  `SeedArg` keeps exactly that; `Eff` is what reaches the original `random.Random.seed`.
-/
namespace PynguinModel.SeedPatch

/-- A Python value as far as seeding can tell values apart: its `repr` and its truth value. -/
structure Val where
  repr : String
  truthy : Bool
  deriving DecidableEq, Repr

/-- The argument `x` of `random.Random.seed(self, x=None)` (also `random.Random(x)`, `random.seed(x)`). -/
inductive SeedArg
  /-- `None` / no argument. -/
  | none
  /-- a value hashed by value (`int`, `float`, `str`, `bytes`, `bool`, `tuple` …), e.g. `0`, `0.0`, `''`, `b''`. -/
  | value (v : Val)
  /-- an object whose type uses `object.__hash__` (address based); `truthy` is `bool(x)`. -/
  | idHashed (tyModule tyName : String) (truthy : Bool)
  deriving DecidableEq, Repr

/-- What is handed to the original `random.Random.seed`. -/
inductive Eff
  | val (v : Val)
  /-- the string `f'{type(x).__module__}.{type(x).__name__}'` -/
  | tyName (s : String)
  deriving DecidableEq, Repr

/-- The run seed as a Python `int`. -/
def runVal (seed : Nat) : Val := ⟨toString seed, seed != 0⟩

def qualName (m n : String) : String := m ++ "." ++ n

/-- `generator._patch_random`:
`if x is None: x = <run seed>  elif type(x).__hash__ is object.__hash__: x = '<module>.<name>'`. -/
def genSeed (seed : Nat) : SeedArg → Eff
  | .none => .val (runVal seed)
  | .idHashed m n _ => .tyName (qualName m n)
  | .value v => .val v

/-- The function emitted by `TestSuiteWriter._create_patch_nodes(seed)` (same two branches, seed baked in). -/
def exportSeed (seed : Nat) (x : SeedArg) : Eff :=
  match x with
  | .none => .val (runVal seed)
  | .idHashed m n _ => .tyName (qualName m n)
  | .value v => .val v

/-- `bool(x)`; `None` is falsy. -/
def SeedArg.truthy : SeedArg → Bool
  | .none => false
  | .value v => v.truthy
  | .idHashed _ _ t => t

/-- The compacted rule `x = x or <seed>; if type(x).__hash__ is object.__hash__: …` (NOT what pynguin emits;
kept to show that it breaks the property, `Props/C18.lean: seed_or_rule_cex`). -/
def exportSeedOr (seed : Nat) (x : SeedArg) : Eff :=
  if x.truthy then
    match x with
    | .idHashed m n _ => .tyName (qualName m n)
    | .value v => .val v
    | .none => .val (runVal seed)
  else .val (runVal seed)

/-- Seeding state of the generators a module touches: generator id ↦ what its last `seed` call received. -/
abbrev Seeds := List (Nat × Eff)

def setSeed (g : Nat) (e : Eff) : Seeds → Seeds
  | [] => [(g, e)]
  | (h, e') :: r => if h = g then (g, e) :: r else (h, e') :: setSeed g e r

/-- A module's seeding events in program order: generator `g` is (re)seeded with argument `x`
(`random.Random(x)`, `rng.seed(x)`, `random.seed(x)` for the hidden global generator). -/
abbrev Events := List (Nat × SeedArg)

/-- Replay the events through a patched `seed`. -/
def replay (patch : SeedArg → Eff) (evs : Events) (st : Seeds) : Seeds :=
  evs.foldl (fun acc ev => setSeed ev.1 (patch ev.2) acc) st

/-- `_make_deterministic` / the autouse fixture: every tracked generator gets `seed(<run seed>)` through the
patched method (an explicit `int` argument). -/
def reseedAll (patch : SeedArg → Eff) (seed : Nat) (st : Seeds) : Seeds :=
  st.map (fun p => (p.1, patch (.value (runVal seed))))

def genReseed (seed : Nat) : Seeds → Seeds := reseedAll (genSeed seed) seed
def exportReseed (seed : Nat) : Seeds → Seeds := reseedAll (exportSeed seed) seed

end PynguinModel.SeedPatch
