/-!
# Model of pynguin's coverage exclusions (property C08)

Mirrors, Mathlib-free and executable,

* `pynguin.instrumentation.transformer.ModuleAstInfo` — `from_path` (line sets), `get_scope`,
  `_get_scope_names`, `_find_lines_in_ast`, `_find_excluded_block_lines`;
* `pynguin.instrumentation.transformer.AstInfo` — `_in_cover`, `_in_body`, `_inter_lines`,
  `_else_lines`, `_try_else_lines`, `_try_finally_lines`, `should_be_covered`, `should_cover_line`,
  `should_cover_conditional_statement`;
* the `ast_info` filters of `LineCoverageInstrumentation.visit_node` and
  `BranchCoverageInstrumentation.visit_node` (version/python3_10.py, python3_11.py) and the
  recursion of `InstrumentationTransformer._instrument_code_recursive`;
* `install_import_hook`: `ignore_methods` → `no_cover` names.

The Python `ast` is reduced to a region tree (`Node`): one node per statement / scope / handler /
case, plus anonymous wrappers for expressions that contain scopes.  Children are kept in
`ast.iter_child_nodes` order, so `preorder` is the order of `ast_utils.nodes_of_class`.

The model describes the code WITH the five C08 repairs (see design_notes/C08.md):
`_first_line` (decorators belong to their definition), `_has_elif_block` by column,
`should_cover_conditional_statement` defaulting to the line verdict, `should_be_covered` consulting
the enclosing branches of the module, `_in_cover` accepting descendants of only-cover scopes.
-/

namespace PynguinModel.Exclusions

/-- What kind of `ast` node a region-tree node stands for. -/
inductive Kind where
  | other    -- simple statement, `with`, expression wrapper, ...: no own semantics
  | module   -- ast.Module
  | scope    -- FunctionDef / AsyncFunctionDef / ClassDef (flagA) or Lambda / comprehension / genexp
  | ifK      -- ast.If (flagA: `_is_main or _is_type_checking`; flagB: this node is an `elif`)
  | loop     -- ast.For / ast.While
  | tryK     -- ast.Try / ast.TryStar
  | matchK   -- ast.Match (cases are kept in `handlers`)
  | handler  -- ast.ExceptHandler
  | case     -- ast.match_case
  deriving DecidableEq, Repr, Inhabited

/-- Region tree. `first` = `_first_line` (first decorator line for decorated definitions, else `s`),
`s`,`e` = `scope_line_range`. -/
inductive Node where
  | mk (kind : Kind) (flagA flagB : Bool) (name : String) (first s e : Nat)
       (hdr body handlers orelse final : List Node)

namespace Node
def kind : Node → Kind | .mk k _ _ _ _ _ _ _ _ _ _ _ => k
def flagA : Node → Bool | .mk _ a _ _ _ _ _ _ _ _ _ _ => a
def flagB : Node → Bool | .mk _ _ b _ _ _ _ _ _ _ _ _ => b
def name : Node → String | .mk _ _ _ nm _ _ _ _ _ _ _ _ => nm
def first : Node → Nat | .mk _ _ _ _ f _ _ _ _ _ _ _ => f
def s : Node → Nat | .mk _ _ _ _ _ s _ _ _ _ _ _ => s
def e : Node → Nat | .mk _ _ _ _ _ _ e _ _ _ _ _ => e
def hdr : Node → List Node | .mk _ _ _ _ _ _ _ h _ _ _ _ => h
def body : Node → List Node | .mk _ _ _ _ _ _ _ _ b _ _ _ => b
def handlers : Node → List Node | .mk _ _ _ _ _ _ _ _ _ h _ _ => h
def orelse : Node → List Node | .mk _ _ _ _ _ _ _ _ _ _ o _ => o
def final : Node → List Node | .mk _ _ _ _ _ _ _ _ _ _ _ f => f
/-- `ast.iter_child_nodes` order. -/
def kids (n : Node) : List Node := n.hdr ++ n.body ++ n.handlers ++ n.orelse ++ n.final
/-- `isinstance(node, SCOPE_CLASSES)`. -/
def isScope (n : Node) : Bool := n.kind == .module || n.kind == .scope
/-- `isinstance(node, (FunctionDef, AsyncFunctionDef, ClassDef))`. -/
def isDef (n : Node) : Bool := n.kind == .scope && n.flagA
/-- `isinstance(node, (If, For, While, Match, Try, TryStar))`. -/
def isBranch (n : Node) : Bool :=
  n.kind == .ifK || n.kind == .loop || n.kind == .tryK || n.kind == .matchK
/-- `isinstance(node, (If, For, While, match_case))`. -/
def isCond (n : Node) : Bool := n.kind == .ifK || n.kind == .loop || n.kind == .case
end Node

mutual
/-- `ast_utils.nodes_of_class(tree, object)`: all nodes, preorder DFS, children left to right. -/
def preorder : Node → List Node
  | .mk k a b nm f s e hdr body hs oe fin =>
    .mk k a b nm f s e hdr body hs oe fin ::
      (preorderL hdr ++ preorderL body ++ preorderL hs ++ preorderL oe ++ preorderL fin)
def preorderL : List Node → List Node
  | [] => []
  | n :: ns => preorder n ++ preorderL ns
end

/-! ## Line helpers -/

/-- `AstInfo._in_body`. -/
def inBody (body : List Node) (l : Nat) : Bool :=
  match body.head?, body.getLast? with
  | some a, some b => decide (a.first ≤ l) && decide (l ≤ b.e)
  | _, _ => false

/-- `AstInfo._inter_lines`: `range(prev_end + 1, after_start)`. -/
def interLines (prev after : List Node) : List Nat :=
  match prev.getLast?, after.head? with
  | some p, some a => List.range' (p.e + 1) (a.first - (p.e + 1))
  | _, _ => []

/-- `AstInfo._else_lines`. -/
def elseLines (n : Node) : List Nat := interLines n.body n.orelse

def lastHandlerBody (n : Node) : List Node :=
  match n.handlers.getLast? with
  | some h => h.body
  | none => []

/-- `AstInfo._try_else_lines`. -/
def tryElseLines (n : Node) : List Nat :=
  if !n.handlers.isEmpty then interLines (lastHandlerBody n) n.orelse else interLines n.body n.orelse

/-- `AstInfo._try_finally_lines`. -/
def tryFinallyLines (n : Node) : List Nat :=
  if !n.orelse.isEmpty then interLines n.orelse n.final
  else if !n.handlers.isEmpty then interLines (lastHandlerBody n) n.final
  else interLines n.body n.final

/-- `_has_elif_block` (repaired: the single `If` of `orelse` must start in the parent's column;
the converter stores that in `flagB` of the child). -/
def hasElif (n : Node) : Bool :=
  match n.orelse with
  | [c] => c.kind == .ifK && c.flagB
  | _ => false

/-! ## Configuration resolved to lines (`ModuleAstInfo`) -/

structure Cfg where
  noCover : List Nat
  onlyCover : List Nat
  deriving Repr, DecidableEq

mutual
/-- `ModuleAstInfo._get_scope_names`: only scopes that are *direct* children are descended into. -/
def scopeNames (parent : String) : Node → List (String × Nat)
  | .mk k _ _ nm _ s _ hdr body hs oe fin =>
    let full := if k == .module then "" else if parent != "" then parent ++ "." ++ nm else nm
    (if k == .module then [] else [(full, s)]) ++
      (scopeNamesL full hdr ++ scopeNamesL full body ++ scopeNamesL full hs ++ scopeNamesL full oe
        ++ scopeNamesL full fin)
def scopeNamesL (parent : String) : List Node → List (String × Nat)
  | [] => []
  | c :: cs => (if c.isScope then scopeNames parent c else []) ++ scopeNamesL parent cs
end

/-- `dict(pairs).get(key)`: the last pair with that key wins. -/
def lookupLast (m : List (String × Nat)) (k : String) : Option Nat :=
  (m.reverse.find? (fun p => p.1 == k)).map (·.2)

/-- `ModuleAstInfo._find_lines_in_ast`. -/
def findLinesInAst (mod : Node) (names : List String) : List Nat :=
  names.filterMap (lookupLast (scopeNames "" mod))

/-- `ModuleAstInfo._find_excluded_block_lines`. -/
def excludedBlockLines (mod : Node) : List Nat :=
  (preorder mod).flatMap fun n =>
    if n.kind == .ifK && n.flagA then List.range' n.s (n.e + 1 - n.s) else []

/-- `install_import_hook`: `ignore_methods` of this module become no-cover names. -/
def ignoreToNoCover (modName : String) (no ignore : List String) : List String :=
  let pre := modName ++ "."
  no ++ (ignore.filter (·.startsWith pre)).map (fun m => (m.drop pre.length).copy)

/-- `ModuleAstInfo.from_path` + `__post_init__` (`none` = `ValueError`: conflicting lines). -/
def fromPath (mod : Node) (pynLines pragmaLines : List Nat) (enPyn enPragma : Bool)
    (only no : List String) : Option Cfg :=
  let onlyL := findLinesInAst mod only
  let noL := findLinesInAst mod no ++ excludedBlockLines mod
    ++ (if enPyn then pynLines else []) ++ (if enPragma then pragmaLines else [])
  if onlyL.any noL.contains then none else some ⟨noL, onlyL⟩

/-- `ModuleAstInfo.get_scope` (repaired: a definition starts at its first decorator). -/
def getScope (mod : Node) (l : Nat) : Option Node :=
  (preorder mod).find? fun n => n.isScope && n.first == l

/-! ## `AstInfo` -/

/-- `AstInfo._in_cover` (repaired: last disjunct = "a parent is in only_cover_lines"). -/
def inCover (cfg : Cfg) (mod self : Node) (l : Nat) : Bool :=
  if cfg.noCover.contains l then false
  else
    cfg.onlyCover.isEmpty || cfg.onlyCover.contains l
    || (List.range' self.s (self.e + 1 - self.s)).any
         (fun c => !cfg.noCover.contains c && cfg.onlyCover.contains c)
    || (preorder mod).any
         (fun sc => sc.isScope && cfg.onlyCover.contains sc.s && decide (sc.s ≤ l) && decide (l ≤ sc.e))

/-- The four `return False` tests of the loop body of `should_cover_line`, for one branch node. -/
def nodeExcludes (nc : List Nat) (n : Node) (l : Nat) : Bool :=
  (n.kind == .matchK &&
     (nc.contains n.s || n.handlers.any (fun c => inBody c.body l && nc.contains c.s)))
  || ((n.kind == .ifK || n.kind == .loop || n.kind == .tryK) && inBody n.body l && nc.contains n.s)
  || (n.kind == .tryK &&
       (n.handlers.any (fun h => inBody h.body l && nc.contains h.s)
        || (inBody n.orelse l && (tryElseLines n).any nc.contains)
        || (inBody n.final l && (tryFinallyLines n).any nc.contains)))
  || ((n.kind == .ifK || n.kind == .loop) && !(n.kind == .ifK && hasElif n)
       && inBody n.orelse l && (elseLines n).any nc.contains)

/-! ### Declarative reading of `nodeExcludes`: the excluded regions of one branch node -/

/-- The line interval covered by a block of statements (`_in_body`), if it is non-empty. -/
def blk (b : List Node) : List (Nat × Nat) :=
  match b.head?, b.getLast? with
  | some a, some z => [(a.first, z.e)]
  | _, _ => []

def within (l : Nat) (r : Nat × Nat) : Bool := decide (r.1 ≤ l) && decide (l ≤ r.2)

/-- Intervals of lines that branch node `n` excludes, given the marker lines `nc`:
a marked `match` → the whole statement; a marked `case` → its body; a marked `if`/`for`/`while`/`try`
header → its (true / loop / try) body; a marked `except` → the handler body; a marker on the lines
between two blocks (`else:` / `finally:`) → that block (for `if`: only a real `else`, not an `elif`). -/
def regions (nc : List Nat) (n : Node) : List (Nat × Nat) :=
  (if n.kind == .matchK then
     (if nc.contains n.s then [(n.s, n.e)] else [])
       ++ n.handlers.flatMap (fun c => if nc.contains c.s then blk c.body else [])
   else [])
  ++ (if (n.kind == .ifK || n.kind == .loop || n.kind == .tryK) && nc.contains n.s then blk n.body else [])
  ++ (if n.kind == .tryK then
        n.handlers.flatMap (fun h => if nc.contains h.s then blk h.body else [])
        ++ (if (tryElseLines n).any nc.contains then blk n.orelse else [])
        ++ (if (tryFinallyLines n).any nc.contains then blk n.final else [])
      else [])
  ++ (if (n.kind == .ifK || n.kind == .loop) && !(n.kind == .ifK && hasElif n)
        && (elseLines n).any nc.contains then blk n.orelse else [])

/-- `AstInfo.should_cover_line`. -/
def shouldCoverLine (cfg : Cfg) (mod self : Node) (l : Nat) : Bool :=
  inCover cfg mod self l &&
    (preorder self).all fun n =>
      !(n.isBranch && decide (n.s ≤ l) && decide (l ≤ n.e) && nodeExcludes cfg.noCover n l)

/-- `AstInfo.should_cover_conditional_statement` (repaired default). The first matching node decides. -/
def shouldCoverCond (cfg : Cfg) (mod self : Node) (l : Nat) : Bool :=
  match (preorder self).find? (fun n => n.isCond &&
      (n.s == l || ((n.kind == .ifK || n.kind == .loop) && (elseLines n).contains l))) with
  | some n =>
    shouldCoverLine cfg mod self n.s &&
      (n.kind == .case || (n.kind == .ifK && hasElif n)
        || ((n.kind == .ifK || n.kind == .loop) && (elseLines n).all (shouldCoverLine cfg mod self)))
  | none => shouldCoverLine cfg mod self l

/-- `AstInfo.should_be_covered` (repaired: every enclosing definition is judged as its own scope;
last conjunct: the enclosing branches of the whole module are consulted). -/
def shouldBeCovered (cfg : Cfg) (mod self : Node) : Bool :=
  inCover cfg mod self self.s
  && (preorder mod).all (fun d =>
        !(d.isDef && decide (d.s ≤ self.s) && decide (self.s ≤ d.e)) || inCover cfg mod d d.s)
  && shouldCoverLine cfg mod mod self.s

/-! ## Instrumentation: which goals are registered -/

structure Instr where
  line : Option Nat
  isResume : Bool
  deriving Repr, DecidableEq

/-- A basic block of the CFG, as far as the `ast_info` filters look at it. `hasPred`: the branch adapter
registers a predicate for this block when nothing is excluded. -/
structure Block where
  idx : Nat
  hasPred : Bool
  lastLine : Option Nat
  hasLast : Bool
  instrs : List Instr
  deriving Repr

inductive CodeObj where
  | mk (id first : Nat) (isModule isAnnotate : Bool) (blocks : List Block) (children : List CodeObj)

namespace CodeObj
def id : CodeObj → Nat | .mk i _ _ _ _ _ => i
def first : CodeObj → Nat | .mk _ f _ _ _ _ => f
def isModule : CodeObj → Bool | .mk _ _ m _ _ _ => m
def isAnnotate : CodeObj → Bool | .mk _ _ _ a _ _ => a
def blocks : CodeObj → List Block | .mk _ _ _ _ b _ => b
def children : CodeObj → List CodeObj | .mk _ _ _ _ _ c => c
/-- The line handed to `get_scope`. -/
def key (c : CodeObj) : Nat := if c.isModule then 0 else c.first
end CodeObj

structure Goals where
  cos : List Nat := []
  lines : List (Option Nat) := []
  preds : List (Nat × Nat) := []
  deriving Repr

instance : Append Goals := ⟨fun a b => ⟨a.cos ++ b.cos, a.lines ++ b.lines, a.preds ++ b.preds⟩⟩

/-- `LineCoverageInstrumentation.visit_node` on one block: `cur` is the local `lineno`. -/
def lineLoop (cover : Nat → Bool) : Option Nat → List Instr → List (Option Nat)
  | _, [] => []
  | cur, i :: is =>
    match i.line with
    | some l =>
      if !cover l then lineLoop cover cur is
      else if i.line != cur && !i.isResume then i.line :: lineLoop cover i.line is
      else lineLoop cover cur is
    | none => lineLoop cover cur is   -- `if not isinstance(instr.lineno, int): continue` (/repo bc886c7)

/-- The two `ast_info` guards at the top of `BranchCoverageInstrumentation.visit_node`. -/
def predAllowed (cover condCover : Nat → Bool) (b : Block) : Bool :=
  b.hasLast
  && (match b.lastLine with | some l => condCover l | none => true)
  && b.instrs.any (fun i => match i.line with | some l => cover l | none => true)

/-- Line / branch verdicts used for a code object whose `ast_info` is `info` (`None` = cover all). -/
def coverOf (cfg : Cfg) (mod : Node) (info : Option Node) (l : Nat) : Bool :=
  match info with | some sc => shouldCoverLine cfg mod sc l | none => true
def condCoverOf (cfg : Cfg) (mod : Node) (info : Option Node) (l : Nat) : Bool :=
  match info with | some sc => shouldCoverCond cfg mod sc l | none => true

/-- Goals registered for the blocks of one code object. -/
def ownGoals (cfg : Cfg) (mod : Node) (info : Option Node) (id : Nat) (blocks : List Block) : Goals :=
  { cos := [id]
    lines := blocks.flatMap (fun b => lineLoop (coverOf cfg mod info) none b.instrs)
    preds := (blocks.filter (fun b => b.hasPred &&
                (info.isNone || predAllowed (coverOf cfg mod info) (condCoverOf cfg mod info) b))).map
              (fun b => (id, b.idx)) }

/-- Does `_instrument_code_recursive` skip this code object (and with it everything nested)? -/
def skipped (cfg : Cfg) (mod : Node) (c : CodeObj) : Bool :=
  c.isAnnotate ||
    (match getScope mod c.key with
     | some sc => !shouldBeCovered cfg mod sc
     | none => false)

mutual
/-- `InstrumentationTransformer._instrument_code_recursive`. -/
def instrument (cfg : Cfg) (mod : Node) : CodeObj → Goals
  | .mk id first isMod isAnn blocks children =>
    if skipped cfg mod (.mk id first isMod isAnn blocks children) then {}
    else
      ownGoals cfg mod (getScope mod (CodeObj.key (.mk id first isMod isAnn blocks children))) id blocks
        ++ instrumentL cfg mod children
def instrumentL (cfg : Cfg) (mod : Node) : List CodeObj → Goals
  | [] => {}
  | c :: cs => instrument cfg mod c ++ instrumentL cfg mod cs
end

end PynguinModel.Exclusions
