import PynguinModel.Model.Literals
/-
Model of assertion rendering: `pynguin.assertion.assertion_to_ast`, `type_utils.is_assertable` and
the value dispatch of `RemoteAssertionTraceObserver._check_value`.

Python function                                   Lean definition
------------------------------------------------  ------------------------------------------
`type_utils.is_assertable`                         `isAssertable` (+ `isAssertableList/Pairs`)
`_make_float_literal`                              `makeFloatLiteral`   (repaired: sign bit)
`_value_to_cst`                                    `valueToCst`         (repaired: complex → call)
`_float_assertion_to_cst`                          `render (.float …)`
`_object_assertion_to_cst`                         `render (.object …)`
`_type_name_assertion_to_cst`                      `render (.typeName …)`
`_isinstance_assertion_to_cst`                     `render (.isInstance …)` / `typeExpr`
`_collection_length_assertion_to_cst`              `render (.collectionLength …)`
`_check_value` / `_check_type_and_recurse`         `checkValue` / `checkTypeAndLen`
`_is_type_importable`                              `isTypeImportable`   (repaired: must resolve)
libcst validators (`Float`/`Integer`/`SimpleString`/`Name` tokens)   `Expr.valid`, `validIdent`
executing the rendered `assert` in a namespace     `aeval`, `evalStmt`  (abstract CPython)

The unchanged tree's behaviour is kept as `makeFloatLiteralOld`, `valueToCstOld`,
`isTypeImportableOld` for the counterexample theorems.

Conventions: expressions, floats and digit strings are those of `Model/Literals.lean`.  The
abstract evaluator under-approximates Python's `==` (`pyEq a b = true` implies `a == b`; equality
between an `int` and a `float`/`complex` is not modelled and counts as "not equal"), which is all
the "assertion passes" theorems need.  Mathlib-free.
-/
namespace PynguinModel.AssertRender
open PynguinModel.Literals

/-- A class object's identity: `__module__` and the parts of `__qualname__`. -/
structure TypeId where
  module : String
  qual : List String
  /-- Which of the class objects with this `__module__` and `__qualname__`: class objects are
  compared by identity (`owner is typ`, `isinstance`), and names do not determine the object — a
  module can define a class twice, rebind the name, and a function creates a new class per call.
  `0` = the first one. -/
  serial : Nat
  deriving DecidableEq, Repr, Inhabited

/-- An object that attribute access can reach, by identity: a class object, or anything else (a
module, a function, an instance, a wrapper object …). -/
inductive PyRef where
  | cls (t : TypeId)
  | other (n : Nat)
  deriving DecidableEq, Repr, Inhabited

/-- The interpreter state that name resolution looks at. -/
structure World where
  /-- `getattr(obj, name, None)`: `none` = no such attribute, or the attribute is `None` -/
  getattr : PyRef → String → Option PyRef
  /-- the `builtins` module -/
  builtins : PyRef

/-- `for part in parts: owner = getattr(owner, part, None); if owner is None: return False`. -/
def World.walk (w : World) : PyRef → List String → Option PyRef
  | o, [] => some o
  | o, p :: ps =>
      match w.getattr o p with
      | some o' => w.walk o' ps
      | none => none

/-- `".".join(parts)`. -/
def joinDots : List String → String
  | [] => ""
  | [x] => x
  | x :: xs => x ++ "." ++ joinDots xs

/-- `f"{module}.{qualname}"`. -/
def TypeId.fullName (t : TypeId) : String := t.module ++ "." ++ joinDots t.qual

def builtinType (name : String) : TypeId := ⟨"builtins", [name], 0⟩

/-- The values an assertion can be made on. -/
inductive AVal where
  | none
  | bool (b : Bool)
  | int (z : Int)
  | float (f : PyFloat)
  | complex (re im : PyFloat)
  | str (s : Chars)
  | bytes (b : Chars)
  /-- A member of a plain `enum.Enum` class (no data mixin): `type(v).__name__` and `v.name`. -/
  | enum (cls member : String)
  /-- Any other object: only its type and (if `Sized`) its length are observable. -/
  | obj (ty : TypeId) (len : Option Nat)
  | list (xs : List AVal)
  | tuple (xs : List AVal)
  | set (xs : List AVal)
  | dict (kvs : List (AVal × AVal))
  deriving Repr, Inhabited

/-- `type(v)`. -/
def AVal.typeOf : AVal → TypeId
  | .none => builtinType "NoneType" | .bool _ => builtinType "bool" | .int _ => builtinType "int"
  | .float _ => builtinType "float" | .complex _ _ => builtinType "complex"
  | .str _ => builtinType "str" | .bytes _ => builtinType "bytes"
  | .enum cls _ => ⟨"<enum module>", [cls], 0⟩
  | .obj ty _ => ty
  | .list _ => builtinType "list" | .tuple _ => builtinType "tuple" | .set _ => builtinType "set"
  | .dict _ => builtinType "dict"

/-- `len(v)` when `isinstance(v, Sized)`. -/
def AVal.len? : AVal → Option Nat
  | .str s => some s.length | .bytes b => some b.length
  | .obj _ l => l
  | .list xs | .tuple xs | .set xs => some xs.length
  | .dict kvs => some kvs.length
  | _ => Option.none

/-! ## `is_assertable` -/

mutual
/-- `is_assertable(obj, recursion_depth)`. -/
def isAssertable (depth : Nat) : AVal → Bool
  | .float _ => false
  | .obj _ _ => false
  | .list xs | .tuple xs | .set xs => depth ≤ 4 && isAssertableList (depth + 1) xs
  | .dict kvs => depth ≤ 4 && isAssertablePairs (depth + 1) kvs
  | _ => depth ≤ 4
def isAssertableList (depth : Nat) : List AVal → Bool
  | [] => true
  | x :: xs => isAssertable depth x && isAssertableList depth xs
def isAssertablePairs (depth : Nat) : List (AVal × AVal) → Bool
  | [] => true
  | (k, v) :: kvs => isAssertable depth k && isAssertable depth v && isAssertablePairs depth kvs
end

/-! ## Rendering values -/

/-- `_make_float_literal` (repaired): the minus is taken from the sign bit. -/
def makeFloatLiteral : PyFloat → Expr
  | .nan _ => .call "float" [.str strNan]
  | .inf s => .call "float" [.str (if s then strNegInf else strInf)]
  | .fin s m => if s then .neg (.float m) else .float m

/-- `_make_float_literal` on the unchanged tree: `if value < 0: -Float(str(-value))`, otherwise
`Float(str(value))` — for `-0.0` the token text is `"-0.0"`, which libcst rejects. -/
def makeFloatLiteralOld : PyFloat → Expr
  | .nan _ => .call "float" [.str strNan]
  | .inf s => .call "float" [.str (if s then strNegInf else strInf)]
  | .fin s m =>
      if (PyFloat.fin s m).ltZero then .neg (.float m)
      else if s then .badToken "-0.0" else .float m

/-- The `int` branch of `_value_to_cst` (`str(-value)` for negative values). -/
def intLiteral (z : Int) : Expr :=
  if z < 0 then .neg (.integer (toDigits z.natAbs)) else .integer (toDigits z.natAbs)

mutual
/-- `_value_to_cst` (repaired: a complex value is rendered as `complex(re, im)`). -/
def valueToCst : AVal → Expr
  | .none => .name "None"
  | .bool b => .name (if b then "True" else "False")
  | .int z => intLiteral z
  | .float f => makeFloatLiteral f
  | .str s => .str s
  | .bytes b => .bytes b
  | .complex re im => .call "complex" [makeFloatLiteral re, makeFloatLiteral im]
  | .enum cls member => .attr (.name cls) member
  | .list xs => .list (valuesToCst xs)
  | .tuple xs => .tuple (valuesToCst xs) (xs.length == 1)
  -- the code emits the members stably sorted by their rendered source text; `xs` lists them in that
  -- emission order (an input: `Props/C20.lean` `C20_set_any_order` covers every permutation)
  | .set xs => if xs.isEmpty then .call "set" [] else .set (valuesToCst xs)
  | .dict kvs => .dict (pairsToCst kvs)
  -- the fallback `cst.SimpleString(repr(value))`: the repr of an arbitrary object is not a string
  -- literal
  | .obj _ _ => .badToken "<repr of an object>"
def valuesToCst : List AVal → List Expr
  | [] => []
  | x :: xs => valueToCst x :: valuesToCst xs
def pairsToCst : List (AVal × AVal) → List (Expr × Expr)
  | [] => []
  | (k, v) :: kvs => (valueToCst k, valueToCst v) :: pairsToCst kvs
end

/-- `_value_to_cst` on the unchanged tree, for the two scalar kinds it gets wrong. -/
def scalarToCstOld : AVal → Expr
  | .float f => makeFloatLiteralOld f
  | .complex _ _ => .badToken "(re+imj)"
  | v => valueToCst v

/-! ## Assertions and their rendering -/

inductive Assertion where
  | float (source : String) (value : PyFloat)
  | object (source : String) (value : AVal)
  | typeName (source : String) (ty : TypeId)
  | isInstance (source : String) (ty : TypeId)
  | collectionLength (source : String) (length : Nat)
  deriving Repr, Inhabited

inductive CmpOp where
  | is | eq
  deriving DecidableEq, Repr

/-- The rendered `assert` statement. -/
inductive Stmt where
  /-- `assert lhs is rhs` / `assert lhs == rhs` -/
  | cmp (lhs : Expr) (op : CmpOp) (rhs : Expr)
  /-- `assert lhs == pytest.approx(value, abs=a, rel=r)` -/
  | approx (lhs value a r : Expr)
  /-- `assert f"{type(v).__module__}.{type(v).__qualname__}" == 'expected'` -/
  | typeName (v : Expr) (expected : String)
  /-- `assert isinstance(v, ty)` -/
  | isInstance (v ty : Expr)
  /-- `assert len(v) == n` -/
  | len (v n : Expr)
  deriving Repr, Inhabited

/-- `get_module_alias(module)`: the last dotted component plus `_` (given, not recomputed). -/
structure RenderEnv where
  /-- alias of the module under test in the exported file -/
  alias : String → String

/-- The type expression of `_isinstance_assertion_to_cst`. -/
def typeExpr (env : RenderEnv) (ty : TypeId) : Expr :=
  if ty.module = "builtins" then .name (joinDots ty.qual)
  else ty.qual.foldl (fun e part => .attr e part) (.name (env.alias ty.module))

/-- `assertion_to_cst` (`prec` = `float_precision`). -/
def render (env : RenderEnv) (prec : PyFloat) : Assertion → Stmt
  | .float src v => .approx (.name src) (makeFloatLiteral v) (makeFloatLiteral prec) (makeFloatLiteral prec)
  | .object src v =>
      match v with
      | .none | .bool _ => .cmp (.name src) .is (valueToCst v)
      | _ => .cmp (.name src) .eq (valueToCst v)
  | .typeName src ty => .typeName (.name src) ty.fullName
  | .isInstance src ty => .isInstance (.name src) (typeExpr env ty)
  | .collectionLength src n => .len (.name src) (.integer (toDigits n))

/-- The float assertion as rendered on the unchanged tree. -/
def renderFloatOld (src : String) (prec v : PyFloat) : Stmt :=
  .approx (.name src) (makeFloatLiteralOld v) (makeFloatLiteralOld prec) (makeFloatLiteralOld prec)

mutual
/-- `str(int)` digit limit (see `Literals.digitsWithinLimit`): rendering raises `ValueError`. -/
def AVal.intsWithin (lim : Nat) : AVal → Bool
  | .int z => digitsWithinLimit lim z.natAbs
  | .list xs | .tuple xs | .set xs => intsWithinList lim xs
  | .dict kvs => intsWithinPairs lim kvs
  | _ => true
def intsWithinList (lim : Nat) : List AVal → Bool
  | [] => true
  | x :: xs => x.intsWithin lim && intsWithinList lim xs
def intsWithinPairs (lim : Nat) : List (AVal × AVal) → Bool
  | [] => true
  | (k, v) :: kvs => k.intsWithin lim && v.intsWithin lim && intsWithinPairs lim kvs
end

/-- `assertion_to_cst` under the interpreter's digit limit (`none` = `ValueError`). -/
def renderLim (lim : Nat) (env : RenderEnv) (prec : PyFloat) (a : Assertion) : Option Stmt :=
  match a with
  | .object _ v => if v.intsWithin lim then some (render env prec a) else none
  | _ => some (render env prec a)

/-! ## Validity -/

/-- A Python identifier, as far as the renderers can violate it: non-empty, no `<`, `>`, `|`, `.`,
space; does not start with a digit. -/
def validIdent (s : String) : Bool :=
  s != "" && s.toList.all (fun c => c.isAlphanum || c == '_' || c.toNat ≥ 128)
    && !(s.toList.head?.map Char.isDigit).getD false

/-- Every `Name` in the expression is an identifier (on top of `Expr.valid`). -/
def namesValid : Expr → Bool
  | .name id => validIdent id
  | .attr e a => namesValid e && validIdent a
  | _ => true

def Stmt.valid : Stmt → Bool
  | .cmp l _ r => l.valid && r.valid
  | .approx l v a r => l.valid && v.valid && a.valid && r.valid
  | .typeName v _ => v.valid
  | .isInstance v ty => v.valid && ty.valid && namesValid ty
  | .len v n => v.valid && n.valid

/-! ## Evaluation of a rendered assertion in a namespace -/

structure Namespace where
  /-- variables of the test (`var_0 = …`) -/
  vars : List (String × AVal)
  /-- enum classes bound under their bare class name -/
  enumClasses : List String
  /-- names bound to objects that are not values of the test: `import <module> as <alias>` -/
  globals : List (String × PyRef)
  /-- the interpreter state: attribute access, the `builtins` module -/
  world : World
  /-- `import pytest` is present -/
  hasPytest : Bool

def lookup {α} (k : String) : List (String × α) → Option α
  | [] => none
  | (k', v) :: r => if k = k' then some v else lookup k r

/-- What a dotted path `n.a.b` evaluates to: the first name is a global of the file or, if it is not
bound there, a name of `builtins`; the rest is attribute access (`none` = `NameError` /
`AttributeError`, or the value is `None`). -/
def Namespace.resolve (ns : Namespace) : List String → Option PyRef
  | [] => none
  | n :: rest =>
      match (match lookup n ns.globals with
             | some o => some o
             | none => ns.world.getattr ns.world.builtins n) with
      | some o => ns.world.walk o rest
      | none => none

/-- `a.b.c` → `["a", "b", "c"]`. -/
def exprPath : Expr → Option (List String)
  | .name id => some [id]
  | .attr e a => (exprPath e).map (· ++ [a])
  | _ => none

def negAVal : AVal → Option AVal
  | .int z => some (.int (-z))
  | .float f => some (.float f.neg)
  | _ => none

mutual
/-- Evaluate an expression; `none` = raises (e.g. `NameError`) or outside the fragment. -/
def aeval (ns : Namespace) : Expr → Option AVal
  | .name id =>
      if id = "None" then some .none else if id = "True" then some (.bool true)
      else if id = "False" then some (.bool false) else lookup id ns.vars
  | .integer ds => some (.int (ofDigits ds))
  | .float m => some (.float (.fin false m))
  | .str s => some (.str s)
  | .bytes b => some (.bytes b)
  | .badToken _ => none
  | .neg e => (aeval ns e).bind negAVal
  | .call f args =>
      match aevalList ns args with
      | some vs =>
        if f = "set" then (match vs with | [] => some (.set []) | _ => none)
        else if f = "float" then (match vs with | [.str s] => (floatOfText s).map .float | _ => none)
        else if f = "complex" then
          (match vs with | [.float re, .float im] => some (.complex re im) | _ => none)
        else none
      | none => none
  | .attr e member =>
      match e with
      | .name cls => if cls ∈ ns.enumClasses then some (.enum cls member) else none
      | _ => none
  | .list es => (aevalList ns es).map .list
  | .tuple es _ => (aevalList ns es).map .tuple
  | .set es => if es.isEmpty then none else (aevalList ns es).map .set
  | .dict kvs => (aevalPairs ns kvs).map .dict
def aevalList (ns : Namespace) : List Expr → Option (List AVal)
  | [] => some []
  | e :: es => match aeval ns e, aevalList ns es with
    | some v, some vs => some (v :: vs)
    | _, _ => none
def aevalPairs (ns : Namespace) : List (Expr × Expr) → Option (List (AVal × AVal))
  | [] => some []
  | (k, v) :: kvs => match aeval ns k, aeval ns v, aevalPairs ns kvs with
    | some a, some b, some r => some ((a, b) :: r)
    | _, _, _ => none
end

def boolToInt (b : Bool) : Int := if b then 1 else 0

mutual
/-- An under-approximation of Python's `a == b` (see the header). -/
def pyEq : AVal → AVal → Bool
  | .none, .none => true
  | .bool a, .bool b => a == b
  | .bool a, .int z => boolToInt a == z
  | .int z, .bool b => z == boolToInt b
  | .int a, .int b => a == b
  | .float a, .float b => a.pyEq b
  | .complex a b, .complex c d => a.pyEq c && b.pyEq d
  | .str a, .str b => a == b
  | .bytes a, .bytes b => a == b
  | .enum c m, .enum c' m' => c == c' && m == m'
  | .list xs, .list ys => pyEqList xs ys
  | .tuple xs, .tuple ys => pyEqList xs ys
  | .set xs, .set ys => xs.length == ys.length && subsetEq xs ys
  | .dict kvs, .dict kws => kvs.length == kws.length && subsetPairs kvs kws
  | _, _ => false
def pyEqList : List AVal → List AVal → Bool
  | [], [] => true
  | x :: xs, y :: ys => pyEq x y && pyEqList xs ys
  | _, _ => false
def subsetEq : List AVal → List AVal → Bool
  | [], _ => true
  | x :: xs, ys => ys.any (pyEq x) && subsetEq xs ys
def subsetPairs : List (AVal × AVal) → List (AVal × AVal) → Bool
  | [], _ => true
  | (k, v) :: kvs, kws => kws.any (fun p => pyEq k p.1 && pyEq v p.2) && subsetPairs kvs kws
end

/-- `a is b` for the singletons the renderer compares with `is`. -/
def pyIs : AVal → AVal → Option Bool
  | .none, .none => some true
  | .bool a, .bool b => some (a == b)
  | .none, .bool _ | .bool _, .none => some false
  | _, _ => none

/-- `actual == pytest.approx(expected, abs=…, rel=…)` (`ApproxScalar.__eq__`, `nan_ok=False`):
exact equality short-circuits; a NaN expectation never matches; an infinite expectation matches
only itself; `none` = the tolerance arithmetic, which is not modelled. -/
def approxEq (actual expected : PyFloat) : Option Bool :=
  if actual.pyEq expected then some true
  else if expected.isNan then some false
  else if !expected.isFinite then some false
  else if !actual.isFinite then some false
  else none

/-- A tolerance `pytest.approx` accepts: a non-negative, non-NaN float. -/
def validTolerance : AVal → Bool
  | .float (.fin false _) => true
  | .float (.inf false) => true
  | _ => false

/-- `isinstance(v, t)` for `t` the type of `v` or `int` for a `bool`. -/
def instanceOf (v : AVal) (t : TypeId) : Bool :=
  v.typeOf == t || (v.typeOf == builtinType "bool" && t == builtinType "int")

/-- Execute the rendered `assert`: `some true` = passes, `some false` = `AssertionError`,
`none` = another exception (or outside the modelled fragment). -/
def evalStmt (ns : Namespace) : Stmt → Option Bool
  | .cmp l op r =>
      match aeval ns l, aeval ns r with
      | some a, some b => (match op with | .is => pyIs a b | .eq => some (pyEq a b))
      | _, _ => none
  | .approx l v a r =>
      if ns.hasPytest then
        match aeval ns l, aeval ns v, aeval ns a, aeval ns r with
        | some (.float x), some (.float e), some ta, some tr =>
            if validTolerance ta && validTolerance tr then approxEq x e else none
        | _, _, _, _ => none
      else none
  | .typeName v expected => (aeval ns v).map (fun x => x.typeOf.fullName == expected)
  | .isInstance v ty =>
      -- `isinstance(x, <not a class>)` raises `TypeError`
      match aeval ns v, (exprPath ty).bind ns.resolve with
      | some x, some (.cls t) => some (instanceOf x t)
      | _, _ => none
  | .len v n =>
      match aeval ns v, aeval ns n with
      | some x, some (.int k) => (x.len?).map (fun l => (l : Int) == k)
      | _, _ => none

/-! ## The observer's choice of assertion (`_check_value`) -/

structure TypeEnv where
  /-- `config.configuration.module_name` -/
  moduleName : String
  /-- the interpreter state the observer runs in -/
  world : World
  /-- `sys.modules.get(module_name)` -/
  sutModule : Option PyRef

/-- Where `_is_type_importable` starts walking: `builtins`, the module under test, or nowhere. -/
def typeOwner (te : TypeEnv) (t : TypeId) : Option PyRef :=
  if t.module == "builtins" then some te.world.builtins
  else if t.module == te.moduleName then te.sutModule
  else none

/-- `_is_type_importable` (repaired): builtins or the module under test, *and* walking the qualified
name from there reaches the class object itself (`return owner is typ`). -/
def isTypeImportable (te : TypeEnv) (t : TypeId) : Bool :=
  match typeOwner te t with
  | some o => te.world.walk o t.qual == some (.cls t)
  | none => false

/-- NOT what the code does: accept the type as soon as its qualified name resolves to *anything*
(`operator.attrgetter(qualname)(owner)` does not raise) — the identity test is what makes the
rendered reference denote the observed value's class. -/
def isTypeImportableByName (te : TypeEnv) (t : TypeId) : Bool :=
  match typeOwner te t with
  | some o => (te.world.walk o t.qual).isSome
  | none => false

/-- `_is_type_importable` on the unchanged tree. -/
def isTypeImportableOld (te : TypeEnv) (t : TypeId) : Bool :=
  t.module == "builtins" || t.module == te.moduleName

/-- `_check_type_and_recurse` (type and length part). -/
def checkTypeAndLen (te : TypeEnv) (src : String) (v : AVal) : List Assertion :=
  (if isTypeImportable te v.typeOf then [Assertion.isInstance src v.typeOf]
   else [Assertion.typeName src v.typeOf])
  ++ (match v.len? with | some n => [Assertion.collectionLength src n] | none => [])

/-- `_check_value`. -/
def checkValue (te : TypeEnv) (src : String) (v : AVal) : List Assertion :=
  match v with
  | .float f => [.float src f]
  | _ => if isAssertable 0 v then [.object src v] else checkTypeAndLen te src v

end PynguinModel.AssertRender
