/-!
# Stopping conditions and the search-loop skeleton (C17)

Mirrors, Mathlib-free,

* `pynguin/ga/stoppingcondition.py` — a stopping condition is a counter, a limit, a comparison in
  `is_fulfilled` and counter updates in four observer hooks (`before_search_start`,
  `after_search_iteration`, `before_remote_test_case_execution`,
  `after_remote_test_case_execution`).  What each class does is *data* (`CondSpec`), regenerated
  from the source by the translator (`Generated/C17Stopping.lean`);
* `GenerationAlgorithm.resources_left` — `all(not sc.is_fulfilled() for sc in ...)`; the quantifier
  and the negation are data as well (`Skeleton.rlAll`, `Skeleton.rlNegated`);
* every algorithm's `generate_tests` — `before_search_start(); <initial population>;
  while self.resources_left() and <pure test>: <body>; self.after_search_iteration(..)`; whether the
  guard mentions `resources_left()` and where `after_search_iteration` is called is data
  (`Skeleton`);
* `GenerationAlgorithmFactory.get_search_algorithm` — every stopping condition is a search observer,
  and an execution observer iff `observes_execution`.

What one iteration *does* (how many tests it executes, how many statements each executes, what the
algorithm-specific pure conjunct of the guard evaluates to) is an arbitrary input (`Effect`).
-/
namespace PynguinModel.Stopping

/-- The comparison operator used by `is_fulfilled` (`return self.<counter> <op> self.<limit>`). -/
inductive Cmp where
  | ge | gt | le | lt | eq | ne
  deriving DecidableEq, Repr

def Cmp.eval : Cmp → Nat → Nat → Bool
  | .ge, a, b => decide (b ≤ a)
  | .gt, a, b => decide (b < a)
  | .le, a, b => decide (a ≤ b)
  | .lt, a, b => decide (a < b)
  | .eq, a, b => decide (a = b)
  | .ne, a, b => decide (a ≠ b)

/-- A counter update statement found in an observer hook:
`self.c = 0`, `self.c += 1`, `self.c += result.num_executed_statements`. -/
inductive Upd where
  | set0 | add1 | addResultStmts
  deriving DecidableEq, Repr

/-- `n` is `result.num_executed_statements` of the execution the hook is called for (0 elsewhere). -/
def Upd.apply (n : Nat) : Upd → Nat → Nat
  | .set0, _ => 0
  | .add1, c => c + 1
  | .addResultStmts, c => c + n

def applyAll (us : List Upd) (n c : Nat) : Nat := us.foldl (fun c u => u.apply n c) c

/-- What a stopping-condition class does, as read from its source. -/
structure CondSpec where
  cls : String
  /-- `super().__init__(observes_execution=True)`: attached to the executor by the factory -/
  observesExecution : Bool
  cmp : Cmp
  onSearchStart : List Upd
  onAfterIteration : List Upd
  onBeforeExec : List Upd
  onAfterExec : List Upd
  deriving DecidableEq, Repr

/-- The loop skeleton of one algorithm's `generate_tests`, as read from its source. -/
structure Skeleton where
  algo : String
  /-- `resources_left` quantifies with `all(..)` (true) or `any(..)` (false) -/
  rlAll : Bool
  /-- `resources_left` tests `not sc.is_fulfilled()` (true) or `sc.is_fulfilled()` (false) -/
  rlNegated : Bool
  /-- `self.resources_left()` is a conjunct of the `while` test -/
  guardResources : Bool
  /-- number of `self.after_search_iteration(..)` calls that are the last statement of the body -/
  afterIterAtEnd : Nat
  /-- other `after_search_iteration` calls inside the loop body (any nesting) -/
  afterIterElsewhere : Nat
  /-- `after_search_iteration` calls of `generate_tests` outside the search loop -/
  afterIterOutside : Nat
  deriving DecidableEq, Repr

/-- Calls of `after_search_iteration` per loop iteration (calls not at the end of the body are
counted as executed once per iteration; such skeletons are not well-formed anyway). -/
def Skeleton.afterCalls (sk : Skeleton) : Nat := sk.afterIterAtEnd + sk.afterIterElsewhere

/-- A configured stopping condition object. -/
structure Cond where
  spec : CondSpec
  limit : Nat
  counter : Nat
  deriving DecidableEq, Repr

def Cond.fulfilled (c : Cond) : Bool := c.spec.cmp.eval c.counter c.limit

def Cond.upd (c : Cond) (us : List Upd) (n : Nat) : Cond :=
  { c with counter := applyAll us n c.counter }

def Cond.searchStart (c : Cond) : Cond := c.upd c.spec.onSearchStart 0
def Cond.afterIteration (c : Cond) : Cond := c.upd c.spec.onAfterIteration 0
/-- One test execution whose result has `num_executed_statements = n`; only conditions attached to
the executor see it. -/
def Cond.exec (n : Nat) (c : Cond) : Cond :=
  if c.spec.observesExecution then (c.upd c.spec.onBeforeExec 0).upd c.spec.onAfterExec n else c

/-- Search state: the condition objects plus ghost counters of what *really* happened since
`before_search_start` (completed iterations, test executions, executed statements). -/
structure St where
  conds : List Cond
  iters : Nat
  execs : Nat
  stmts : Nat
  deriving DecidableEq, Repr

def St.searchStart (s : St) : St := { s with conds := s.conds.map Cond.searchStart }
def St.exec (s : St) (n : Nat) : St :=
  { conds := s.conds.map (Cond.exec n), iters := s.iters, execs := s.execs + 1, stmts := s.stmts + n }
def St.execMany (s : St) (ns : List Nat) : St := ns.foldl St.exec s
def St.afterIteration (s : St) : St := { s with conds := s.conds.map Cond.afterIteration }

def St.afterIterationN (s : St) : Nat → St
  | 0 => s
  | k + 1 => (s.afterIteration).afterIterationN k

/-- End of the loop body: the `after_search_iteration` calls, and one more completed iteration. -/
def St.endIteration (sk : Skeleton) (s : St) : St :=
  let s' := s.afterIterationN sk.afterCalls
  { s' with iters := s'.iters + 1 }

/-- `GenerationAlgorithm.resources_left`. -/
def resourcesLeft (sk : Skeleton) (cs : List Cond) : Bool :=
  let p := fun c : Cond => if sk.rlNegated then !c.fulfilled else c.fulfilled
  if sk.rlAll then cs.all p else cs.any p

/-- The `while` test: `self.resources_left() and <pure test>`. -/
def guard (sk : Skeleton) (s : St) (pure : Bool) : Bool :=
  (if sk.guardResources then resourcesLeft sk s.conds else true) && pure

/-- What one iteration does: the value of the pure conjunct of the guard at the boundary *before*
it, and the test executions of its body (each with its number of executed statements). -/
structure Effect where
  pure : Bool
  execs : List Nat
  deriving DecidableEq, Repr

structure Out where
  /-- the states at the iteration boundaries at which an iteration was started -/
  starts : List St
  /-- the state at the boundary at which the loop stopped (or the given effects ran out) -/
  final : St
  deriving DecidableEq, Repr

/-- The search loop. -/
def loop (sk : Skeleton) : St → List Effect → Out
  | s, [] => ⟨[], s⟩
  | s, e :: es =>
    if guard sk s e.pure then
      let r := loop sk (St.endIteration sk (s.execMany e.execs)) es
      ⟨s :: r.starts, r.final⟩
    else ⟨[], s⟩

/-- Freshly constructed condition objects (`__init__` sets every counter to 0). -/
def init (specs : List (CondSpec × Nat)) : St :=
  ⟨specs.map (fun p => ⟨p.1, p.2, 0⟩), 0, 0, 0⟩

/-- `generate_tests`: `before_search_start()`, the executions before the loop (initial population),
then the loop. -/
def run (sk : Skeleton) (specs : List (CondSpec × Nat)) (pre : List Nat) (effs : List Effect) : Out :=
  loop sk (((init specs).searchStart).execMany pre) effs

end PynguinModel.Stopping
