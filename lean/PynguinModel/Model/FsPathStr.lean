import PynguinModel.Model.FsIsolation
/-!
# Path strings of `FilesystemIsolation` (C29)

`Model/FsIsolation.lean` works with component lists (`Path = List String`) and decides containment with
`under = List.isPrefixOf` on COMPONENTS.  The Python code works with path STRINGS: `_abspath` normalises
(`os.path.normpath(os.path.abspath(p))`) and `_is_isolated` walks `current = os.path.dirname(current)` until
`current in self._created`.  This file mirrors the string side, so that the step from strings to components
is a theorem (`Lemmas/FsIsolationPath.lean`) and not a modelling decision:

* `render`        ↔ the absolute path string of a component list, relative to the sandbox root (`"/a/b"`)
* `dirnameC`      ↔ `os.path.dirname`
* `isolatedWalk`  ↔ the ancestor loop of `_is_isolated`
* `normSegs`      ↔ `os.path.normpath` on the segments of a spelled path (`""`, `"."`, `".."` segments)
* `charCovered`   ↔ the character-wise containment `os.path.commonprefix((root, p)) == root` /
  `p.startswith(root)` — NOT what the code does; kept for the counterexample `C29_char_prefix_containment_cex`.
-/

namespace PynguinModel.FsIsolation

abbrev PStr := List Char

def sepC : Char := '/'

/-- the path string below the sandbox root: `"/a/b"` for `["a", "b"]`, `""` for the root itself -/
def render : Path → PStr
  | [] => []
  | c :: p => sepC :: (c.toList ++ render p)

/-- `os.path.dirname`: everything before the last separator -/
def dirnameC (s : PStr) : PStr := ((s.reverse.dropWhile (fun ch => ch != sepC)).drop 1).reverse

/-- `_is_isolated`: `while True: if current in created: return True; parent = dirname(current);
if parent == current: return False; current = parent` (`fuel` bounds the loop; the string length suffices). -/
def isolatedWalk (created : List PStr) : Nat → PStr → Bool
  | 0, cur => created.contains cur
  | fuel + 1, cur =>
    created.contains cur ||
      (let par := dirnameC cur
       par != cur && isolatedWalk created fuel par)

/-- `_is_isolated(abs_path)` for the recorded set `created`, both given as component lists -/
def isIsolatedStr (created : List Path) (r : Path) : Bool :=
  isolatedWalk (created.map render) (render r).length (render r)

/-- character-wise containment (`commonprefix((root, p)) == root`, `p.startswith(root)`): the tempting
"simplification" of the ancestor walk.  `"/report"` is a character prefix of `"/report.bak"`. -/
def charCovered (created : List PStr) (cur : PStr) : Bool := created.any (fun c => c.isPrefixOf cur)

/-- `_owns` with character-wise containment (counterexample only) -/
def charOwns (s : St) (p : Path) : Bool := !pexists s.fs p || charCovered (s.created.map render) (render p)

/-- `trackedOpen` with character-wise containment (counterexample only) -/
def charTrackedOpen (write : Bool) (p : Path) (inner : St → St × Res) (s : St) : St × Res :=
  if write && !charOwns s p then (s, .refused)
  else
    let r := inner s
    if r.2 = .ok then (if write then (⟨r.1.fs, record r.1.created [p]⟩, .ok) else r)
    else r

/-! ## Spelled paths

The code under test may spell a path in many ways (`d/`, `d//x`, `d/./x`, `d/sub/../x`).  `_abspath` maps
every spelling to its normal form before the bookkeeping; the operating system resolves the spelling itself.
`normSegs` is `os.path.normpath` on the segments below the sandbox root (a `..` at the root is dropped: the
harness never spells a path that leaves the sandbox). -/

def normStep (acc : Path) (seg : String) : Path :=
  if seg = "" ∨ seg = "." then acc
  else if seg = ".." then acc.dropLast
  else acc ++ [seg]

def normSegs (segs : List String) : Path := segs.foldl normStep []

/-- a component the model accepts as a file name: non-empty, no separator, not `.` or `..` -/
def cleanNameB (c : String) : Bool := c != "" && c != "." && c != ".." && !c.toList.contains sepC

def cleanPathB (p : Path) : Bool := p.all cleanNameB

/-- the operating system resolves a spelling to the same path as `normpath` when every directory the
spelling passes through exists: each prefix reached just before a `..` segment must be a directory. -/
def resolvesLikeNorm (fs : FS) : Path → List String → Bool
  | _, [] => true
  | acc, seg :: rest =>
    if seg = "" ∨ seg = "." then resolvesLikeNorm fs acc rest
    else if seg = ".." then isDir fs acc && resolvesLikeNorm fs acc.dropLast rest
    else resolvesLikeNorm fs (acc ++ [seg]) rest

/-! ## Operations with spelled arguments -/

/-- an operation together with the way the code under test spells its path arguments (`none` = the plain
normal form `os.path.join(root, *p)`); the segments are relative to the sandbox root -/
structure SpOp where
  op : Op
  sp : Option (List String) := none
  sq : Option (List String) := none

/-- the path arguments of an operation -/
def opArgs : Op → Path × Option Path
  | .fopen _ p _ _ => (p, none)
  | .osopen p _ _ => (p, none)
  | .writeText p _ => (p, none)
  | .touch p _ => (p, none)
  | .mkdir p => (p, none)
  | .makedirs p _ => (p, none)
  | .pmkdir p _ _ => (p, none)
  | .rename _ p q => (p, some q)
  | .copy _ p q => (p, some q)
  | .move p q => (p, some q)
  | .remove _ p => (p, none)
  | .rmdir _ p => (p, none)
  | .rmtree p => (p, none)

/-- the last segment names the target itself (library code takes `basename`/`split` of the spelling), or the
spelling ends in a separator and the target is a directory -/
def lastOk (fs : FS) (p : Path) (segs : List String) : Bool :=
  match segs.getLast? with
  | none => true
  | some s => if s = "" then isDir fs p else cleanNameB s

/-- the spelling denotes `p` for `_abspath` (`normSegs`) — checked by the driver — and for the operating
system and the library code in the current tree -/
def spellingOk (fs : FS) (p : Path) : Option (List String) → Bool
  | none => true
  | some segs => resolvesLikeNorm fs [] segs && lastOk fs p segs

def spellsArgs (o : SpOp) : Bool :=
  let a := opArgs o.op
  (match o.sp with | none => true | some segs => normSegs segs == a.1) &&
  (match o.sq, a.2 with
   | none, _ => true
   | some segs, some q => normSegs segs == q
   | some _, none => false)

def spelledOk (o : SpOp) (fs : FS) : Bool :=
  let a := opArgs o.op
  spellingOk fs a.1 o.sp && spellingOk fs (a.2.getD []) o.sq

/-- a spelled operation is the operation on the normal forms when the spelling resolves like its normal
form, and is outside the model otherwise (state unchanged, outcome `unmodelled`) -/
def stepSp (o : SpOp) (s : St) : St × Res :=
  if spelledOk o s.fs then step o.op s else (s, .unmodelled)

def runSp (ops : List SpOp) (s : St) : St := ops.foldl (fun s o => (stepSp o s).1) s

def runLogSp (ops : List SpOp) (s : St) : St × List Res :=
  ops.foldl (fun acc o => let r := stepSp o acc.1; (r.1, acc.2 ++ [r.2])) (s, [])

end PynguinModel.FsIsolation
