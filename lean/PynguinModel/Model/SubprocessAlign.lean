/-!
# In-process vs. subprocess execution (C31)

Mirrors `src/pynguin/testcase/subprocess_executor.py` (the parent-side plumbing of
`SubprocessTestCaseExecutor`) as list functions:

* `_create_variable_binding`                 ↔ `createBinding`
* `Assertion.clone(memo)` (`assertion.py`)   ↔ `Assertion.clone` (`memo.get(source, source)`;
  an `ExceptionAssertion` has no source)
* `AssertionTrace.add_entry/get_all_assertions/clear` ↔ `addEntry` on an insertion-ordered dict
  `position ↦ OrderedSet` (`osAdd`)
* `_fix_assertion_trace`                     ↔ `mkMemo` (may raise `KeyError`, before anything is
  touched) + `rebuild` = `fixTrace`
* `_fix_result_for_pickle` + `_fix_unpicklable` + `_filter_bad_*` / `_clear_bad_*`
                                             ↔ `fixForPickle` (what `dill.detect.baditems` answers is
  an input, `Probe`: the bad items, or "the probe itself raised")
* `_create_new_reference_bindings`           ↔ `newBindings`
* `_execute_test_cases_in_subprocess`        ↔ `childRun` (results of the in-process executor of the
  child, made pickle-safe, plus the new bindings)
* `_process_subprocess_results` (the `zip(..., strict=True)` loop) ↔ `fixAll`
* `_fallback_on_failure`, `execute`, `execute_multiple` ↔ `executeOne`, `executeMultiple`

The operating system (fork, pipe, pickling, `poll` time-out) is not modelled: what the child answers
for a batch is the parameter `remote : List τ → Reply` — *any* function, so that theorems hold for every
crash pattern of the batch and of the individual re-executions.  No Mathlib.
-/
namespace PynguinModel.SubprocessAlign

/-! ## Python dicts: insertion-ordered association lists with unique keys -/

/-- `d.get(k)`. -/
def dget [DecidableEq κ] (d : List (κ × ν)) (k : κ) : Option ν :=
  match d with
  | [] => none
  | (k', v') :: r => if k' = k then some v' else dget r k

/-- `d[k] = v`: overwrite in place, else append. -/
def dset [DecidableEq κ] (d : List (κ × ν)) (k : κ) (v : ν) : List (κ × ν) :=
  match d with
  | [] => [(k, v)]
  | (k', v') :: r => if k' = k then (k', v) :: r else (k', v') :: dset r k v

/-- `OrderedSet.add`. -/
def osAdd [DecidableEq α] (s : List α) (a : α) : List α := if a ∈ s then s else s ++ [a]

inductive Err where
  /-- `old_reference_bindings[position]` for a position the old bindings do not have -/
  | key
  /-- `zip(..., strict=True)` over sequences of different lengths -/
  | value
  deriving DecidableEq, Repr

/-! ## Assertions, traces, bindings -/

/-- An assertion as far as `__eq__`/`clone` see it: the class, the source name (none for an
`ExceptionAssertion`) and everything else that takes part in equality as canonical text. -/
structure Assertion where
  kind : String
  source : Option String
  payload : String
  deriving DecidableEq, Repr

/-- `dict[int, str]`: statement position ↦ name of the variable the statement binds. -/
abbrev Bindings := List (Nat × String)

/-- `VariableReferenceMemo`. -/
abbrev Memo := List (String × String)

/-- `memo.get(source, source)`. -/
def memoGet (memo : Memo) (s : String) : String := (dget memo s).getD s

def Assertion.clone (a : Assertion) (memo : Memo) : Assertion :=
  { a with source := a.source.map (memoGet memo) }

/-- `AssertionTrace.trace`: `position ↦ OrderedSet[Assertion]`, in insertion order. -/
abbrev Trace := List (Nat × List Assertion)

/-- `AssertionTrace.add_entry` (`defaultdict(OrderedSet)`). -/
def addEntry (t : Trace) (pos : Nat) (a : Assertion) : Trace :=
  dset t pos (osAdd ((dget t pos).getD []) a)

/-- `_create_variable_binding`: `{position: stmt.bound_variable for … if bound_variable is not None}`;
a statement is represented by the variable it binds. -/
def createBindingFrom (start : Nat) : List (Option String) → Bindings
  | [] => []
  | none :: r => createBindingFrom (start + 1) r
  | some v :: r => (start, v) :: createBindingFrom (start + 1) r

def createBinding (stmts : List (Option String)) : Bindings := createBindingFrom 0 stmts

/-- The dict comprehension at the head of `_fix_assertion_trace`:
`{new_reference: old[position] for position, new_reference in new.items()}`. -/
def mkMemoFrom (old : Bindings) (memo : Memo) : Bindings → Except Err Memo
  | [] => .ok memo
  | (p, n) :: r =>
    match dget old p with
    | none => .error .key
    | some o => mkMemoFrom old (dset memo n o) r

def mkMemo (old new : Bindings) : Except Err Memo := mkMemoFrom old [] new

/-- The two nested loops of `_fix_assertion_trace` after `assertion_trace.clear()`. -/
def rebuildInto (memo : Memo) (acc : Trace) (t : Trace) : Trace :=
  t.foldl (fun acc e => e.2.foldl (fun acc a => addEntry acc e.1 (a.clone memo)) acc) acc

def rebuild (memo : Memo) (t : Trace) : Trace := rebuildInto memo [] t

/-- `_fix_assertion_trace(trace, old, new)`; on `KeyError` the trace has not been touched. -/
def fixTrace (t : Trace) (old new : Bindings) : Except Err Trace :=
  match mkMemo old new with
  | .error e => .error e
  | .ok memo => .ok (rebuild memo t)

/-- The reading of a trace that consumers use (`get_assertions`): positions with an empty set are
indistinguishable from absent positions. -/
def dropEmpty (t : Trace) : Trace := t.filter (fun e => !e.2.isEmpty)

/-- Rename every source of a trace (what a remote side with other variable names would send). -/
def renameTrace (ρ : String → String) (t : Trace) : Trace :=
  t.map (fun e => (e.1, e.2.map (fun a => { a with source := a.source.map ρ })))

/-! ## Execution results -/

/-- The coverage part of an `ExecutionTrace`, carried opaquely. -/
structure Cov where
  lines : List Nat
  preds : List (Nat × Nat)
  tdist : List (Nat × String)
  fdist : List (Nat × String)
  cos : List Nat
  deriving DecidableEq, Repr

/-- An `ExecutionResult`: the compared projection (`timeout`, `excs`, `trace`, `vfailed`, `verror`,
`cov`) and `aux`, standing for every other field (`executed_assertions`, `proxy_knowledge`, return
types …). -/
structure Res where
  timeout : Bool
  excs : List (Nat × String)
  trace : Trace
  vfailed : List (Nat × List Nat)
  verror : List (Nat × List Nat)
  cov : Cov
  aux : List String
  deriving DecidableEq, Repr

/-- `ExecutionResult(timeout=True)`. -/
def timeoutRes : Res :=
  { timeout := true, excs := [], trace := [], vfailed := [], verror := [],
    cov := { lines := [], preds := [], tdist := [], fdist := [], cos := [] }, aux := [] }

/-- The projection the property compares. -/
structure Proj where
  timeout : Bool
  excs : List (Nat × String)
  trace : Trace
  vfailed : List (Nat × List Nat)
  verror : List (Nat × List Nat)
  cov : Cov
  deriving DecidableEq, Repr

def proj (r : Res) : Proj :=
  { timeout := r.timeout, excs := r.excs, trace := dropEmpty r.trace, vfailed := r.vfailed,
    verror := r.verror, cov := r.cov }

/-! ## Making a result pickle-safe in the child -/

/-- Answer of `dill.detect.baditems(obj)` inside `_fix_unpicklable`. -/
inductive Probe (α : Type) where
  /-- the unpicklable items (possibly none) -/
  | bad (items : List α)
  /-- the probe raised: the `clear_function` runs -/
  | raised
  deriving Repr

def Probe.clean : Probe α → Bool
  | .bad [] => true
  | _ => false

/-- What the probes answer for one result: exceptions are identified by their statement position,
assertions by value (`difference_update` works by equality); `aux` is the combined effect on all
fields outside the projection. -/
structure Probes where
  excs : Probe Nat
  asserts : Probe Assertion
  aux : List String → List String

def Probes.clean (p : Probes) : Bool := p.excs.clean && p.asserts.clean

def filterExcs (p : Probe Nat) (e : List (Nat × String)) : List (Nat × String) :=
  match p with
  | .bad items => e.filter (fun x => !items.contains x.1)
  | .raised => []

def filterTrace (p : Probe Assertion) (t : Trace) : Trace :=
  match p with
  | .bad items => t.map (fun e => (e.1, e.2.filter (fun a => !items.contains a)))
  | .raised => []

/-- `_fix_result_for_pickle`. -/
def fixForPickle (p : Probes) (r : Res) : Res :=
  { r with excs := filterExcs p.excs r.excs, trace := filterTrace p.asserts r.trace, aux := p.aux r.aux }

/-- `_create_new_reference_bindings` (a `dict[int, str]` is always picklable). -/
def newBindings (r : Res) (b : Bindings) : Option Bindings :=
  if r.trace.isEmpty then none else some b

/-! ## Parent side -/

/-- What comes back for one batch. -/
inductive Reply where
  /-- `poll` ran into its time-out or the child died without sending: `NO_RESULTS` -/
  | noResults
  /-- `recv` raised `EOFError`/`OSError` -/
  | recvFailed
  /-- the tuple that was received -/
  | results (rs : List Res) (newB : List (Option Bindings))
  deriving Repr

/-- One iteration of the loop in `_process_subprocess_results`. -/
def fixOne (b : Bindings) (r : Res) (nb : Option Bindings) : Except Err Res :=
  match nb with
  | none => .ok r
  | some nb =>
    match fixTrace r.trace b nb with
    | .error e => .error e
    | .ok t => .ok { r with trace := t }

/-- `for result, old, new in zip(results, bindings, new_bindings, strict=True): fix` — a `KeyError` of an
earlier element comes before the `ValueError` of a length mismatch. -/
def fixAll : List Res → List Bindings → List (Option Bindings) → Except Err (List Res)
  | [], [], [] => .ok []
  | r :: rs, b :: bs, nb :: nbs =>
    match fixOne b r nb with
    | .error e => .error e
    | .ok r' =>
      match fixAll rs bs nbs with
      | .error e => .error e
      | .ok rest => .ok (r' :: rest)
  | _, _, _ => .error .value

/-- `execute(test)` = `next(iter(execute_multiple((test,))))`: one child for one test; without a result
the single-test branch of `_fallback_on_failure` answers `ExecutionResult(timeout=True)`. -/
def executeOne (remote : List τ → Reply) (bind : τ → Bindings) (t : τ) : Except Err Res :=
  match remote [t] with
  | .noResults => .ok timeoutRes
  | .recvFailed => .ok timeoutRes
  | .results rs nbs =>
    match fixAll rs [bind t] nbs with
    | .error e => .error e
    | .ok out =>
      match out with
      | r :: _ => .ok r
      | [] => .error .value

def mapExcept (f : α → Except ε β) : List α → Except ε (List β)
  | [] => .ok []
  | a :: r =>
    match f a with
    | .error e => .error e
    | .ok b =>
      match mapExcept f r with
      | .error e => .error e
      | .ok bs => .ok (b :: bs)

/-- `execute_multiple`. -/
def executeMultiple (remote : List τ → Reply) (bind : τ → Bindings) (tests : List τ) :
    Except Err (List Res) :=
  match tests with
  | [] => .ok []
  | _ =>
    match remote tests with
    | .results rs nbs => fixAll rs (tests.map bind) nbs
    | _ =>
      match tests with
      | [_] => .ok [timeoutRes]
      | _ => mapExcept (executeOne remote bind) tests

/-! ## The child -/

/-- `_execute_test_cases_in_subprocess`: run every test with a plain `TestCaseExecutor` (`run`), make
the results pickle-safe, attach the bindings. -/
def childRun (run : τ → Res) (probe : τ → Probes) (bind : τ → Bindings) (tests : List τ) :
    List Res × List (Option Bindings) :=
  let rs := tests.map (fun t => fixForPickle (probe t) (run t))
  (rs, (tests.zip rs).map (fun p => newBindings p.2 (bind p.1)))

/-- A crash pattern: for every batch, whether (and how) the child fails to answer. -/
inductive Crash where
  | none | noResults | recvFailed
  deriving DecidableEq, Repr

/-- A child that runs the same executor as the in-process mode, except where it crashes. -/
def remoteOf (crash : List τ → Crash) (run : τ → Res) (probe : τ → Probes) (bind : τ → Bindings)
    (tests : List τ) : Reply :=
  match crash tests with
  | .noResults => .noResults
  | .recvFailed => .recvFailed
  | .none => let c := childRun run probe bind tests; .results c.1 c.2

end PynguinModel.SubprocessAlign
