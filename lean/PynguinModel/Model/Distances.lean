/-!
# Branch distances of the execution tracer (C04)

Mirrors, function by function, `src/pynguin/instrumentation/tracer.py`
(`_eq/_neq/_lt/_le/_in/_nin/_is/_isn`, `_falsy_distance`, `_missed_branch_distance`, `_COMPARISONS`,
`_compare_distances`, `executed_compare_predicate`, `executed_bool_predicate`,
`executed_exception_match`, `_update_metrics`) and `src/pynguin/utils/type_utils.py`
(`string_distance`, `string_lt_distance`, `string_le_distance`, `given_exception_matches`).

Two variants of the combination step are modelled:
* `Variant.repaired` — the code after `proposed_fixes/C04-robust-branch-distances.diff`: the
  comparison of the module under test is evaluated once, the outcome taken gets distance 0 and the
  other outcome a guarded, never-raising estimate (`missedBranchDistance`);
* `Variant.legacy` — the code before the fix: both helper distances are evaluated eagerly and
  `_update_metrics` asserts on them (the `..._legacy_cex` theorems of `Props/C04.lean`).

Python numbers are exact: ints are `Int`, floats are `Num` (NaN, ±inf, or an exact rational).
Float arithmetic takes the rounding function `rd : Rat → Num` (correctly rounded value of an exact
real, `±inf` on overflow) as a parameter; `roundNearestEven` is the executable IEEE-754 binary64
instance used by the driver.  `-0.0` is identified with `0.0` (no modelled operation tells them apart).
No Mathlib.
-/
namespace PynguinModel.Distances

deriving instance DecidableEq for Except

/-- Python exception types that can leave the modelled functions. -/
inductive Err
  | typeError | valueError | overflowError | assertionError | other
  deriving DecidableEq, Repr, Inhabited

abbrev Res := Except Err

/-! ## Numbers -/

/-- A Python `float` (or an `int` used as a distance): NaN, +inf, -inf, or an exact rational. -/
inductive Num
  | nan | pinf | ninf | fin (q : Rat)
  deriving DecidableEq, Repr, Inhabited

namespace Num

/-- IEEE / Python `<` (NaN is unordered). -/
def lt : Num → Num → Bool
  | fin a, fin b => decide (a < b)
  | ninf, fin _ => true
  | ninf, pinf => true
  | fin _, pinf => true
  | _, _ => false

/-- IEEE / Python `==`. -/
def eq : Num → Num → Bool
  | fin a, fin b => decide (a = b)
  | pinf, pinf => true
  | ninf, ninf => true
  | _, _ => false

def le (a b : Num) : Bool := lt a b || eq a b

/-- `x > 0.0` -/
def gtZero (x : Num) : Bool := lt (fin 0) x
/-- `x >= 0.0` -/
def geZero (x : Num) : Bool := le (fin 0) x
/-- `x == 0.0` -/
def eqZero (x : Num) : Bool := eq x (fin 0)

def isNan : Num → Bool
  | nan => true
  | _ => false

def neg : Num → Num
  | nan => nan
  | pinf => ninf
  | ninf => pinf
  | fin q => fin (-q)

def abs : Num → Num
  | nan => nan
  | pinf => pinf
  | ninf => pinf
  | fin q => fin (if q < 0 then -q else q)

end Num

/-- Rounding of an exact real to a `float`: a parameter of the model. -/
abbrev Rounding := Rat → Num

/-- `x - y` on floats. -/
def fsub (rd : Rounding) : Num → Num → Num
  | .nan, _ => .nan
  | _, .nan => .nan
  | .pinf, .pinf => .nan
  | .ninf, .ninf => .nan
  | .pinf, _ => .pinf
  | .ninf, _ => .ninf
  | .fin _, .pinf => .ninf
  | .fin _, .ninf => .pinf
  | .fin a, .fin b => rd (a - b)

/-- `x + y` on floats. -/
def fadd (rd : Rounding) : Num → Num → Num
  | .nan, _ => .nan
  | _, .nan => .nan
  | .pinf, .ninf => .nan
  | .ninf, .pinf => .nan
  | .pinf, _ => .pinf
  | .ninf, _ => .ninf
  | .fin _, .pinf => .pinf
  | .fin _, .ninf => .ninf
  | .fin a, .fin b => rd (a + b)

/-- `2 ^ e` as a rational. -/
def pow2 (e : Int) : Rat :=
  if 0 ≤ e then ((2 ^ e.toNat : Nat) : Rat) else 1 / ((2 ^ (-e).toNat : Nat) : Rat)

/-- Round-to-nearest-even to IEEE-754 binary64 for a positive rational. -/
def roundPos (q : Rat) : Num :=
  let n := q.num.toNat
  let d := q.den
  let k : Int := (Nat.log2 n : Int) - (Nat.log2 d : Int)
  let fl : Int := if pow2 k ≤ q then k else k - 1          -- ⌊log₂ q⌋
  let e : Int := if fl - 52 < -1074 then -1074 else fl - 52  -- exponent of the last mantissa bit
  let scaled : Rat := q / pow2 e
  let m0 : Int := scaled.floor
  let rem : Rat := scaled - (m0 : Rat)
  let m : Int :=
    if rem < 1 / 2 then m0
    else if 1 / 2 < rem then m0 + 1
    else if m0 % 2 = 0 then m0 else m0 + 1
  let r : Rat := (m : Rat) * pow2 e
  if pow2 1024 ≤ r then .pinf else .fin r

/-- The executable IEEE-754 binary64 rounding used by the driver. -/
def roundNearestEven : Rounding := fun q =>
  if q = 0 then .fin 0 else if 0 < q then roundPos q else (roundPos (-q)).neg

/-- Rounding that does not round (non-vacuity instance of the rounding hypotheses). -/
def exactRounding : Rounding := fun q => .fin q

/-! ## Values -/

/-- Scalar Python values handled concretely by the model. Strings and bytes are code-point lists. -/
inductive Scalar
  | int (z : Int)
  | bool (b : Bool)
  | float (f : Num)
  | str (cs : List Nat)
  | bytes (bs : List Nat)
  | none
  deriving DecidableEq, Repr, Inhabited

/-- A scalar or a `list` of scalars. -/
inductive PyVal
  | sc (s : Scalar)
  | list (xs : List Scalar)
  deriving DecidableEq, Repr, Inhabited

/-- A Python number with its type (`int` arithmetic is exact, `float` arithmetic rounds). -/
inductive PyNumber
  | int (z : Int)
  | flt (f : Num)
  deriving DecidableEq, Repr

/-- `isinstance(value, numbers.Number)` and the value as a number (`bool` is an `int`). -/
def Scalar.number? : Scalar → Option PyNumber
  | .int z => some (.int z)
  | .bool b => some (.int (if b then 1 else 0))
  | .float f => some (.flt f)
  | _ => Option.none

def PyVal.number? : PyVal → Option PyNumber
  | .sc s => s.number?
  | .list _ => Option.none

/-- The exact mathematical value of a number (Python compares `int` with `float` exactly). -/
def PyNumber.exact : PyNumber → Num
  | .int z => .fin (z : Rat)
  | .flt f => f

/-! ## Python's own comparison operators on these values -/

/-- Lexicographic `<` on code-point lists (Python `str < str`, `bytes < bytes`). -/
def lexLt : List Nat → List Nat → Bool
  | [], [] => false
  | [], _ :: _ => true
  | _ :: _, [] => false
  | a :: as, b :: bs => if a < b then true else if b < a then false else lexLt as bs

def lexLe (a b : List Nat) : Bool := lexLt a b || a == b

/-- `a == b` on scalars (never raises). -/
def scEq (a b : Scalar) : Bool :=
  match a.number?, b.number? with
  | some x, some y => Num.eq x.exact y.exact
  | _, _ =>
    match a, b with
    | .str c, .str d => c == d
    | .bytes c, .bytes d => c == d
    | .none, .none => true
    | _, _ => false

/-- `a < b` (`strict`) or `a <= b` on scalars; `TypeError` for unorderable types. -/
def scOrd (strict : Bool) (a b : Scalar) : Res Bool :=
  match a.number?, b.number? with
  | some x, some y => .ok (if strict then Num.lt x.exact y.exact else Num.le x.exact y.exact)
  | _, _ =>
    match a, b with
    | .str c, .str d => .ok (if strict then lexLt c d else lexLe c d)
    | .bytes c, .bytes d => .ok (if strict then lexLt c d else lexLe c d)
    | _, _ => .error .typeError

/-- `list == list`: same length and pairwise equal. -/
def listEq : List Scalar → List Scalar → Bool
  | [], [] => true
  | a :: as, b :: bs => scEq a b && listEq as bs
  | _, _ => false

/-- `list < list` / `list <= list`: the first differing pair decides, else the lengths. -/
def listOrd (strict : Bool) : List Scalar → List Scalar → Res Bool
  | [], [] => .ok (!strict)
  | [], _ :: _ => .ok true
  | _ :: _, [] => .ok false
  | a :: as, b :: bs => if scEq a b then listOrd strict as bs else scOrd strict a b

def pvEq : PyVal → PyVal → Bool
  | .sc a, .sc b => scEq a b
  | .list a, .list b => listEq a b
  | _, _ => false

def pvOrd (strict : Bool) : PyVal → PyVal → Res Bool
  | .sc a, .sc b => scOrd strict a b
  | .list a, .list b => listOrd strict a b
  | _, _ => .error .typeError

/-- `xs` occurs as a contiguous slice of `ys` (`str in str`, `bytes in bytes`). -/
def isInfix (xs : List Nat) : List Nat → Bool
  | [] => xs.isEmpty
  | y :: ys => List.isPrefixOf xs (y :: ys) || isInfix xs ys

/-- `v1 in v2`. -/
def pyIn (v1 v2 : PyVal) : Res Bool :=
  match v2 with
  | .list xs => .ok (xs.any fun e => pvEq v1 (.sc e))
  | .sc (.str ds) =>
    match v1 with
    | .sc (.str cs) => .ok (isInfix cs ds)
    | _ => .error .typeError
  | .sc (.bytes ds) =>
    match v1 with
    | .sc (.bytes cs) => .ok (isInfix cs ds)
    | .sc (.int z) => if 0 ≤ z ∧ z < 256 then .ok (ds.contains z.toNat) else .error .valueError
    | .sc (.bool b) => .ok (ds.contains (if b then 1 else 0))
    | _ => .error .typeError
  | .sc _ => .error .typeError

/-- `isinstance(v, Iterable)` and the items `for x in v` yields. -/
def iterOf : PyVal → Option (List PyVal)
  | .list xs => some (xs.map .sc)
  | .sc (.str cs) => some (cs.map fun c => .sc (.str [c]))
  | .sc (.bytes bs) => some (bs.map fun (b : Nat) => .sc (.int (Int.ofNat b)))
  | .sc _ => Option.none

/-- `bool(v)`. -/
def truthy : PyVal → Bool
  | .sc (.int z) => z != 0
  | .sc (.bool b) => b
  | .sc (.float f) => !(Num.eq f (.fin 0))
  | .sc (.str cs) => !cs.isEmpty
  | .sc (.bytes bs) => !bs.isEmpty
  | .sc .none => false
  | .list xs => !xs.isEmpty

/-- `isinstance(v, Sized)` and `len(v)`. -/
def sizeOf? : PyVal → Option Nat
  | .sc (.str cs) => some cs.length
  | .sc (.bytes bs) => some bs.length
  | .list xs => some xs.length
  | .sc _ => Option.none

/-! ## Arithmetic used by the helpers -/

/-- `float(x)`; `OverflowError` for an `int` that does not fit. -/
def toFloat (rd : Rounding) : PyNumber → Res Num
  | .int z =>
    match rd (z : Rat) with
    | .pinf => .error .overflowError
    | .ninf => .error .overflowError
    | r => .ok r
  | .flt f => .ok f

/-- `x - y` (exact for two ints, float arithmetic otherwise). -/
def pySub (rd : Rounding) : PyNumber → PyNumber → Res PyNumber
  | .int a, .int b => .ok (.int (a - b))
  | x, y => do
    let fx ← toFloat rd x
    let fy ← toFloat rd y
    return .flt (fsub rd fx fy)

def pyAbs : PyNumber → PyNumber
  | .int z => .int (if z < 0 then -z else z)
  | .flt f => .flt f.abs

/-! ## `type_utils.py`: string distances -/

/-- The loop of `string_distance`: `differences += difference / (difference + 1.0)` per mismatch. -/
def sdLoop (rd : Rounding) : List Nat → List Nat → Num → Num
  | a :: as, b :: bs, acc =>
    if a != b then
      let d : Nat := if a < b then b - a else a - b
      sdLoop rd as bs (fadd rd acc (rd ((d : Rat) / ((d : Rat) + 1))))
    else sdLoop rd as bs acc
  | _, _, acc => acc

/-- `string_distance(string1, string2)` -/
def stringDistance (rd : Rounding) (s1 s2 : List Nat) : Num :=
  if s1 == s2 then .fin 0
  else
    let minLength := min s1.length s2.length
    let maxLength := max s1.length s2.length
    sdLoop rd s1 s2 (.fin ((maxLength - minLength : Nat) : Rat))

/-- The loop of `string_lt_distance`. -/
def ltLoop : List Nat → List Nat → Nat
  | a :: as, b :: bs => if b < a then a - b + 1 else ltLoop as bs
  | _, _ => 1

/-- `string_lt_distance(string1, string2)` -/
def stringLtDistance (s1 s2 : List Nat) : Nat :=
  if lexLt s1 s2 then 0 else ltLoop s1 s2

/-- The loop of `string_le_distance`. -/
def leLoop : List Nat → List Nat → Nat
  | a :: as, b :: bs => if b < a then a - b else leLoop as bs
  | _, _ => 1

/-- `string_le_distance(string1, string2)` -/
def stringLeDistance (s1 s2 : List Nat) : Nat :=
  if lexLe s1 s2 then 0 else leLoop s1 s2

/-! ## `tracer.py`: the distance helpers -/

/-- Python's `min` over a non-empty list of floats (`if item < best: best = item`). -/
def pyMin : Num → List Num → Num
  | best, [] => best
  | best, x :: xs => pyMin (if Num.lt x best then x else best) xs

/-- `_eq(val1, val2)` -/
def helperEq (rd : Rounding) (v1 v2 : PyVal) : Res Num :=
  if pvEq v1 v2 then .ok (.fin 0)
  else
    match v1.number?, v2.number? with
    | some a, some b => do
      let d ← pySub rd a b
      toFloat rd (pyAbs d)
    | _, _ =>
      match v1, v2 with
      | .sc (.str c), .sc (.str d) => .ok (stringDistance rd c d)
      | .sc (.bytes c), .sc (.bytes d) => .ok (stringDistance rd c d)
      | _, _ => .ok .pinf

/-- `_neq(val1, val2)` -/
def helperNeq (v1 v2 : PyVal) : Res Num :=
  if !pvEq v1 v2 then .ok (.fin 0) else .ok (.fin 1)

/-- `_lt(val1, val2)` -/
def helperLt (rd : Rounding) (v1 v2 : PyVal) : Res Num := do
  if (← pvOrd true v1 v2) then return .fin 0
  match v1.number?, v2.number? with
  | some a, some b =>
    let f1 ← toFloat rd a
    let f2 ← toFloat rd b
    return fadd rd (fsub rd f1 f2) (.fin 1)
  | _, _ =>
    match v1, v2 with
    | .sc (.str c), .sc (.str d) => return .fin ((stringLtDistance c d : Nat) : Rat)
    | .sc (.bytes c), .sc (.bytes d) => return .fin ((stringLtDistance c d : Nat) : Rat)
    | _, _ => return .pinf

/-- `_le(val1, val2)` -/
def helperLe (rd : Rounding) (v1 v2 : PyVal) : Res Num := do
  if (← pvOrd false v1 v2) then return .fin 0
  match v1.number?, v2.number? with
  | some a, some b =>
    let f1 ← toFloat rd a
    let f2 ← toFloat rd b
    return fsub rd f1 f2
  | _, _ =>
    match v1, v2 with
    | .sc (.str c), .sc (.str d) => return .fin ((stringLeDistance c d : Nat) : Rat)
    | .sc (.bytes c), .sc (.bytes d) => return .fin ((stringLeDistance c d : Nat) : Rat)
    | _, _ => return .pinf

/-- `[_eq(val1, v) for v in val2]` (stops at the first element whose distance raises). -/
def eqAll (rd : Rounding) (v1 : PyVal) : List PyVal → Res (List Num)
  | [] => .ok []
  | v :: vs => do
    let d ← helperEq rd v1 v
    let ds ← eqAll rd v1 vs
    return d :: ds

/-- `_in(val1, val2)` -/
def helperIn (rd : Rounding) (v1 v2 : PyVal) : Res Num :=
  let fallback : Res Num :=
    match iterOf v2 with
    | Option.none => .ok .pinf
    | some items => do
      let ds ← eqAll rd v1 items
      match ds ++ [Num.pinf] with
      | [] => return .pinf
      | x :: xs => return pyMin x xs
  match pyIn v1 v2 with
  | .ok true => .ok (.fin 0)
  | .ok false => fallback
  | .error .typeError => fallback
  | .error e => .error e

/-- `_nin(val1, val2)` -/
def helperNin (v1 v2 : PyVal) : Res Num :=
  match pyIn v1 v2 with
  | .ok b => .ok (if !b then .fin 0 else .fin 1)
  | .error .typeError => .ok (.fin 0)
  | .error e => .error e

/-- `_is(val1, val2)`; `same` says whether the two operands are the same object. -/
def helperIs (same : Bool) : Res Num := .ok (if same then .fin 0 else .fin 1)

/-- `_isn(val1, val2)` -/
def helperIsn (same : Bool) : Res Num := .ok (if !same then .fin 0 else .fin 1)

/-- `_falsy_distance(value)` (in the legacy code: the body of `if value:`). -/
def falsyDistance (rd : Rounding) (v : PyVal) : Res Num :=
  match sizeOf? v with
  | some n => .ok (.fin (n : Rat))
  | Option.none =>
    match v.number? with
    | some a => toFloat rd (pyAbs a)
    | Option.none => .ok .pinf

/-! ## `_COMPARISONS`, `_compare_distances`, `_update_metrics` -/

/-- `PynguinCompare` (without `EXC_MATCH`, which has its own callback). -/
inductive CmpOp
  | lt | le | eq | ne | gt | ge | isIn | notIn | is | isNot
  deriving DecidableEq, Repr, Inhabited

/-- `_COMPARISONS[op][0](val1, val2)`: the comparison the module under test performs. -/
def pyOperator (op : CmpOp) (same : Bool) (v1 v2 : PyVal) : Res Bool :=
  match op with
  | .eq => .ok (pvEq v1 v2)
  | .ne => .ok (!pvEq v1 v2)
  | .lt => pvOrd true v1 v2
  | .le => pvOrd false v1 v2
  | .gt => pvOrd true v2 v1
  | .ge => pvOrd false v2 v1
  | .isIn => pyIn v1 v2
  | .notIn => (pyIn v1 v2).map (!·)
  | .is => .ok same
  | .isNot => .ok (!same)

/-- `_COMPARISONS[op][1](val1, val2)`: the helper giving the distance to the true outcome. -/
def trueDistance (rd : Rounding) (op : CmpOp) (same : Bool) (v1 v2 : PyVal) : Res Num :=
  match op with
  | .eq => helperEq rd v1 v2
  | .ne => helperNeq v1 v2
  | .lt => helperLt rd v1 v2
  | .le => helperLe rd v1 v2
  | .gt => helperLt rd v2 v1
  | .ge => helperLe rd v2 v1
  | .isIn => helperIn rd v1 v2
  | .notIn => helperNin v1 v2
  | .is => helperIs same
  | .isNot => helperIsn same

/-- `_COMPARISONS[op][2](val1, val2)`: the helper giving the distance to the false outcome. -/
def falseDistance (rd : Rounding) (op : CmpOp) (same : Bool) (v1 v2 : PyVal) : Res Num :=
  match op with
  | .eq => helperNeq v1 v2
  | .ne => helperEq rd v1 v2
  | .lt => helperLe rd v2 v1
  | .le => helperLt rd v2 v1
  | .gt => helperLe rd v1 v2
  | .ge => helperLt rd v1 v2
  | .isIn => helperNin v1 v2
  | .notIn => helperIn rd v1 v2
  | .is => helperIsn same
  | .isNot => helperIs same

/-- `_missed_branch_distance(estimate)`: `except Exception: return inf`, then
`distance if distance > 0.0 else inf`. -/
def missedBranchDistance (estimate : Res Num) : Num :=
  match estimate with
  | .error _ => .pinf
  | .ok d => if d.gtZero then d else .pinf

/-- `_compare_distances`, given the outcome of the comparison and of the two (lazily evaluated)
helper estimates.  Returns `(distance_true, distance_false)`. -/
def compareDistances (cmp : Res Bool) (estTrue estFalse : Res Num) : Res (Num × Num) :=
  match cmp with
  | .error e => .error e
  | .ok true => .ok (.fin 0, missedBranchDistance estFalse)
  | .ok false => .ok (missedBranchDistance estTrue, .fin 0)

/-- The legacy `match cmp_op:` of `executed_compare_predicate`: both helpers are evaluated, left to
right; the comparison of the module under test is not consulted. -/
def compareDistancesLegacy (estTrue estFalse : Res Num) : Res (Num × Num) := do
  let dT ← estTrue
  let dF ← estFalse
  return (dT, dF)

/-- The three assertions of `_update_metrics(distance_false, distance_true, predicate)`. -/
def updateMetrics (distanceFalse distanceTrue : Num) : Res Unit :=
  if !distanceTrue.geZero then .error .assertionError
  else if !distanceFalse.geZero then .error .assertionError
  else if !(distanceTrue.eqZero != distanceFalse.eqZero) then .error .assertionError
  else .ok ()

inductive Variant
  | repaired | legacy
  deriving DecidableEq, Repr, Inhabited

/-- The combination step of `executed_compare_predicate` on already evaluated parts, including the
assertions of `_update_metrics`; returns the recorded `(distance_true, distance_false)`. -/
def recordCompare (v : Variant) (cmp : Res Bool) (estTrue estFalse : Res Num) : Res (Num × Num) := do
  let (dT, dF) ← match v with
    | .repaired => compareDistances cmp estTrue estFalse
    | .legacy => compareDistancesLegacy estTrue estFalse
  updateMetrics dF dT
  return (dT, dF)

/-- `ExecutionTracer.executed_compare_predicate(value1, value2, predicate, cmp_op)` on concrete
values (`same`: the operands are the same object). -/
def executedComparePredicate (v : Variant) (rd : Rounding) (op : CmpOp) (same : Bool)
    (v1 v2 : PyVal) : Res (Num × Num) :=
  recordCompare v (pyOperator op same v1 v2) (trueDistance rd op same v1 v2)
    (falseDistance rd op same v1 v2)

/-- The combination step of `executed_bool_predicate`, given `bool(value)` and the estimate
`_falsy_distance(value)`. -/
def recordBool (v : Variant) (truth : Res Bool) (estFalse : Res Num) : Res (Num × Num) := do
  let t ← truth
  let (dT, dF) ←
    if t then
      match v with
      | .repaired => pure (Num.fin 0, missedBranchDistance estFalse)
      | .legacy => do
        let d ← estFalse
        pure (Num.fin 0, d)
    else pure (Num.fin 1, Num.fin 0)
  updateMetrics dF dT
  return (dT, dF)

/-- `ExecutionTracer.executed_bool_predicate(value, predicate)` on concrete values. -/
def executedBoolPredicate (v : Variant) (rd : Rounding) (value : PyVal) : Res (Num × Num) :=
  recordBool v (.ok (truthy value)) (falsyDistance rd value)

/-! ## Exception matching -/

/-- An exception class is represented by its method resolution order (class ids, itself first). -/
abbrev ExcClass := List Nat

/-- A class named in an `except` clause: its MRO and what `issubclass(err, cls)` answers for the
raised class `err` (this differs from the MRO test when a metaclass defines `__subclasscheck__`,
e.g. for ABCs with registered virtual subclasses). -/
structure HandlerClass where
  mro : ExcClass
  issub : Bool
  deriving DecidableEq, Repr, Inhabited

/-- `err` derives from `exc` according to `err.__mro__`. -/
def inMro (err : ExcClass) (exc : HandlerClass) : Bool :=
  match exc.mro with
  | [] => false
  | c :: _ => err.contains c

/-- Python's own `except exc:` (`PyErr_GivenExceptionMatches`): a tuple matches if one of its
elements does, a class matches if it occurs in the MRO of the raised class; `__subclasscheck__` is
not consulted. -/
def pyExceptMatches (err : ExcClass) (excs : List HandlerClass) : Bool :=
  excs.any (inMro err)

/-- `given_exception_matches(err, exc)`: repaired — recursion over the tuple and `exc in
err.__mro__`; legacy — `issubclass(err, exc)`. -/
def givenExceptionMatches (v : Variant) (err : ExcClass) (excs : List HandlerClass) : Bool :=
  match v with
  | .repaired => excs.any fun exc => inMro err exc
  | .legacy => excs.any fun exc => exc.issub

/-- `ExecutionTracer.executed_exception_match(err, exc, predicate)`. -/
def executedExceptionMatch (v : Variant) (err : ExcClass) (excs : List HandlerClass) :
    Res (Num × Num) := do
  let (dT, dF) : Num × Num :=
    if givenExceptionMatches v err excs then (.fin 0, .fin 1) else (.fin 1, .fin 0)
  updateMetrics dF dT
  return (dT, dF)

end PynguinModel.Distances
