import PynguinModel.Model.Cdg
/-!
Specification side of the two query functions of the finished CDG (`get_control_dependencies`,
`is_control_dependent_on_root`, modelled by `controlDeps` / `rootDep` in `Model/Cdg.lean`) and the
executable per-graph check `uniformb` used by the C06 driver.  Mathlib-free.
-/
namespace PynguinModel.Cdg

abbrev CG := List (Node × Node × Label)

/-! ### Specification -/

/-- `d = (A, v)` is a control dependency of `n`: walking CDG edges backwards from `n`, through edges
that are *not* labelled edges out of a basic block, meets the edge `A →v ·` out of the basic block `A`. -/
inductive DepReach (g : CG) (isBlock : Node → Bool) : Node → Node × Bool → Prop
  | direct {n p : Node} {b : Bool} :
      (p, n, some b) ∈ g → isBlock p = true → DepReach g isBlock n (p, b)
  | through {n p : Node} {l : Label} {d : Node × Bool} :
      (p, n, l) ∈ g → (isBlock p = false ∨ l = none) → DepReach g isBlock p d → DepReach g isBlock n d

/-- `n` hangs off the root: an edge out of `root` is met on the same kind of backward walk. -/
inductive RootReach (g : CG) (isBlock : Node → Bool) (root : Node) : Node → Prop
  | direct {n : Node} {l : Label} : (root, n, l) ∈ g → RootReach g isBlock root n
  | through {n p : Node} {l : Label} :
      (p, n, l) ∈ g → (isBlock p = false ∨ l = none) → RootReach g isBlock root p → RootReach g isBlock root n

/-- Executable form of `Uniform` (Lemmas/CdgDeps.lean): every node's outgoing CDG edges are all branch
dependencies or all pass edges. -/
def uniformb (g : CG) (isBlock : Node → Bool) : Bool :=
  g.all (fun x => g.all (fun y => !(x.1 == y.1) ||
    (isBlock x.1 && x.2.2.isSome) == (isBlock y.1 && y.2.2.isSome)))


end PynguinModel.Cdg
