import PynguinModel.Model.SubprocessAlign
/-!
# What the child executor is configured with (C31, configuration transport)

Second half of the model of `src/pynguin/testcase/subprocess_executor.py`: everything the parent hands to
the child process and what the child builds from it.

* `TestCaseExecutor.__init__` + `add_remote_observer` / `add_observer`      ↔ `ExecConfig`
* `_yield_remote_observers`                                                 ↔ `ExecConfig.yieldRemote`
* the `thread.join(timeout=min(max, per_statement * max(size, 1)))` of
  `TestCaseExecutor.execute` (`execution.py`)                               ↔ `timeBound` / `execute`
* `_calculate_timeout` / `_calculate_timeout_for_multiple`                  ↔ `pollTimeout`
* the `args` tuple of `_setup_subprocess_execution`                         ↔ `setupArgs` (positional!)
* the parameter list of `_execute_test_cases_in_subprocess` and the executor
  it builds (`TestCaseExecutor(sp, provider, max, per_statement)`, one
  `add_remote_observer` per shipped observer)                               ↔ `childEntry`
* the rest of `_execute_test_cases_in_subprocess`                           ↔ `childMain`
* the executor `_fallback_on_failure` builds for the one-by-one re-execution ↔ `fallbackConfig`
* which children `execute_multiple` launches, with which tuple and which
  `poll` time-out                                                           ↔ `launches`

Python does not check the types of positional arguments: two `int`s in the wrong order are accepted
silently.  `childEntry` therefore binds by POSITION, exactly like the call `target(*args)`; a tuple of the
wrong shape (where Python would raise somewhere inside the child, which suppresses every exception and
sends nothing) is `none`.  Objects handed over by reference (`SubjectProperties` with the tracer and its
state, the module provider, the configuration snapshot inside `PatchRandomOnUnpickle` that carries the
seed) are opaque identities.  No Mathlib.
-/
namespace PynguinModel.SubprocessAlign

/-- What a `TestCaseExecutor` is configured with. -/
structure ExecConfig where
  /-- `_maximum_test_execution_timeout` (seconds) -/
  maxTimeout : Nat
  /-- `_test_execution_time_per_statement` (seconds) -/
  perStatement : Nat
  /-- identity of the `SubjectProperties` (instrumentation tracer, its state, the registries) -/
  props : Nat
  /-- identity of the `ModuleProvider` -/
  provider : Nat
  /-- `_remote_observers`, in the order they were added -/
  remoteObs : List String
  /-- `observer.remote_observer` for the entries of `_observers` -/
  obs : List String
  deriving DecidableEq, Repr

/-- `_yield_remote_observers`. -/
def ExecConfig.yieldRemote (c : ExecConfig) : List String := c.remoteObs ++ c.obs

/-- The `timeout=` of the `thread.join` in `TestCaseExecutor.execute`, in seconds. -/
def timeBound (c : ExecConfig) (size : Nat) : Nat :=
  min c.maxTimeout (c.perStatement * max size 1)

/-- `_calculate_timeout_for_multiple` (for one test: `_calculate_timeout`), in seconds. -/
def pollTimeout (c : ExecConfig) (sizes : List Nat) : Nat :=
  min (c.maxTimeout * sizes.length) ((sizes.map (fun s => c.perStatement * max s 1)).sum)

/-- `TestCaseExecutor.execute` as far as the configuration enters it.  `body sp provider observers t` is
the result of running the statements of `t` with these observers on these subject properties; `dur t`
is how long that takes (milliseconds; the test case is deterministic); the watchdog `join` returns in
time iff the run is shorter than the bound, otherwise the result is `ExecutionResult(timeout=True)`. -/
def execute (c : ExecConfig) (size : τ → Nat) (dur : τ → Nat)
    (body : Nat → Nat → List String → τ → Res) (t : τ) : Res :=
  if dur t < 1000 * timeBound c (size t) then body c.props c.provider c.yieldRemote t else timeoutRes

/-- One element of the `args` tuple, classified by its Python type. -/
inductive Arg (τ : Type) where
  /-- `PatchRandomOnUnpickle()`: carries `config.configuration` (seed, …) -/
  | patchRandom (settings : Nat)
  | props (h : Nat)
  | provider (h : Nat)
  | num (n : Nat)
  | observers (os : List String)
  | tests (ts : List τ)
  | bindings (bs : List Bindings)
  | conn
  deriving Repr

/-- The `args` tuple built by `_setup_subprocess_execution`, in the order of the source. -/
def setupArgs (settings : Nat) (c : ExecConfig) (ts : List τ) (bs : List Bindings) : List (Arg τ) :=
  [ .patchRandom settings,
    .props c.props,
    .provider c.provider,
    .num c.maxTimeout,
    .num c.perStatement,
    .observers c.yieldRemote,
    .tests ts,
    .bindings bs,
    .conn ]

/-- What `_execute_test_cases_in_subprocess` has in its hands after building its executor. -/
structure ChildSetup (τ : Type) where
  settings : Nat
  /-- the `TestCaseExecutor` of the child: constructor arguments, then one `add_remote_observer` per
  shipped observer (it has no plain observers) -/
  cfg : ExecConfig
  tests : List τ
  binds : List Bindings
  deriving Repr

/-- The parameter list `(_patch_random_hook, subject_properties, module_provider,
maximum_test_execution_timeout, test_execution_time_per_statement, remote_observers, test_cases,
references_bindings, sending_connection)` bound by position. -/
def childEntry : List (Arg τ) → Option (ChildSetup τ)
  | [.patchRandom g, .props h, .provider m, .num a, .num b, .observers os, .tests ts, .bindings bs, .conn] =>
    some { settings := g,
           cfg := { maxTimeout := a, perStatement := b, props := h, provider := m,
                    remoteObs := os, obs := [] },
           tests := ts, binds := bs }
  | _ => none

/-- `zip(results, references_bindings, strict=True)` followed by `_create_new_reference_bindings`. -/
def zipBindings : List Res → List Bindings → Option (List (Option Bindings))
  | [], [] => some []
  | r :: rs, b :: bs =>
    match zipBindings rs bs with
    | none => none
    | some out => some (newBindings r b :: out)
  | _, _ => none

/-- `_execute_test_cases_in_subprocess`, from the tuple on: every exception is suppressed and then
nothing is sent (`noResults`). -/
def childMain (size : τ → Nat) (dur : τ → Nat) (body : Nat → Nat → List String → τ → Res)
    (probe : τ → Probes) (args : List (Arg τ)) : Reply :=
  match childEntry args with
  | none => .noResults
  | some s =>
    let rs := s.tests.map (fun t => fixForPickle (probe t) (execute s.cfg size dur body t))
    match zipBindings rs s.binds with
    | none => .noResults
    | some nbs => .results rs nbs

/-- The executor `_fallback_on_failure` builds: same subject properties, provider and two time
settings; the observers it is given are `tuple(self._yield_remote_observers())`, all added as remote
observers. -/
def fallbackConfig (c : ExecConfig) : ExecConfig :=
  { c with remoteObs := c.yieldRemote, obs := [] }

/-- A child process as the operating system sees it start: its tuple and the `poll` time-out the parent
then waits with. -/
structure Launch (τ : Type) where
  args : List (Arg τ)
  poll : Nat
  deriving Repr

def launchOf (settings : Nat) (c : ExecConfig) (size : τ → Nat) (bind : τ → Bindings) (ts : List τ) :
    Launch τ :=
  { args := setupArgs settings c ts (ts.map bind), poll := pollTimeout c (ts.map size) }

/-- The children `execute_multiple` starts, in order: the batch child; if that one does not answer
(`answers` false) and the batch has more than one test, one child per test, started by the fallback
executor. -/
def launches (settings : Nat) (c : ExecConfig) (size : τ → Nat) (bind : τ → Bindings)
    (answers : List τ → Bool) (tests : List τ) : List (Launch τ) :=
  match tests with
  | [] => []
  | [t] => [launchOf settings c size bind [t]]
  | _ =>
    if answers tests then [launchOf settings c size bind tests]
    else launchOf settings c size bind tests ::
      tests.map (fun t => launchOf settings (fallbackConfig c) size bind [t])

/-- The child processes of a parent configured with `c`, as a `remote` for `executeMultiple`: dead
children answer nothing, the others run `childMain` on the tuple `_setup_subprocess_execution` built.
(The one-by-one children get their tuple from the fallback executor; `childMain_fallback` shows this
makes no difference.) -/
def remoteCfg (settings : Nat) (c : ExecConfig) (size : τ → Nat) (dur : τ → Nat)
    (body : Nat → Nat → List String → τ → Res) (probe : τ → Probes) (bind : τ → Bindings)
    (crash : List τ → Crash) (tests : List τ) : Reply :=
  match crash tests with
  | .noResults => .noResults
  | .recvFailed => .recvFailed
  | .none => childMain size dur body probe (setupArgs settings c tests (tests.map bind))

end PynguinModel.SubprocessAlign
