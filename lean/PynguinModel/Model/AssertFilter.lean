import PynguinModel.Model.SetCover
/-!
# Model of `AssertionGenerator.__remove_non_holding_assertions` (C21, first clause)

After a filtering execution the generator removes from every statement exactly the assertions the
`AssertionVerificationTrace` reports as failed or errored.  The Python code snapshots
`pos_to_key = dict(enumerate(statement.assertions))`, collects `to_delete` (an `OrderedSet`: failed
positions, then errored positions) and calls `statement.assertions.remove(pos_to_key[pos])` for
`pos in sorted(to_delete, reverse=True)` — removal by *identity/value through the snapshot*, so a
position never goes stale.  `none` models the `KeyError` (position outside the snapshot) and the
`ValueError` of `list.remove` (value no longer in the list).

`twoPassStmt` is the tempting rewrite "delete by position, first the failed then the errored ones":
not the code, only the subject of a counterexample theorem.
-/
namespace PynguinModel.AssertFilter
open PynguinModel.SetCover

/-- `d[idx] if idx in d else ()` on a trace dict (association list, first entry with that key). -/
def dictGet (d : List (Nat × List Nat)) (idx : Nat) : List Nat :=
  match d.find? (fun e => e.1 == idx) with
  | some e => e.2
  | none => []

/-- `OrderedSet.update(xs)`: append the elements not yet present, in order. -/
def osUpdate (acc : List Nat) : List Nat → List Nat
  | [] => acc
  | x :: xs => if x ∈ acc then osUpdate acc xs else osUpdate (acc ++ [x]) xs

/-- `to_delete` of statement `idx`. -/
def toDelete (t : VTrace) (idx : Nat) : List Nat :=
  osUpdate (osUpdate [] (dictGet t.failed idx)) (dictGet t.error idx)

def geB (a b : Nat) : Bool := decide (b ≤ a)

/-- `sorted(to_delete, reverse=True)` -/
def sortedDesc (l : List Nat) : List Nat := isort geB l

/-- `for pos in ...: assertions.remove(pos_to_key[pos])` with `snap` the `pos_to_key` snapshot. -/
def removeKeys {α} [DecidableEq α] (snap : List α) : List α → List Nat → Option (List α)
  | cur, [] => some cur
  | cur, p :: ps =>
    match snap[p]? with
    | none => none                                                    -- KeyError
    | some a => if a ∈ cur then removeKeys snap (cur.erase a) ps else none   -- ValueError

/-- The loop body for one statement. -/
def removeStmt {α} [DecidableEq α] (st : List α) (del : List Nat) : Option (List α) :=
  removeKeys st st (sortedDesc del)

/-- `for idx, statement in enumerate(test.statements())`. -/
def removeNonHoldingFrom {α} [DecidableEq α] (t : VTrace) : Nat → List (List α) → Option (List (List α))
  | _, [] => some []
  | idx, st :: rest =>
    match removeStmt st (toDelete t idx) with
    | none => none
    | some st' =>
      match removeNonHoldingFrom t (idx + 1) rest with
      | none => none
      | some rest' => some (st' :: rest')

/-- `__remove_non_holding_assertions(test, result)` -/
def removeNonHolding {α} [DecidableEq α] (test : List (List α)) (t : VTrace) : Option (List (List α)) :=
  removeNonHoldingFrom t 0 test

/-- `filtering_executions` rounds on one test: each round's trace speaks about the current lists. -/
def filterRounds {α} [DecidableEq α] : List (List α) → List VTrace → Option (List (List (List α)))
  | _, [] => some []
  | test, t :: ts =>
    match removeNonHolding test t with
    | none => none
    | some test' =>
      match filterRounds test' ts with
      | none => none
      | some r => some (test' :: r)

/-! ### The stale-position variant (counterexample only) -/

/-- `for pos in ps: del assertions[pos]` (`none` = IndexError). -/
def delAt {α} : List α → List Nat → Option (List α)
  | cur, [] => some cur
  | cur, p :: ps => if p < cur.length then delAt (cur.eraseIdx p) ps else none

/-- Two positional passes, failed first, then errored — the second with stale positions. -/
def twoPassStmt {α} (st : List α) (t : VTrace) (idx : Nat) : Option (List α) :=
  match delAt st (sortedDesc (dictGet t.failed idx)) with
  | none => none
  | some c => delAt c (sortedDesc (dictGet t.error idx))

end PynguinModel.AssertFilter
