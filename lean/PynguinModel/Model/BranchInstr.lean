import PynguinModel.Model.Distances
/-!
# Model of pynguin's branch-coverage instrumentation (C03)

Python ↔ Lean (Python 3.12 code path; `version/python3_12.py` inherits `visit_node` from
`python3_11.py` and the for-loop / compare / exception / bool visitors from `python3_10.py`):

* `OpInfo` / `Table` — what the *live* version module answers for one opcode
  (`get_branch_type`, `is_conditional_jump`, `Instr.is_cond_jump`, `NONE_BASED_JUMPS_MAPPING`,
  `COND_BRANCH_NAMES`).  The table of the running interpreter is regenerated into
  `Generated/C03Jumps.lean` on every check run; the model is parametric in the table.
* `JumpSem`, `jumpSem`, `jumps` — CPython's semantics of the conditional jumps (hand table, trusted,
  validated by micro-executions in the harness).
* `Entry`, `Blk` — a raw `bytecode.BasicBlock`: pseudo-instructions (`TryBegin`/`TryEnd`/`SetLineno`),
  original `Instr`s and (one entry per inserted snippet) `ArtificialInstr` runs.
* `lastInstr` = `BasicBlockNode.try_get_instruction(-1)`, `origsFrom 0` =
  the index/instruction pairs of `find_instruction_by_original_index` (raw-block indices, D24 repaired),
  `insertAt es i e` = `basic_block[before(i)] = snippet`.
* `decideAction` = the dispatch of `BranchCoverageInstrumentation.visit_node`;
  `visitNode` = dispatch + `register_predicate` / `_get_or_register_predicate` + the insertions of
  `visit_for_loop(_body/_natural_exit)`, `visit_none_based_…`, `visit_compare_based_…`,
  `visit_exception_based_…`, `visit_bool_based_conditional_jump`; `visitCfg` = `visit_cfg`;
  `instrument` = the two loops of `InstrumentationTransformer._instrument_code_recursive`.
* `edgesOf` / `cfgEdges` = `CFG._create_nodes_and_edges` + `nx.DiGraph.add_edge`.
* `Pool` = `BranchGoalPool`, `Trace.update` = `ExecutionTrace.update_predicate_distances`,
  `branchCovered` = `BranchGoal.is_covered`, `codeObjectCovered` = `BranchlessCodeObjectGoal.is_covered`,
  `isclose` = `math.isclose(·, 0.0, rel_tol, abs_tol)`.
* `Call`, `TState.call(s)` = the tracer callbacks `executed_code_object` / `executed_*_predicate` with the
  `enabled` flag: `_early_return`, `temporarily_disable` (restoring in `finally`), nested callbacks made
  while the operands are evaluated, evaluations that raise.

Mathlib-free.
-/
namespace PynguinModel.BranchInstr
open PynguinModel.Distances (CmpOp Num)

/-! ## The version tables -/

/-- The answers of the live version module for one opcode. -/
structure OpInfo where
  opcode : Nat
  name : String
  /-- `version.get_branch_type(opcode)` -/
  branchType : Option Bool
  /-- `version.is_conditional_jump(instr)` -/
  versionCond : Bool
  /-- `bytecode.Instr.is_cond_jump()` -/
  bytecodeCond : Bool
  /-- `BranchCoverageInstrumentation.NONE_BASED_JUMPS_MAPPING.get(name)` -/
  noneCmp : Option CmpOp
  /-- `name in version.COND_BRANCH_NAMES` -/
  inCondNames : Bool
  deriving Repr, DecidableEq

structure Table where
  ops : List OpInfo
  forIter : Nat
  endFor : Nat
  checkExcMatch : Nat
  compareOp : Nat
  isOp : Nat
  containsOp : Nat
  /-- opcodes of `python3_10.COMPARE_NAMES` -/
  compareNames : List Nat
  deriving Repr

def Table.info (t : Table) (opc : Nat) : Option OpInfo := t.ops.find? (fun o => o.opcode == opc)

def Table.versionCond (t : Table) (opc : Nat) : Bool :=
  match t.info opc with | some o => o.versionCond | none => false

def Table.bytecodeCond (t : Table) (opc : Nat) : Bool :=
  match t.info opc with | some o => o.bytecodeCond | none => false

def Table.noneCmp (t : Table) (opc : Nat) : Option CmpOp :=
  match t.info opc with | some o => o.noneCmp | none => none

def Table.branchType (t : Table) (opc : Nat) : Option Bool :=
  match t.info opc with | some o => o.branchType | none => none

/-! ## CPython's conditional jumps (trusted hand table) -/

inductive JumpSem
  | ifTrue | ifFalse | ifNone | ifNotNone | forIter
  deriving DecidableEq, Repr

/-- Semantics class of a conditional jump, by opcode name (CPython 3.11 / 3.12 names). -/
def jumpSem (name : String) : Option JumpSem :=
  if name == "POP_JUMP_IF_TRUE" || name == "POP_JUMP_FORWARD_IF_TRUE"
      || name == "POP_JUMP_BACKWARD_IF_TRUE" then some .ifTrue
  else if name == "POP_JUMP_IF_FALSE" || name == "POP_JUMP_FORWARD_IF_FALSE"
      || name == "POP_JUMP_BACKWARD_IF_FALSE" then some .ifFalse
  else if name == "POP_JUMP_IF_NONE" || name == "POP_JUMP_FORWARD_IF_NONE"
      || name == "POP_JUMP_BACKWARD_IF_NONE" then some .ifNone
  else if name == "POP_JUMP_IF_NOT_NONE" || name == "POP_JUMP_FORWARD_IF_NOT_NONE"
      || name == "POP_JUMP_BACKWARD_IF_NOT_NONE" then some .ifNotNone
  else if name == "FOR_ITER" then some .forIter
  else none

/-- Does the interpreter transfer control to the jump target?  The fact `f` the jump looks at is
`bool(TOS)` for `ifTrue`/`ifFalse`, `TOS is None` for `ifNone`/`ifNotNone`, "the iterator yielded
a value" for `forIter`. -/
def jumps : JumpSem → Bool → Bool
  | .ifTrue, f => f
  | .ifFalse, f => !f
  | .ifNone, f => f
  | .ifNotNone, f => !f
  | .forIter, f => !f

/-- The `branch_value` of the CFG edge the interpreter follows: `_create_nodes_and_edges` labels the
jump target with `get_branch_type` and the fall-through block with its negation. -/
def labelTaken (branchType : Bool) (jumped : Bool) : Bool := if jumped then branchType else !branchType

/-- The outcome the inserted tracer call reports as "true distance 0" for the fact `f`
(`none`: the reported quantity is not a function of `f`).  For-loops report `True` in the
fall-through block and `False` behind the jump target's `END_FOR`; None-based jumps report
`value is None` / `value is not None`; all other conditional jumps report the truthiness of the
value the jump pops (the result of the comparison / exception match, or the value itself). -/
def reportedOutcome (t : Table) (o : OpInfo) (sem : JumpSem) (f : Bool) : Option Bool :=
  if o.opcode == t.forIter then some (!(jumps sem f))
  else match o.noneCmp with
    | some .is => (match sem with | .ifNone | .ifNotNone => some f | _ => none)
    | some .isNot => (match sem with | .ifNone | .ifNotNone => some (!f) | _ => none)
    | some _ => none
    | none =>
      if o.bytecodeCond then (match sem with | .ifTrue | .ifFalse => some f | _ => none) else none

/-- One table row: the labelled successor CPython goes to is the reported outcome, for both facts. -/
def rowAgrees (t : Table) (o : OpInfo) : Bool :=
  !o.versionCond ||
  (match jumpSem o.name, o.branchType with
   | some sem, some bt =>
     [true, false].all fun f => reportedOutcome t o sem f == some (labelTaken bt (jumps sem f))
   | _, _ => false)

def labelAgrees (t : Table) : Bool := t.ops.all (rowAgrees t)

/-- Does `visit_node` register a predicate for a block ending in this opcode? -/
def Table.registers (t : Table) (opc : Nat) : Bool :=
  opc == t.forIter || (t.noneCmp opc).isSome || t.bytecodeCond opc

/-- Table consistency: conditional jumps (as the CFG sees them) are exactly the opcodes for which the
adapter registers a predicate, exactly `COND_BRANCH_NAMES`, and exactly those with a branch type
(so the assertion in `_create_nodes_and_edges` cannot fail). -/
def dispatchTotal (t : Table) : Bool :=
  t.ops.all fun o =>
    (o.versionCond == (o.opcode == t.forIter || o.noneCmp.isSome || o.bytecodeCond))
    && (o.versionCond == o.inCondNames) && (o.versionCond == o.branchType.isSome)

def noDupOpcodes (t : Table) : Bool := (t.ops.map (·.opcode)).Nodup

/-! ## Blocks -/

structure Ins where
  opc : Nat
  /-- `COMPARE_OP`: 0..5 = LT LE EQ NE GT GE; `IS_OP` / `CONTAINS_OP`: the integer argument -/
  arg : Nat
  deriving DecidableEq, Repr

/-- One inserted tracer call (a run of `ArtificialInstr`s produced by `generate_instructions`). -/
inductive Snip
  /-- `executed_code_object(id)` -/
  | codeObject (id : Nat)
  /-- `executed_bool_predicate(FIRST, pid)` (COPY_FIRST) -/
  | boolPred (pid : Nat)
  /-- `executed_bool_predicate(const v, pid)` (for-loop body / natural exit) -/
  | forPred (v : Bool) (pid : Nat)
  /-- `executed_compare_predicate(SECOND, FIRST, pid, op)` (COPY_FIRST_TWO) -/
  | cmpPred (pid : Nat) (op : CmpOp)
  /-- `executed_compare_predicate(FIRST, None, pid, op)` (COPY_FIRST) -/
  | nonePred (pid : Nat) (op : CmpOp)
  /-- `executed_exception_match(SECOND, FIRST, pid)` (COPY_FIRST_TWO) -/
  | excPred (pid : Nat)
  deriving DecidableEq, Repr

inductive Entry
  /-- `TryBegin` (with the index of its target block) / `TryEnd` / `SetLineno` -/
  | pseudo (tryTarget : Option Nat)
  | orig (i : Ins)
  | art (s : Snip)
  deriving DecidableEq, Repr

def Entry.isInstr : Entry → Bool
  | .pseudo _ => false
  | _ => true

structure Blk where
  entries : List Entry
  /-- `block.next_block` -/
  next : Option Nat
  /-- `block.get_jump()` -/
  target : Option Nat
  /-- the `ast_info` guards of `visit_node` let the node through (always true without exclusions) -/
  cover : Bool
  deriving DecidableEq, Repr

/-- `BasicBlockNode.try_get_instruction(-1)`: the last `Instr` (original or artificial). -/
def lastInstr (es : List Entry) : Option Entry := (es.filter Entry.isInstr).getLast?

/-- Raw-block index / instruction pairs of the original instructions
(`find_instruction_by_original_index` after the D24 repair). -/
def origsFrom : Nat → List Entry → List (Nat × Ins)
  | _, [] => []
  | k, .orig i :: es => (k, i) :: origsFrom (k + 1) es
  | k, _ :: es => origsFrom (k + 1) es

/-- `find_instruction_by_original_index(-2)` (`none` = `IndexError`). -/
def secondLastOrig (es : List Entry) : Option (Nat × Ins) := (origsFrom 0 es).dropLast.getLast?

/-- `basic_block[before(i)] = (snippet)`. -/
def insertAt (es : List Entry) (i : Nat) (e : Entry) : List Entry := es.take i ++ e :: es.drop i

/-- `extract_comparison(instr)` (`none` = `AssertionError`). -/
def extractComparison (t : Table) (c : Ins) : Option CmpOp :=
  if c.opc == t.compareOp then
    match c.arg with
    | 0 => some .lt | 1 => some .le | 2 => some .eq | 3 => some .ne | 4 => some .gt | 5 => some .ge
    | _ => none
  else if c.opc == t.containsOp then some (if c.arg == 1 then .notIn else .isIn)
  else if c.opc == t.isOp then some (if c.arg == 1 then .isNot else .is)
  else none

inductive Action
  | forLoop
  /-- insert at `before(-1)` -/
  | nonePred (op : CmpOp)
  | cmpPred (idx : Nat) (op : CmpOp)
  | excPred (idx : Nat)
  /-- insert at `before(-1)` -/
  | boolPred
  deriving DecidableEq, Repr

inductive Decision
  | skip
  /-- `extract_comparison` raises -/
  | fail
  | act (a : Action)
  deriving DecidableEq, Repr

/-- The dispatch of `visit_node` on the current content of the node's block. -/
def decideAction (t : Table) (b : Blk) : Decision :=
  match lastInstr b.entries with
  | some (.orig j) =>
    if !b.cover then .skip
    else if j.opc == t.forIter then .act .forLoop
    else match t.noneCmp j.opc with
      | some op => .act (.nonePred op)
      | none =>
        if !t.bytecodeCond j.opc then .skip
        else match secondLastOrig b.entries with
          | some (idx, c) =>
            if t.compareNames.contains c.opc then
              (match extractComparison t c with
               | some op => .act (.cmpPred idx op)
               | none => .fail)
            else if c.opc == t.checkExcMatch then .act (.excPred idx)
            else .act .boolPred
          | none => .act .boolPred
  | _ => .skip

/-! ## The transformer loop -/

structure St where
  blocks : List Blk
  /-- `existing_predicates`: predicate id = position, value = index of the node -/
  preds : List Nat
  deriving DecidableEq, Repr

def St.modify (st : St) (k : Nat) (f : List Entry → List Entry) : St :=
  { st with blocks := st.blocks.modify k (fun b => { b with entries := f b.entries }) }

def isEndFor (t : Table) : Entry → Bool
  | .orig i => i.opc == t.endFor
  | _ => false

/-- The `while end_for_position is None` loop of `visit_for_loop_natural_exit`
(`none`: the assertion on `next_block` fails). -/
def findEndFor (t : Table) (blocks : List Blk) : Nat → Nat → Option (Nat × Nat)
  | 0, _ => none
  | fuel + 1, k =>
    match blocks[k]? with
    | none => none
    | some b =>
      match b.entries.findIdx? (isEndFor t) with
      | some p => some (k, p)
      | none =>
        match b.next with
        | some k' => findEndFor t blocks fuel k'
        | none => none

/-- `SubjectProperties.register_predicate` (`none` = the duplicate-node assertion). -/
def register (st : St) (n : Nat) : Option (Nat × St) :=
  if st.preds.contains n then none else some (st.preds.length, { st with preds := st.preds ++ [n] })

/-- `_get_or_register_predicate`. -/
def getOrRegister (st : St) (n : Nat) : Nat × St :=
  match st.preds.idxOf? n with
  | some pid => (pid, st)
  | none => (st.preds.length, { st with preds := st.preds ++ [n] })

/-- `adapter.visit_node(ast_info, cfg, code_object_id, node)` (`none` = an exception). -/
def visitNode (t : Table) (st : St) (n : Nat) : Option St :=
  match st.blocks[n]? with
  | none => none
  | some b =>
    match decideAction t b with
    | .skip => some st
    | .fail => none
    | .act .forLoop =>
      match register st n, b.next, b.target with
      | some (pid, st1), some body, some exit =>
        let st2 := st1.modify body (fun es => insertAt es 0 (.art (.forPred true pid)))
        match findEndFor t st2.blocks (st2.blocks.length + 1) exit with
        | some (k, p) => some (st2.modify k (fun es => insertAt es (p + 1) (.art (.forPred false pid))))
        | none => none
      | _, _, _ => none
    | .act (.nonePred op) =>
      match register st n with
      | some (pid, st1) =>
        some (st1.modify n (fun es => insertAt es (es.length - 1) (.art (.nonePred pid op))))
      | none => none
    | .act (.cmpPred idx op) =>
      let (pid, st1) := getOrRegister st n
      some (st1.modify n (fun es => insertAt es idx (.art (.cmpPred pid op))))
    | .act (.excPred idx) =>
      let (pid, st1) := getOrRegister st n
      some (st1.modify n (fun es => insertAt es idx (.art (.excPred pid))))
    | .act .boolPred =>
      let (pid, st1) := getOrRegister st n
      some (st1.modify n (fun es => insertAt es (es.length - 1) (.art (.boolPred pid))))

/-- `for node in cfg.basic_block_nodes: adapter.visit_node(...)` in the given iteration order. -/
def visitAll (t : Table) : St → List Nat → Option St
  | st, [] => some st
  | st, n :: ns => match visitNode t st n with
    | some st' => visitAll t st' ns
    | none => none

/-- `adapter.visit_cfg`: `executed_code_object(id)` at the head of the first block. -/
def visitCfg (blocks : List Blk) (coid : Nat) : List Blk :=
  blocks.modify 0 (fun b => { b with entries := insertAt b.entries 0 (.art (.codeObject coid)) })

def instrument (t : Table) (blocks : List Blk) (coid : Nat) (order : List Nat) : Option St :=
  visitAll t { blocks := visitCfg blocks coid, preds := [] } order

/-! ## CFG edges -/

/-- `TryBegin` target when the last raw entry of the block is a `TryBegin`. -/
def tryBeginTarget (es : List Entry) : Option (Option Nat) :=
  match es.getLast? with
  | some (.pseudo (some k)) => some (some k)
  | _ => none

/-- The successors `_create_nodes_and_edges` records for one block (`none` = an assertion fails). -/
def edgesOf (t : Table) (b : Blk) : Option (List (Nat × Option Bool)) :=
  match lastInstr b.entries with
  | some (.orig j) =>
    if t.versionCond j.opc then
      match b.next, b.target, t.branchType j.opc with
      | some nx, some tg, some bt =>
        if bt then some [(tg, some true), (nx, some false)] else some [(nx, some true), (tg, some false)]
      | _, _, _ => none
    else
      let tg := match tryBeginTarget b.entries with | some x => x | none => b.target
      some ((match b.next with | some nx => [(nx, none)] | none => [])
            ++ (match tg with | some k => [(k, none)] | none => []))
  | _ =>
    let tg := match tryBeginTarget b.entries with | some x => x | none => b.target
    some ((match b.next with | some nx => [(nx, none)] | none => [])
          ++ (match tg with | some k => [(k, none)] | none => []))

/-- `nx.DiGraph.add_edge`: one edge per target, a later label overwrites an earlier one. -/
def dedupEdges : List (Nat × Option Bool) → List (Nat × Option Bool)
  | [] => []
  | (k, l) :: rest =>
    let r := dedupEdges rest
    if r.any (fun e => e.1 == k) then r else (k, l) :: r

/-! ## Goals and traces -/

structure Pool where
  /-- `(predicate id, value)` goals in creation order -/
  branch : List (Nat × Bool)
  /-- code-object ids with a `BranchlessCodeObjectGoal` -/
  branchless : List Nat
  deriving DecidableEq, Repr

/-- `BranchGoalPool(subject_properties)` for one code object `coid` whose predicates are `preds`. -/
def mkPool (coid : Nat) (preds : List Nat) : Pool :=
  { branch := (List.range preds.length).flatMap (fun pid => [(pid, true), (pid, false)]),
    branchless := if preds.isEmpty then [coid] else [] }

/-- Python's `min(old, new)`: `new` only if `new < old`. -/
def pyMin (old new : Num) : Num := if Num.lt new old then new else old

structure Trace where
  executedCodeObjects : List Nat
  /-- `executed_predicates` (the count is not needed for coverage) -/
  executed : List Nat
  trueDist : List (Nat × Num)
  falseDist : List (Nat × Num)
  deriving Repr

def Trace.empty : Trace := ⟨[], [], [], []⟩

/-- `d.get(p)` on an insertion-ordered dict. -/
def dget : List (Nat × Num) → Nat → Option Num
  | [], _ => none
  | (q, w) :: d, p => if q == p then some w else dget d p

/-- `d[p] = v` on an insertion-ordered dict. -/
def dset : List (Nat × Num) → Nat → Num → List (Nat × Num)
  | [], p, v => [(p, v)]
  | (q, w) :: d, p, v => if q == p then (p, v) :: d else (q, w) :: dset d p v

/-- `ExecutionTrace.update_predicate_distances(distance_true, distance_false, predicate)`. -/
def Trace.update (tr : Trace) (p : Nat) (dT dF : Num) : Trace :=
  { tr with
    executed := if tr.executed.contains p then tr.executed else tr.executed ++ [p],
    trueDist := dset tr.trueDist p (pyMin ((dget tr.trueDist p).getD .pinf) dT),
    falseDist := dset tr.falseDist p (pyMin ((dget tr.falseDist p).getD .pinf) dF) }

/-- `math.isclose(x, 0.0, rel_tol=rel, abs_tol=absTol)` in exact arithmetic (CPython's `math_isclose_impl`
with `b = 0.0`: equal operands are close; an infinite or NaN operand is close to nothing else; otherwise
`diff <= |rel*b| or diff <= |rel*a| or diff <= abs_tol` with `diff = |a - b| = |x|`).  Rounding the
product `rel*|x|` to a float is monotone and never reaches `|x|` for `rel < 1/2`, so the float answer is
the exact one. -/
def isclose (rel absTol : Rat) : Num → Bool
  | .fin q =>
    let d := if q < 0 then -q else q
    decide (q = 0) || decide (d ≤ rel * 0) || decide (d ≤ rel * d) || decide (d ≤ absTol)
  | _ => false

/-- `rel_tol` default of `math.isclose`: `1e-09`. -/
def defaultRelTol : Rat := mkRat 1 1000000000

/-- `math.isclose(x, 0.0)` as `BranchGoal.is_covered` calls it (default tolerances: relative 1e-9,
absolute 0); `Lemmas.iscloseZero_eq`: it holds exactly for `x == 0`. -/
def iscloseZero (x : Num) : Bool := isclose defaultRelTol 0 x

/-- `BranchGoal.is_covered` (`none` = `KeyError`). -/
def branchCovered (tr : Trace) (p : Nat) (v : Bool) : Option Bool :=
  if tr.executed.contains p then
    match dget (if v then tr.trueDist else tr.falseDist) p with
    | some d => some (iscloseZero d)
    | none => none
  else some false

/-- `BranchlessCodeObjectGoal.is_covered`. -/
def codeObjectCovered (tr : Trace) (coid : Nat) : Bool := tr.executedCodeObjects.contains coid

/-- One executed tracer callback. -/
inductive Ev
  /-- `executed_code_object(id)` -/
  | enter (coid : Nat)
  /-- `_update_metrics(distance_false, distance_true, predicate)` -/
  | pred (p : Nat) (dT dF : Num)
  deriving Repr

def Trace.step (tr : Trace) : Ev → Trace
  | .enter c =>
    { tr with executedCodeObjects :=
        if tr.executedCodeObjects.contains c then tr.executedCodeObjects else tr.executedCodeObjects ++ [c] }
  | .pred p dT dF => tr.update p dT dF

def Trace.run (tr : Trace) (evs : List Ev) : Trace := evs.foldl Trace.step tr

/-! ## The tracer's callbacks with the `enabled` flag (`_early_return`, `temporarily_disable`)

`ExecutionTracer.executed_code_object` and `executed_compare_predicate / executed_bool_predicate /
executed_exception_match / executed_in_presence_predicate` as the instrumented code calls them:
`_early_return` drops the call when the thread's tracer is disabled; a predicate callback evaluates
the operands (comparison, truth value, membership — operator code of the module under test, which is
instrumented itself and makes callbacks of its own: `body`) inside `with self.temporarily_disable()`
and records the distances with `_update_metrics` unless that evaluation raised. -/

/-- How the evaluation of the operands inside a predicate callback ended. -/
inductive Res
  /-- `_early_return` returned before anything was evaluated -/
  | skipped
  /-- the evaluation raised (`1 < "a"`, `x in 5`, a raising `__eq__` / `__bool__`): the exception leaves
  the callback, the interpreter never reaches the conditional jump -/
  | raised
  /-- `_update_metrics(distance_false, distance_true, predicate)` was reached -/
  | ok (dT dF : Num)
  deriving Repr

/-- One callback made by instrumented code. -/
inductive Call
  /-- `tracer.executed_code_object(coid)` -/
  | enter (coid : Nat)
  /-- `tracer.executed_*_predicate(..., p, ...)`; `body` = the callbacks made while the operands are
  evaluated inside the callback -/
  | pred (p : Nat) (body : List Call) (res : Res)
  deriving Repr

/-- `ExecutionTracer.TracerLocalState`: the flag and the trace. -/
structure TState where
  enabled : Bool
  trace : Trace
  deriving Repr

def TState.init : TState := ⟨true, Trace.empty⟩

mutual
/-- One callback.  `restore` = does the context manager re-enable the tracer when its body raises
(`try: yield finally: self.enable()` — the code of the tree: `true`; a bare `disable()` … `enable()`
pair or a context manager without `finally`: `false`, only used for the counterexample).
`none` = this record cannot come from the tracer (an enabled tracer never skips, a disabled tracer
never evaluates). -/
def TState.call (restore : Bool) (s : TState) : Call → Option TState
  | .enter c => some (if s.enabled then { s with trace := s.trace.step (.enter c) } else s)
  | .pred p body res =>
    if s.enabled then
      -- `with self.temporarily_disable():` — `self.disable()`, then the body
      match TState.calls restore { s with enabled := false } body with
      | none => none
      | some s1 =>
        match res with
        | .skipped => none
        | .raised => some (if restore then { s1 with enabled := true } else s1)
        | .ok dT dF => some { enabled := true, trace := s1.trace.update p dT dF }
    else
      match res, body with
      | .skipped, [] => some s
      | _, _ => none
def TState.calls (restore : Bool) (s : TState) : List Call → Option TState
  | [] => some s
  | c :: cs =>
    match TState.call restore s c with
    | none => none
    | some s' => TState.calls restore s' cs
end

/-- What a top-level callback contributes to the trace of an enabled, restoring tracer. -/
def Call.top : Call → Option Ev
  | .enter c => some (.enter c)
  | .pred p _ (.ok dT dF) => some (.pred p dT dF)
  | .pred _ _ _ => none

/-- A callback that a disabled tracer drops. -/
def Call.isSkip : Call → Bool
  | .enter _ => true
  | .pred _ [] .skipped => true
  | .pred _ _ _ => false

end PynguinModel.BranchInstr
