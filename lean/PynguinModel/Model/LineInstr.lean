/-!
# C02 — line-coverage instrumentation, line registry and reported line coverage (Mathlib-free)

Mirrors (Python 3.12 adapter chain `python3_10 ∘ python3_11 ∘ python3_12`):

* `LineCoverageInstrumentation.visit_node` / `should_instrument_line` / `visit_line`
  (`src/pynguin/instrumentation/version/python3_10.py`, `_11`, `_12`)          ↔ `visitNode`
* `BasicBlockNode.instrumentation_original_instructions` (`controlflow.py`): walks the raw basic block,
  skips pseudo-instructions (`TryBegin`/`TryEnd`/`SetLineno`) and `ArtificialInstr`s, and after the
  body inserted a snippet *before* the yielded instruction re-targets at that instruction   ↔ the
  structural recursion of `visitNode` (an inserted snippet is emitted directly in front of the entry)
* `SubjectProperties.register_line` (`tracer.py`)                                 ↔ `register`
* `ExecutionTracer.track_line_visit` (`covered_line_ids.add`)                     ↔ `addId` / `covered`
* `SubjectProperties.lineids_to_linenos`                                          ↔ `lineidsToLinenos`
* `fitness_metrics.compute_line_coverage` / `compute_line_coverage_fitness_is_covered`
                                                                                   ↔ `lineCoverage` / `allLinesCovered`
* `InstrumentationTransformer._instrument_code_recursive` (the per-node loop, registry threaded through
  all nodes of all code objects)                                                   ↔ `instrumentBlocks` / `instrumentProgram`

The model describes the code WITH `proposed_fixes/C02-only-int-lines-are-lines.diff`: an instruction whose
`lineno` is not an `int` is skipped (`visitNode`).  `visitNodeOld` keeps the unrepaired rule
(`instr.lineno != lineno` with `None` on both sides) for the counterexample theorem.
-/
namespace PynguinModel.LineInstr

/-- An original `bytecode.Instr`: its opcode name and `lineno` (`int` or `None`). -/
structure Instr where
  name : String
  line : Option Nat
  deriving DecidableEq, Repr

/-- One element of a raw `bytecode.BasicBlock` before the line adapter runs. -/
inductive Entry where
  | pseudo              -- `TryBegin` / `TryEnd` / `SetLineno`
  | art                 -- an `ArtificialInstr` another adapter inserted earlier
  | orig (i : Instr)    -- an original instruction
  deriving DecidableEq, Repr

/-- One element of the block after the line adapter ran. A `tracker id` stands for the snippet
`LOAD_CONST tracer; LOAD_ATTR track_line_visit; LOAD_CONST id; CALL 1; POP_TOP` (all artificial). -/
inductive OEntry where
  | keep (e : Entry)
  | tracker (lineId : Nat)
  deriving DecidableEq, Repr

/-- `LineMetaData` up to the fields its `__eq__` looks at (file name, line number). -/
structure LineMeta where
  file : String
  line : Nat
  deriving DecidableEq, Repr

/-- `SubjectProperties.existing_lines`: the dict `{0: m0, 1: m1, …}`; the key is the position. -/
abbrev Registry := List LineMeta

/-- `register_line`: a new meta gets id `len(existing_lines)`, a known one the id of its first entry. -/
def register (r : Registry) (m : LineMeta) : Registry × Nat :=
  if m ∈ r then (r, r.idxOf m) else (r ++ [m], r.length)

/-- What one run of the adapter over one code object depends on. -/
structure Pass where
  /-- `cfg.bytecode_cfg.filename` -/
  file : String
  /-- `ast_info.should_cover_line` (constantly `true` when `ast_info is None`) -/
  cover : Nat → Bool
  /-- opcode names for which `should_instrument_line` is `False` whatever the line
      (`Generated/C02Opcodes.lean`: `RESUME`, `END_FOR`, … read from the live adapter) -/
  skip : String → Bool

/-- `visit_node`, one basic block. `last` is the local `lineno` (`None` at block entry). -/
def visitNode (p : Pass) : Option Nat → Registry → List Entry → Registry × List OEntry
  | _, r, [] => (r, [])
  | last, r, .orig i :: es =>
    match i.line with
    | none =>                                   -- `not isinstance(instr.lineno, int)` → continue
      let (r', out) := visitNode p last r es
      (r', .keep (.orig i) :: out)
    | some l =>
      if !p.cover l then                        -- `not ast_info.should_cover_line(...)` → continue
        let (r', out) := visitNode p last r es
        (r', .keep (.orig i) :: out)
      else if some l != last && !p.skip i.name then   -- `should_instrument_line(instr, lineno)`
        let (r1, id) := register r ⟨p.file, l⟩        -- `visit_line`: register, insert before
        let (r', out) := visitNode p (some l) r1 es   -- `lineno = instr.lineno`
        (r', .tracker id :: .keep (.orig i) :: out)
      else
        let (r', out) := visitNode p last r es
        (r', .keep (.orig i) :: out)
  | last, r, e :: es =>                          -- pseudo-instructions and artificial ones are passed over
    let (r', out) := visitNode p last r es
    (r', .keep e :: out)

/-- All nodes of one code object (`for node in cfg.basic_block_nodes: adapter.visit_node(...)`). -/
def instrumentBlocks (p : Pass) : Registry → List (List Entry) → Registry × List (List OEntry)
  | r, [] => (r, [])
  | r, b :: bs =>
    let (r1, ob) := visitNode p none r b
    let (r2, obs) := instrumentBlocks p r1 bs
    (r2, ob :: obs)

/-- A code object: its pass parameters and its basic blocks. -/
structure CodeObj where
  pass : Pass
  blocks : List (List Entry)

/-- All code objects instrumented one after the other with one shared `SubjectProperties`. -/
def instrumentProgram : Registry → List CodeObj → Registry × List (List (List OEntry))
  | r, [] => (r, [])
  | r, c :: cs =>
    let (r1, obs) := instrumentBlocks c.pass r c.blocks
    let (r2, rest) := instrumentProgram r1 cs
    (r2, obs :: rest)

/-! ## Execution of an instrumented block -/

/-- Run an instrumented block from its first entry until `k` original instructions have started
executing (an exception raised by the k-th one, or a jump at the block end, leaves the block there).
Returns the ids handed to `track_line_visit`, in order. -/
def runPrefix : Nat → List OEntry → List Nat
  | 0, _ => []
  | _, [] => []
  | k + 1, .tracker id :: es => id :: runPrefix (k + 1) es
  | k + 1, .keep (.orig _) :: es => runPrefix k es
  | k + 1, .keep _ :: es => runPrefix (k + 1) es

/-- One visit of a block during an execution: code object, block, number of original instructions
that executed before control left the block. -/
structure Visit where
  co : Nat
  blk : Nat
  k : Nat
  deriving DecidableEq, Repr

def runVisit (prog : List (List (List OEntry))) (v : Visit) : List Nat :=
  match prog[v.co]? with
  | none => []
  | some obs =>
    match obs[v.blk]? with
    | none => []
    | some ob => runPrefix v.k ob

/-- all `track_line_visit` calls of an execution (a history of block visits) -/
def runHistory (prog : List (List (List OEntry))) (vs : List Visit) : List Nat :=
  vs.flatMap (runVisit prog)

/-- `covered_line_ids.add(line_id)` on an `OrderedSet`. -/
def addId (s : List Nat) (i : Nat) : List Nat := if i ∈ s then s else s ++ [i]

/-- `ExecutionTrace.covered_line_ids` after the given calls on a fresh trace. -/
def covered (calls : List Nat) : List Nat := calls.foldl addId []

/-- metas of ids (`existing_lines[line_id]`; `none` = `KeyError`) -/
def lineidsToMetas (r : Registry) : List Nat → Option (List LineMeta)
  | [] => some []
  | i :: is =>
    match r[i]?, lineidsToMetas r is with
    | some m, some ms => some (m :: ms)
    | _, _ => none

/-- `lineids_to_linenos`: `OrderedSet([existing_lines[i].line_number for i in ids])` -/
def lineidsToLinenos (r : Registry) (ids : List Nat) : Option (List Nat) :=
  (lineidsToMetas r ids).map fun ms => (ms.map (·.line)).foldl addId []

/-- `compute_line_coverage` as the exact fraction `(numerator, denominator)`; `(1, 1)` when no line exists. -/
def lineCoverage (r : Registry) (cov : List Nat) : Nat × Nat :=
  if r.length = 0 then (1, 1) else (cov.length, r.length)

/-- `compute_line_coverage_fitness_is_covered` -/
def allLinesCovered (r : Registry) (cov : List Nat) : Bool := cov.length == r.length

/-! ## Specification side: the lines the interpreter executed -/

def origs : List Entry → List Instr
  | [] => []
  | .orig i :: es => i :: origs es
  | _ :: es => origs es

/-- The line of an executed original instruction if it is a *coverable line* of the pass: an integer
line number, not excluded, carried by an instruction that produces a line. -/
def lineOf (p : Pass) (i : Instr) : Option Nat :=
  match i.line with
  | none => none
  | some l => if p.cover l && !p.skip i.name then some l else none

/-- lines executed when the first `k` original instructions of block `b` ran -/
def execLines (p : Pass) (b : List Entry) (k : Nat) : List Nat :=
  ((origs b).take k).filterMap (lineOf p)

def execVisit (cs : List CodeObj) (v : Visit) : List LineMeta :=
  match cs[v.co]? with
  | none => []
  | some c =>
    match c.blocks[v.blk]? with
    | none => []
    | some b => (execLines c.pass b v.k).map fun l => ⟨c.pass.file, l⟩

/-- all (file, line) pairs the interpreter executed in the history -/
def execHistory (cs : List CodeObj) (vs : List Visit) : List LineMeta :=
  vs.flatMap (execVisit cs)

/-- every line a pass can register: the coverable lines of the code objects -/
def coverableLines (cs : List CodeObj) : List LineMeta :=
  cs.flatMap fun c => c.blocks.flatMap fun b => ((origs b).filterMap (lineOf c.pass)).map fun l => ⟨c.pass.file, l⟩

/-! ## The unrepaired rule (D23), kept for the counterexample -/

/-- What `register_line` is handed by the unrepaired adapter: `line_number` may be `None`. -/
structure LineMetaOld where
  file : String
  line : Option Nat
  deriving DecidableEq, Repr

inductive OEntryOld where
  | keep (e : Entry)
  | tracker (m : LineMetaOld)
  deriving DecidableEq, Repr

/-- `visit_node` before the repair: the guard was `isinstance(instr.lineno, int) and not should_cover_line`,
and `instr.lineno != lineno` compares `None` like any other value. -/
def visitNodeOld (p : Pass) : Option Nat → List Entry → List OEntryOld
  | _, [] => []
  | last, .orig i :: es =>
    if (match i.line with | some l => !p.cover l | none => false) then
      .keep (.orig i) :: visitNodeOld p last es
    else if i.line != last && !p.skip i.name then
      .tracker ⟨p.file, i.line⟩ :: .keep (.orig i) :: visitNodeOld p i.line es
    else .keep (.orig i) :: visitNodeOld p last es
  | last, e :: es => .keep e :: visitNodeOld p last es

def runPrefixOld : Nat → List OEntryOld → List LineMetaOld
  | 0, _ => []
  | _, [] => []
  | k + 1, .tracker m :: es => m :: runPrefixOld (k + 1) es
  | k + 1, .keep (.orig _) :: es => runPrefixOld k es
  | k + 1, .keep _ :: es => runPrefixOld (k + 1) es

end PynguinModel.LineInstr
