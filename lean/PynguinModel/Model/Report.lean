/-
Model of the coverage report of `pynguin.utils.report` and of the two coverage formulas of
`pynguin.ga.fitness_metrics` it is compared with (C35).  Mathlib-free, executable.

Python                                                   Lean
------------------------------------------------------   ------------------------------------------
`CoverageEntry`, `CoverageEntry.__add__`                 `CovEntry`, `CovEntry.add`
`LineAnnotation`, `LineAnnotation.__add__` (asserts)     `LineAnn`, `LineAnn.add?`
`LineAnnotation.message`                                 `LineAnn.message`
`SubjectProperties` registries (three dicts)             `Registry` (association lists, dict order)
`SubjectProperties.branch_less_code_objects`             `Registry.branchLess`
`SubjectProperties.register_line`                        `registerLine`
`SubjectProperties.lineids_to_linenos`                   `lineidsToLinenos` (KeyError explicit)
`ExecutionTrace`, `.merge`, `._merge_min`                `Trace`, `Trace.merge`, `mergeMin`
`computations.analyze_results`                           `analyzeResults`
`compute_branch_coverage`, `compute_line_coverage`       `computeBranchCoverage`, `computeLineCoverage`
`_get_line_to_branch_coverage`                           `lineToBranchCoverage`
`_get_line_to_branchless_code_object_coverage`           `lineToBranchlessCoverage`
`_get_line_annotations_for_branch_coverage`              `branchAnn`
`get_coverage_report`                                    `getCoverageReport`
`render_xml_coverage_report` (numbers only)              `xmlTotals`, `xmlLine`
`coverage-template.html` (span class per line)           `htmlClass`

Line numbers are `Option Int`: the instrumentation can register a line whose number is `None`
(instructions without a line in generator code objects), and the report code handles such a value
like any other dict key.  A dict is an association list in insertion order; a float distance is
its exact value (`Dist`), the only thing the report asks of it is `== 0.0`.
-/
namespace PynguinModel.Report

inductive Err where
  | keyError | assertionError | runtimeError
  deriving DecidableEq, Repr

/-- A Python line number: `int | None`. -/
abbrev LineNo := Option Int

/-! ### Dict and OrderedSet primitives -/

/-- `d[k] = v` on an insertion-ordered dict. -/
def dictSet {κ α} [BEq κ] (m : List (κ × α)) (k : κ) (v : α) : List (κ × α) :=
  if m.any (fun e => e.1 == k) then m.map (fun e => if e.1 == k then (k, v) else e)
  else m ++ [(k, v)]

/-- `OrderedSet.add`. -/
def osetAdd {α} [DecidableEq α] (l : List α) (x : α) : List α := if x ∈ l then l else l ++ [x]

/-- `OrderedSet.update(iterable)`. -/
def osetUpdate {α} [DecidableEq α] (l xs : List α) : List α := xs.foldl osetAdd l

/-- `OrderedSet(iterable)`. -/
def oset {α} [DecidableEq α] (xs : List α) : List α := osetUpdate [] xs

/-! ### Coverage entries and line annotations -/

structure CovEntry where
  covered : Nat := 0
  existing : Nat := 0
  deriving DecidableEq, Repr

/-- `CoverageEntry.__add__`. -/
def CovEntry.add (a b : CovEntry) : CovEntry := ⟨a.covered + b.covered, a.existing + b.existing⟩
instance : Add CovEntry := ⟨CovEntry.add⟩

structure LineAnn where
  lineNo : Int
  total : CovEntry
  branches : CovEntry
  branchless : CovEntry
  lines : CovEntry
  deriving DecidableEq, Repr

/-- The arithmetic of `LineAnnotation.__add__` (line number of the receiver). -/
def LineAnn.addT (a b : LineAnn) : LineAnn :=
  ⟨a.lineNo, a.total + b.total, a.branches + b.branches, a.branchless + b.branchless,
    a.lines + b.lines⟩

/-- `LineAnnotation.__add__`: `assert self.line_no == other.line_no`. -/
def LineAnn.add? (a b : LineAnn) : Except Err LineAnn :=
  if a.lineNo = b.lineNo then .ok (a.addT b) else .error .assertionError

/-- `LineAnnotation.message`. -/
def LineAnn.message (a : LineAnn) : String :=
  let m1 := if a.branches.existing > 0 then
    [s!"{a.branches.covered}/{a.branches.existing} branches covered"] else []
  let m2 := if a.branchless.existing > 0 then
    [s!"{a.branchless.covered}/{a.branchless.existing} branchless code objects covered"] else []
  let m3 := if a.lines.existing > 0 then
    [s!"Line {a.lineNo}{if a.lines.covered == 1 then "" else " not"} covered"] else []
  "; ".intercalate (m1 ++ m2 ++ m3)

/-! ### Registries and traces -/

structure LineMeta where
  codeObj : Nat
  file : String
  lineNo : LineNo
  deriving Repr

/-- `LineMetaData.__eq__`: file name and line number only. -/
def LineMeta.eqv (a b : LineMeta) : Bool := a.lineNo == b.lineNo && a.file == b.file

structure PredMeta where
  lineNo : LineNo
  codeObj : Nat
  deriving Repr

structure Registry where
  /-- `existing_code_objects`: id ↦ `code_object.co_firstlineno` -/
  codeObjects : List (Nat × Int)
  /-- `existing_predicates` -/
  predicates : List (Nat × PredMeta)
  /-- `existing_lines` -/
  lines : List (Nat × LineMeta)
  deriving Repr

/-- `SubjectProperties.register_line`: returns the new registry lines and the line id. -/
def registerLine (lines : List (Nat × LineMeta)) (lm : LineMeta) : List (Nat × LineMeta) × Nat :=
  match lines.find? (fun e => e.2.eqv lm) with
  | some e => (lines, e.1)
  | none => (dictSet lines lines.length lm, lines.length)

def registerLines (lines : List (Nat × LineMeta)) (metas : List LineMeta) : List (Nat × LineMeta) :=
  metas.foldl (fun ls m => (registerLine ls m).1) lines

/-- `branch_less_code_objects`: code objects for which no predicate is registered
(with the first line of each, which is all the report reads of it). -/
def Registry.branchLess (reg : Registry) : List (Nat × Int) :=
  reg.codeObjects.filter (fun c => reg.predicates.all (fun p => c.1 != p.2.codeObj))

/-- The exact value of a Python float distance. -/
inductive Dist where
  | fin (num : Int) (den : Nat)
  | inf
  | nan
  deriving DecidableEq, Repr

/-- `v == 0.0`. -/
def Dist.isZero : Dist → Bool
  | .fin n _ => n == 0
  | _ => false

/-- Python `a < b` on floats (`nan` unordered). -/
def Dist.lt : Dist → Dist → Bool
  | .fin a b, .fin c d => decide (a * (d : Int) < c * (b : Int))
  | .fin _ _, .inf => true
  | _, _ => false

/-- Python `min(a, b)`: `b` only when `b < a`. -/
def pyMin (a b : Dist) : Dist := if b.lt a then b else a

structure Trace where
  executedCodeObjects : List Nat := []
  trueDistances : List (Nat × Dist) := []
  falseDistances : List (Nat × Dist) := []
  coveredLineIds : List Nat := []
  deriving Repr

/-- `ExecutionTrace._merge_min`. -/
def mergeMin (target source : List (Nat × Dist)) : List (Nat × Dist) :=
  source.foldl (fun t e => dictSet t e.1 (pyMin ((t.lookup e.1).getD .inf) e.2)) target

/-- `ExecutionTrace.merge` (the fields the report reads). -/
def Trace.merge (a b : Trace) : Trace :=
  { executedCodeObjects := osetUpdate a.executedCodeObjects b.executedCodeObjects
    trueDistances := mergeMin a.trueDistances b.trueDistances
    falseDistances := mergeMin a.falseDistances b.falseDistances
    coveredLineIds := osetUpdate a.coveredLineIds b.coveredLineIds }

/-- `analyze_results`: merge the traces of all results into a fresh trace. -/
def analyzeResults (ts : List Trace) : Trace := ts.foldl Trace.merge {}

/-- `(predicate, 0.0) in distances.items()`. -/
def zeroIn (ds : List (Nat × Dist)) (p : Nat) : Bool := ds.any (fun e => e.1 == p && e.2.isZero)

/-! ### The coverage values (`fitness_metrics`) -/

/-- `1.0 if existing == 0 else covered / existing`. -/
def ratio (covered existing : Nat) : Rat :=
  if existing = 0 then 1 else (covered : Rat) / (existing : Rat)

/-- `assert 0.0 <= coverage <= 1.0`. -/
def assertUnit (c : Rat) : Except Err Rat :=
  if 0 ≤ c ∧ c ≤ 1 then .ok c else .error .assertionError

def branchCovered (tr : Trace) (reg : Registry) : Nat :=
  (tr.executedCodeObjects.filter (fun c => reg.branchLess.any (fun b => b.1 == c))).length
    + (tr.trueDistances.filter (fun e => e.2.isZero)).length
    + (tr.falseDistances.filter (fun e => e.2.isZero)).length

def branchExisting (reg : Registry) : Nat := reg.branchLess.length + reg.predicates.length * 2

/-- `compute_branch_coverage`. -/
def computeBranchCoverage (tr : Trace) (reg : Registry) : Except Err Rat :=
  assertUnit (ratio (branchCovered tr reg) (branchExisting reg))

/-- `compute_line_coverage`. -/
def computeLineCoverage (tr : Trace) (reg : Registry) : Except Err Rat :=
  assertUnit (ratio tr.coveredLineIds.length reg.lines.length)

/-! ### The report -/

abbrev CovMap := List (LineNo × CovEntry)

/-- `m[k]` if `k in m` else `CoverageEntry()`. -/
def CovMap.get (m : CovMap) (k : LineNo) : CovEntry := (m.lookup k).getD {}

/-- `if k not in m: m[k] = CoverageEntry()` followed by `m[k] += c`. -/
def CovMap.addAt (m : CovMap) (k : LineNo) (c : CovEntry) : CovMap := dictSet m k (m.get k + c)

/-- `for cov in m.values(): total += cov`. -/
def CovMap.total (m : CovMap) : CovEntry := m.foldl (fun acc e => acc + e.2) {}

/-- `_get_line_to_branch_coverage`. -/
def lineToBranchCoverage (reg : Registry) (tr : Trace) : CovMap :=
  reg.predicates.foldl (fun m p =>
    let m := m.addAt p.2.lineNo ⟨0, 2⟩
    let m := if zeroIn tr.trueDistances p.1 then m.addAt p.2.lineNo ⟨1, 0⟩ else m
    if zeroIn tr.falseDistances p.1 then m.addAt p.2.lineNo ⟨1, 0⟩ else m) []

/-- `_get_line_to_branchless_code_object_coverage`. -/
def lineToBranchlessCoverage (reg : Registry) (tr : Trace) : CovMap :=
  reg.branchLess.foldl (fun m c =>
    let m := m.addAt (some c.2) ⟨0, 1⟩
    if c.1 ∈ tr.executedCodeObjects then m.addAt (some c.2) ⟨1, 0⟩ else m) []

/-- `_get_line_annotations_for_branch_coverage`. -/
def branchAnn (lineno : Int) (co pr : CovMap) : LineAnn :=
  let bl := co.get (some lineno)
  let br := pr.get (some lineno)
  ⟨lineno, ({} : CovEntry) + bl + br, br, bl, {}⟩

/-- `comp_line_annotation` (closure of `get_coverage_report`). -/
def lineAnn (lineno : Int) (coveredLines existingLines : List LineNo) : LineAnn :=
  let total : CovEntry := ⟨if some lineno ∈ coveredLines then 1 else 0,
                           if some lineno ∈ existingLines then 1 else 0⟩
  ⟨lineno, total, {}, {}, total⟩

/-- `[self.existing_lines[line_id].line_number for line_id in line_ids]` (`KeyError` explicit). -/
def lookupLinenos (reg : Registry) : List Nat → Except Err (List LineNo)
  | [] => .ok []
  | id :: ids =>
    match reg.lines.lookup id with
    | none => .error .keyError
    | some m => (lookupLinenos reg ids).map (m.lineNo :: ·)

/-- `SubjectProperties.lineids_to_linenos`. -/
def lineidsToLinenos (reg : Registry) (ids : List Nat) : Except Err (List LineNo) :=
  (lookupLinenos reg ids).map oset

/-- `[la + f(idx + 1) for idx, la in enumerate(anns)]`, `idx` starting at `start`. -/
def annotate (f : Int → LineAnn) : List LineAnn → Nat → Except Err (List LineAnn)
  | [], _ => .ok []
  | a :: as, idx =>
    match a.add? (f ((idx : Int) + 1)) with
    | .error e => .error e
    | .ok a' => (annotate f as (idx + 1)).map (a' :: ·)

structure Metrics where
  branch : Bool
  line : Bool
  deriving Repr

structure Report where
  branches : CovEntry
  branchless : CovEntry
  lines : CovEntry
  lineAnnotations : List LineAnn
  branchCoverage : Option Rat
  lineCoverage : Option Rat
  deriving Repr

def blankAnns (nsrc : Nat) : List LineAnn :=
  (List.range nsrc).map (fun (idx : Nat) => ⟨(idx : Int) + 1, {}, {}, {}, {}⟩)

/-- `get_coverage_report` for a module whose source has `nsrc` lines
(`inspect.getsourcelines` fails on a module without source lines → `RuntimeError`). -/
def getCoverageReport (traces : List Trace) (reg : Registry) (metrics : Metrics) (nsrc : Nat) :
    Except Err Report := do
  let tr := analyzeResults traces
  if nsrc = 0 then throw .runtimeError
  let anns0 := blankAnns nsrc
  let (bc, branchless, branches, anns1) ←
    if metrics.branch then do
      let co := lineToBranchlessCoverage reg tr
      let pr := lineToBranchCoverage reg tr
      let bc ← computeBranchCoverage tr reg
      let anns ← annotate (fun l => branchAnn l co pr) anns0 0
      pure (some bc, co.total, pr.total, anns)
    else pure (none, ({} : CovEntry), ({} : CovEntry), anns0)
  let (lc, lines, anns2) ←
    if metrics.line then do
      let lc ← computeLineCoverage tr reg
      let coveredLines ← lineidsToLinenos reg tr.coveredLineIds
      let existingLines ← lineidsToLinenos reg (reg.lines.map (·.1))
      let anns ← annotate (fun l => lineAnn l coveredLines existingLines) anns1 0
      pure (some lc, (⟨coveredLines.length, existingLines.length⟩ : CovEntry), anns)
    else pure (none, ({} : CovEntry), anns1)
  pure { branches, branchless, lines, lineAnnotations := anns2, branchCoverage := bc,
         lineCoverage := lc }

/-! ### What the renderers print -/

structure XmlTotals where
  lineRate : Option Rat
  branchRate : Option Rat
  linesCovered : Nat
  linesValid : Nat
  branchesCovered : Nat
  branchesValid : Nat
  deriving Repr

/-- The attributes of the `<coverage>` element of `render_xml_coverage_report`. -/
def xmlTotals (r : Report) : XmlTotals :=
  { lineRate := r.lineCoverage, branchRate := r.branchCoverage
    linesCovered := r.lines.covered, linesValid := r.lines.existing
    branchesCovered := r.branches.covered + r.branchless.covered
    branchesValid := r.branches.existing + r.branchless.existing }

structure XmlLine where
  number : Int
  hits : Nat
  branch : Bool
  /-- `(covered, existing)` of the `condition-coverage` attribute -/
  condition : Option (Nat × Nat)
  deriving Repr, DecidableEq

/-- One `<line>` element of `render_xml_coverage_report` (`none`: the line is skipped). -/
def xmlLine (a : LineAnn) : Option XmlLine :=
  if a.total.existing = 0 then none else
  let hits0 : Nat := if a.lines.existing > 0 ∧ a.lines.covered > 0 then 1 else 0
  if a.branches.existing > 0 ∨ a.branchless.existing > 0 then
    let covered := a.branches.covered + a.branchless.covered
    let existing := a.branches.existing + a.branchless.existing
    some ⟨a.lineNo, if covered > 0 then 1 else hits0, true, some (covered, existing)⟩
  else some ⟨a.lineNo, hits0, false, none⟩

/-- The CSS class the HTML template gives to the line-number span. -/
def htmlClass (a : LineAnn) : String :=
  if a.total.existing = 0 then "notRelevant"
  else if a.total.covered = 0 then "notCovered"
  else if a.total.covered < a.total.existing then "partiallyCovered"
  else "fullyCovered"

end PynguinModel.Report
