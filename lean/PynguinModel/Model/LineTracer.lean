import PynguinModel.Model.LineInstr
/-!
# C02 — the tracer side of line coverage: proxy → delegate → trace (Mathlib-free)

Mirrors `src/pynguin/instrumentation/tracer.py`:

* `InstrumentationExecutionTracer` (the proxy the injected bytecode refers to; every method forwards to
  `self._tracer`, the `tracer` setter swaps the delegate)                                ↔ `Proxy`
* `ExecutionTracer` with `TracerLocalState.enabled / .trace`, `_import_trace`,
  `_current_thread_identifier` (`__enter__` / `__exit__` → `stop`)                        ↔ `Tracer`
* `_early_return` (`if self.is_disabled(): return`, then `self.check()` which raises
  `TracingAbortedException` outside `with tracer:`) around `track_line_visit`
  (`trace.covered_line_ids.add(line_id)`)                                                  ↔ `Tracer.trackLineVisit`
* `init_trace` (new trace, `merge(import_trace)`), `store_import_trace`, `reset`           ↔ `Tracer.initTrace` …
* `AbstractExecutionTracer.temporarily_disable / temporarily_enable` (context managers: what is restored
  at exit is decided at entry and lives in the generator frame)                          ↔ `cmEnter…` / `cmExit` + `Run.stack`
* `executed_compare_predicate / executed_bool_predicate / executed_in_presence_predicate /
  executed_exception_match` (`_early_return`, then the tracer evaluates the comparison ITSELF inside
  `with self.temporarily_disable():` — code of the module under test (`__eq__`, `__lt__`, `__contains__`,
  `__bool__`, `__len__` …) runs and its injected trackers call the proxy)                  ↔ `Op.predicate`

Single-thread model: `entered` stands for `_current_thread_identifier == ident of the running thread`.
-/
namespace PynguinModel.LineTracer
open PynguinModel.LineInstr

/-- `ExecutionTracer`, the part line coverage depends on. -/
structure Tracer where
  /-- `_thread_local_state.enabled` -/
  enabled : Bool
  /-- `_current_thread_identifier` is the running thread (`with tracer:` is open) -/
  entered : Bool
  /-- `_import_trace.covered_line_ids` -/
  importTrace : List Nat
  /-- `_thread_local_state.trace.covered_line_ids` -/
  trace : List Nat
  deriving DecidableEq, Repr

/-- `ExecutionTrace.merge` on `covered_line_ids`: `self.covered_line_ids.update(other.covered_line_ids)` -/
def mergeIds (s o : List Nat) : List Nat := o.foldl addId s

/-- `init_trace`: `new_trace = ExecutionTrace(); new_trace.merge(self._import_trace)` -/
def Tracer.initTrace (t : Tracer) : Tracer := { t with trace := mergeIds [] t.importTrace }

/-- `ExecutionTracer()`: enabled, no thread entered, empty import trace, `init_trace()` -/
def Tracer.fresh : Tracer := (Tracer.mk true false [] []).initTrace

/-- `store_import_trace`: `self._import_trace = self._thread_local_state.trace; self.init_trace()` -/
def Tracer.storeImportTrace (t : Tracer) : Tracer := ({ t with importTrace := t.trace }).initTrace

/-- `reset`: `self._import_trace = ExecutionTrace(); self.init_trace()` -/
def Tracer.reset (t : Tracer) : Tracer := ({ t with importTrace := [] }).initTrace

/-- Outcome of a call the injected bytecode makes. -/
inductive Outcome where
  | dropped      -- `_early_return`: tracer disabled, nothing happens
  | aborted      -- `check()` raised `TracingAbortedException`
  | recorded
  deriving DecidableEq, Repr

/-- what `_early_return` decides before the wrapped method runs -/
def Tracer.gate (t : Tracer) : Outcome :=
  if !t.enabled then .dropped else if !t.entered then .aborted else .recorded

/-- `@_early_return def track_line_visit(self, line_id): trace.covered_line_ids.add(line_id)` -/
def Tracer.trackLineVisit (t : Tracer) (id : Nat) : Tracer × Outcome :=
  match t.gate with
  | .recorded => ({ t with trace := addId t.trace id }, .recorded)
  | o => (t, o)

/-- `InstrumentationExecutionTracer`: a reference to the delegate and nothing else. -/
structure Proxy where
  tracer : Tracer
  deriving DecidableEq, Repr

def Proxy.trackLineVisit (p : Proxy) (id : Nat) : Proxy × Outcome :=
  let (t, o) := p.tracer.trackLineVisit id
  (⟨t⟩, o)
def Proxy.initTrace (p : Proxy) : Proxy := ⟨p.tracer.initTrace⟩
def Proxy.storeImportTrace (p : Proxy) : Proxy := ⟨p.tracer.storeImportTrace⟩
def Proxy.reset (p : Proxy) : Proxy := ⟨p.tracer.reset⟩
def Proxy.enable (p : Proxy) : Proxy := ⟨{ p.tracer with enabled := true }⟩
def Proxy.disable (p : Proxy) : Proxy := ⟨{ p.tracer with enabled := false }⟩
/-- `__enter__`: `_current_thread_identifier = threading.current_thread().ident` -/
def Proxy.enter (p : Proxy) : Proxy := ⟨{ p.tracer with entered := true }⟩
/-- `__exit__` → `stop()`: `_current_thread_identifier = None` -/
def Proxy.exit (p : Proxy) : Proxy := ⟨{ p.tracer with entered := false }⟩
/-- `proxy.tracer = ExecutionTracer()` -/
def Proxy.setFresh (_ : Proxy) : Proxy := ⟨Tracer.fresh⟩

/-- What an open `temporarily_disable()` / `temporarily_enable()` does when it is left. -/
inductive Restore where
  | nothing | enable | disable
  deriving DecidableEq, Repr

/-- The tracer together with the context managers that are open around the running code. -/
structure Run where
  proxy : Proxy
  stack : List Restore
  /-- outcomes of the `track_line_visit` calls so far that were not recorded although enabled (aborted) -/
  aborted : Nat
  deriving DecidableEq, Repr

/-- What happens around / inside the program under test, as far as line coverage is concerned. -/
inductive Op where
  /-- injected bytecode: `proxy.track_line_visit(id)` -/
  | visit (id : Nat)
  | enable | disable
  /-- `with tracer.temporarily_disable():` is entered / `with tracer.temporarily_enable():` is entered /
      the innermost open one is left -/
  | tdEnter | teEnter | cmExit
  /-- `with tracer:` is entered / left -/
  | enter | exit
  | initTrace | storeImportTrace | reset | setFresh
  /-- `proxy.executed_*_predicate(...)`: gated by `_early_return`; inside `temporarily_disable()` the tracer
      evaluates the comparison itself, which runs code of the module whose trackers report `ids` -/
  | predicate (ids : List Nat)
  deriving DecidableEq, Repr

/-- ops that install a new trace (`init_trace` and everything that calls it) -/
def Op.isStart : Op → Bool
  | .initTrace | .storeImportTrace | .reset | .setFresh => true
  | _ => false

def Run.visit (s : Run) (id : Nat) : Run :=
  let (p, o) := s.proxy.trackLineVisit id
  { s with proxy := p, aborted := if o = .aborted then s.aborted + 1 else s.aborted }

/-- `temporarily_disable().__enter__` -/
def Run.tdEnter (s : Run) : Run :=
  if !s.proxy.tracer.enabled then { s with stack := .nothing :: s.stack }
  else { s with proxy := s.proxy.disable, stack := .enable :: s.stack }

/-- `temporarily_enable().__enter__` -/
def Run.teEnter (s : Run) : Run :=
  if s.proxy.tracer.enabled then { s with stack := .nothing :: s.stack }
  else { s with proxy := s.proxy.enable, stack := .disable :: s.stack }

/-- `__exit__` of the innermost open context manager (the `finally:` of the generator) -/
def Run.cmExit (s : Run) : Run :=
  match s.stack with
  | [] => s
  | .nothing :: st => { s with stack := st }
  | .enable :: st => { s with proxy := s.proxy.enable, stack := st }
  | .disable :: st => { s with proxy := s.proxy.disable, stack := st }

def Run.step (s : Run) : Op → Run
  | .visit id => s.visit id
  | .enable => { s with proxy := s.proxy.enable }
  | .disable => { s with proxy := s.proxy.disable }
  | .tdEnter => s.tdEnter
  | .teEnter => s.teEnter
  | .cmExit => s.cmExit
  | .enter => { s with proxy := s.proxy.enter }
  | .exit => { s with proxy := s.proxy.exit }
  | .initTrace => { s with proxy := s.proxy.initTrace }
  | .storeImportTrace => { s with proxy := s.proxy.storeImportTrace }
  | .reset => { s with proxy := s.proxy.reset }
  | .setFresh => { s with proxy := s.proxy.setFresh }
  | .predicate ids =>
    match s.proxy.tracer.gate with
    | .dropped => s
    | .aborted => { s with aborted := s.aborted + 1 }
    | .recorded => (ids.foldl Run.visit s.tdEnter).cmExit

def Run.run (s : Run) (ops : List Op) : Run := ops.foldl Run.step s

/-- `SubjectProperties()`: a proxy around a fresh tracer, no context manager open -/
def Run.init : Run := ⟨⟨Tracer.fresh⟩, [], 0⟩

/-- the tracer records what the injected bytecode reports -/
def Run.recording (s : Run) : Bool := s.proxy.tracer.enabled && s.proxy.tracer.entered

def Run.trace (s : Run) : List Nat := s.proxy.tracer.trace

/-! ## Executions of an instrumented program: block visits interleaved with tracer operations -/

inductive Ev where
  /-- control runs through (a prefix of) an instrumented basic block -/
  | blk (v : Visit)
  | op (o : Op)
  deriving DecidableEq, Repr

/-- the tracer operations an event amounts to -/
def Ev.ops (prog : List (List (List OEntry))) : Ev → List Op
  | .blk v => (runVisit prog v).map Op.visit
  | .op o => [o]

def flatten (prog : List (List (List OEntry))) (evs : List Ev) : List Op := evs.flatMap (Ev.ops prog)

def Ev.isStart : Ev → Bool
  | .op o => o.isStart
  | .blk _ => false

/-- `covered_line_ids` read just before every new trace is installed and at the end (what the executor
hands out as the result of the executions on one tracer) -/
def snapshots (prog : List (List (List OEntry))) : Run → List Ev → List (List Nat)
  | s, [] => [s.trace]
  | s, e :: es =>
    let s' := s.run (e.ops prog)
    if e.isStart then s.trace :: snapshots prog s' es else snapshots prog s' es

/-! ## Specification side: the control state alone (no trace), and the visits that happen while recording -/

structure Ctl where
  enabled : Bool
  entered : Bool
  stack : List Restore
  deriving DecidableEq, Repr

def Run.ctl (s : Run) : Ctl := ⟨s.proxy.tracer.enabled, s.proxy.tracer.entered, s.stack⟩

def Ctl.recording (c : Ctl) : Bool := c.enabled && c.entered

/-- The effect of an operation on enabled / entered / open context managers, read off the documentation of
the tracer (not off `Run.step`): visits and predicate evaluations leave it alone. -/
def Ctl.step (c : Ctl) : Op → Ctl
  | .enable => { c with enabled := true }
  | .disable => { c with enabled := false }
  | .tdEnter => if c.enabled then { c with enabled := false, stack := .enable :: c.stack }
                else { c with stack := .nothing :: c.stack }
  | .teEnter => if c.enabled then { c with stack := .nothing :: c.stack }
                else { c with enabled := true, stack := .disable :: c.stack }
  | .cmExit =>
    match c.stack with
    | [] => c
    | .nothing :: st => { c with stack := st }
    | .enable :: st => { c with enabled := true, stack := st }
    | .disable :: st => { c with enabled := false, stack := st }
  | .enter => { c with entered := true }
  | .exit => { c with entered := false }
  | .setFresh => { c with enabled := true, entered := false }
  | _ => c

def Ctl.stepEv (c : Ctl) : Ev → Ctl
  | .op o => c.step o
  | .blk _ => c

/-- the block visits of an execution during which the tracer is enabled and entered -/
def recordedVisits : Ctl → List Ev → List Visit
  | _, [] => []
  | c, .blk v :: es => if c.recording then v :: recordedVisits c es else recordedVisits c es
  | c, .op o :: es => recordedVisits (c.step o) es

end PynguinModel.LineTracer
