/-
Model for C16 (same seed and budget reproduce the same test suite, whatever the hash seed).

Part A — a Pynguin run as a fold over *choice points*.  At each point the code holds a collection
of candidates and draws from the seeded PRNG.  A collection is `ordered` (list / dict /
`OrderedSet`: its order is a function of the insertion history), `sortedSet` (`sorted(a_set)`) or
`hashed` (Python `set` / `frozenset`: the iteration order is an arbitrary permutation `π` chosen by
the interpreter's hash seed).  The PRNG is a stream `draws : Nat → Nat` (a function of the seed:
`randomness.RNG.seed(seed)` in `generator._setup_random_number_generator`).

Part B — `TestCase.append_test_case_from` / `TestCase._resolve_head_references`
(`src/pynguin/testcase/testcase.py`), the crossover building block in which the unchanged tree
iterated a `frozenset[str]` while drawing `randomness.choice` (finding D25).  The model mirrors the
code line by line; the flag `sortFirst` distinguishes the repaired loop
(`for name in sorted(stmt.used_variables())`) from the original one
(`for name in stmt.used_variables()`).  A CST statement is abstracted to its bound variable, its
bound type and the `Name` leaves outside assignment targets in source order; the hash iteration
order of its `used_variables()` frozenset is an explicit argument `order`.
Mathlib-free.
-/
namespace PynguinModel.Repro

/-! ## Part A -/

/-- Insertion into a sorted list (structural, so that closed instances evaluate in the kernel). -/
def insertSorted {α} (le : α → α → Bool) (x : α) : List α → List α
  | [] => [x]
  | y :: ys => if le x y then x :: y :: ys else y :: insertSorted le x ys

/-- `sorted(xs)`: for a linear order the result of any sorting algorithm is the same list, so
insertion sort stands for CPython's Timsort. -/
def isort {α} (le : α → α → Bool) : List α → List α
  | [] => []
  | x :: xs => insertSorted le x (isort le xs)

inductive Coll (α : Type) where
  | ordered (l : List α)
  | sortedSet (l : List α)
  | hashed (l : List α)
  deriving Repr

/-- What the code sees when it iterates / indexes the collection under hash order `π`. -/
def Coll.iter {α} (le : α → α → Bool) (π : List α → List α) : Coll α → List α
  | .ordered l => l
  | .sortedSet l => isort le (π l)
  | .hashed l => π l

def Coll.isHashed {α} : Coll α → Bool
  | .hashed _ => true
  | _ => false

/-- A hash order: for every set, *some* permutation of its elements. -/
def HashOrder {α} (π : List α → List α) : Prop := ∀ l, (π l).Perm l

/-- `randomness.choice(seq)` with the PRNG's raw value `d`: `seq[d mod len]`; `none` = IndexError. -/
def pick {α} (l : List α) (d : Nat) : Option α :=
  if l.isEmpty then none else l[d % l.length]?

/-- The kinds of draw-consuming steps that occur in the search. -/
inductive Step (σ α : Type) where
  /-- one `randomness.choice(cands)`; the continuation gets `none` when `cands` is empty
  (no draw is consumed then: the callers test for emptiness first). -/
  | choose (cands : σ → Coll α) (k : σ → Option α → σ)
  /-- a loop over a collection whose body draws once per element
  (the shape of `_resolve_head_references`). -/
  | forEach (coll : σ → Coll α) (body : σ → α → Nat → σ)
  /-- any other draw (`next_float`, `randrange`, …). -/
  | draw (f : σ → Nat → σ)

/-- The collection a step looks at in state `s` (if any). -/
def Step.coll? {σ α} (s : σ) : Step σ α → Option (Coll α)
  | .choose c _ => some (c s)
  | .forEach c _ => some (c s)
  | .draw _ => none

def stepRun {σ α} (le : α → α → Bool) (π : List α → List α) (draws : Nat → Nat) :
    Step σ α → σ × Nat → σ × Nat
  | .choose c k, (s, i) =>
    let l := (c s).iter le π
    if l.isEmpty then (k s none, i) else (k s (pick l (draws i)), i + 1)
  | .forEach c body, (s, i) =>
    ((c s).iter le π).foldl (fun (st : σ × Nat) a => (body st.1 a (draws st.2), st.2 + 1)) (s, i)
  | .draw f, (s, i) => (f s (draws i), i + 1)

/-- A program decides its next step from the state (`none` = finished); `fuel` is the
iteration/execution budget. -/
def run {σ α} (le : α → α → Bool) (π : List α → List α) (draws : Nat → Nat)
    (prog : σ → Option (Step σ α)) : Nat → σ × Nat → σ × Nat
  | 0, st => st
  | fuel + 1, st =>
    match prog st.1 with
    | none => st
    | some stp => run le π draws prog fuel (stepRun le π draws stp st)

/-- Every choice point of the program iterates an `ordered` or `sorted` collection. -/
def OrderedOnly {σ α} (prog : σ → Option (Step σ α)) : Prop :=
  ∀ s stp c, prog s = some stp → stp.coll? s = some c → c.isHashed = false

/-- A linear order given as a Boolean `≤`. -/
structure LinearLe {α} (le : α → α → Bool) : Prop where
  trans : ∀ a b c, le a b = true → le b c = true → le a c = true
  total : ∀ a b, (le a b || le b a) = true
  antisymm : ∀ a b, le a b = true → le b a = true → a = b

/-! ## Part B -/

abbrev Name := String
abbrev Ty := Nat

inductive Err where
  | outOfDraws
  deriving Repr, DecidableEq

deriving instance DecidableEq for Except

structure Stmt where
  bound : Option Name
  ty : Option Ty
  /-- `Name` leaves outside assignment targets, in source order -/
  names : List Name
  deriving Repr, DecidableEq

/-- `TestCase`: `_statements`, `_var_counter`; `_type_registry` is derived (`variablesOfType`). -/
structure TC where
  stmts : List Stmt
  counter : Nat
  deriving Repr, DecidableEq

/-- `stmt.used_variables()` as a duplicate-free listing. -/
def usedSet (s : Stmt) : List Name := s.names.eraseDups

def nameLe (a b : Name) : Bool := decide (a ≤ b)

/-- `sorted(names)` for strings (code-point lexicographic in Python and in Lean). -/
def sortNames (l : List Name) : List Name := isort nameLe l

/-- `TestCase.variables_of_type(t)`: `_type_registry.get(t, [])`; `_register` appends
`bound_variable` under `bound_type` when both are not `None`, in statement order. -/
def variablesOfType (tc : TC) (t : Ty) : List Name :=
  tc.stmts.filterMap fun s =>
    match s.bound, s.ty with
    | some b, some t' => if t' = t then some b else none
    | _, _ => none

/-- `head_types = {stmt.bound_variable: stmt.bound_type for stmt in head if bound is not None}`
as an association list, last write first (so `List.lookup` is the dict lookup). -/
def headTypes (head : List Stmt) : List (Name × Option Ty) :=
  (head.filterMap fun s => s.bound.map fun b => (b, s.ty)).reverse

/-- The loop of `_resolve_head_references` over the names in iteration order.
Result: (`True`/`False`, `rename` (mutated in place also on `False`), remaining draws). -/
def resolveLoop (tc : TC) (ht : List (Name × Option Ty)) (dropped : List Name) :
    List Name → List (Name × Name) × List Nat → Except Err (Bool × List (Name × Name) × List Nat)
  | [], (rn, ds) => .ok (true, rn, ds)
  | name :: rest, (rn, ds) =>
    if name ∈ dropped then .ok (false, rn, ds)
    else if (rn.lookup name).isSome then resolveLoop tc ht dropped rest (rn, ds)
    else
      match ht.lookup name with
      | none => resolveLoop tc ht dropped rest (rn, ds)
      | some headType =>
        let cands := match headType with
          | some t => variablesOfType tc t
          | none => []
        if cands.isEmpty then .ok (false, rn, ds)
        else
          match ds with
          | [] => .error .outOfDraws
          | d :: ds' =>
            resolveLoop tc ht dropped rest ((name, cands[d % cands.length]?.getD name) :: rn, ds')

/-- `_resolve_head_references(stmt, head_types, rename, dropped)`; `order` is the hash iteration
order of `stmt.used_variables()`. -/
def resolve (sortFirst : Bool) (tc : TC) (ht : List (Name × Option Ty)) (dropped : List Name)
    (order : List Name) (rn : List (Name × Name)) (ds : List Nat) :
    Except Err (Bool × List (Name × Name) × List Nat) :=
  resolveLoop tc ht dropped (if sortFirst then sortNames order else order) (rn, ds)

structure AState where
  tc : TC
  rename : List (Name × Name)
  dropped : List Name
  draws : List Nat
  deriving Repr, DecidableEq

/-- `_VariableRenamer(rename)` on one `Name` leaf. -/
def renameName (rn : List (Name × Name)) (n : Name) : Name := (rn.lookup n).getD n

/-- `next_var_name()` -/
def freshName (counter : Nat) : Name := "var_" ++ toString counter

/-- One iteration of the `for stmt in other.statements()[start:]` loop. -/
def appendStep (sortFirst : Bool) (ht : List (Name × Option Ty)) (st : AState)
    (so : Stmt × List Name) : Except Err AState :=
  let (stmt, order) := so
  match resolve sortFirst st.tc ht st.dropped order st.rename st.draws with
  | .error e => .error e
  | .ok (false, rn, ds) =>
    let dropped := match stmt.bound with
      | some b => b :: st.dropped
      | none => st.dropped
    .ok { st with rename := rn, dropped := dropped, draws := ds }
  | .ok (true, rn, ds) =>
    let (newBound, rn', counter') :=
      match stmt.bound with
      | some b => (some (freshName st.tc.counter), (b, freshName st.tc.counter) :: rn, st.tc.counter + 1)
      | none => (none, rn, st.tc.counter)
    let newStmt : Stmt := { bound := newBound, ty := stmt.ty, names := stmt.names.map (renameName rn') }
    .ok { tc := { stmts := st.tc.stmts ++ [newStmt], counter := counter' },
          rename := rn', dropped := st.dropped, draws := ds }

def appendLoop (sortFirst : Bool) (ht : List (Name × Option Ty)) :
    List (Stmt × List Name) → AState → Except Err AState
  | [], st => .ok st
  | so :: rest, st =>
    match appendStep sortFirst ht st so with
    | .error e => .error e
    | .ok st' => appendLoop sortFirst ht rest st'

/-- `self.append_test_case_from(other, start)`; `orders[i]` is the hash iteration order of the
`used_variables()` of `other[start + i]`.  Python slicing: `start` beyond the end gives an empty tail. -/
def appendFrom (sortFirst : Bool) (self : TC) (other : List Stmt) (start : Nat)
    (orders : List (List Name)) (draws : List Nat) : Except Err AState :=
  appendLoop sortFirst (headTypes (other.take start)) ((other.drop start).zip orders)
    { tc := self, rename := [], dropped := [], draws := draws }

/-- `orders` lists, for each statement, a hash iteration order of its used-variable set. -/
def OrdersOf : List Stmt → List (List Name) → Prop
  | [], [] => True
  | s :: ss, o :: os => o.Perm (usedSet s) ∧ OrdersOf ss os
  | _, _ => False

/-- The orders handed to `appendFrom` are hash orders of the tail statements' used-variable sets. -/
def ValidOrders (other : List Stmt) (start : Nat) (orders : List (List Name)) : Prop :=
  OrdersOf (other.drop start) orders


/-! ## Part C — rendering an observed value into an exported assertion

`assertion_to_ast._value_to_cst` (the right-hand side of an `ObjectAssertion`, i.e. text that is
written into the test file).  Leaves (`None`, `bool`, `int`, `str`, `bytes`, enum members, float and
complex literals) are abstracted to the text CPython's `repr`/libcst produces for them; the model
covers the structure: list / tuple (with the one-element form `(x, )`) / dict (insertion order) /
set.  A `set` node lists its members; the order in which the code sees them is `π` applied to the
rendered members (`HashOrder π`: some permutation, chosen by PYTHONHASHSEED for `str` members).
`sortSets = true` is the repaired renderer (elements emitted in the order of their rendered text),
`false` the original one (`list(value)`, i.e. hash order). -/

inductive PyVal where
  | atom (text : String)
  | list (elems : List PyVal)
  | tuple (elems : List PyVal)
  | set (elems : List PyVal)
  /-- `keys[i] : vals[i]` in insertion order -/
  | dict (keys : List PyVal) (vals : List PyVal)
  deriving Repr

def joinComma (ts : List String) : String := ", ".intercalate ts

mutual
/-- The code libcst generates for `_value_to_cst(value)` (before `black` runs over the file). -/
def render (sortSets : Bool) (π : List String → List String) : PyVal → String
  | .atom t => t
  | .list es => "[" ++ joinComma (renderAll sortSets π es) ++ "]"
  | .tuple es =>
    match renderAll sortSets π es with
    | [t] => "(" ++ t ++ ", )"
    | ts => "(" ++ joinComma ts ++ ")"
  | .set es =>
    let ts := π (renderAll sortSets π es)
    if ts.isEmpty then "set()"
    else "{" ++ joinComma (if sortSets then sortNames ts else ts) ++ "}"
  | .dict ks vs =>
    "{" ++ joinComma (List.zipWith (fun k v => k ++ ": " ++ v) (renderAll sortSets π ks)
      (renderAll sortSets π vs)) ++ "}"
def renderAll (sortSets : Bool) (π : List String → List String) : List PyVal → List String
  | [] => []
  | v :: vs => render sortSets π v :: renderAll sortSets π vs
end

/-! ## Part D — seeds of auxiliary PRNG streams

Besides `randomness.RNG` the code creates private streams (`randomness.Random(x)`, e.g. the mutant
sampling of `FirstOrderMutator._sample` when `--maximum-mutants` caps the mutation analysis).  The
seed of such a stream is either the configured seed itself or something mixed with the hash of a
string (`hash((seed, op.__name__))`), which PYTHONHASHSEED changes. -/

inductive SeedSrc where
  | config
  | mixHash (name : String)
  deriving Repr, DecidableEq

/-- The seed handed to `randomness.Random(...)`; `h` is the interpreter's string hash. -/
def subSeed (mix : Nat → Nat → Nat) (h : String → Nat) (seed : Nat) : SeedSrc → Nat
  | .config => seed
  | .mixHash n => mix seed (h n)

/-- The seeds of the streams `FirstOrderMutator._select_mutations` creates: one stream seeded with
`sampling_seed` iff a cap is set and the module yields more mutants than the cap. -/
def samplingSeeds (seed : Nat) (total : Nat) (cap : Int) : List Nat :=
  if 0 ≤ cap ∧ cap < (total : Int) then [seed] else []

end PynguinModel.Repro
