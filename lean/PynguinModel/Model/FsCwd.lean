import PynguinModel.Model.FsPathStr
/-!
# The working directory of the process that runs `FilesystemIsolation` (C29)

The code under test may call `os.chdir` (not patched by the isolation) and name files RELATIVE to the working
directory; one process runs many isolations one after the other (one per executed test case).  `_abspath`
(`_normalize_path_cached`) must therefore resolve a relative spelling against the working directory of THE
CALL.  This file adds that state to the model — **with `proposed_fixes/C29-abspath-cache-respects-cwd.diff`
applied** (only absolute strings are memoised):

* `CSt.cwd`     ↔ the process's working directory (`none`: it was deleted by an exit cleanup, `os.getcwd` raises)
* `Spell`       ↔ the string the code under test passes: relative to the working directory or absolute
* `climb`       ↔ `os.path.normpath(os.path.join(base, spelling))` on segments (`none`: leaves the sandbox)
* `resolve`     ↔ `_abspath` of the repaired code = the path the operating system acts on
* `COp.chdir`   ↔ `os.chdir(spelling)`;  `COp.reenter` ↔ `__exit__` of the running isolation followed by
  `FilesystemIsolation().__enter__()` in the same process (the working directory is NOT restored)
* `Memo`, `legacyAbspath` ↔ `_normalize_path_cached` as it was: `lru_cache` keyed by the STRING, a relative
  spelling keeps the resolution of its first use (kept for `C29_stale_abspath_cex` / `C29_stale_cache_…_cex`).
-/

namespace PynguinModel.FsIsolation

/-- the string passed by the code under test, as segments; `rel`: relative to the working directory,
otherwise absolute (segments below the sandbox root) -/
structure Spell where
  rel : Bool
  segs : List String
  deriving DecidableEq, Repr

/-- `normpath(join(base, spelling))` on segments; `none` when a `..` climbs above the sandbox root (the
harness never executes such an operation) -/
def climb : Path → List String → Option Path
  | acc, [] => some acc
  | acc, seg :: rest =>
    if seg = "" ∨ seg = "." then climb acc rest
    else if seg = ".." then (if acc = [] then none else climb acc.dropLast rest)
    else climb (acc ++ [seg]) rest

/-- the process: the isolation state of the running `FilesystemIsolation` and the working directory -/
structure CSt where
  st : St
  cwd : Option Path

/-- `_abspath(spelling)` (repaired: `os.getcwd()` of the call) = the path the operating system resolves -/
def resolve (cwd : Option Path) (sp : Spell) : Option Path :=
  if sp.rel then cwd.bind (fun d => climb d sp.segs) else climb [] sp.segs

/-- the last non-empty segment names the target itself (library code takes `basename`/`split` of the spelling);
a trailing separator only after a directory; a spelling without any name (`<root>/`, `.`) is accepted for the
sandbox root only (it is never recorded, so no library code ever takes its `basename`) -/
def lastNameOk (fs : FS) (p : Path) (sp : Spell) : Bool :=
  match (sp.segs.reverse.dropWhile (fun s => s == "")).head? with
  | none => p == []
  | some s => cleanNameB s && (sp.segs.getLast? != some "" || isDir fs p)

/-- the operating system resolves the spelling like `normpath` does (every directory passed before a `..` exists) -/
def walkOk (fs : FS) (cwd : Option Path) (sp : Spell) : Bool :=
  resolvesLikeNorm fs (if sp.rel then cwd.getD [] else []) sp.segs

def spellOkC (fs : FS) (cwd : Option Path) (sp : Spell) (p : Path) : Bool :=
  walkOk fs cwd sp && lastNameOk fs p sp

/-- the operation with its path arguments replaced -/
def withArgs : Op → Path → Path → Op
  | .fopen a _ m d, p, _ => .fopen a p m d
  | .osopen _ fl d, p, _ => .osopen p fl d
  | .writeText _ d, p, _ => .writeText p d
  | .touch _ e, p, _ => .touch p e
  | .mkdir _, p, _ => .mkdir p
  | .makedirs _ e, p, _ => .makedirs p e
  | .pmkdir _ ps e, p, _ => .pmkdir p ps e
  | .rename a _ _, p, q => .rename a p q
  | .copy a _ _, p, q => .copy a p q
  | .move _ _, p, q => .move p q
  | .remove a _, p, _ => .remove a p
  | .rmdir a _, p, _ => .rmdir a p
  | .rmtree _, p, _ => .rmtree p

def hasDst (o : Op) : Bool := (opArgs o).2.isSome

/-- a successful operation of this kind moves or deletes the working directory `d` itself (then `os.getcwd`
follows the inode or raises): outside the model -/
def clobbers (o : Op) (d : Path) : Bool :=
  match o with
  | .rename _ p q => under p d || under q d
  | .move p _ => under p d
  | .remove _ p => under p d
  | .rmdir _ p => under p d
  | .rmtree p => under p d
  | _ => false

/-- `clobbers` for a process whose working directory may be gone already -/
def clobbersCwd (cwd : Option Path) (o : Op) : Bool :=
  match cwd with
  | some d => clobbers o d
  | none => false

inductive COp where
  /-- an operation of `Op` whose path arguments are given by spellings (the paths inside `o` are placeholders) -/
  | op (o : Op) (sp sq : Spell)
  | chdir (sp : Spell)
  | reenter
  deriving Repr

/-- the resolved arguments of a spelled operation (`none`: not resolvable inside the sandbox) -/
def resolveArgs (s : CSt) (o : Op) (sp sq : Spell) : Option (Path × Path) :=
  match resolve s.cwd sp, (if hasDst o then resolve s.cwd sq else some []) with
  | some p, some q => some (p, q)
  | _, _ => none

def stepC (c : COp) (s : CSt) : CSt × Res :=
  match c with
  | .reenter =>
    let fs' := exitCleanup s.st
    (⟨⟨fs', []⟩, s.cwd.bind (fun d => if isDir fs' d then some d else none)⟩, .ok)
  | .chdir sp =>
    match resolve s.cwd sp with
    | none => (s, .unmodelled)
    | some p =>
      if !walkOk s.st.fs s.cwd sp then (s, .unmodelled)
      else if isDir s.st.fs p then (⟨s.st, some p⟩, .ok)
      else (s, .failed)
  | .op o sp sq =>
    match resolveArgs s o sp sq with
    | none => (s, .unmodelled)
    | some (p, q) =>
      if !(spellOkC s.st.fs s.cwd sp p && (!hasDst o || spellOkC s.st.fs s.cwd sq q)) then (s, .unmodelled)
      else
        let o' := withArgs o p q
        let r := step o' s.st
        if r.2 = .ok && clobbersCwd s.cwd o' then (s, .unmodelled)
        else (⟨r.1, s.cwd⟩, r.2)

/-- one process: operations, `chdir`s and re-entered isolations -/
def runC (cops : List COp) (s : CSt) : CSt := cops.foldl (fun s c => (stepC c s).1) s

/-- the same, keeping the per-step outcomes -/
def runLogC (cops : List COp) (s : CSt) : CSt × List Res :=
  cops.foldl (fun acc c => let r := stepC c acc.1; (r.1, acc.2 ++ [r.2])) (s, [])

/-- the tree each isolation of the process leaves behind at its exit: one per `reenter`, and the final exit -/
def exitTrees : List COp → CSt → List FS
  | [], s => [exitCleanup s.st]
  | .reenter :: rest, s => exitCleanup s.st :: exitTrees rest (stepC .reenter s).1
  | c :: rest, s => exitTrees rest (stepC c s).1

/-- a fresh process: nothing recorded, the working directory is the directory `cwd` -/
def startC (init : FS) (cwd : Path) : CSt := ⟨⟨init, []⟩, some cwd⟩

/-! ## `_normalize_path_cached` as it was: memoised per string -/

/-- `lru_cache`: spelling ↦ the resolution of its first use in the process -/
abbrev Memo := List (Spell × Path)

def memoGet : Memo → Spell → Option Path
  | [], _ => none
  | (k, v) :: rest, sp => if k = sp then some v else memoGet rest sp

/-- `_abspath` BEFORE the repair: a memoised spelling is not resolved again, whatever the working directory -/
def legacyAbspath (memo : Memo) (cwd : Option Path) (sp : Spell) : Option Path × Memo :=
  match memoGet memo sp with
  | some v => (some v, memo)
  | none =>
    match resolve cwd sp with
    | some v => (some v, (sp, v) :: memo)
    | none => (none, memo)

/-- `open(spelling, mode)` through the UNREPAIRED `_abspath`: the bookkeeping (`_refuse_overwrite`, `_owns`,
`_record_created`) sees the memoised path, the operating system opens the path the spelling denotes now -/
def legacyOpenC (sp : Spell) (m : Mode) (data : List Nat) (x : CSt × Memo) : (CSt × Memo) × Res :=
  match resolve x.1.cwd sp, legacyAbspath x.2 x.1.cwd sp with
  | some po, (some pb, memo') =>
    let r := trackedOpen (isWriteMode m) pb (liftRaw (fun fs => rawOpen (modeSpec m) fs po data)) x.1.st
    ((⟨r.1, x.1.cwd⟩, memo'), r.2)
  | _, _ => (x, .unmodelled)

end PynguinModel.FsIsolation
