import PynguinModel.Model.Cdg
/-!
Model of the *repaired* `filter_dead_code_nodes` (`pynguin.instrumentation.controlflow`, /repo commit
"loops that cannot be reached from the entry node are dead code …"):

```python
has_changed = True
while has_changed:                     # `filterDead` (Model/Cdg.lean): sweeps until nothing changes
    ...remove every non-entry node without predecessor...
reachable = nx.descendants(graph.graph, entry_node) | {entry_node}     # `reach` on the remaining graph
for node in tuple(graph.nodes):
    if node not in reachable:
        graph.graph.remove_node(node)
```

`nx.descendants` raises `NetworkXError` when the entry node is not a node of the graph: the model returns
`none` then.  The specification `Reach` is the textbook inductive definition.  Mathlib-free.
-/
namespace PynguinModel.Cdg

/-- Targets of the edges leaving the set `S` (one breadth-first layer). -/
def frontier (E : List Edge) (S : List Node) : List Node :=
  (E.filter (fun e => S.contains e.src && !S.contains e.dst)).map (·.dst)

/-- Breadth-first closure, layer by layer, until a layer is empty. -/
def reachLoop (E : List Edge) : Nat → List Node → List Node
  | 0, S => S
  | fuel + 1, S =>
    match frontier E S with
    | [] => S
    | y :: ys => reachLoop E fuel (S ++ y :: ys)

/-- `nx.descendants(G, entry) | {entry}` for the graph with edge list `E`: every layer adds the target of
at least one edge, so `E.length` layers suffice (proved: `mem_reach_iff`). -/
def reach (E : List Edge) (entry : Node) : List Node := reachLoop E E.length [entry]

/-- The edges of the graph that remain when only `nodes` remain (`remove_node` drops incident edges). -/
def induced (E : List Edge) (nodes : List Node) : List Edge :=
  E.filter (fun e => nodes.contains e.src && nodes.contains e.dst)

/-- The repaired `filter_dead_code_nodes`: the predecessor-less-node loop, then the reachability pass
over what is left.  `none` = `nx.descendants` raises because `entry` is not in the graph. -/
def filterDeadFull (E : List Edge) (entry : Node) (nodes : List Node) : Option (List Node) :=
  let live := filterDead E entry nodes.length nodes
  if live.contains entry then
    let r := reach (induced E live) entry
    some (live.filter (fun n => r.contains n))
  else none

/-! ### Specification -/

/-- `n` is reachable from `entry` along edges of `E`. -/
inductive Reach (E : List Edge) (entry : Node) : Node → Prop
  | refl : Reach E entry entry
  | step {p n : Node} {l : Label} : Reach E entry p → (⟨p, n, l⟩ : Edge) ∈ E → Reach E entry n

end PynguinModel.Cdg
