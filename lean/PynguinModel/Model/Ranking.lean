/-
Model of the ranking and selection operators of pynguin (property C14).

Mirrored Python code (one Lean definition per Python function, written the way the code is written):

* `pynguin.ga.operators.comparator.compare`                          → `cmp`
* `DominanceComparator.compare` (objectives = the given goals)       → `domCompare` (`domLoop` is the
  `for objective` loop with its two early `return 0`)
* `PreferenceSortingComparator.compare`                              → `prefCompare`
* `RankBasedPreferenceSorting._get_zero_front`                       → `zeroFront` (`bestFor` = inner loop;
  `randomness.next_bool()` draws are the input list `flips`, an exhausted list yields `False`)
* `RankBasedPreferenceSorting._get_non_dominated_solutions`          → `nonDominated` (`scanFront`,
  `nonDomStep`)
* `RankBasedPreferenceSorting.compute_ranking_assignment`            → `computeRanking` (`rankLoop` = the
  `while` loop, with an explicit iteration bound; `none` = bound hit)
* `ranking.fast_epsilon_dominance_assignment`                        → `crowding` (`scanGoal`, `assignGoal`)
* `RankSelection.get_index` (with proposed_fixes/C14-rank-selection-bias-one-and-clamp.diff)
                                                                     → `rankIndex` (`rankPosition`, `clampIdx`);
  the unchanged code is kept as `rankIndexOrig` for the counterexample theorems.

A chromosome is `Ind`: `sid`/`len` stand for the test case (Python `__eq__`/`__hash__` of a
`TestCaseChromosome` compare the test cases), `fit` is the vector of its (cached) fitness values, one
per goal id.  Python `list.remove(x)` / `x in list` use `==`, which is structural equality of `Ind`
here.  Fitness values are exact rationals (`ComputationCache` asserts they are finite, non-NaN, ≥ 0).
`sys.float_info.max` is the parameter `fmax`.  Floats in `get_index`: the model computes over exact
rationals and answers `inexact` whenever the radicand is not a perfect square (then `sqrt` rounds).
Mathlib-free.
-/
namespace PynguinModel.Ranking

/-- A chromosome as far as ranking is concerned. -/
structure Ind where
  sid : Nat
  len : Nat
  fit : List Rat
  deriving DecidableEq, Repr, Inhabited

/-- `chromosome.get_fitness_for(goal)` -/
def fitOf (c : Ind) (g : Nat) : Rat := c.fit.getD g 0

/-- `comparator.compare(fitness_1, fitness_2)` -/
def cmp (a b : Rat) : Int := if a < b then -1 else if a > b then 1 else 0

/-! ### DominanceComparator -/

/-- The `for objective in self._objectives` loop of `DominanceComparator.compare` with the locals
`dominate_1`, `dominate_2`. -/
def domLoop (c1 c2 : Ind) : List Nat → Bool → Bool → Int
  | [], d1, d2 => if d1 == d2 then 0 else if d1 then -1 else 1
  | g :: gs, d1, d2 =>
    let flag := cmp (fitOf c1 g) (fitOf c2 g)
    if flag < 0 then
      if d2 then 0 else domLoop c1 c2 gs true d2
    else if flag > 0 then
      if d1 then 0 else domLoop c1 c2 gs d1 true
    else domLoop c1 c2 gs d1 d2

/-- `DominanceComparator(goals=goals).compare(chromosome_1, chromosome_2)` -/
def domCompare (goals : List Nat) : Option Ind → Option Ind → Int
  | none, _ => 1
  | some _, none => -1
  | some c1, some c2 => domLoop c1 c2 goals false false

/-! ### PreferenceSortingComparator -/

/-- `PreferenceSortingComparator(goal).compare(chromosome_1, chromosome_2)` -/
def prefCompare (g : Nat) : Option Ind → Option Ind → Int
  | none, _ => 1
  | some _, none => -1
  | some c1, some c2 =>
    let v1 := fitOf c1 g
    let v2 := fitOf c2 g
    if v1 < v2 then -1
    else if v1 > v2 then 1
    else if c1.len < c2.len then -1
    else if c1.len > c2.len then 1
    else 0

/-! ### `_get_zero_front` -/

/-- `randomness.next_bool()` with the draws given as a list (exhausted list: `False`). -/
def nextBool : List Bool → Bool × List Bool
  | [] => (false, [])
  | b :: bs => (b, bs)

/-- The `for solution in solutions` loop of `_get_zero_front` for one goal. -/
def bestFor (g : Nat) : List Ind → Option Ind → List Bool → Option Ind × List Bool
  | [], best, flips => (best, flips)
  | s :: ss, best, flips =>
    let flag := prefCompare g (some s) best
    if flag < 0 then bestFor g ss (some s) flips
    else if flag == 0 then
      let (b, flips') := nextBool flips
      if b then bestFor g ss (some s) flips' else bestFor g ss best flips'
    else bestFor g ss best flips

/-- `OrderedSet.add` -/
def osAdd (zf : List Ind) (x : Ind) : List Ind := if x ∈ zf then zf else zf ++ [x]

/-- `_get_zero_front(solutions, uncovered_goals)`; `none` = the `assert best is not None` fails. -/
def zeroFront (sols : List Ind) : List Nat → List Ind → List Bool → Option (List Ind × List Bool)
  | [], zf, flips => some (zf, flips)
  | g :: gs, zf, flips =>
    match bestFor g sols none flips with
    | (none, _) => none
    | (some best, flips') => zeroFront sols gs (osAdd zf best) flips'

/-! ### `_get_non_dominated_solutions` -/

/-- The `for best in front` loop: returns (`is_dominated`, `dominated_solutions`). -/
def scanFront (goals : List Nat) (sol : Ind) : List Ind → List Ind → Bool × List Ind
  | [], acc => (false, acc)
  | b :: bs, acc =>
    let flag := domCompare goals (some sol) (some b)
    let acc := if flag < 0 then acc ++ [b] else acc
    if flag > 0 then (true, acc) else scanFront goals sol bs acc

/-- `for e in xs: if e in l: l.remove(e)` -/
def removeAll (l xs : List Ind) : List Ind :=
  xs.foldl (fun r e => if e ∈ r then r.erase e else r) l

/-- One iteration of the `for solution in solutions` loop of `_get_non_dominated_solutions`. -/
def nonDomStep (goals : List Nat) (front : List Ind) (sol : Ind) : List Ind :=
  match scanFront goals sol front [] with
  | (true, _) => front
  | (false, ds) => removeAll (front ++ [sol]) ds

/-- `_get_non_dominated_solutions(solutions, comparator, front_index)` (the `rank` attribute is not
modelled). -/
def nonDominated (goals : List Nat) (sols : List Ind) : List Ind :=
  sols.foldl (nonDomStep goals) []

/-! ### `compute_ranking_assignment` -/

/-- The `while ranked_solutions < population and len(remaining) > 0` loop; `fuel` bounds the number
of iterations (`none` = bound hit).  Returns the fronts appended by the loop. -/
def rankLoop (goals : List Nat) (population : Nat) :
    Nat → List Ind → Nat → Option (List (List Ind))
  | fuel, remaining, ranked =>
    if ranked < population ∧ remaining.length > 0 then
      match fuel with
      | 0 => none
      | fuel + 1 =>
        let newFront := nonDominated goals remaining
        match rankLoop goals population fuel (removeAll remaining newFront)
            (ranked + newFront.length) with
        | none => none
        | some fs => some (newFront :: fs)
    else some []

/-- Result of `compute_ranking_assignment`. -/
inductive Ranked where
  /-- `RankedFronts()` (fronts is None) -/
  | empty
  | fronts (fs : List (List Ind)) (flips : List Bool)
  /-- `assert best is not None` (unreachable, see `zeroFront_some`) -/
  | assertion
  /-- iteration bound of the model hit (unreachable, see `rankLoop_terminates`) -/
  | bound
  deriving DecidableEq, Repr

/-- `RankBasedPreferenceSorting().compute_ranking_assignment(solutions, uncovered_goals)` with
`config.configuration.search_algorithm.population = population`. -/
def computeRanking (sols : List Ind) (goals : List Nat) (population : Nat) (flips : List Bool) :
    Ranked :=
  if sols.isEmpty then .empty else
  match zeroFront sols goals [] flips with
  | none => .assertion
  | some (zf, flips') =>
    if zf.length < population then
      match rankLoop goals population (sols.length + 1) (removeAll sols zf) zf.length with
      | none => .bound
      | some fs => .fronts (zf :: fs) flips'
    else
      .fronts [zf, removeAll sols zf] flips'

/-! ### `fast_epsilon_dominance_assignment` -/

/-- Locals of the inner `for test in front` loop: `minimum`, `min_set` (positions in the front),
`maximum`. -/
structure GoalScan where
  minimum : Rat
  minSet : List Nat
  maximum : Rat
  deriving DecidableEq, Repr

/-- One iteration of `for test in front` (`i` = position of `test`, `value` its fitness). -/
def scanStep (sc : GoalScan) (i : Nat) (value : Rat) : GoalScan :=
  let sc :=
    if value < sc.minimum then { sc with minimum := value, minSet := [i] }
    else if value == sc.minimum then { sc with minSet := sc.minSet ++ [i] }
    else sc
  { sc with maximum := if value > sc.maximum then value else sc.maximum }

def scanGoalFrom (sc : GoalScan) (i : Nat) : List Rat → GoalScan
  | [] => sc
  | v :: vs => scanGoalFrom (scanStep sc i v) (i + 1) vs

/-- `minimum = sys.float_info.max; min_set = []; maximum = 0.0; for test in front: …` -/
def scanGoal (fmax : Rat) (values : List Rat) : GoalScan :=
  scanGoalFrom { minimum := fmax, minSet := [], maximum := 0 } 0 values

/-- `numerator / denominator` with `numerator = len(front) - len(min_set)`. -/
def crowdValue (n k : Nat) : Rat := (((n : Int) - (k : Int) : Int) : Rat) / (n : Rat)

/-- `for test in min_set: test.distance = max(test.distance, numerator / denominator)` -/
def assignGoal (n : Nat) (minSet : List Nat) (dist : List Rat) : List Rat :=
  minSet.foldl (fun d i =>
    let old := d.getD i 0
    let v := crowdValue n minSet.length
    d.set i (if v > old then v else old)) dist

/-- One iteration of `for goal in goals`. -/
def crowdStep (fmax : Rat) (front : List Ind) (dist : List Rat) (g : Nat) : List Rat :=
  let sc := scanGoal fmax (front.map (fitOf · g))
  if sc.maximum == sc.minimum then dist else assignGoal front.length sc.minSet dist

/-- `fast_epsilon_dominance_assignment(front, goals)`: the `distance` attribute of every member of
the front afterwards, by position. -/
def crowding (fmax : Rat) (front : List Ind) (goals : List Nat) : List Rat :=
  goals.foldl (crowdStep fmax front) (front.map fun _ => 0)

/-! ### `RankSelection.get_index` -/

/-- Exact square root of a rational, if it has one (`none`: `math.sqrt` has to round). -/
def exactSqrt (q : Rat) : Option Rat :=
  if q < 0 then none else
  let n := q.num.toNat
  let sn := Nat.sqrt n
  let sd := Nat.sqrt q.den
  if sn * sn = n ∧ sd * sd = q.den then some ((sn : Rat) / (sd : Rat)) else none

/-- Python `int(x)` on a float holding the exact rational `x`: truncation toward zero. -/
def truncInt (x : Rat) : Int := if 0 ≤ x then x.floor else x.ceil

inductive SelResult where
  | idx (i : Int)
  /-- the radicand is no perfect square: the float computation rounds, the exact model abstains -/
  | inexact
  | zeroDivision
  /-- `math.sqrt` of a negative number: ValueError -/
  | valueError
  deriving DecidableEq, Repr

/-- `(bias - sqrt(bias**2 - 4.0*(bias-1.0)*random_value)) / 2.0 / (bias - 1.0)` over exact rationals. -/
def rankFormula (bias r : Rat) : Except SelResult Rat :=
  let rad := bias * bias - 4 * (bias - 1) * r
  if rad < 0 then .error .valueError else
  match exactSqrt rad with
  | none => .error .inexact
  | some s => if bias - 1 = 0 then .error .zeroDivision else .ok ((bias - s) / 2 / (bias - 1))

/-- repaired code: `position = random_value if bias == 1.0 else <formula>` -/
def rankPosition (bias r : Rat) : Except SelResult Rat :=
  if bias = 1 then .ok r else rankFormula bias r

/-- repaired code: `min(index, max(len(population) - 1, 0))` -/
def clampIdx (n : Nat) (i : Int) : Int := min i (max ((n : Int) - 1) 0)

/-- `RankSelection(bias).get_index(population)` with `len(population) = n` and
`randomness.next_float() = r` — REPAIRED code. -/
def rankIndex (bias r : Rat) (n : Nat) : SelResult :=
  match rankPosition bias r with
  | .error e => e
  | .ok p => .idx (clampIdx n (truncInt ((n : Rat) * p)))

/-- `get_index` of the UNCHANGED code (no `bias == 1.0` case, no clamp). -/
def rankIndexOrig (bias r : Rat) (n : Nat) : SelResult :=
  match rankFormula bias r with
  | .error e => e
  | .ok p => .idx (truncInt ((n : Rat) * p))

end PynguinModel.Ranking
