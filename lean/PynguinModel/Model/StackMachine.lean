/-!
# C01 — operand-stack machine for the code pynguin's instrumentation inserts

Every adapter of `pynguin.instrumentation.version.*` obtains the instructions it inserts from
`InstrumentationInstructionsGenerator.generate_instructions` (= setup ++ method call ++ teardown)
or `generate_overriding_instructions` (= setup ++ [original instruction] ++ method call ++
teardown) (`version/common.py`).  This file models CPython's evaluation of exactly the opcodes
those generators emit (3.12/3.13/3.14: `COPY`, `SWAP`, `POP_TOP`, `LOAD_CONST`, `LOAD_ATTR` in
method form, `CALL`, the read-only environment loads, `BUILD_TUPLE`, `BINARY_OP`; 3.10/3.11
additionally `DUP_TOP(_TWO)`, `ROT_*`, `LOAD_METHOD`, `PRECALL`, `CALL_METHOD`, `BINARY_ADD`) plus
`orig`, an *original* instruction of the module under test with the pops/pushes pynguin's
`stack_effects` declares for it.

Values are opaque: the machine can copy, move and drop them and hand them to a callback; the only
op that *uses* a value of the module under test is `binaryOp` (the `ADD_FIRST_TWO` setup actions),
which runs user code (`__add__`) and may raise.  No Mathlib.
-/
namespace PynguinModel.StackMachine

/-- Values the instrumentation brings onto the stack itself (never a value of the module under test). -/
inductive Lit where
  /-- `LOAD_CONST c` of the instrumentation (tracer object, ids, names, enum members) -/
  | const (c : Nat)
  /-- a value read from the frame (`kind`: 0 fast, 1 name, 2 global, 3 deref, 4 classderef, 5 locals) -/
  | env (kind name : Nat)
  /-- the result of a callback (`None`) -/
  | res
  /-- `j`-th value pushed by original instruction `id` -/
  | out (id j : Nat)
  deriving DecidableEq, Repr, Inhabited

/-- Runtime values, as far as the instrumentation can tell them apart. -/
inductive Val where
  /-- a value of the module under test (opaque token) -/
  | tok (i : Nat)
  | lit (l : Lit)
  /-- the callable half that `LOAD_ATTR (True, name)` / `LOAD_METHOD name` pushes for `self` -/
  | meth (name : Nat) (self : Val)
  /-- `BUILD_TUPLE 2` -/
  | tup (a b : Val)
  /-- result of `BINARY_OP +` on two values: computed by user code -/
  | sum (a b : Val)
  deriving DecidableEq, Repr, Inhabited

/-- the value a position outside the stack evaluates to (never reached by a well-formed descriptor) -/
abbrev Val.dflt : Val := .lit .res

/-- The opcodes the generators emit (+ `orig`). -/
inductive Op where
  | copy (n : Nat)            -- COPY n        (3.11+)
  | swap (n : Nat)            -- SWAP n        (3.11+)
  | popTop                    -- POP_TOP
  | loadConst (c : Nat)       -- LOAD_CONST c
  | loadMethod (name : Nat)   -- LOAD_ATTR (True, name) / LOAD_METHOD name: pop self, push callable, self
  | call (n : Nat)            -- CALL n / CALL_METHOD n: pop n args, self, callable; push result; callback runs
  | precall (n : Nat)         -- PRECALL n     (3.11): no stack change
  | loadEnv (kind name : Nat) -- LOAD_FAST / LOAD_NAME / LOAD_GLOBAL / LOAD_DEREF / LOAD_CLASSDEREF: may raise if unbound
  | loadLocals                -- LOAD_LOCALS
  | loadFromDictOrDeref (name : Nat) -- LOAD_FROM_DICT_OR_DEREF name: pop the dict, push the value; may raise if unbound
  | buildTuple2               -- BUILD_TUPLE 2
  | binaryOp                  -- BINARY_OP + / BINARY_ADD on two values of the module under test: USER CODE
  | dupTop | dupTopTwo | rotTwo | rotThree | rotFour   -- 3.10
  /-- an original instruction: pops `p`, pushes `q`; `raises` = this execution of it raises -/
  | orig (id p q : Nat) (raises : Bool)
  deriving DecidableEq, Repr, Inhabited

/-- What an op does to the stack, as data: positions are 0-based from the top of the old stack. -/
inductive Src where
  | pos (i : Nat)
  | lit (l : Lit)
  | meth (name : Nat) (s : Src)
  | tup (a b : Src)
  | sum (a b : Src)
  deriving Repr, Inhabited

def Src.eval (s : List Val) : Src → Val
  | .pos i => (s[i]?).getD Val.dflt
  | .lit l => .lit l
  | .meth n x => .meth n (x.eval s)
  | .tup a b => .tup (a.eval s) (b.eval s)
  | .sum a b => .sum (a.eval s) (b.eval s)

/-- all positions mentioned are `< n` -/
def Src.within (n : Nat) : Src → Bool
  | .pos i => decide (i < n)
  | .lit _ => true
  | .meth _ x => x.within n
  | .tup a b => a.within n && b.within n
  | .sum a b => a.within n && b.within n

/-- Observable events. -/
inductive Ev where
  /-- a callback of the instrumentation ran: `callee(self?, args…)` -/
  | call (callee self : Val) (args : List Val)
  /-- an original instruction ran on these operands (top of stack first) -/
  | orig (id : Nat) (args : List Val)
  deriving DecidableEq, Repr, Inhabited

inductive Emit where
  | silent
  | call (n : Nat)            -- callee at n+1, self at n, args n-1 … 0
  | orig (id p : Nat)
  deriving Repr, Inhabited

inductive Guard where
  | free
  | invalid                    -- malformed op argument
  | bound (kind name : Nat)    -- raises NameError/UnboundLocalError unless bound
  | user                       -- runs user code on the two top values; may raise
  | raises (id : Nat)          -- this execution of original instruction `id` raises
  deriving Repr, Inhabited

structure Desc where
  need : Nat
  pops : Nat
  pushes : List Src
  emit : Emit := .silent
  guard : Guard := .free
  deriving Repr, Inhabited

/-- positions `0 … n-1` with `0 ↔ n-1` exchanged (SWAP n) -/
def swapPerm (n i : Nat) : Nat := if i = 0 then n - 1 else if i = n - 1 then 0 else i

def Op.desc : Op → Desc
  | .copy n => if n = 0 then { need := 0, pops := 0, pushes := [], guard := .invalid }
               else { need := n, pops := 0, pushes := [.pos (n - 1)] }
  | .swap n => if n = 0 then { need := 0, pops := 0, pushes := [], guard := .invalid }
               else { need := n, pops := n, pushes := (List.range n).map (fun i => .pos (swapPerm n i)) }
  | .popTop => { need := 1, pops := 1, pushes := [] }
  | .loadConst c => { need := 0, pops := 0, pushes := [.lit (.const c)] }
  | .loadMethod name => { need := 1, pops := 1, pushes := [.pos 0, .meth name (.pos 0)] }
  | .call n => { need := n + 2, pops := n + 2, pushes := [.lit .res], emit := .call n }
  | .precall n => { need := n + 2, pops := 0, pushes := [] }
  | .loadEnv k n => { need := 0, pops := 0, pushes := [.lit (.env k n)], guard := .bound k n }
  | .loadLocals => { need := 0, pops := 0, pushes := [.lit (.env 5 0)] }
  | .loadFromDictOrDeref n => { need := 1, pops := 1, pushes := [.lit (.env 4 n)], guard := .bound 4 n }
  | .buildTuple2 => { need := 2, pops := 2, pushes := [.tup (.pos 1) (.pos 0)] }
  | .binaryOp => { need := 2, pops := 2, pushes := [.sum (.pos 1) (.pos 0)], guard := .user }
  | .dupTop => { need := 1, pops := 0, pushes := [.pos 0] }
  | .dupTopTwo => { need := 2, pops := 0, pushes := [.pos 0, .pos 1] }
  | .rotTwo => { need := 2, pops := 2, pushes := [.pos 1, .pos 0] }
  | .rotThree => { need := 3, pops := 3, pushes := [.pos 1, .pos 2, .pos 0] }
  | .rotFour => { need := 4, pops := 4, pushes := [.pos 1, .pos 2, .pos 3, .pos 0] }
  | .orig id p q r => { need := p, pops := p, pushes := (List.range q).map (fun j => .lit (.out id j)),
                        emit := .orig id p, guard := if r then .raises id else .free }

/-- the descriptor only mentions positions it has checked to exist -/
def Desc.wf (d : Desc) : Bool :=
  decide (d.pops ≤ d.need) && d.pushes.all (·.within d.need) &&
  (match d.emit with
   | .silent => true
   | .call n => decide (n + 2 ≤ d.need)
   | .orig _ p => decide (p ≤ d.need)) &&
  (match d.guard with
   | .user => decide (2 ≤ d.need)
   | _ => true)

inductive Err where
  | underflow
  | badOp
  | unbound (kind name : Nat)   -- NameError / UnboundLocalError raised by the instrumentation
  | userRaised                  -- user code run by the instrumentation raised
  | origRaised (id : Nat)       -- the original instruction raised (as it does uninstrumented)
  deriving DecidableEq, Repr, Inhabited

/-- The frame environment and the behaviour of user code, as far as the machine depends on them. -/
structure World where
  bound : Nat → Nat → Bool
  userRaises : Val → Val → Bool

/-- Outcome of running some ops: the stack, the events emitted (in order), and the error if the run
stopped with an exception (then `stack` is the stack at that point). -/
structure Result where
  stack : List Val
  events : List Ev
  err : Option Err
  deriving DecidableEq, Repr, Inhabited

def Emit.events (s : List Val) : Emit → List Ev
  | .silent => []
  | .call n => [.call ((s[n + 1]?).getD Val.dflt) ((s[n]?).getD Val.dflt) ((s.take n).reverse)]
  | .orig id p => [.orig id (s.take p)]

def Guard.check (w : World) (s : List Val) : Guard → Option Err
  | .free => none
  | .invalid => some .badOp
  | .bound k n => if w.bound k n then none else some (.unbound k n)
  | .user => if w.userRaises ((s[1]?).getD Val.dflt) ((s[0]?).getD Val.dflt) then some .userRaised else none
  | .raises id => some (.origRaised id)

def Desc.apply (w : World) (d : Desc) (s : List Val) : Result :=
  if s.length < d.need then ⟨s, [], some .underflow⟩
  else match d.guard with
    | .raises id => ⟨s, d.emit.events s, some (.origRaised id)⟩
    | g => match g.check w s with
      | some e => ⟨s, [], some e⟩
      | none => ⟨d.pushes.map (Src.eval s) ++ s.drop d.pops, d.emit.events s, none⟩

def step (w : World) (op : Op) (s : List Val) : Result := op.desc.apply w s

def run (w : World) : List Op → List Val → Result
  | [], s => ⟨s, [], none⟩
  | op :: ops, s =>
    let r := step w op s
    match r.err with
    | some _ => r
    | none => let r' := run w ops r.stack
              ⟨r'.stack, r.events ++ r'.events, r'.err⟩

/-! ## The executable checkers -/

/-- a guard that cannot fail because of the instrumentation: no user code, frame reads licensed -/
def Guard.okIn (lic : List (Nat × Nat)) : Guard → Bool
  | .user => false
  | .bound k n => lic.contains (k, n)
  | _ => true

def allWf (ops : List Op) : Bool := ops.all (fun o => o.desc.wf)

/-- the world of the symbolic run: everything bound, user code never raises -/
def wAll : World := ⟨fun _ _ => true, fun _ _ => false⟩

def toks (k : Nat) : List Val := (List.range k).map .tok

/-- an argument the instrumentation may hand to a callback: one of the `k` observed values, one of
its own constants, something read from the frame, a pair of those, or an output of the overridden
original instruction. -/
def Val.observedSym (k : Nat) : Val → Bool
  | .tok i => decide (i < k)
  | .lit _ => true
  | .tup a b => a.observedSym k && b.observedSym k
  | _ => false

def Ev.isCall : Ev → Bool
  | .call .. => true
  | _ => false

def Ev.callOk (k : Nat) : Ev → Bool
  | .call callee self args =>
      (match callee, self with
       | .meth _ (.lit (.const c)), .lit (.const c') => c == c'
       | _, _ => false) && args.all (Val.observedSym k)
  | .orig .. => true

def eraseCalls (evs : List Ev) : List Ev := evs.filter (fun e => !e.isCall)

/-- What can be observed of a run from the module's point of view: the callbacks of the
instrumentation are erased, and when the run ended with an exception the value stack is gone (the
interpreter unwinds it). -/
def Result.observable (r : Result) : Result :=
  ⟨if r.err.isSome then [] else r.stack, eraseCalls r.events, r.err⟩

/-- `observeOnly`: no user code, all frame reads licensed (DESIGN §5 C01). -/
def observeOnly (sn : List Op) (lic : List (Nat × Nat)) : Bool := sn.all (fun o => o.desc.guard.okIn lic)

/-- Stack neutrality of an inserted snippet at depth `k`, decided by one symbolic run on `k`
distinct tokens: the run ends normally with the same stack and every event is a callback on the
instrumentation's own object that receives observed values only. -/
def neutral (sn : List Op) (k : Nat) : Bool :=
  allWf sn &&
  (let r := run wAll sn (toks k)
   decide (r.err = none) && decide (r.stack = toks k) && r.events.all (fun e => e.isCall && e.callOk k))

/-- Neutrality of an overriding snippet `pre ++ [orig] ++ post` at depth `k` for outcome `b` of the
original instruction: the symbolic run equals the run of the original instruction alone once the
callbacks are erased, and the callbacks receive observed values only. -/
def overrideNeutralFor (pre post : List Op) (id p q k : Nat) (b : Bool) : Bool :=
  allWf (pre ++ [.orig id p q b] ++ post) &&
  (let r := run wAll (pre ++ [.orig id p q b] ++ post) (toks k)
   let r0 := run wAll [.orig id p q b] (toks k)
   decide (r.observable = r0.observable) && decide (r0.err ≠ some .underflow) && r.events.all (Ev.callOk k))

def overrideNeutral (pre post : List Op) (id p q k : Nat) : Bool :=
  overrideNeutralFor pre post id p q k false && overrideNeutralFor pre post id p q k true

/-- the weaker check used for setup actions no adapter uses: the symbolic run (nothing raises)
restores the stack; says nothing about what the callbacks receive -/
def stackNeutral (sn : List Op) (k : Nat) : Bool :=
  allWf sn && (let r := run wAll sn (toks k); decide (r.err = none) && decide (r.stack = toks k))

/-- … and for an overriding use: same final stack as the original instruction alone -/
def overrideStackNeutral (pre post : List Op) (id p q k : Nat) : Bool :=
  allWf (pre ++ [.orig id p q false] ++ post) &&
  (let r := run wAll (pre ++ [.orig id p q false] ++ post) (toks k)
   let r0 := run wAll [.orig id p q false] (toks k)
   decide (r.err = none) && decide (r0.err = none) && decide (r.stack = r0.stack))

/-! ## Instrumented straight-line code -/

/-- One element of an instrumented instruction sequence (a basic block or a part of it). -/
inductive Item where
  /-- an original instruction, untouched -/
  | orig (id p q : Nat) (raises : Bool)
  /-- an inserted snippet (`generate_instructions`) that needs `k` stack entries and reads `lic` -/
  | snip (ops : List Op) (k : Nat) (lic : List (Nat × Nat))
  /-- an overridden original instruction (`generate_overriding_instructions`) -/
  | over (pre post : List Op) (id p q : Nat) (raises : Bool) (k : Nat) (lic : List (Nat × Nat))
  deriving Repr, Inhabited

/-- the instructions that are executed in the instrumented module -/
def Item.ops : Item → List Op
  | .orig id p q r => [.orig id p q r]
  | .snip ops _ _ => ops
  | .over pre post id p q r _ _ => pre ++ [.orig id p q r] ++ post

/-- the instructions of the original module -/
def Item.plain : Item → List Op
  | .orig id p q r => [.orig id p q r]
  | .snip .. => []
  | .over _ _ id p q r _ _ => [.orig id p q r]

def Item.depth : Item → Nat
  | .orig .. => 0
  | .snip _ k _ => k
  | .over _ _ _ _ _ _ k _ => k

def Item.lic : Item → List (Nat × Nat)
  | .orig .. => []
  | .snip _ _ l => l
  | .over _ _ _ _ _ _ _ l => l

/-- the per-item obligation the generated tables discharge by `decide` -/
def Item.checked : Item → Bool
  | .orig .. => true
  | .snip ops k lic => neutral ops k && observeOnly ops lic
  | .over pre post id p q _ k lic => overrideNeutral pre post id p q k && observeOnly (pre ++ post) lic

def Item.stackNeutral : Item → Bool
  | .orig .. => true
  | .snip ops k _ => PynguinModel.StackMachine.stackNeutral ops k
  | .over pre post id p q _ k _ => overrideStackNeutral pre post id p q k

def instrumented (items : List Item) : List Op := items.flatMap Item.ops
def original (items : List Item) : List Op := items.flatMap Item.plain

/-- Placement: along the run of the ORIGINAL code from stack `s`, every inserted / overriding
snippet finds the stack depth it needs and the names it reads bound. -/
def PlacedOk (w : World) : List Item → List Val → Prop
  | [], _ => True
  | it :: rest, s =>
      it.depth ≤ s.length ∧ (∀ p ∈ it.lic, w.bound p.1 p.2 = true) ∧
      ((run w it.plain s).err = none → PlacedOk w rest (run w it.plain s).stack)

end PynguinModel.StackMachine
