/-!
# Model of pynguin's type system queries (C25; reused by C26)

Mirrors `src/pynguin/analyses/typesystem.py`:

* `ProperType` (`AnyType`, `NoneType`, `Instance`, `TupleType`, `UnionType`)            ↔ `Ty`
* `TypeSystem._graph` (networkx DiGraph, edges super → sub), `add_subclass_edge`,
  `enable_numeric_tower`, the `__bases__` loop of `analyses/module.py`                     ↔ `Graph`, `addEdge`,
                                                                                            `enableTower`, `ofClassTable`
* `TypeInfo.num_hardcoded_generic_parameters`                                              ↔ `arity`
* `nx.shortest_path_length` / `nx.has_path` (`get_shortest_path_length`, `is_subclass`)    ↔ `spl` (level BFS), `isSubclass`
* `TypeSystem.is_subtype` + `_SubtypeVisitor`, `is_maybe_subtype` + `_MaybeSubtypeVisitor` ↔ `subStep` / `sub` with flag `anyU`
* `TypeSystem.subtype_distance` + `_SubtypeDistanceVisitor`                                ↔ `distStep` / `dist`
* `TypeSystem._fixup_known_generics`                                                       ↔ `fixup`

The two-argument recursions of the visitors (arguments are decomposed on either side and swapped for the
invariance test of generics) are defined by iterating a non-recursive step function `size L + size R` times
(`fixp`); `Lemmas/Types.lean` proves the unfolding equation `sub = subStep sub`, `dist = distStep dist`, so the
fuel is invisible in all theorems.  Everything here is executable and Mathlib-free.

Not modelled: `StringSubtype`, `Unsupported` (raises), type-hint conversion, the `lru_cache`s (C26).
Exceptions: `zip(..., strict=True)` on generic arguments of different length raises `ValueError`, an unknown
class raises `NodeNotFound`; both are excluded by `Ty.wf` (every `Instance` the type system builds passes through
`_fixup_known_generics`, every `TypeInfo` through `to_type_info`); on such inputs the model answers `false`/`none`.
-/
namespace PynguinModel.Types

abbrev Cls := Nat

/-- `ProperType`. `tuple unk args` carries `TupleType.unknown_size` (part of `__eq__`, ignored by the visitors). -/
inductive Ty where
  | any
  | none
  | inst (c : Cls) (args : List Ty)
  | tuple (unk : Bool) (args : List Ty)
  | union (items : List Ty)
  deriving Repr, Inhabited

mutual
/-- number of constructors; the termination measure of the visitors -/
def Ty.size : Ty → Nat
  | .any => 1
  | .none => 1
  | .inst _ as => 1 + sizeL as
  | .tuple _ as => 1 + sizeL as
  | .union is => 1 + sizeL is
def sizeL : List Ty → Nat
  | [] => 0
  | t :: ts => t.size + sizeL ts
end

/-- The inheritance graph: `edges` holds `(super, sub)` exactly as `add_subclass_edge` inserts them. -/
structure Graph where
  nodes : List Cls
  edges : List (Cls × Cls)
  /-- classes with `num_hardcoded_generic_parameters = k` (list, set: 1; dict: 2) -/
  generics : List (Cls × Nat)
  deriving Repr, Inhabited

def arity (g : Graph) (c : Cls) : Option Nat := g.generics.lookup c

/-- networkx adds the end points of an edge as nodes -/
def allNodes (g : Graph) : List Cls := (g.nodes ++ g.edges.map (·.1) ++ g.edges.map (·.2)).eraseDups

def addEdge (g : Graph) (sup sub : Cls) : Graph := { g with edges := g.edges ++ [(sup, sub)] }

/-- `enable_numeric_tower`: int → bool, float → int, complex → float -/
def enableTower (g : Graph) (bool int float complex : Cls) : Graph :=
  addEdge (addEdge (addEdge g int bool) float int) complex float

/-- the `__bases__` loop of `analyses/module.py`: one edge `(base, cls)` per direct base -/
def ofClassTable (tbl : List (Cls × List Cls)) (generics : List (Cls × Nat)) : Graph :=
  { nodes := tbl.map (·.1)
    edges := tbl.flatMap (fun p => p.2.map (fun b => (b, p.1)))
    generics := generics }

/-! ## Shortest path length (level-wise BFS) -/

/-- `n` is a direct successor of a frontier node -/
def succOf (g : Graph) (fr : List Cls) (n : Cls) : Bool := fr.any (fun f => g.edges.contains (f, n))

/-- `rest` = nodes not yet reached, `fr` = nodes at distance exactly `d` from the start -/
def bfs (g : Graph) (t : Cls) : Nat → List Cls → List Cls → Nat → Option Nat
  | 0, _, _, _ => none
  | fuel + 1, rest, fr, d =>
    if fr.contains t then some d
    else
      let next := rest.filter (succOf g fr)
      if next.isEmpty then none
      else bfs g t fuel (rest.filter (fun n => !next.contains n)) next (d + 1)

/-- `get_shortest_path_length(start, end)`; `none` = `NetworkXNoPath` -/
def spl (g : Graph) (s t : Cls) : Option Nat :=
  bfs g t ((allNodes g).length + 1) ((allNodes g).filter (fun n => n != s)) [s] 0

/-- `is_subclass(left, right) = nx.has_path(graph, right, left)` -/
def isSubclass (g : Graph) (l r : Cls) : Bool := (spl g r l).isSome

/-! ## Generic two-argument recursion by iteration of a step function -/

def iter {β : Type} (step : (Ty → Ty → β) → Ty → Ty → β) (d : β) : Nat → Ty → Ty → β
  | 0 => fun _ _ => d
  | n + 1 => step (iter step d n)

def fixp {β : Type} (step : (Ty → Ty → β) → Ty → Ty → β) (d : β) (L R : Ty) : β :=
  iter step d (L.size + R.size) L R

/-- `all(f(a, b) for a, b in zip(as, bs, strict=True))`; a length mismatch (`ValueError`) yields `false` -/
def all2 (f : Ty → Ty → Bool) : List Ty → List Ty → Bool
  | [], [] => true
  | a :: as, b :: bs => f a b && all2 f as bs
  | _, _ => false

/-! ## `is_subtype` / `is_maybe_subtype` -/

/-- One evaluation step of `TypeSystem.is_subtype` (`anyU = false`) / `is_maybe_subtype` (`anyU = true`):
the two early returns, then the visitor on the left type; `rec` is the recursive `sub_type_check`.
`cov = true` drops the reverse test of the invariance rule (used only to state what `subtype_distance` implies). -/
def subStep (g : Graph) (anyU cov : Bool) (rec : Ty → Ty → Bool) : Ty → Ty → Bool
  | _, .any => true                                   -- `isinstance(right, AnyType)`
  | .union ls, R =>                                   -- `visit_union_type`
      if anyU then ls.any (fun l => rec l R) else ls.all (fun l => rec l R)
  | L, .union rs => rs.any (fun r => rec L r)         -- right union, left not a union
  | .any, _ => true                                   -- `visit_any_type`: "Any wins always"
  | .none, .none => true                              -- `visit_none_type`
  | .inst c as, .inst d bs =>                         -- `visit_instance`
      isSubclass g c d &&
        (if arity g c == arity g d && (arity g c).isSome
         then all2 (fun a b => rec a b && (cov || rec b a)) as bs
         else true)
  | .tuple _ as, .tuple _ bs =>                       -- `visit_tuple_type`
      as.length == bs.length && all2 rec as bs
  | _, _ => false

def sub (g : Graph) (anyU cov : Bool) : Ty → Ty → Bool := fixp (subStep g anyU cov) false

def isSubtype (g : Graph) (l r : Ty) : Bool := sub g false false l r
def isMaybeSubtype (g : Graph) (l r : Ty) : Bool := sub g true false l r
/-- `is_maybe_subtype` with generic arguments treated covariantly (no counterpart in the code; specification aid) -/
def isMaybeSubtypeCov (g : Graph) (l r : Ty) : Bool := sub g true true l r

/-! ## `subtype_distance` -/

/-- `if any(d is None for d in ds): return None; return sum(ds)` -/
def sumOpt : List (Option Nat) → Option Nat
  | [] => some 0
  | none :: _ => none
  | some x :: r => (sumOpt r).map (x + ·)

/-- `min` of the defined distances, `None` if there is none -/
def minOpt : List (Option Nat) → Option Nat
  | [] => none
  | none :: r => minOpt r
  | some x :: r => match minOpt r with
      | none => some x
      | some y => some (min x y)

/-- One evaluation step of `TypeSystem.subtype_distance(supertype, subtype)` (visitor on the supertype).
`map(f, xs, ys)` stops at the shorter list (`zipWith`). The instance/instance case with arguments on both sides
first requires a path between the two classes (repaired code, proposed_fixes/C25-*.diff). -/
def distStep (g : Graph) (anyD : Nat) (rec : Ty → Ty → Option Nat) : Ty → Ty → Option Nat
  | .any, _ => some anyD                               -- `visit_any_type`
  | .none, _ => none                                   -- `visit_none_type`
  | .inst c as, .inst d bs =>                          -- `visit_instance`
      if !as.isEmpty && !bs.isEmpty then
        if (spl g c d).isNone then none
        else sumOpt (List.zipWith rec as bs)
      else spl g c d
  | .inst c as, .union ss => minOpt (ss.map (fun s => rec (.inst c as) s))
  | .inst _ _, .any => some anyD
  | .inst _ _, _ => none
  | .tuple _ as, .tuple _ bs =>                        -- `visit_tuple_type`
      if as.length == bs.length then sumOpt (List.zipWith rec as bs) else none
  | .tuple _ _, _ => none
  | .union ts, S => minOpt (ts.map (fun t => rec t S)) -- `visit_union_type`

/-- `subtype_distance(supertype, subtype)` with `any_distance = anyD` -/
def dist (g : Graph) (anyD : Nat) : Ty → Ty → Option Nat := fixp (distStep g anyD) none

/-! ## Well-formed types, `_fixup_known_generics` -/

mutual
/-- classes are graph nodes, hard-coded generics carry exactly their number of arguments, unions are non-empty
(`UnionType.__init__` asserts it) -/
def Ty.wf (g : Graph) : Ty → Bool
  | .any => true
  | .none => true
  | .inst c as =>
      (allNodes g).contains c &&
      (match arity g c with | some k => as.length == k | none => true) && wfL g as
  | .tuple _ as => wfL g as
  | .union is => !is.isEmpty && wfL g is
def wfL (g : Graph) : List Ty → Bool
  | [] => true
  | t :: ts => t.wf g && wfL g ts
end

/-- `_fixup_known_generics` on the arguments of `Instance(c, args)` -/
def fixupArgs (g : Graph) (c : Cls) (as : List Ty) : List Ty :=
  match arity g c with
  | some k => if as.length < k then as ++ List.replicate (k - as.length) .any else as.take k
  | none => as

def fixup (g : Graph) : Ty → Ty
  | .inst c as => .inst c (fixupArgs g c as)
  | t => t

/-! ## Syntactic classes used as hypotheses of the partial theorems -/

mutual
/-- no `Any` anywhere inside -/
def Ty.anyFree : Ty → Bool
  | .any => false
  | .none => true
  | .inst _ as => anyFreeL as
  | .tuple _ as => anyFreeL as
  | .union is => anyFreeL is
def anyFreeL : List Ty → Bool
  | [] => true
  | t :: ts => t.anyFree && anyFreeL ts
end

mutual
/-- no `Instance` with type arguments anywhere inside -/
def Ty.noArgs : Ty → Bool
  | .any => true
  | .none => true
  | .inst _ as => as.isEmpty
  | .tuple _ as => noArgsL as
  | .union is => noArgsL is
def noArgsL : List Ty → Bool
  | [] => true
  | t :: ts => t.noArgs && noArgsL ts
end

def Ty.isInst : Ty → Bool
  | .inst _ _ => true
  | _ => false

mutual
/-- neither `Any` nor `None` inside, and every union has an `Instance` among its direct members -/
def Ty.reflOK : Ty → Bool
  | .any => false
  | .none => false
  | .inst _ as => reflOKL as
  | .tuple _ as => reflOKL as
  | .union is => is.any Ty.isInst && reflOKL is
def reflOKL : List Ty → Bool
  | [] => true
  | t :: ts => t.reflOK && reflOKL ts
end

/-- Between two generic classes of the same hard-coded arity there is no class of another arity.
True for every graph built from Python classes: `list`, `set`, `dict` derive from `object` only. -/
def GenericsConvex (g : Graph) : Prop :=
  ∀ a b c, isSubclass g a b = true → isSubclass g b c = true →
    (arity g a).isSome = true → arity g a = arity g c → arity g b = arity g a

/-- executable test of `GenericsConvex`: generic classes `a`, `c`, any node `b` in between -/
def genericsConvexB (g : Graph) : Bool :=
  (g.generics.map (·.1)).all fun a => (g.generics.map (·.1)).all fun c => (allNodes g).all fun b =>
    !(isSubclass g a b && isSubclass g b c && arity g a == arity g c) || arity g b == arity g a

end PynguinModel.Types
