import PynguinModel.Model.Types
/-!
# Model of generator selection and of the memoised type queries (C26)

Mirrors `src/pynguin/analyses/generator.py` and the `functools.lru_cache`s of `src/pynguin/analyses/typesystem.py`
on top of the type-system model `Model/Types.lean` (C25):

* `GeneratorProvider._generators : dict[ProperType, OrderedSet[generator]]`                 ↔ `Table` (insertion order)
* `ProperType.__eq__` (structural)                                                           ↔ `tyBeq`
* `_PrimitiveTypeVisitor` (`is_primitive_type`)                                              ↔ `isPrimitive`
* `GeneratorProvider.add` (skips `NoneType` and primitive return types), `add_for_type`      ↔ `add`, `Table.add1`
* `GeneratorProvider._get_generators_for` (+ `_get_for_type`, `_get_all_generators`)         ↔ `offeredHeuristic`
* `RandomGeneratorProvider._get_generators_for`                                              ↔ `offeredRandom`
* `TypeSystem.get_subclasses / get_superclasses / is_subclass / is_subtype / is_maybe_subtype /
  subtype_distance` behind `functools.lru_cache`, `add_subclass_edge`                        ↔ `Query`, `eval`, `ask`,
                                                                                              `addSubclassEdge`, `run`

* `ModuleTestCluster.update_return_type` / `_drop_generator` / `_add_or_make_union` (module.py), `get_for_type`,
  `remove_all_generators_for`, `add_for_type`, `TypeStringVisitor` + `ProperType.__lt__`       ↔ `updateReturnType`,
  `Table.drop`, `addOrMakeUnion`, `Table.getFor`, `Table.discard`, `Table.add1`, `tyStr` + `sortedByKey`; histories of
  `add_generator` / `update_return_type` / `add_subclass_edge`                                 ↔ `World.run`

`addSubclassEdge` is the REPAIRED code (proposed_fixes/C26-*.diff): adding an edge drops every memoised answer.
`addSubclassEdgeStale` is the code as found (the memo survives the edge); it is only used to state the counterexample.
A memo miss evaluates the query on the current graph; the recursive calls of the visitors go through the same memo
in Python — `Lemmas/Generators.lean` (`sub_withMemo_fresh`, `dist_withMemo_fresh`) shows that consulting a memo whose
entries agree with the current graph does not change the result, which is exactly the invariant `Fresh`.

Everything is executable and Mathlib-free.  Generators are identified by natural numbers.
-/
namespace PynguinModel.Generators
open PynguinModel.Types

/-! ## structural equality of types (`ProperType.__eq__`) -/

mutual
def tyBeq : Ty → Ty → Bool
  | .any, .any => true
  | .none, .none => true
  | .inst c as, .inst d bs => c == d && tyBeqL as bs
  | .tuple u as, .tuple v bs => u == v && tyBeqL as bs
  | .union as, .union bs => tyBeqL as bs
  | _, _ => false
def tyBeqL : List Ty → List Ty → Bool
  | [], [] => true
  | a :: as, b :: bs => tyBeq a b && tyBeqL as bs
  | _, _ => false
end

/-! ## the generator table -/

/-- `dict[ProperType, OrderedSet[generator]]` in insertion order -/
abbrev Table := List (Ty × List Nat)

/-- `self._generators[S].add(i)` (defaultdict of OrderedSet) -/
def Table.add1 : Table → Ty → Nat → Table
  | [], S, i => [(S, [i])]
  | (S', ids) :: rest, S, i =>
    if tyBeq S' S then (S', if ids.contains i then ids else ids ++ [i]) :: rest
    else (S', ids) :: Table.add1 rest S i

/-- `typ.accept(is_primitive_type)`: an `Instance` whose class is one of int, str, bool, float, complex, bytes, type -/
def isPrimitive (prims : List Cls) : Ty → Bool
  | .inst c _ => prims.contains c
  | _ => false

def isNone : Ty → Bool
  | .none => true
  | _ => false

/-- `GeneratorProvider.add(generator)` with `ret = generator.generated_type()` -/
def add (prims : List Cls) (tbl : Table) (ret : Ty) (i : Nat) : Table :=
  if isNone ret || isPrimitive prims ret then tbl else tbl.add1 ret i

/-- the table after a sequence of `add` calls on a new provider -/
def addAll (prims : List Cls) (ops : List (Ty × Nat)) : Table :=
  ops.foldl (fun t p => add prims t p.1 p.2) []

/-- `itertools.chain.from_iterable(self.get_all().values())` -/
def allGens (tbl : Table) : List Nat := tbl.flatMap (·.2)

/-! ## what the two providers offer for a requested type -/

/-- `GeneratorProvider._get_generators_for(typ)`: generator ids with the subtype distance stored in the `_Generator`
(`none` for `Any`, where the distance is computed later by the fitness function). -/
def offeredHeuristic (g : Graph) (anyD : Nat) (prims : List Cls) (tbl : Table) (T : Ty) : List (Nat × Option Nat) :=
  match T with
  | .any => (allGens tbl).map (fun i => (i, none))              -- "Just take everything when it's Any."
  | T =>
    if isPrimitive prims T then []
    else tbl.flatMap fun p =>
      match dist g anyD T p.1 with
      | some d => p.2.map (fun i => (i, some d))                -- `_get_for_type(generated_typ, distance)`
      | none => []

/-- `RandomGeneratorProvider._get_generators_for(typ)` -/
def offeredRandom (g : Graph) (tbl : Table) (T : Ty) : List Nat :=
  match T with
  | .any => allGens tbl
  | T => (tbl.flatMap fun p => if isMaybeSubtype g p.1 T then p.2 else []).eraseDups

/-! ## syntactic class used by the partial theorem -/

mutual
/-- neither `None` nor a tuple anywhere inside (the parts for which `subtype_distance` has no `Any`/union case) -/
def genT : Ty → Bool
  | .any => true
  | .none => false
  | .inst _ as => genL as
  | .tuple _ _ => false
  | .union is => genL is
def genL : List Ty → Bool
  | [] => true
  | t :: ts => genT t && genL ts
end

/-! ## memoised type queries -/

inductive Query where
  | subclass (l r : Cls)          -- `is_subclass(left, right)`
  | sub (l r : Ty)                -- `is_subtype(left, right)`
  | maybe (l r : Ty)              -- `is_maybe_subtype(left, right)`
  | dist (t s : Ty)               -- `subtype_distance(supertype, subtype)`
  | subclasses (c : Cls)          -- `get_subclasses(klass)`
  | superclasses (c : Cls)        -- `get_superclasses(klass)`
  deriving Inhabited

inductive Answer where
  | b (v : Bool)
  | d (v : Option Nat)
  | cs (v : List Cls)
  deriving Inhabited, DecidableEq, Repr

def Query.beq : Query → Query → Bool
  | .subclass a b, .subclass c d => a == c && b == d
  | .sub a b, .sub c d => tyBeq a c && tyBeq b d
  | .maybe a b, .maybe c d => tyBeq a c && tyBeq b d
  | .dist a b, .dist c d => tyBeq a c && tyBeq b d
  | .subclasses a, .subclasses c => a == c
  | .superclasses a, .superclasses c => a == c
  | _, _ => false

/-- `nx.descendants(graph, klass)` plus `klass` itself (as a set; listed in node order, `klass` last if unknown) -/
def subclassesOf (g : Graph) (c : Cls) : List Cls :=
  let ds := (allNodes g).filter (fun n => isSubclass g n c)
  if ds.contains c then ds else ds ++ [c]

/-- `nx.ancestors(graph, klass)` plus `klass` itself -/
def superclassesOf (g : Graph) (c : Cls) : List Cls :=
  let ds := (allNodes g).filter (fun n => isSubclass g c n)
  if ds.contains c then ds else ds ++ [c]

/-- the un-memoised query on graph `g` -/
def eval (g : Graph) (anyD : Nat) : Query → Answer
  | .subclass l r => .b (isSubclass g l r)
  | .sub l r => .b (isSubtype g l r)
  | .maybe l r => .b (isMaybeSubtype g l r)
  | .dist t s => .d (Types.dist g anyD t s)
  | .subclasses c => .cs (subclassesOf g c)
  | .superclasses c => .cs (superclassesOf g c)

/-- the memo of all `lru_cache`s together: most recent entry first -/
abbrev Memo := List (Query × Answer)

def Memo.find : Memo → Query → Option Answer
  | [], _ => none
  | (k, a) :: rest, q => if k.beq q then some a else Memo.find rest q

structure St where
  g : Graph
  memo : Memo

/-- one memoised call: a hit returns the stored answer, a miss evaluates on the current graph and stores -/
def ask (anyD : Nat) (s : St) (q : Query) : St × Answer :=
  match s.memo.find q with
  | some a => (s, a)
  | none => let a := eval s.g anyD q; ({ s with memo := (q, a) :: s.memo }, a)

/-- REPAIRED `add_subclass_edge`: the edge is added and every memo is cleared -/
def addSubclassEdge (s : St) (sup sub : Cls) : St := { g := addEdge s.g sup sub, memo := [] }

/-- `add_subclass_edge` as found: the memos survive -/
def addSubclassEdgeStale (s : St) (sup sub : Cls) : St := { s with g := addEdge s.g sup sub }

/-- a tempting "optimisation" of the repaired `add_subclass_edge` (seeded regression C26-4): the flush is skipped when
`sub` is already reachable from `sup` before the edge is added (`super_class in graph and sub_class in graph and
nx.has_path(graph, super_class, sub_class)`: a repeated edge, or `class C(B, A)` with `class B(A)`), on the argument
that nobody's ancestors or descendants change. Only used to state why EVERY new edge must flush
(`skip_flush_when_reachable_cex`): `subtype_distance` is a shortest-path length and changes under a shortcut edge. -/
def addSubclassEdgeSkipReachable (s : St) (sup sub : Cls) : St :=
  if (allNodes s.g).contains sup && (allNodes s.g).contains sub && isSubclass s.g sub sup
  then addSubclassEdgeStale s sup sub else addSubclassEdge s sup sub

inductive Op where
  | edge (sup sub : Cls)
  | ask (q : Query)
  deriving Inhabited

/-- a history of graph updates and memoised queries; `stale = true` runs the code as found -/
def run (anyD : Nat) (stale : Bool) : St → List Op → St × List Answer
  | s, [] => (s, [])
  | s, .edge a b :: ops => run anyD stale (if stale then addSubclassEdgeStale s a b else addSubclassEdge s a b) ops
  | s, .ask q :: ops =>
    let r := ask anyD s q
    let rest := run anyD stale r.1 ops
    (rest.1, r.2 :: rest.2)

/-- the same history with an arbitrary edge policy (used with `addSubclassEdgeSkipReachable`) -/
def runWith (anyD : Nat) (edge : St → Cls → Cls → St) : St → List Op → St × List Answer
  | s, [] => (s, [])
  | s, .edge a b :: ops => runWith anyD edge (edge s a b) ops
  | s, .ask q :: ops =>
    let r := ask anyD s q
    let rest := runWith anyD edge r.1 ops
    (rest.1, r.2 :: rest.2)

/-! ## the providers' look-ups go through the memoised type queries

`GeneratorProvider._get_generators_for(T)` calls the memoised `TypeSystem.subtype_distance(T, S)` once per bucket `S`
of the table, `RandomGeneratorProvider._get_generators_for(T)` the memoised `is_maybe_subtype(S, T)`; the distance
stored in the `_Generator` handed out (and the fitness computed from it) is the memoised answer. -/

/-- a sequence of memoised calls -/
def askAll (anyD : Nat) : St → List Query → St × List Answer
  | s, [] => (s, [])
  | s, q :: qs =>
    let r := ask anyD s q
    let rest := askAll anyD r.1 qs
    (rest.1, r.2 :: rest.2)

/-- the memoised queries of one look-up of the heuristic provider, in table order -/
def heuristicQueries (tbl : Table) (T : Ty) : List Query := tbl.map fun p => .dist T p.1

/-- the memoised queries of one look-up of the random provider, in table order -/
def randomQueries (tbl : Table) (T : Ty) : List Query := tbl.map fun p => .maybe p.1 T

/-- buckets whose memoised distance is defined, each generator with that distance -/
def heuristicFromAnswers : Table → List Answer → List (Nat × Option Nat)
  | p :: tbl, .d (some d) :: ans => p.2.map (fun i => (i, some d)) ++ heuristicFromAnswers tbl ans
  | _ :: tbl, _ :: ans => heuristicFromAnswers tbl ans
  | _, _ => []

/-- buckets whose memoised `is_maybe_subtype` answer is `True` -/
def randomFromAnswers : Table → List Answer → List Nat
  | p :: tbl, .b true :: ans => p.2 ++ randomFromAnswers tbl ans
  | _ :: tbl, _ :: ans => randomFromAnswers tbl ans
  | _, _ => []

/-- `GeneratorProvider._get_generators_for(T)` as the code runs it: through the memo of the type system -/
def offeredHeuristicM (anyD : Nat) (prims : List Cls) (tbl : Table) (s : St) (T : Ty) : St × List (Nat × Option Nat) :=
  match T with
  | .any => (s, (allGens tbl).map (fun i => (i, none)))
  | T =>
    if isPrimitive prims T then (s, [])
    else
      let r := askAll anyD s (heuristicQueries tbl T)
      (r.1, heuristicFromAnswers tbl r.2)

/-- `RandomGeneratorProvider._get_generators_for(T)` through the memo of the type system -/
def offeredRandomM (anyD : Nat) (tbl : Table) (s : St) (T : Ty) : St × List Nat :=
  match T with
  | .any => (s, allGens tbl)
  | T =>
    let r := askAll anyD s (randomQueries tbl T)
    (r.1, (randomFromAnswers tbl r.2).eraseDups)

/-! ## the visitors' recursion through the memo -/

/-- a recursive call `self.is_subtype(l, r)` / `self.subtype_distance(t, s)`: the memo first, else recurse -/
def withMemo {β : Type} (look : Ty → Ty → Option β) (rec : Ty → Ty → β) (l r : Ty) : β :=
  match look l r with
  | some a => a
  | none => rec l r

/-- `is_subtype` / `is_maybe_subtype` evaluated with recursive calls going through a memo `look` -/
def subM (g : Graph) (anyU cov : Bool) (look : Ty → Ty → Option Bool) : Ty → Ty → Bool :=
  fixp (fun rec => subStep g anyU cov (withMemo look rec)) false

/-- `subtype_distance` evaluated with recursive calls going through a memo `look` -/
def distM (g : Graph) (anyD : Nat) (look : Ty → Ty → Option (Option Nat)) : Ty → Ty → Option Nat :=
  fixp (fun rec => distStep g anyD (withMemo look rec)) none

/-! ## run-time return-type updates (`ModuleTestCluster.update_return_type`, `_drop_generator`, `_add_or_make_union`)

The execution observer (`ReturnTypeObserver`) reports the run-time type of every executed call statement; the cluster
widens the signature's return type to a union and re-files the accessible in the generator table: dropped from the
bucket of its OLD generated type, added to the bucket of the new one. -/

/-- `GeneratorProvider.get_for_type(S)`: the bucket of `S`, empty if there is none -/
def Table.getFor : Table → Ty → List Nat
  | [], _ => []
  | (S', ids) :: rest, S => if tyBeq S' S then ids else Table.getFor rest S

/-- `gens.discard(i)` on the bucket of `S` (the `OrderedSet` stored in the dict), followed by
`remove_all_generators_for(S)` (`del self._generators[S]`) when the bucket became empty -/
def Table.discard : Table → Ty → Nat → Table
  | [], _, _ => []
  | (S', ids) :: rest, S, i =>
    if tyBeq S' S then
      if (ids.filter (· != i)).isEmpty then rest else (S', ids.filter (· != i)) :: rest
    else (S', ids) :: Table.discard rest S i

/-- `ModuleTestCluster._drop_generator(accessible)` with `S = accessible.generated_type()`, `i` the accessible -/
def Table.drop (tbl : Table) (S : Ty) (i : Nat) : Table :=
  if (tbl.getFor S).isEmpty then tbl else tbl.discard S i

def isAny : Ty → Bool
  | .any => true
  | _ => false

mutual
/-- `TypeStringVisitor` (`str(proper_type)`, the sort key of `ProperType.__lt__`); `names c` is the class's name
(builtins) or full name -/
def tyStr (names : List String) : Ty → String
  | .any => "Any"
  | .none => "None"
  | .inst c as => names.getD c "?" ++ (if as.isEmpty then "" else "[" ++ tyStrL names ", " as ++ "]")
  | .tuple _ as => "tuple" ++ (if as.isEmpty then "" else "[" ++ tyStrL names ", " as ++ "]")
  | .union is => tyStrL names " | " is
/-- `sep.join(t.accept(self) for t in typs)` -/
def tyStrL (names : List String) (sep : String) : List Ty → String
  | [] => ""
  | t :: ts => if ts.isEmpty then tyStr names t else tyStr names t ++ sep ++ tyStrL names sep ts
end

/-- insertion behind every element that is not greater (stable) -/
def insertByKey (key : Ty → String) (x : Ty) : List Ty → List Ty
  | [] => [x]
  | y :: ys => if key x < key y then x :: y :: ys else y :: insertByKey key x ys

/-- `sorted(items)` with `__lt__ = str(a) < str(b)`: the stable sort by the string key -/
def sortedByKey (key : Ty → String) (l : List Ty) : List Ty :=
  l.foldl (fun acc x => insertByKey key x acc) []

/-- `ModuleTestCluster._add_or_make_union(old_type, new_type, max_size)` -/
def addOrMakeUnion (key : Ty → String) (maxSize : Nat) (old new : Ty) : Ty :=
  match old with
  | .union items =>
    if items.length ≥ maxSize || items.any (fun t => tyBeq t new) then old
    else .union (sortedByKey key (items ++ [new]))
  | _ =>
    if isAny old || tyBeq old new then .union [new]
    else .union (sortedByKey key [old, new])

/-- what the cluster knows about an accessible: `inferred_signature.return_type`, and the fixed `_generated_type` of
a constructor / enum / field (`none`: `generated_type()` IS the signature's return type — functions and methods) -/
structure Acc where
  ret : Ty
  fixed : Option Ty

/-- `accessible.generated_type()` -/
def Acc.gen (a : Acc) : Ty :=
  match a.fixed with
  | some F => F
  | none => a.ret

/-- the generator table of the cluster's provider and the accessibles (by generator id) -/
structure Cl where
  tbl : Table
  accs : List Acc

/-- `ModuleTestCluster.add_generator(accs[i])` -/
def addGenerator (prims : List Cls) (cl : Cl) (i : Nat) : Cl :=
  match cl.accs[i]? with
  | none => cl
  | some a => { cl with tbl := add prims cl.tbl a.gen i }

/-- `ModuleTestCluster.update_return_type(accs[i], obs)`: the accessible is dropped from the bucket of its generated
type BEFORE the new return type is stored, then filed under the new type (`add_for_type`, no primitive filter). -/
def updateReturnType (key : Ty → String) (maxSize : Nat) (cl : Cl) (i : Nat) (obs : Ty) : Cl :=
  match cl.accs[i]? with
  | none => cl
  | some a =>
    let new := addOrMakeUnion key maxSize a.ret obs
    if tyBeq a.ret new then cl                                   -- "No change"
    else { tbl := (cl.tbl.drop a.gen i).add1 new i, accs := cl.accs.set i { a with ret := new } }

/-- the same with the two steps in the wrong order (return type stored first, then `_drop_generator`): the lookup
goes to the bucket of the NEW type. Only used to state why the order matters (`update_order_matters_cex`). -/
def updateReturnTypeStoreFirst (key : Ty → String) (maxSize : Nat) (cl : Cl) (i : Nat) (obs : Ty) : Cl :=
  match cl.accs[i]? with
  | none => cl
  | some a =>
    let new := addOrMakeUnion key maxSize a.ret obs
    if tyBeq a.ret new then cl
    else
      let a' : Acc := { a with ret := new }
      { tbl := (cl.tbl.drop a'.gen i).add1 new i, accs := cl.accs.set i a' }

/-- the cluster together with the type graph; histories of generator additions, run-time return-type observations
and late subclass edges -/
structure World where
  g : Graph
  cl : Cl

inductive WOp where
  | add (i : Nat)                 -- `add_generator(accs[i])`
  | update (i : Nat) (obs : Ty)   -- `update_return_type(accs[i], obs)`
  | edge (sup sub : Cls)          -- `add_subclass_edge(sup, sub)`

def World.step (key : Ty → String) (maxSize : Nat) (prims : List Cls) (w : World) : WOp → World
  | .add i => { w with cl := addGenerator prims w.cl i }
  | .update i obs => { w with cl := updateReturnType key maxSize w.cl i obs }
  | .edge a b => { w with g := addEdge w.g a b }

def World.run (key : Ty → String) (maxSize : Nat) (prims : List Cls) (w : World) (ops : List WOp) : World :=
  ops.foldl (World.step key maxSize prims) w

end PynguinModel.Generators
