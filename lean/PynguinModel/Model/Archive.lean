/-
Model of `pynguin.ga.algorithms.archive` (`CoverageArchive`, `MIOPopulation`, `MIOArchive`) and of
the archive-facing part of `dynamosaalgorithm._GoalsManager.update`.

* A solution (`Sol`) is what the archives look at of a `TestCaseChromosome`: an identity, `size()`,
  the last execution result (`none` = no result, `some (timeout, has_test_exceptions)`), and the
  goals for which `get_is_covered` answers `True`.
* Python dicts are insertion-ordered association lists (`dictSet` keeps the position of an existing
  key), `OrderedSet`s are duplicate-free lists (`osetAdd` appends when absent).
* `CArchive.log` is a ghost field: one `Event` per executed assignment `self._covered[objective] =
  solution`, holding the value the dict held for that key just before.  The harness observes the same
  events on the real object through a recording dict.
* MIO `h` values are IEEE doubles in `[0.0, 1.0]`.  The code only compares them (`<`, `>`, `==`) and
  tests `== 0.0` / `== 1.0`; the bit pattern of a non-negative double read as an unsigned integer is
  strictly monotone in the double, so `h` is modelled by that natural number (`hOne` = bits of `1.0`,
  `0` = bits of `0.0`).  Nothing is rounded or idealised by this.
* Every function is written the way the Python code is written (local variables included).
Mathlib-free.
-/
namespace PynguinModel.Archive

abbrev Goal := Nat

structure Sol where
  id : Nat
  size : Nat
  /-- `get_last_execution_result()`: `none`, or `some (timeout, has_test_exceptions())`. -/
  res : Option (Bool × Bool)
  /-- goals `g` with `get_is_covered(g) == True` -/
  covers : List Goal
  deriving DecidableEq, Repr

/-- `result is not None and (result.timeout or result.has_test_exceptions())` -/
def Sol.erroneous (s : Sol) : Bool :=
  match s.res with
  | some (t, e) => t || e
  | none => false

/-- `result is not None and not result.timeout and not result.has_test_exceptions()` -/
def Sol.clean (s : Sol) : Bool :=
  match s.res with
  | some (t, e) => !t && !e
  | none => false

def Sol.coversB (s : Sol) (g : Goal) : Bool := decide (g ∈ s.covers)

/-- `CoverageArchive._is_better_than_current(current, candidate)`. -/
def isBetterThanCurrent (current candidate : Sol) : Bool :=
  if current.erroneous then
    if candidate.clean then true
    else decide (candidate.size < current.size)
  else decide (candidate.size < current.size)

/-! ### dict / OrderedSet primitives -/

/-- `d[g] = s` on an insertion-ordered dict. -/
def dictSet {β : Type} : List (Goal × β) → Goal → β → List (Goal × β)
  | [], g, s => [(g, s)]
  | (k, v) :: d, g, s => if k = g then (g, s) :: d else (k, v) :: dictSet d g s

/-- `d.get(g, None)` -/
def lookup {β : Type} : List (Goal × β) → Goal → Option β
  | [], _ => none
  | (k, v) :: d, g => if k = g then some v else lookup d g

def keys {β : Type} (d : List (Goal × β)) : List Goal := d.map (·.1)

/-- `OrderedSet.add` -/
def osetAdd {α : Type} [DecidableEq α] (l : List α) (x : α) : List α := if x ∈ l then l else l ++ [x]

/-- `OrderedSet(iterable)` -/
def osetNew {α : Type} [DecidableEq α] (xs : List α) : List α := xs.foldl osetAdd []

/-- `OrderedSet.remove` of a present element -/
def osetRemove (l : List Goal) (x : Goal) : List Goal := l.filter (fun y => y != x)

/-! ### CoverageArchive -/

/-- ghost observation of one `self._covered[objective] = solution` -/
structure Event where
  goal : Goal
  old : Option Sol
  new : Sol
  deriving DecidableEq, Repr

structure CArchive where
  covered : List (Goal × Sol)
  uncovered : List Goal
  objectives : List Goal
  /-- arguments of the `_on_target_covered` callback invocations, in order -/
  notified : List Goal
  log : List Event
  deriving Repr

/-- `CoverageArchive(objectives)` -/
def CArchive.init (objs : List Goal) : CArchive :=
  { covered := [], uncovered := osetNew objs, objectives := osetNew objs, notified := [], log := [] }

/-- Loop state of `update`: the archive, the local `best_solution`, the local `updated`. -/
structure UState where
  a : CArchive
  best : Option Sol
  updated : Bool

/-- `best_solution is None or self._is_better_than_current(best_solution, solution)` -/
def betterThanBest (best : Option Sol) (s : Sol) : Bool :=
  match best with
  | none => true
  | some b => isBetterThanCurrent b s

/-- Body of the inner loop `for solution in solutions` for the objective `g`. -/
def updSol (g : Goal) (st : UState) (s : Sol) : UState :=
  if s.coversB g && betterThanBest st.best s then
    let a := st.a
    let a1 : CArchive := { a with covered := dictSet a.covered g s,
                                  log := a.log ++ [⟨g, lookup a.covered g, s⟩] }
    let a2 : CArchive :=
      if g ∈ a1.uncovered then
        { a1 with uncovered := osetRemove a1.uncovered g, notified := a1.notified ++ [g] }
      else a1
    { a := a2, best := some s, updated := true }
  else st

/-- Body of the outer loop `for objective in self._objectives`. -/
def updGoal (sols : List Sol) (acc : CArchive × Bool) (g : Goal) : CArchive × Bool :=
  let st := sols.foldl (updSol g) { a := acc.1, best := lookup acc.1.covered g, updated := acc.2 }
  (st.a, st.updated)

/-- `CoverageArchive.update(solutions)`; returns the archive and `updated`. -/
def CArchive.update (a : CArchive) (sols : List Sol) : CArchive × Bool :=
  a.objectives.foldl (updGoal sols) (a, false)

def addGoal (a : CArchive) (g : Goal) : CArchive :=
  if g ∈ a.objectives then a
  else { a with objectives := a.objectives ++ [g], uncovered := osetAdd a.uncovered g }

/-- `CoverageArchive.add_goals(new_goals)` -/
def CArchive.addGoals (a : CArchive) (gs : List Goal) : CArchive := gs.foldl addGoal a

def CArchive.coveredGoals (a : CArchive) : List Goal := keys a.covered

/-- `_all_covered()` -/
def CArchive.allCovered (a : CArchive) : Bool := a.covered.all (fun p => p.2.coversB p.1)

/-- `solutions`: `none` is the `AssertionError` of `assert self._all_covered()`. -/
def CArchive.solutions (a : CArchive) : Option (List Sol) :=
  if a.allCovered then some (osetNew (a.covered.map (·.2))) else none

inductive Op where
  | update (sols : List Sol)
  | addGoals (gs : List Goal)
  deriving Repr

def CArchive.step (a : CArchive) : Op → CArchive
  | .update sols => (a.update sols).1
  | .addGoals gs => a.addGoals gs

def CArchive.run (a : CArchive) (ops : List Op) : CArchive := ops.foldl CArchive.step a

/-- Re-executes a log of dict assignments from the empty dict, checking that each event's `old` is
the value the dict held; `none` when some event does not fit. -/
def replayLog (log : List Event) : Option (List (Goal × Sol)) :=
  log.foldl (fun acc e =>
    match acc with
    | none => none
    | some d => if lookup d e.goal = e.old then some (dictSet d e.goal e.new) else none) (some [])

/-! ### `_GoalsManager.update` (DynaMOSA) -/

structure GM where
  archive : CArchive
  /-- `_current_goals` -/
  current : List Goal
  /-- `_graph.get_structural_children`, as an adjacency list -/
  children : List (Goal × List Goal)

def childrenOf (gr : List (Goal × List Goal)) (g : Goal) : List Goal := (lookup gr g).getD []

/-- The loop `for child in children` -/
def gmChild (current covered : List Goal) (acc : List Goal × Bool) (child : Goal) : List Goal × Bool :=
  if child ∉ current ∧ child ∉ covered then (osetAdd acc.1 child, true) else acc

/-- The loop `for old_goal in self._current_goals` -/
def gmOld (gr : List (Goal × List Goal)) (current covered : List Goal) (acc : List Goal × Bool)
    (old : Goal) : List Goal × Bool :=
  if old ∈ covered then (childrenOf gr old).foldl (gmChild current covered) acc
  else (osetAdd acc.1 old, acc.2)

/-- One iteration of `while new_goals_added`; returns the new manager and `new_goals_added`. -/
def gmIter (m : GM) (sols : List Sol) : GM × Bool :=
  let a1 := (m.archive.update sols).1
  let covered := a1.coveredGoals
  let r := m.current.foldl (gmOld m.children m.current covered) ([], false)
  ({ m with archive := a1.addGoals r.1, current := r.1 }, r.2)

/-- `_GoalsManager.update(solutions)` with an explicit iteration bound (`none` = bound exhausted). -/
def gmUpdate : Nat → GM → List Sol → Option GM
  | 0, _, _ => none
  | fuel + 1, m, sols =>
    let r := gmIter m sols
    if r.2 then gmUpdate fuel r.1 sols else some r.1

/-! ### MIOPopulation -/

/-- bit pattern of the double `1.0` -/
def hOne : Nat := 4607182418800017408

inductive Err where
  | assertion | index | key
  deriving DecidableEq, Repr

structure Pop where
  counter : Nat
  capacity : Nat
  /-- `_solutions`: pairs `(h, chromosome)` -/
  sols : List (Nat × Sol)
  deriving DecidableEq, Repr

/-- `MIOPopulation(population_size)` -/
def Pop.init (n : Nat) : Pop := { counter := 0, capacity := n, sols := [] }

/-- `len(self._solutions) == 1 and self._capacity == 1 and self._solutions[0].h == 1.0` -/
def Pop.isCovered (p : Pop) : Bool :=
  match p.sols with
  | [(h, _)] => p.capacity == 1 && h == hOne
  | _ => false

/-- `MIOPopulation._is_better_than_current(current, candidate, strict=...)`. -/
def mioIsBetterThanCurrent (strict : Bool) (current candidate : Sol) : Bool :=
  if current.erroneous then
    if candidate.clean then true
    else if strict then decide (candidate.size < current.size) else decide (candidate.size ≤ current.size)
  else if strict then decide (candidate.size < current.size) else decide (candidate.size ≤ current.size)

/-- `MIOPopulation._is_pair_better_than_current` -/
def isPairBetterThanCurrent (current candidate : Nat × Sol) : Bool :=
  if current.1 > candidate.1 then false
  else if current.1 < candidate.1 then true
  else mioIsBetterThanCurrent (current.1 == hOne) current.2 candidate.2

/-- `self._solutions.sort(key=lambda c: c.h, reverse=True)` (stable) -/
def sortDesc (l : List (Nat × Sol)) : List (Nat × Sol) :=
  l.mergeSort (fun a b => decide (a.1 ≥ b.1))

/-- `l[-1] = x` on a non-empty list -/
def setLast {α : Type} (l : List α) (x : α) : List α := l.dropLast ++ [x]

/-- The tail of `add_solution`: `assert len <= capacity; if added: counter = 0; return added`. -/
def Pop.finish (p : Pop) (added : Bool) : Except Err (Pop × Bool) :=
  if p.sols.length ≤ p.capacity then
    .ok (if added then { p with counter := 0 } else p, added)
  else .error .assertion

/-- `MIOPopulation.add_solution(h, chromosome)` -/
def Pop.addSolution (p : Pop) (h : Nat) (s : Sol) : Except Err (Pop × Bool) :=
  if h > hOne then .error .assertion
  else if h = 0 then .ok (p, false)
  else if h < hOne ∧ p.isCovered then .ok (p, false)
  else
    let cand := (h, s)
    if h = hOne then
      if p.isCovered then
        match p.sols with
        | cur :: rest =>
          if isPairBetterThanCurrent cur cand then Pop.finish { p with sols := cand :: rest } true
          else Pop.finish p false
        | [] => .error .index
      else Pop.finish { p with capacity := 1, sols := [cand] } true
    else if p.sols.length < p.capacity then
      Pop.finish { p with sols := sortDesc (p.sols ++ [cand]) } true
    else
      match p.sols.getLast? with
      | none => .error .index
      | some worst =>
        if isPairBetterThanCurrent worst cand then
          Pop.finish { p with sols := sortDesc (setLast p.sols cand) } true
        else Pop.finish { p with sols := sortDesc p.sols } false

/-- `MIOPopulation.shrink_population(n)` -/
def Pop.shrink (p : Pop) (n : Nat) : Except Err Pop :=
  if n = 0 then .error .assertion
  else if p.isCovered then .ok p
  else .ok { p with capacity := n, sols := p.sols.take n }

/-- `sample_solution()`; `r` is the index drawn by `randomness.choice`. -/
def Pop.sample (p : Pop) (r : Nat) : Pop × Option Sol :=
  if p.sols.length = 0 then (p, none)
  else ({ p with counter := p.counter + 1 }, (p.sols[r % p.sols.length]?).map (·.2))

/-- `get_best_solution_if_any()` -/
def Pop.best (p : Pop) : Option Sol :=
  if p.isCovered then p.sols.head?.map (·.2) else none

inductive POp where
  | add (h : Nat) (s : Sol)
  | shrink (n : Nat)
  | sample (r : Nat)
  deriving Repr

/-- One population operation; an operation that raises leaves the population as it was (all raises
of the modelled code happen before the first mutation, except the final `assert` of `add_solution`,
which `Props/C13.lean` proves unreachable). -/
def Pop.step (p : Pop) : POp → Pop
  | .add h s => match p.addSolution h s with
    | .ok r => r.1
    | .error _ => p
  | .shrink n => match p.shrink n with
    | .ok r => r
    | .error _ => p
  | .sample r => (p.sample r).1

def Pop.run (p : Pop) (ops : List POp) : Pop := ops.foldl Pop.step p

/-! ### MIOArchive -/

/-- A solution handed to `MIOArchive.update`. -/
structure MInput where
  id : Nat
  size : Nat
  hasResult : Bool
  timeout : Bool
  /-- `result.get_first_position_of_thrown_exception()` -/
  excPos : Option Nat
  /-- `1.0 - normalise(get_fitness_for(target))` for the targets in archive order (bit patterns) -/
  hs : List Nat
  deriving Repr

structure MArchive where
  pops : List (Goal × Pop)
  notified : List Goal
  deriving Repr

/-- `MIOArchive(targets, initial_size)` (dict comprehension: a repeated target keeps one entry) -/
def MArchive.init (targets : List Goal) (n : Nat) : MArchive :=
  { pops := targets.foldl (fun d g => dictSet d g (Pop.init n)) [], notified := [] }

/-- What the clone looks like once the first target iteration has run: `assert result is not None`,
then, with test exceptions, `chop(get_last_mutatable_statement())`. -/
def MInput.prepare (i : MInput) : Except Err Sol :=
  if !i.hasResult then .error .assertion
  else match i.excPos with
    | none => .ok ⟨i.id, i.size, some (i.timeout, false), []⟩
    | some pos =>
      if i.size = 0 then .error .assertion
      else .ok ⟨i.id, if pos < i.size then pos + 1 else i.size, some (i.timeout, true), []⟩

/-- Result of the loop over the targets: populations, `updated`, callbacks fired, raised error. -/
structure TRes where
  pops : List (Goal × Pop)
  updated : Bool
  notified : List Goal
  err : Option Err

/-- `for target in self._archive` for one prepared clone. -/
def updTargets (sol : Sol) : List (Goal × Pop) → List Nat → TRes
  | [], _ => ⟨[], false, [], none⟩
  | gp :: rest, [] => ⟨gp :: rest, false, [], some .key⟩
  | (g, p) :: rest, h :: hs =>
    match p.addSolution h sol with
    | .error e => ⟨(g, p) :: rest, false, [], some e⟩
    | .ok (p', added) =>
      let r := updTargets sol rest hs
      ⟨(g, p') :: r.pops, added || r.updated,
        (if !p.isCovered && p'.isCovered then [g] else []) ++ r.notified, r.err⟩

/-- State of `MIOArchive.update`'s outer loop: archive, `updated`, raised error. -/
structure MRes where
  m : MArchive
  updated : Bool
  err : Option Err

def updInput (st : MRes) (i : MInput) : MRes :=
  match st.err with
  | some _ => st
  | none =>
    if st.m.pops.isEmpty then st
    else match i.prepare with
      | .error e => { st with err := some e }
      | .ok sol =>
        let r := updTargets sol st.m.pops i.hs
        { m := { pops := r.pops, notified := st.m.notified ++ r.notified },
          updated := st.updated || r.updated, err := r.err }

/-- `MIOArchive.update(solutions)` -/
def MArchive.update (m : MArchive) (inps : List MInput) : MRes :=
  inps.foldl updInput ⟨m, false, none⟩

def shrinkAll : List (Goal × Pop) → Nat → List (Goal × Pop)
  | [], _ => []
  | (g, p) :: rest, n => (g, p.step (.shrink n)) :: shrinkAll rest n

/-- `MIOArchive.shrink_solutions(n)` -/
def MArchive.shrink (m : MArchive) (n : Nat) : Except Err MArchive :=
  if n = 0 then .error .assertion else .ok { m with pops := shrinkAll m.pops n }

/-- `MIOArchive.solutions` -/
def MArchive.solutions (m : MArchive) : List Sol :=
  osetNew (m.pops.filterMap (fun gp => gp.2.best))

/-- `num_covered_targets` -/
def MArchive.numCovered (m : MArchive) : Nat := (m.pops.filter (fun gp => gp.2.isCovered)).length

inductive MOp where
  | update (inps : List MInput)
  | shrink (n : Nat)
  deriving Repr

/-- An `update` that raises keeps the partial effects it had (as the Python object does). -/
def MArchive.step (m : MArchive) : MOp → MArchive
  | .update inps => (m.update inps).m
  | .shrink n => match m.shrink n with
    | .ok r => r
    | .error _ => m

def MArchive.run (m : MArchive) (ops : List MOp) : MArchive := ops.foldl MArchive.step m

end PynguinModel.Archive
