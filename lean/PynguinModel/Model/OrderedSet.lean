/-
Model of `pynguin.utils.orderedset` (`_AbstractOrderedSet`, `OrderedSet`, `FrozenOrderedSet`).

The implementation keeps its elements as the keys of an insertion-ordered `dict[T, None]`.
The model keeps the key list.  The two dict primitives the code uses are

* `d[k] = None`          → `dset`   (append when absent, keep the position when present),
* `{k: None for k in d if p k}` / `d.pop(k, None)` → `List.filter`.

Every public operation is written the way the Python code writes it, on top of those primitives.
Iterable arguments are lists: the (repaired) code materialises each iterable argument exactly
once, so a one-shot iterator and a list with the same contents are indistinguishable; the
correspondence check passes generators, sets, lists and ordered sets to the implementation.
Mathlib-free.
-/
namespace PynguinModel.OrderedSet

abbrev Elem := Int

/-- `d[k] = None` on an insertion-ordered dict, seen on the key list. -/
def dset (l : List Elem) (x : Elem) : List Elem :=
  if x ∈ l then l else l ++ [x]

/-- `dict.fromkeys(iterable)` / a loop of `d[k] = None`. -/
def dsetAll (l : List Elem) (xs : List Elem) : List Elem :=
  xs.foldl dset l

/-- `OrderedSet(iterable)`. -/
def new (xs : List Elem) : List Elem := dsetAll [] xs

def add (l : List Elem) (x : Elem) : List Elem := dset l x
def update (l : List Elem) (xs : List Elem) : List Elem := dsetAll l xs
def discard (l : List Elem) (x : Elem) : List Elem := l.filter (fun y => y != x)
def clear (_ : List Elem) : List Elem := []

/-- `MutableSet.remove`: `KeyError` when absent. -/
def remove (l : List Elem) (x : Elem) : Option (List Elem) :=
  if x ∈ l then some (discard l x) else none

/-- `MutableSet.pop`: removes and returns the first element, `KeyError` when empty. -/
def pop (l : List Elem) : Option (Elem × List Elem) :=
  match l with
  | [] => none
  | x :: _ => some (x, discard l x)

/-- `set.union(*(set(o) for o in others))` as a membership test. -/
def inAny (others : List (List Elem)) (x : Elem) : Bool := others.any (fun o => x ∈ o)
/-- `set.intersection(*(set(o) for o in others))` as a membership test. -/
def inAll (others : List (List Elem)) (x : Elem) : Bool := others.all (fun o => x ∈ o)

def differenceUpdate (l : List Elem) (others : List (List Elem)) : List Elem :=
  l.filter (fun x => !inAny others x)

def intersectionUpdate (l : List Elem) (other : List Elem) : List Elem :=
  l.filter (fun x => decide (x ∈ other))

/-- `symmetric_difference_update`: `items_to_add` computed first, removal, then the additions. -/
def symmetricDifferenceUpdate (l : List Elem) (other : List Elem) : List Elem :=
  let toAdd := other.filter (fun x => decide (x ∉ l))
  dsetAll (l.filter (fun x => decide (x ∉ other))) toAdd

def union (l : List Elem) (others : List (List Elem)) : List Elem :=
  new (l ++ others.flatten)

def intersection (l : List Elem) (others : List (List Elem)) : List Elem :=
  if others.isEmpty then new l else new (l.filter (inAll others))

def difference (l : List Elem) (others : List (List Elem)) : List Elem :=
  if others.isEmpty then new l else new (l.filter (fun x => !inAny others x))

/-- `diff1 = cls(self).difference(other); diff2 = cls(other).difference(self); diff1.union(diff2)` -/
def symmetricDifference (l : List Elem) (other : List Elem) : List Elem :=
  union (difference (new l) [other]) [difference (new other) [l]]

def issubset (l : List Elem) (other : List Elem) : Bool := l.all (fun x => decide (x ∈ other))
def issuperset (l : List Elem) (other : List Elem) : Bool := other.all (fun x => decide (x ∈ l))
def contains (l : List Elem) (x : Elem) : Bool := decide (x ∈ l)
def len (l : List Elem) : Nat := l.length
def iter (l : List Elem) : List Elem := l
def reversed (l : List Elem) : List Elem := l.reverse
/-- `__eq__` between two ordered sets of the same class: same keys in the same order. -/
def eq (l m : List Elem) : Bool := l == m

/-- `__getitem__` with Python's sequence protocol: `none` is `IndexError`. -/
def getitem (l : List Elem) (i : Int) : Option Elem :=
  if 0 ≤ i then l[i.toNat]?
  else if -(l.length : Int) ≤ i then l[(l.length + i).toNat]?
  else none

/-- `Sequence.index`: position of the first occurrence, `none` is `ValueError`. -/
def index (l : List Elem) (x : Elem) : Option Nat :=
  let k := l.findIdx (fun y => y == x)
  if k < l.length then some k else none

/-! ### Operation language (shared by the theorems and the line-protocol driver) -/

inductive Op where
  | add (x : Elem) | update (xs : List Elem) | discard (x : Elem) | clear
  | remove (x : Elem)
  | differenceUpdate (others : List (List Elem))
  | intersectionUpdate (other : List Elem)
  | symmetricDifferenceUpdate (other : List Elem)
  | assignUnion (others : List (List Elem))
  | assignIntersection (others : List (List Elem))
  | assignDifference (others : List (List Elem))
  | assignSymmetricDifference (other : List Elem)
  deriving Repr

/-- One mutating step.  Failing operations (`KeyError`) leave the state unchanged.
The `assign*` operations model `s = s.union(...)` etc. (the non-mutating operations building a
new set that the caller then uses). -/
def step (l : List Elem) : Op → List Elem
  | .add x => add l x
  | .update xs => update l xs
  | .discard x => discard l x
  | .clear => clear l
  | .remove x => (remove l x).getD l
  | .differenceUpdate os => differenceUpdate l os
  | .intersectionUpdate o => intersectionUpdate l o
  | .symmetricDifferenceUpdate o => symmetricDifferenceUpdate l o
  | .assignUnion os => union l os
  | .assignIntersection os => intersection l os
  | .assignDifference os => difference l os
  | .assignSymmetricDifference o => symmetricDifference l o

def run (l : List Elem) (ops : List Op) : List Elem := ops.foldl step l

end PynguinModel.OrderedSet
