import PynguinModel.Model.Mutants
/-!
C28, second part of the model: enumerations the consumer abandons, and `controller.py`
(`MutationController.create_mutants / mutant_count`) driven by an arbitrary history of calls.

* `histStop / selStop / homStop`: the three `mutate` generators consumed for `k` mutants and then dropped:
  CPython closes the dropped generator, the `finally` clauses of the operator frames run (`closeEvs`).
* `Mutator`: what a controller wraps — `FirstOrderMutator` on its historical path, `FirstOrderMutator` with a
  cap and/or `reorder` (the recorded `rng.sample` draws are inputs), `HighOrderMutator` (the groups its
  strategy forms are inputs).
* `MutationController` keeps NO state of its own besides the references to the mutator, the syntax tree and
  the module: `mutant_count()` asks `mutation_count` of the mutator every time, `create_mutants()` loops over
  `mutate`.  The only thing one call can leave behind for the next is therefore the shared syntax tree — the
  `Heap`.  `ctlRun` threads it through a history of calls; `Props/C28.lean` proves that every call gives it
  back (`controller_call_restores`), hence every `mutant_count()` of every history reports the length of the
  full enumeration (`controller_count_history_independent`, `controller_count_eq_full`).  A controller that
  remembered a count between calls would need a state component here; the correspondence run compares every
  call of random histories with this model.
Mathlib-free.
-/
namespace PynguinModel.Mutants

/-! ### abandoned enumerations -/

/-- historical path of `FirstOrderMutator.mutate`, the consumer takes `k` mutants and drops the generator,
which closes the operator generator suspended at the last yield (`closeEvs` on the heap that generator
captured); the heap at the yield of `i` is `h.set i.path (some i.repl)` (`mutant_heap_at_yield`) -/
def histStop (t : Tree) : List Op → Nat → Heap → Nat → List (Mut × Tree) × Heap
  | [], _, h, _ => ([], h)
  | op :: ops, o, h, k =>
    let ys := yields (mutateEvs op none h t)
    if ys.length < k then
      let rest := histStop t ops (o + 1) h (k - ys.length)
      ((enumOpF op t h).map (fun (i, m) => ((o, i), m)) ++ rest.1, rest.2)
    else
      let taken := ys.take k
      match taken.getLast? with
      | none => ([], h)
      | some i =>
        (taken.map (fun i => ((o, i), readRoot t (h.set i.path (some i.repl)))),
         applyWrites (closeEvs h i) (h.set i.path (some i.repl)))

/-- selected (sampled / reordered) path with a consumer that stops after `k` mutants: the rounds before the
last are complete rounds (`applyOne`), the last regenerated generator is closed at its yield -/
def selStop (ops : List Op) (t : Tree) : List Mut → Heap → Nat → Except Err (List (Mut × Tree) × Heap)
  | [], h, _ => .ok ([], h)
  | _ :: _, h, 0 => .ok ([], h)
  | m :: ms, h, k + 1 =>
    if k = 0 then
      match ops[m.1]? with
      | none => .error .badRef
      | some op =>
        match next (mutateEvs op (some (m.2.path, m.2.name)) h t) h with
        | (none, _, _) => .error .notRegenerated
        | (some i, h1, _) => .ok ([((m.1, i), readRoot t h1)], applyWrites (closeEvs h i) h1)
    else
      match applyOne ops t m h with
      | .error e => .error e
      | .ok (y, _) =>
        -- the round's final heap is `h` (`applyOne_spec`); going on with `h` itself keeps the closure chain of
        -- the function heap short in the interpreted driver
        match selStop ops t ms h k with
        | .error e => .error e
        | .ok (ys, hf) => .ok (y :: ys, hf)

/-- starting the generators of one higher-order group, remembering for each the heap it captured -/
def startAllH (ops : List Op) (t : Tree) : List Mut → Heap → Except Err (Heap × List Mut × List (Heap × Info))
  | [], h => .ok (h, [], [])
  | m :: ms, h =>
    match ops[m.1]? with
    | none => .error .badRef
    | some op =>
      match next (mutateEvs op (some (m.2.path, m.2.name)) h t) h with
      | (none, _, _) => .error .notRegenerated
      | (some i, h1, _) =>
        match startAllH ops t ms h1 with
        | .error e => .error e
        | .ok (hk, ms', caps) => .ok (hk, (m.1, i) :: ms', (h, i) :: caps)

/-- closing the suspended generators of a group, newest first -/
def closeAll (caps : List (Heap × Info)) (hk : Heap) : Heap :=
  caps.reverse.foldl (fun acc (c : Heap × Info) => applyWrites (closeEvs c.1 c.2) acc) hk

/-- `HighOrderMutator.mutate` with a consumer that stops after `k` mutants -/
def homStop (ops : List Op) (t : Tree) : List (List Mut) → Heap → Nat → Except Err (List (List Mut × Tree) × Heap)
  | [], h, _ => .ok ([], h)
  | _ :: _, h, 0 => .ok ([], h)
  | g :: gs, h, k + 1 =>
    if k = 0 then
      match startAllH ops t g h with
      | .error e => .error e
      | .ok (hk, ms, caps) => .ok ([(ms, readRoot t hk)], closeAll caps hk)
    else
      match startAll ops t g h with
      | .error e => .error e
      | .ok (hk, ms, gens) =>
        match finishAll gens.reverse hk with
        | .error e => .error e
        | .ok _ =>
          -- `_finish_generators` gives back `h` (`hom_restore`); going on with `h` itself, as above
          match homStop ops t gs h k with
          | .error e => .error e
          | .ok (ys, hf) => .ok ((ms, readRoot t hk) :: ys, hf)

/-! ### the controller -/

/-- the mutator a `MutationController` wraps -/
inductive Mutator where
  /-- `FirstOrderMutator(ops)`: concatenated operator order, no sampling -/
  | hist (ops : List Op)
  /-- `FirstOrderMutator(ops, maximum_mutants=cap, sampling_seed=…, reorder=…)`; `draws` = what
  `Random(sampling_seed).sample` returns (re-seeded by every `_sample` call, hence the same every time) -/
  | sel (ops : List Op) (prone : List Bool) (cap : Option Nat) (draws : List (List Nat))
  /-- `HighOrderMutator(ops, strategy)`; `groups` = what `strategy.generate` forms from the mutation list -/
  | hom (ops : List Op) (groups : List (List Mut))

/-- one call on the controller; `create (some k)`: the consumer of `create_mutants()` takes `k` mutants and
abandons the generator, `create none`: it consumes it to the end -/
inductive Call where
  | count
  | create (stop : Option Nat)
  deriving Repr, DecidableEq

/-- `mutator.mutate(module_ast, module)` consumed as `create_mutants` does: number of mutants delivered,
heap afterwards -/
def Mutator.enumerate (t : Tree) : Mutator → Option Nat → Heap → Except Err (Nat × Heap)
  | .hist ops, none, h => let r := historical t ops 0 h; .ok (r.1.length, r.2)
  | .hist ops, some k, h => let r := histStop t ops 0 h k; .ok (r.1.length, r.2)
  | .sel ops prone cap draws, stop, h =>
    -- `_select_mutations` enumerates the descriptors (every operator generator exhausted) …
    let per := perOperator t ops h
    match selectMutations per.1 prone cap draws with
    | .error e => .error e
    | .ok ms =>
      -- … then one regenerated mutation per round
      match (match stop with
             | none => selectedMutate ops t ms per.2
             | some k => selStop ops t ms per.2 k) with
      | .error e => .error e
      | .ok r => .ok (r.1.length, r.2)
  | .hom ops gs, stop, h =>
    -- `_generate_all_mutations`, then the strategy's groups
    let per := perOperator t ops h
    match (match stop with
           | none => homMutate ops t gs per.2
           | some k => homStop ops t gs per.2 k) with
    | .error e => .error e
    | .ok r => .ok (r.1.length, r.2)

/-- `mutator.mutation_count(module_ast, module)`: `FirstOrderMutator` counts the operator generators' yields
(whatever cap / reorder flag it carries), `HighOrderMutator` counts what its `mutate` yields -/
def Mutator.count (t : Tree) : Mutator → Heap → Except Err (Nat × Heap)
  | .hist ops, h => .ok (mutationCount t ops h)
  | .sel ops _ _ _, h => .ok (mutationCount t ops h)
  | .hom ops gs, h => (Mutator.hom ops gs).enumerate t none h

/-- one call on `MutationController(mutator, module_ast, module)` -/
def ctlStep (m : Mutator) (t : Tree) : Call → Heap → Except Err (Nat × Heap)
  | .count, h => m.count t h
  | .create stop, h => m.enumerate t stop h

/-- a history of calls on ONE controller: the heap (the shared syntax tree) is all that is carried over -/
def ctlRun (m : Mutator) (t : Tree) : List Call → Heap → Except Err (List Nat × Heap)
  | [], h => .ok ([], h)
  | c :: cs, h =>
    match ctlStep m t c h with
    | .error e => .error e
    | .ok (n, h1) =>
      match ctlRun m t cs h1 with
      | .error e => .error e
      | .ok (ns, hf) => .ok (n :: ns, hf)

/-- the length of the FULL enumeration the property speaks of: all first-order mutations for a first-order
mutator (capped or not), all groups for a higher-order one -/
def Mutator.fullLength (t : Tree) : Mutator → Heap → Nat
  | .hist ops, h => (historical t ops 0 h).1.length
  | .sel ops _ _ _, h => (historical t ops 0 h).1.length
  | .hom _ gs, _ => gs.length

/-! ### executable shortcuts (no heap threading; `ctlStep_eq` in `Props/C28.lean`) -/

def Mutator.enumerateF (t : Tree) : Mutator → Option Nat → Heap → Except Err Nat
  | .hist ops, none, h => .ok (historicalF t ops 0 h).length
  | .hist ops, some k, h => .ok (histStop t ops 0 h k).1.length
  | .sel ops prone cap draws, stop, h =>
    match selectMutations (perOperatorF t ops h) prone cap draws with
    | .error e => .error e
    | .ok ms =>
      match stop with
      | none => (selectedMutateF ops t ms h).map List.length
      | some k => (selStop ops t ms h k).map fun r => r.1.length
  | .hom ops gs, stop, h =>
    match stop with
    | none => (homMutateF ops t gs h).map List.length
    | some k => (homStop ops t gs h k).map fun r => r.1.length

def Mutator.countF (t : Tree) : Mutator → Heap → Except Err Nat
  | .hist ops, h => .ok (mutationCountF t ops h)
  | .sel ops _ _ _, h => .ok (mutationCountF t ops h)
  | .hom ops gs, h => (Mutator.hom ops gs).enumerateF t none h

def ctlStepF (m : Mutator) (t : Tree) : Call → Heap → Except Err Nat
  | .count, h => m.countF t h
  | .create stop, h => m.enumerateF t stop h

/-- every call evaluated on the heap the history started on -/
def ctlRunF (m : Mutator) (t : Tree) : List Call → Heap → Except Err (List Nat)
  | [], _ => .ok []
  | c :: cs, h =>
    match ctlStepF m t c h with
    | .error e => .error e
    | .ok n =>
      match ctlRunF m t cs h with
      | .error e => .error e
      | .ok ns => .ok (n :: ns)

end PynguinModel.Mutants
