/-
Model of `pynguin.master_worker` (master.py / worker.py / client.py): the restart protocol.

Python                                             Lean
------                                             ----
`worker_main` (worker.py)                          `workerMain : Behaviour → Observed`
`RunningTask._start_worker`                        `startWorker`
`RunningTask._adjust_search_time_after_crash`      `adjustSearchTimeAfterCrash`, `remainingTime`
`RunningTask._restart` (up to `_start_worker`)     `restartPrefix`
`RunningTask._receive` / `recv()`                  `receive`
`RunningTask.get_result` (recursive)               `getResult`   (recursion on the list of future workers)
`MasterProcess.get_result` (try/except)            `masterGetResult`
`PynguinClient.run_pynguin` (→ `ReturnCode`)       `runPynguin`, `clientCode`

The environment is a *script*: a list of `Fate`s, the i-th entry saying what happens to the i-th
worker process the master tries to start (`process.start()` raises, or the process runs and then
returns / raises / is interrupted / is killed after `elapsed` seconds of wall-clock time, measured
by the master as `time.time() - self._start_time`).  When the script is exhausted while the master
still waits for a worker the outcome is `blocked` ("the script does not say"), which is different
from `hang` (the master waits for something that can never arrive).

Times: `maximum_search_time` is a Python `int`; `elapsed` is an exact rational `num/den`
(`int(max(cur - elapsed, 0.0))` is computed exactly; the harness only uses dyadic values for which
float arithmetic is exact).  Mathlib-free.
-/
namespace PynguinModel.MasterWorker

/-- `pynguin.generator.ReturnCode`. -/
inductive ReturnCode where
  | ok | setupFailed | noTestsGenerated | finalMetricsTrackingFailed
  deriving DecidableEq, Repr

/-- `pynguin.master_worker.worker.WorkerReturnCode`. -/
inductive WorkerReturnCode where
  | ok | error
  deriving DecidableEq, Repr

/-- `WorkerResult` without `task_id`; `hasError` says whether `error` is not `None`. -/
structure WorkerResult where
  workerReturnCode : WorkerReturnCode
  returnCode : Option ReturnCode
  hasError : Bool
  restartCount : Nat
  deriving DecidableEq, Repr

/-- `time.time() - self._start_time` as the exact rational `num / den` (`den > 0`).  It can be zero
or negative: `time.time()` is the wall clock, not a monotonic clock. -/
structure Elapsed where
  num : Int
  den : Nat
  den_pos : 0 < den

instance : Repr Elapsed := ⟨fun e _ => repr e.num ++ "/" ++ repr e.den⟩

/-- `int(max(cur - elapsed, 0.0))`: truncation of a non-negative number is its floor. -/
def remainingTime (cur : Int) (e : Elapsed) : Int :=
  let d := cur * (e.den : Int) - e.num        -- (cur - elapsed) * den
  if d ≤ 0 then 0 else d / (e.den : Int)

/-- What happens inside one worker process, i.e. the paths through `worker_main`. -/
inductive Behaviour where
  /-- `run_pynguin()` returned `rc`; `WorkerResult(OK, rc)` is sent. -/
  | returns (rc : ReturnCode)
  /-- an `Exception` escaped `run_pynguin()`; the error result `WorkerResult(OK, None, error)` is sent. -/
  | raises
  /-- as `raises`, but sending the error result fails as well; the process then exits. -/
  | raisesSendFails (e : Elapsed)
  /-- `KeyboardInterrupt`: logged, nothing is sent, the process exits. -/
  | interrupted (e : Elapsed)
  /-- the process dies (`os._exit`, a signal, a crash of the interpreter) without sending.  `orphan`:
  a descendant of the worker (a test-execution subprocess inherits the pipe's sending end) outlives it
  and never exits. -/
  | killed (e : Elapsed) (orphan : Bool)
  deriving Repr

/-- What the master can observe about one worker through the pipe and the process handle. -/
inductive Observed where
  /-- a pickled `WorkerResult` is in the pipe -/
  | message (r : WorkerResult)
  /-- the worker is dead and nobody below it holds the sending end -/
  | dead (e : Elapsed)
  /-- the worker is dead but a descendant still holds the sending end: no EOF will arrive -/
  | deadNoEof (e : Elapsed)
  deriving Repr

/-- `worker_main`. -/
def workerMain : Behaviour → Observed
  | .returns rc => .message ⟨.ok, some rc, false, 0⟩
  | .raises => .message ⟨.ok, none, true, 0⟩
  | .raisesSendFails e => .dead e
  | .interrupted e => .dead e
  | .killed e false => .dead e
  | .killed e true => .deadNoEof e

/-- The part of `task.configuration` that `RunningTask` reads or writes. -/
structure Task where
  maxSearchTime : Int
  subprocess : Bool
  subprocessIfRecommended : Bool
  deriving DecidableEq, Repr

/-- The global switches the protocol depends on.  `liveness`: `get_result` also checks
`worker_process.is_alive()` while waiting (`RunningTask._receive`, proposed fix
`C33-orphan-holds-pipe`); with `false` it is the plain blocking `recv()`. -/
structure Cfg where
  useMasterWorker : Bool
  liveness : Bool
  deriving DecidableEq, Repr

/-- `RunningTask` plus ghost history. -/
structure State where
  task : Task
  restartCount : Nat
  forceSubprocess : Bool
  /-- the master closed its copy of the sending end (`sending_connection.close()`) -/
  writeEndClosed : Bool
  /-- ghost: number of successful `process.start()` calls -/
  started : Nat
  /-- ghost: the `maximum_search_time` each started worker was given, newest first -/
  timeline : List Int
  deriving DecidableEq, Repr

/-- The i-th entry of the script: what happens to the i-th worker the master tries to start. -/
inductive Fate where
  /-- `process.start()` raises (fork fails) -/
  | spawnFails
  | runs (b : Behaviour)
  deriving Repr

def initState (t : Task) : State :=
  { task := t, restartCount := 0, forceSubprocess := false, writeEndClosed := false,
    started := 0, timeline := [] }

/-- `_start_worker` for a worker whose `process.start()` succeeds: pipe, process, start, and the
master closes its copy of the sending end. -/
def startWorker (s : State) : State :=
  { s with writeEndClosed := true, started := s.started + 1,
           timeline := s.task.maxSearchTime :: s.timeline }

/-- `_adjust_search_time_after_crash`. -/
def adjustSearchTimeAfterCrash (t : Task) (e : Elapsed) : Task :=
  if t.maxSearchTime > 0 then { t with maxSearchTime := remainingTime t.maxSearchTime e } else t

/-- `_restart` up to (not including) its final `_start_worker` call.  The `Bool` is `False` for the
early `return False` ("Maximum search time is zero, aborting"). -/
def restartPrefix (cfg : Cfg) (s : State) (e : Elapsed) : State × Bool :=
  let s1 := { s with task := adjustSearchTimeAfterCrash s.task e }
  if s1.task.maxSearchTime ≤ 0 then (s1, false)
  else
    let s2 := { s1 with restartCount := s1.restartCount + 1 }
    if decide (s2.restartCount ≥ 1) && cfg.useMasterWorker && !s2.forceSubprocess then
      ({ s2 with forceSubprocess := true,
                 task := { s2.task with subprocess := true, subprocessIfRecommended := false } }, true)
    else (s2, true)

/-- The outcome of waiting for the current worker. -/
inductive Recv where
  | msg (r : WorkerResult)
  /-- `recv()` raised (EOF) / `_receive` noticed the dead worker: the `except Exception` branch -/
  | exc (e : Elapsed)
  /-- the master waits forever -/
  | hang
  deriving Repr

/-- `self._receive()` (`liveness = true`) resp. `self._receiving_connection.recv()`.  EOF arrives
only when every holder of the sending end is gone: the master itself must have closed its copy and
no descendant of the worker may hold it. -/
def receive (liveness : Bool) (s : State) : Observed → Recv
  | .message r => .msg r
  | .dead e => if s.writeEndClosed || liveness then .exc e else .hang
  | .deadNoEof e => if liveness then .exc e else .hang

/-- `WorkerResult(ERROR, None, restart_count, WorkerError("Could not restart worker process."))`. -/
def errorResult (n : Nat) : WorkerResult := ⟨.error, none, true, n⟩

inductive Outcome where
  | returned (r : WorkerResult) (s : State)
  /-- an exception left `get_result` (`process.start()` failed inside `_restart`) -/
  | raised (s : State)
  /-- script exhausted: a restart was decided but the script does not say what the new worker does -/
  | blocked (s : State)
  | hang (s : State)
  deriving Repr

/-- One pass through the body of `get_result` up to the point where `_restart` would call
`_start_worker`: either `get_result` is finished, or a new worker is to be started in state `s'`. -/
inductive Step where
  | done (o : Outcome)
  | restart (s' : State)
  deriving Repr

def step (cfg : Cfg) (s : State) (b : Behaviour) : Step :=
  match receive cfg.liveness s (workerMain b) with
  | .msg r => .done (.returned { r with restartCount := s.restartCount } s)
  | .hang => .done (.hang s)
  | .exc e =>
    match restartPrefix cfg s e with
    | (s', false) => .done (.returned (errorResult s'.restartCount) s')
    | (s', true) => .restart s'

/-- `RunningTask.get_result`: `b` is the behaviour of the worker that is currently running, the
list holds the fates of the workers started later (`return self.get_result()` is the recursion). -/
def getResult (cfg : Cfg) (s : State) (b : Behaviour) : List Fate → Outcome
  | [] =>
    match step cfg s b with
    | .done o => o
    | .restart s' => .blocked s'
  | f :: rest =>
    match step cfg s b with
    | .done o => o
    | .restart s' =>
      match f with
      | .spawnFails => .raised s'
      | .runs b' => getResult cfg (startWorker s') b' rest

/-- `MasterProcess.get_result` for a known task id: any exception becomes an ERROR result (whose
`restart_count` keeps the dataclass default 0). -/
def masterGetResult (cfg : Cfg) (s : State) (b : Behaviour) (rest : List Fate) : Outcome :=
  match getResult cfg s b rest with
  | .raised s' => .returned ⟨.error, none, true, 0⟩ s'
  | o => o

/-- The `match result.worker_return_code` of `PynguinClient.run_pynguin`. -/
def clientCode (r : WorkerResult) : ReturnCode :=
  match r.workerReturnCode with
  | .error => .noTestsGenerated
  | .ok =>
    match r.returnCode with
    | none => .noTestsGenerated
    | some rc => rc

inductive ClientOutcome where
  /-- the command returns `rc`; `r` is the `WorkerResult` it was computed from (if any) -/
  | code (rc : ReturnCode) (r : Option WorkerResult) (s : State)
  | blocked (s : State)
  | hang (s : State)
  deriving Repr

/-- `PynguinClient.run_pynguin` (= `run_pynguin_with_master_worker`). -/
def runPynguin (cfg : Cfg) (t : Task) : List Fate → ClientOutcome
  | [] => .blocked (initState t)
  | .spawnFails :: _ => .code .setupFailed none (initState t)   -- `except Exception` in the client
  | .runs b :: rest =>
    match masterGetResult cfg (startWorker (initState t)) b rest with
    | .returned r s => .code (clientCode r) (some r) s
    | .raised s => .code .setupFailed none s                     -- unreachable, see `masterGetResult`
    | .blocked s => .blocked s
    | .hang s => .hang s

/-- The elapsed time the master measures when this worker does not deliver (if it does not). -/
def Behaviour.elapsed? : Behaviour → Option Elapsed
  | .returns _ => none
  | .raises => none
  | .raisesSendFails e => some e
  | .interrupted e => some e
  | .killed e _ => some e

/-- Runtime assumption of the restart bound: every crashed worker consumed a positive amount of
wall-clock time (clock resolution; the wall clock is not set back during the run). -/
def Fate.PosElapsed : Fate → Prop
  | .spawnFails => True
  | .runs b => ∀ e, b.elapsed? = some e → 0 < e.num

def Fate.noOrphan : Fate → Bool
  | .runs (.killed _ true) => false
  | _ => true

end PynguinModel.MasterWorker
