/-
C13 — reference level of the coverage archive: chromosomes are OBJECTS in a store, the archive and the search
loop hold references.  Mirrors how `DynaMOSAAlgorithm.generate_tests / evolve / local_search` hand chromosomes
to `CoverageArchive.update` (by reference) and how `local_search` first clones the archived solutions.
Mathlib-free.
-/
import PynguinModel.Model.Archive

namespace PynguinModel.Archive

/-- The object store. A reference is an index; the object at address `r` carries `id = r`. -/
abbrev Heap := List Sol

/-- New objects (`clone()`, breeding, random population): stored at the next free addresses. -/
def allocAll (h : Heap) (vs : List Sol) : Heap :=
  h ++ vs.mapIdx (fun i v => { v with id := h.length + i })

/-- Dereference a list of references (dangling ones do not occur; they are skipped). -/
def deref (h : Heap) (refs : List Nat) : List Sol := refs.filterMap (fun r => h[r]?)

/-- What an archive of references contains NOW: every stored solution read through its reference. -/
def refresh (h : Heap) (a : CArchive) : CArchive :=
  { a with covered := a.covered.map (fun p => (p.1, (h[p.2.id]?).getD p.2)) }

/-- In-place mutation of the object at address `e.1` (a local-search step on a statement). -/
def overwrite (h : Heap) (e : Nat × Sol) : Heap := h.set e.1 { e.2 with id := e.1 }

/-- References held by `archive.solutions` (an OrderedSet of the stored objects). -/
def archivedRefs (a : CArchive) : List Nat := osetNew (a.covered.map (fun p => p.2.id))

structure World where
  heap : Heap
  a : CArchive

def World.init (objs : List Goal) : World := { heap := [], a := CArchive.init objs }

/-- `archive.update(chromosomes)`: the archive reads the objects through the references. -/
def World.update (w : World) (refs : List Nat) : World :=
  { w with a := ((refresh w.heap w.a).update (deref w.heap refs)).1 }

/-- Operations of the search loop that can touch chromosomes or the archive. -/
inductive LOp where
  /-- random population / offspring: fresh objects (mutation happens before they are shared) -/
  | alloc (vs : List Sol)
  /-- `_goals_manager.update(population)` → `archive.update` -/
  | update (refs : List Nat)
  | addGoals (gs : List Goal)
  /-- `DynaMOSAAlgorithm.local_search`: clone every archived solution, local search edits the clones in
  place (`(k, v)`: the k-th clone becomes `v`), `_goals_manager.update(clones)` -/
  | localSearch (edits : List (Nat × Sol))
  /-- the same without `clone()`: the edits hit the k-th archived object itself -/
  | aliasLocalSearch (edits : List (Nat × Sol))
  deriving Repr

def World.step (w : World) : LOp → World
  | .alloc vs => { w with heap := allocAll w.heap vs }
  | .update refs => w.update refs
  | .addGoals gs => { w with a := (refresh w.heap w.a).addGoals gs }
  | .localSearch edits =>
    let archived := archivedRefs w.a
    let base := w.heap.length
    let h1 := allocAll w.heap (deref w.heap archived)
    let h2 := (edits.map (fun e => (base + e.1, e.2))).foldl overwrite h1
    World.update { w with heap := h2 } (List.range' base archived.length)
  | .aliasLocalSearch edits =>
    let archived := archivedRefs w.a
    let h2 := (edits.filterMap (fun e => (archived[e.1]?).map (fun r => (r, e.2)))).foldl overwrite w.heap
    World.update { w with heap := h2 } archived

def World.run (w : World) (ops : List LOp) : World := ops.foldl World.step w

def LOp.aliasFree : LOp → Bool
  | .aliasLocalSearch _ => false
  | _ => true

end PynguinModel.Archive
