/-
Model of `pynguin.instrumentation.controlflow`: `ControlDependenceGraph.compute`,
`get_control_dependencies`, `is_control_dependent_on_root`, `filter_dead_code_nodes`, and the
certificate checkers used to validate networkx's post-dominator tree on every real CFG.

Nodes are natural numbers (the harness numbers ENTRY / EXIT / AUGMENTED_ENTRY and the basic
blocks).  An edge carries the optional branch value (`EDGE_DATA_BRANCH_VALUE`).
The post-dominator tree (`nx.immediate_dominators` on the reversed augmented graph) is a parameter:
`up v` is the list of *proper* tree ancestors of `v`, nearest first (parent, grand-parent, …, EXIT).
Mathlib-free.
-/
namespace PynguinModel.Cdg

abbrev Node := Nat
abbrev Label := Option Bool

structure Edge where
  src : Node
  dst : Node
  lab : Label
  deriving DecidableEq, Repr

/-- `v` together with its proper tree ancestors: the (reflexive) tree chain of `v`. -/
def chain (up : Node → List Node) (v : Node) : List Node := v :: up v

/-- The control-dependence edges contributed by one CFG edge, as `compute` produces them:
skipped when the target is a tree ancestor of the source; otherwise the lowest common ancestor is the
first node of the target's chain lying on the source's chain, a self edge is added when that is the
source itself, and every node walked from the target up to (excluding) the LCA gets an edge. -/
def edgeDeps (up : Node → List Node) (e : Edge) : List (Node × Node × Label) :=
  if (up e.src).contains e.dst then []
  else
    let cs := chain up e.src
    let ct := chain up e.dst
    let lca := ct.find? (fun x => cs.contains x)
    let selfEdge := if lca == some e.src then [(e.src, e.src, e.lab)] else []
    selfEdge ++ (ct.takeWhile (fun x => !cs.contains x)).map (fun b => (e.src, b, e.lab))

/-- All CDG edge insertions, in the order `compute` performs them. -/
def cdgAlgo (E : List Edge) (up : Node → List Node) : List (Node × Node × Label) :=
  E.flatMap (edgeDeps up)

/-- `nx.DiGraph.add_edge` semantics: one edge per (source, target); a later insertion overwrites the
attributes (label) of an earlier one but keeps its position. -/
def digraphAdd (g : List (Node × Node × Label)) (e : Node × Node × Label) : List (Node × Node × Label) :=
  if g.any (fun x => x.1 == e.1 && x.2.1 == e.2.1)
  then g.map (fun x => if x.1 == e.1 && x.2.1 == e.2.1 then e else x)
  else g ++ [e]

def digraph (es : List (Node × Node × Label)) : List (Node × Node × Label) := es.foldl digraphAdd []

/-- The CDG as the implementation stores it: DiGraph semantics, ENTRY and EXIT removed. -/
def cdgImpl (E : List Edge) (up : Node → List Node) (entry exit : Node) : List (Node × Node × Label) :=
  (digraph (cdgAlgo E up)).filter
    (fun x => x.1 != entry && x.1 != exit && x.2.1 != entry && x.2.1 != exit)

/-! ### Tree chains from a parent map (driver side) -/

def upFrom (parent : Node → Option Node) : Nat → Node → List Node
  | 0, _ => []
  | fuel + 1, v => match parent v with
    | some p => if p == v then [] else p :: upFrom parent fuel p
    | none => []

/-! ### Queries on the finished CDG -/

def preds (g : List (Node × Node × Label)) (n : Node) : List (Node × Label) :=
  (g.filter (fun x => x.2.1 == n)).map (fun x => (x.1, x.2.2))

/-- `_retrieve_control_dependencies`: depth-first over predecessors; a labelled edge from a basic
block is a dependency, any other edge is walked through.  `handled` is shared across the recursion
(threaded state).  `isBlock` says which nodes are `BasicBlockNode`s. -/
def retrieveDeps (g : List (Node × Node × Label)) (isBlock : Node → Bool) :
    Nat → Node → List (Node × Node) → List (Node × Bool) × List (Node × Node)
  | 0, _, handled => ([], handled)
  | fuel + 1, node, handled =>
    (preds g node).foldl (fun (acc : List (Node × Bool) × List (Node × Node)) (pl : Node × Label) =>
      let (res, h) := acc
      let (p, l) := pl
      if h.contains (p, node) then (res, h)
      else
        let h := h ++ [(p, node)]
        match isBlock p, l with
        | true, some b => (if res.contains (p, b) then res else res ++ [(p, b)], h)
        | _, _ =>
          let (r2, h2) := retrieveDeps g isBlock fuel p h
          (r2.foldl (fun r x => if r.contains x then r else r ++ [x]) res, h2))
      ([], handled)

def controlDeps (g : List (Node × Node × Label)) (isBlock : Node → Bool) (n : Node) : List (Node × Bool) :=
  (retrieveDeps g isBlock (g.length + 1) n []).1

/-- `_is_control_dependent_on_root` with its shared `visited` set. -/
def rootDepAux (g : List (Node × Node × Label)) (isBlock : Node → Bool) (root : Node) :
    Nat → Node → List Node → Bool × List Node
  | 0, _, visited => (false, visited)
  | fuel + 1, node, visited =>
    if g.any (fun x => x.1 == root && x.2.1 == node) then (true, visited)
    else
      (preds g node).foldl (fun (acc : Bool × List Node) (pl : Node × Label) =>
        let (found, vis) := acc
        if found then (found, vis)
        else
          let (p, l) := pl
          if vis.contains p then (found, vis)
          else
            let vis := vis ++ [p]
            if isBlock p && l.isSome then (found, vis)
            else if p == node then (found, vis)
            else rootDepAux g isBlock root fuel p vis)
        (false, visited)

def rootDep (g : List (Node × Node × Label)) (isBlock : Node → Bool) (root n : Node) : Bool :=
  (rootDepAux g isBlock root (g.length + 1) n []).1

/-! ### `filter_dead_code_nodes` -/

def hasPred (E : List Edge) (nodes : List Node) (n : Node) : Bool :=
  E.any (fun e => e.dst == n && nodes.contains e.src)

/-- One sweep: drop every non-entry node without a live predecessor. -/
def deadSweep (E : List Edge) (entry : Node) (nodes : List Node) : List Node :=
  nodes.filter (fun n => n == entry || hasPred E nodes n)

def filterDead (E : List Edge) (entry : Node) : Nat → List Node → List Node
  | 0, nodes => nodes
  | fuel + 1, nodes =>
    let nodes' := deadSweep E entry nodes
    if nodes'.length == nodes.length then nodes else filterDead E entry fuel nodes'

/-! ### Post-dominance certificates (checked by verified checkers, found by unverified search) -/

def succs (E : List Edge) (x : Node) : List Node := (E.filter (fun e => e.src == x)).map (·.dst)

/-- Certificate that `b` post-dominates `v` (`b ≠ v`): a set `S` containing `v`, not containing `b`
or `exit`, closed under successors except through `b`. -/
def checkClosed (E : List Edge) (exit b v : Node) (S : List Node) : Bool :=
  S.contains v && !S.contains b && !S.contains exit &&
    S.all (fun x => (succs E x).all (fun y => y == b || S.contains y))

/-- Certificate that `b` does not post-dominate `v`: a path from `v` to `exit` avoiding `b`. -/
def isPath (E : List Edge) : Node → List Node → Node → Bool
  | a, [x], b => a == x && x == b
  | a, x :: y :: rest, b => a == x && (succs E x).contains y && isPath E y (y :: rest) b
  | _, [], _ => false

def checkAvoidingPath (E : List Edge) (exit b v : Node) (ns : List Node) : Bool :=
  isPath E v ns exit && !ns.contains b

/-- Unverified search used only to *find* certificates: nodes reachable from `v` without entering
`b`, each with the path that reached it (reversed). -/
def explore (E : List Edge) (b : Node) : Nat → List (Node × List Node) → List (Node × List Node) →
    List (Node × List Node)
  | 0, _, seen => seen
  | _ + 1, [], seen => seen
  | fuel + 1, (x, px) :: work, seen =>
    let new := (succs E x).eraseDups.filter
      (fun y => y != b && !seen.any (·.1 == y) && !work.any (·.1 == y))
    let newp := new.map (fun y => (y, y :: px))
    explore E b fuel (work ++ newp) (seen ++ newp)

/-- Decide "b strictly post-dominates v" *with a checked certificate*:
`some true` / `some false` only when the corresponding verified checker accepted. -/
def decidePdom (E : List Edge) (nodes : List Node) (exit b v : Node) : Option Bool :=
  if b == v then some false
  else
    let seen := explore E b (nodes.length * nodes.length + nodes.length + 2) [(v, [v])] [(v, [v])]
    match seen.find? (·.1 == exit) with
    | some (_, p) => if checkAvoidingPath E exit b v p.reverse then some false else none
    | none => if checkClosed E exit b v (seen.map (·.1)) then some true else none

end PynguinModel.Cdg

namespace PynguinModel.Cdg

/-! ### Executable hypothesis checks used by the driver (their soundness is in `Props/C06.lean`) -/

/-- The tree as a finite table `v ↦ proper ancestors`; nodes not in the table have none. -/
def upOf (tbl : List (Node × List Node)) (v : Node) : List Node :=
  match tbl.find? (fun x => x.1 == v) with
  | some x => x.2
  | none => []

def treeOKb (tbl : List (Node × List Node)) : Bool :=
  tbl.all (fun x => match x.2 with
    | [] => true
    | p :: rest => upOf tbl p == rest) &&
  -- a key occurs once (so `upOf` sees every row)
  tbl.all (fun x => (tbl.filter (fun y => y.1 == x.1)).length == 1)

def labelConsistentb (es : List (Node × Node × Label)) : Bool :=
  es.all (fun x => es.all (fun y => !(x.1 == y.1 && x.2.1 == y.2.1) || x.2.2 == y.2.2))

end PynguinModel.Cdg
