/-
Model of the statement / test-case minimization of pynguin (`ga/postprocess.py`) and of
`generator._minimize`'s compare-and-restore, over the test-case model of `Model/TestCase.lean`.

Python ↔ Lean
* `get_assertion_protected_variables` = `_directly_asserted_variables` + `_add_backward_dependencies`
  ↔ `protectedVars` = `directAsserted` + `backLoop`/`backSweep`/`addUsed`.  `Stmt.asserts` holds, for every
  `ReferenceAssertion` attached to the statement, the ROOT of its source (`var_0.field` → `var_0`); exception
  assertions have no source and do not appear.
* `ForwardIterativeMinimizationVisitor.visit_default_test_case` ↔ `forwardMin` (`fwdOuter` around `scanFwd`),
  `BackwardIterativeMinimizationVisitor...` ↔ `backwardMin` (`bwdOuter` around `scanBwd`),
  `TestCasePostProcessor([unused_vars_minimizer, iterative_minimizer])` ↔ `casePhase`,
  `TestSuiteMinimizationVisitor.visit_test_suite_chromosome` ↔ `suiteMin` (`suiteLoop`; `list.remove` = first
  element that is `__eq__`, i.e. has the same code: `removeFirst`/`codeEq`),
  `CombinedMinimizationVisitor._minimize_statements_across_test_suite` ↔ `combinedMin` (`combOuter`/`combFor`,
  the inner `while` is again `scanFwd`), `EmptyTestCaseRemover` ↔ `dropEmpty`, `ExceptionTruncation` ↔ `truncate`,
  `generator._minimize` (post_process on, strategy ≠ NONE) ↔ `minimize`.
* Coverage is an ARBITRARY function `cov : Suite → V` (`V` = the vector of the values of all optimised coverage
  functions; `all(map(math.isclose, a, b))` is `a = b`: the values are ratios `k/n` of goal counts with a fixed
  `n < 10^9`, for which `isclose` (rel_tol 1e-9) and equality coincide).  Re-executing the same statements
  gives the same value (deterministic SUT) – that is what makes `cov` a function.
* The suite's `ComputationCache`: `get_coverage_for` returns the cached value unless `changed` is set.  After
  `original_coverages` was read the cache holds `orig`; `finish` therefore reads `cov` of the current suite only
  if somebody set `changed` (`recheck`, or a visitor that removed something), otherwise the stale `orig`.
  `recheck = true` is the repaired `_minimize` (sets `changed` before the comparison); `recheck = false` is
  the code before the repair.  `guard = true` is the repaired combined visitor (skips protected statements).
* `remove_unused_variables` is a parameter `ru : TC → TC` (its result is handed to the driver; property C19).
* `while` loops run on fuel (`none` = out of fuel or IndexError); `Props/C22.lean` shows that the closure loop of
  the protected variables, both per-test-case visitors and the whole CASE pipeline never end in `none`.
Mathlib-free.
-/
import PynguinModel.Model.TestCase

namespace PynguinModel.Minimize
open PynguinModel.TestCase

abbrev Suite := List TC

/-! ### `get_assertion_protected_variables` -/

/-- `_directly_asserted_variables` (a Python set: only membership and emptiness are observed) -/
def directAsserted (l : List Stmt) : List Name := l.flatMap (·.asserts)

/-- `for used in statement.used_variables(): if used not in protected: protected.add(used); changed = True` -/
def addUsed : List Name → List Name → Bool → List Name × Bool
  | [], p, ch => (p, ch)
  | u :: us, p, ch => if u ∈ p then addUsed us p ch else addUsed us (u :: p) true

/-- one `for statement in statements:` sweep of `_add_backward_dependencies` -/
def backSweep : List Stmt → List Name → Bool → List Name × Bool
  | [], p, ch => (p, ch)
  | s :: l, p, ch =>
    match s.bound with
    | some bv =>
      if bv ∈ p then backSweep l (addUsed s.uses p ch).1 (addUsed s.uses p ch).2
      else backSweep l p ch
    | none => backSweep l p ch

/-- `changed = True; while changed: changed = False; <sweep>` -/
def backLoop (l : List Stmt) : Nat → List Name → Option (List Name)
  | 0, _ => none
  | fuel + 1, p =>
    if (backSweep l p false).2 then backLoop l fuel (backSweep l p false).1 else some (backSweep l p false).1

/-- `get_assertion_protected_variables(test_case)` -/
def protectedVars (l : List Stmt) : Option (List Name) :=
  let p := directAsserted l
  if p.isEmpty then some p else backLoop l ((l.flatMap (·.uses)).length + 1) p

/-- `statement.bound_variable in protected` (`None` is never in a set of names) -/
def isProt (s : Stmt) (p : List Name) : Bool :=
  match s.bound with
  | some v => decide (v ∈ p)
  | none => false

/-! ### the iterative visitors -/

/-- The `while i < test_case.size():` loop of the forward visitor and of the combined visitor.
`acc clone` = "the coverage values of the clone without statement `i` (and its forward dependencies) are
those of the original".  State: test case, `i`, `_removed_statements`, `statements_changed`. -/
def scanFwd (acc : TC → Bool) (prot : List Name) : Nat → TC → Nat → Nat → Bool → Option (TC × Nat × Bool)
  | 0, _, _, _, _ => none
  | fuel + 1, tc, i, rem, ch =>
    match tc.stmts[i]? with
    | none => some (tc, rem, ch)
    | some s =>
      if isProt s prot then scanFwd acc prot fuel tc (i + 1) rem ch
      else
        match tc.clone.removeFwd i with
        | none => none
        | some cl =>
          if acc cl.1 then
            match tc.removeFwd i with
            | none => none
            | some r => scanFwd acc prot fuel r.1 i (rem + r.2.length) true
          else scanFwd acc prot fuel tc (i + 1) rem ch

/-- `while statements_changed:` of the forward visitor -/
def fwdOuter (acc : TC → Bool) (prot : List Name) : Nat → TC → Nat → Option (TC × Nat)
  | 0, _, _ => none
  | fuel + 1, tc, rem =>
    match scanFwd acc prot (tc.size + 1) tc 0 rem false with
    | none => none
    | some r => if r.2.2 then fwdOuter acc prot fuel r.1 r.2.1 else some (r.1, r.2.1)

/-- `_coverages(fitness_functions, test_case)`: a fresh suite holding only this test case -/
def single (tc : TC) : Suite := [tc]

/-- `ForwardIterativeMinimizationVisitor.visit_default_test_case`: `(test case, removed_statements)` -/
def forwardMin {V : Type} [DecidableEq V] (cov : Suite → V) (tc : TC) : Option (TC × Nat) :=
  match protectedVars tc.stmts with
  | none => none
  | some prot => fwdOuter (fun cl => decide (cov (single cl) = cov (single tc))) prot (tc.size + 1) tc 0

/-- The `while i >= 0:` loop of the backward visitor, `i = j - 1` counting down; it `break`s after the
first accepted removal: `some (some (tc', n))`; `some none` = fell through without a removal. -/
def scanBwd (acc : TC → Bool) (prot : List Name) (tc : TC) : Nat → Option (Option (TC × Nat))
  | 0 => some none
  | j + 1 =>
    match tc.stmts[j]? with
    | none => none
    | some s =>
      if isProt s prot then scanBwd acc prot tc j
      else
        match tc.clone.removeFwd j with
        | none => none
        | some cl =>
          if acc cl.1 then
            match tc.removeFwd j with
            | none => none
            | some r => some (some (r.1, r.2.length))
          else scanBwd acc prot tc j

/-- `while statements_changed and test_case.size() > 0:` of the backward visitor -/
def bwdOuter (acc : TC → Bool) (prot : List Name) : Nat → TC → Nat → Option (TC × Nat)
  | 0, _, _ => none
  | fuel + 1, tc, rem =>
    if tc.size > 0 then
      match scanBwd acc prot tc tc.size with
      | none => none
      | some none => some (tc, rem)
      | some (some r) => bwdOuter acc prot fuel r.1 (rem + r.2)
    else some (tc, rem)

/-- `BackwardIterativeMinimizationVisitor.visit_default_test_case` -/
def backwardMin {V : Type} [DecidableEq V] (cov : Suite → V) (tc : TC) : Option (TC × Nat) :=
  match protectedVars tc.stmts with
  | none => none
  | some prot => bwdOuter (fun cl => decide (cov (single cl) = cov (single tc))) prot (tc.size + 1) tc 0

/-- the configured iterative visitor -/
def iterMin {V : Type} [DecidableEq V] (cov : Suite → V) (forward : Bool) (tc : TC) : Option (TC × Nat) :=
  if forward then forwardMin cov tc else backwardMin cov tc

/-- `TestCasePostProcessor([unused_vars_minimizer, iterative_minimizer])` over the suite:
`(suite, iterative_minimizer.removed_statements)` -/
def casePhase {V : Type} [DecidableEq V] (cov : Suite → V) (ru : TC → TC) (forward : Bool) :
    Suite → Option (Suite × Nat)
  | [] => some ([], 0)
  | t :: s =>
    match iterMin cov forward (ru t) with
    | none => none
    | some r =>
      match casePhase cov ru forward s with
      | none => none
      | some rs => some (r.1 :: rs.1, r.2 + rs.2)

/-! ### `TestSuiteMinimizationVisitor` -/

/-- what `TestCase.__eq__` compares: the rendered code (binder and names read, per statement) -/
def codeKey (t : TC) : List (Option Name × List Name) := t.stmts.map (fun s => (s.bound, s.uses))

def codeEq (a b : TC) : Bool := decide (codeKey a = codeKey b)

/-- `list.remove(x)` inside `delete_test_case_chromosome` (a missing element is ignored) -/
def removeFirst (x : TC) : Suite → Suite
  | [] => []
  | t :: l => if codeEq t x then l else t :: removeFirst x l

/-- the `while i < len(test_cases):` loop.  `chrom` = `chromosome.test_case_chromosomes`,
`tcs` = the local list `test_cases`. -/
def suiteLoop {V : Type} [DecidableEq V] (cov : Suite → V) (orig : V) :
    Nat → Suite → Suite → Nat → Nat → Option (Suite × Nat)
  | 0, _, _, _, _ => none
  | fuel + 1, chrom, tcs, i, rem =>
    match tcs[i]? with
    | none => some (chrom, rem)
    | some t =>
      if tcs.length = 1 then some (chrom, rem)
      else
        match chrom[i]? with
        | none => none
        | some x =>
          if cov (removeFirst x chrom) = orig then
            suiteLoop cov orig fuel (removeFirst t chrom) (tcs.eraseIdx i) i (rem + 1)
          else suiteLoop cov orig fuel chrom tcs (i + 1) rem

/-- `TestSuiteMinimizationVisitor.visit_test_suite_chromosome`: `(suite, removed_test_cases)` -/
def suiteMin {V : Type} [DecidableEq V] (cov : Suite → V) (s : Suite) : Option (Suite × Nat) :=
  if s.length ≤ 1 then some (s, 0) else suiteLoop cov (cov s) (s.length + 1) s s 0 0

/-! ### `CombinedMinimizationVisitor` -/

/-- A test case of the suite together with its entry of `protected_variables` (computed once, before the
loops, on the unminimized test cases; the Python lists are index-aligned). -/
abbrev PTC := TC × List Name

def unzipP (s : List PTC) : Suite := s.map (·.1)

/-- the `for test_case_idx, test_case_chrom in enumerate(...)` loop: `done` = the test cases before
`test_case_idx` (already processed in this sweep), `todo` = the current one and those after it.
`chromosome.clone()` with the clone of the current test case put at `test_case_idx` = `done ++ cl :: rest`. -/
def combFor {V : Type} [DecidableEq V] (cov : Suite → V) (orig : V) :
    List PTC → List PTC → Nat → Bool → Option (List PTC × Nat × Bool)
  | done, [], rem, ch => some (done, rem, ch)
  | done, x :: todo, rem, ch =>
    match scanFwd (fun cl => decide (cov (unzipP done ++ cl :: unzipP todo) = orig)) x.2 (x.1.size + 1) x.1 0 rem
        false with
    | none => none
    | some r => combFor cov orig (done ++ [(r.1, x.2)]) todo r.2.1 (ch || r.2.2)

def totalSize (s : Suite) : Nat := (s.map TC.size).sum

/-- `while statements_changed:` of `_minimize_statements_across_test_suite` -/
def combOuter {V : Type} [DecidableEq V] (cov : Suite → V) (orig : V) :
    Nat → List PTC → Nat → Option (List PTC × Nat)
  | 0, _, _ => none
  | fuel + 1, s, rem =>
    match combFor cov orig [] s rem false with
    | none => none
    | some r => if r.2.2 then combOuter cov orig fuel r.1 r.2.1 else some (r.1, r.2.1)

/-- `protected_variables = [get_assertion_protected_variables(t) for t in ...]`; `guard = false`: the visitor
before the repair, which protects nothing -/
def withProt (guard : Bool) : Suite → Option (List PTC)
  | [] => some []
  | t :: s =>
    match (if guard then protectedVars t.stmts else some []) with
    | none => none
    | some p =>
      match withProt guard s with
      | none => none
      | some r => some ((t, p) :: r)

/-- `CombinedMinimizationVisitor.visit_test_suite_chromosome`: `(suite, removed_statements)` -/
def combinedMin {V : Type} [DecidableEq V] (cov : Suite → V) (guard : Bool) (s : Suite) : Option (Suite × Nat) :=
  match withProt guard s with
  | none => none
  | some ps =>
    match combOuter cov (cov s) (totalSize s + 1) ps 0 with
    | none => none
    | some r => some (unzipP r.1, r.2)

/-! ### `generator._minimize` -/

inductive Strategy where
  | case | suite | combined
  deriving DecidableEq, Repr

/-- `ExceptionTruncation`: `chop(position)` for every failing test (`some position`) -/
def truncate : List (Option Int) → Suite → Suite
  | _, [] => []
  | [], s => s
  | c :: cs, t :: s => (match c with | some p => t.chop p | none => t) :: truncate cs s

/-- `EmptyTestCaseRemover` -/
def dropEmpty (s : Suite) : Suite := s.filter (fun t => decide (t.size > 0))

structure Result (V : Type) where
  /-- the suite `_minimize` leaves behind -/
  final : Suite
  /-- "Restoring unminimized test suite due to coverage loss" -/
  restored : Bool
  /-- the two arguments of `_check_coverage` -/
  orig : V
  minimized : V
  removedStmts : Nat
  removedTests : Nat

/-- comparison, restore and empty-test removal at the end of `_minimize`.  `changed`: some visitor marked
the suite as changed; otherwise `get_coverage_for` answers from the cache, which still holds `orig`. -/
def finish {V : Type} [DecidableEq V] (cov : Suite → V) (recheck : Bool) (orig : V) (saved cur : Suite)
    (changed : Bool) (nStmts nTests : Nat) : Result V :=
  let minimized := if recheck || changed then cov cur else orig
  if minimized = orig then ⟨dropEmpty cur, false, orig, minimized, nStmts, nTests⟩
  else ⟨dropEmpty saved, true, orig, minimized, nStmts, nTests⟩

/-- `generator._minimize(generation_result, algorithm)` with `post_process` on and a strategy ≠ NONE -/
def minimize {V : Type} [DecidableEq V] (cov : Suite → V) (ru : TC → TC) (strat : Strategy) (forward : Bool)
    (recheck guard : Bool) (chops : List (Option Int)) (s : Suite) : Option (Result V) :=
  let s0 := truncate chops s
  let orig := cov s0
  match strat with
  | .combined =>
    match combinedMin cov guard s0 with
    | none => none
    | some r => some (finish cov recheck orig s0 r.1 (decide (r.2 > 0)) r.2 0)
  | .case =>
    match casePhase cov ru forward s0 with
    | none => none
    | some r => some (finish cov recheck orig s0 r.1 false r.2 0)
  | .suite =>
    match casePhase cov ru forward s0 with
    | none => none
    | some r =>
      match suiteMin cov r.1 with
      | none => none
      | some q => some (finish cov recheck orig s0 q.1 (decide (q.2 > 0)) r.2 q.2)

/-! ### a concrete family of coverage functions (used by the driver and by the examples)

A statement's tag is the first non-`var_k` name it reads (its callee).  Executing a test case runs its
statements in order up to and including the first one whose tag raises.  A goal is a list of clauses; a
clause `(tag, pos, neg)` holds in a test when a statement with that tag is executed after all tags of `pos`
and none of `neg` were executed earlier in the same test (so what a statement covers may depend on the
statements before it).  A coverage function is a list of goals; its value is the number of goals for which
some test satisfies some clause. -/

def tagOf (s : Stmt) : Option String :=
  s.uses.findSome? (fun n => match n with | .ext x => some x | .var _ => none)

/-- the tags executed by a test -/
def runTags (raising : List String) : List Stmt → List String
  | [] => []
  | s :: l =>
    match tagOf s with
    | none => runTags raising l
    | some x => if x ∈ raising then [x] else x :: runTags raising l

structure Clause where
  tag : String
  pos : List String
  neg : List String
  deriving DecidableEq, Repr

abbrev Goal := List Clause

def clauseHolds (c : Clause) : List String → List String → Bool
  | _, [] => false
  | before, x :: rest =>
    (x == c.tag && c.pos.all (fun y => decide (y ∈ before)) && c.neg.all (fun y => decide (y ∉ before)))
      || clauseHolds c (before ++ [x]) rest

def goalCovered (raising : List String) (g : Goal) (s : Suite) : Bool :=
  s.any (fun t => g.any (fun c => clauseHolds c [] (runTags raising t.stmts)))

def goalCov (raising : List String) (gs : List Goal) (s : Suite) : Nat :=
  (gs.filter (fun g => goalCovered raising g s)).length

/-- the vector of all optimised coverage functions -/
def covVec (raising : List String) (fs : List (List Goal)) (s : Suite) : List Nat :=
  fs.map (fun gs => goalCov raising gs s)

end PynguinModel.Minimize
