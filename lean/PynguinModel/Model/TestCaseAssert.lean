/-
Model of what happens to the regression assertions of a test case between assertion generation and the
exported pytest function (property C19):

* `TestCase.remove_unused_variables` (`src/pynguin/testcase/testcase.py`) — the backward liveness pass run by
  `UnusedStatementsTestCaseVisitor` (`ga/postprocess.py`) inside `generator._minimize` and run AGAIN by
  `TestSuiteWriter.write` (`testcase/export.py`).  Modelled WITH the repair of D9
  (`proposed_fixes/C19-remove-unused-keeps-assertions.diff`): the names read by the assertions of a statement are
  alive at that statement, and the rebuilt (unbound) `Statement` keeps `assertions`, `accessible`, `ml_info`.
  The unrepaired pass is `PynguinModel.TestCase.ruGo` (C15's model); `oldRu` below is the same pass on this
  file's richer statements.
* `UnusedStatementsTestCaseVisitor.visit_default_test_case` (`ga/postprocess.py`) as its own step
  (`visitUnused`: the pass, `deleted_statement_indexes` stays empty) and the family `visitWith del` of visitors that
  delete statements after the pass (what such a visitor may delete without losing an oracle is a theorem).
* the statement-removing steps of post-processing that sit between the two passes
  (`remove_statement_with_forward_dependencies` used by the iterative minimisers, `chop` used by
  `ExceptionTruncation`, `clone`): they keep or delete whole `Statement` objects.
* `TestSuiteWriter._per_statement_exceptions` (the re-execution loop; one outcome per statement) and
  `TestSuiteWriter._build_test_function` (statement, then its rendered assertions, `pytest.raises` wrapper or
  xfail decorator).

A statement (`AStmt`) is what this code looks at of a `Statement`: `sid` (ghost: identity of the right-hand
side CST node, kept by `_transform_assign_to_expr`), `bound_variable`, `bound_type`, `used_variables()`,
the assertion objects, whether `_transform_assign_to_expr` changes the node, and the names in
`accessible.expected_exceptions`.  An assertion is `ref id root` (a `ReferenceAssertion`; `root` is the first
component of its dotted `source`, `id` stands for the object: kind, full source, value) or `exc id`
(`ExceptionAssertion`: `assertion_to_cst` returns `None`).  Mathlib-free; names and closures are C15's.
-/
import PynguinModel.Model.TestCase

namespace PynguinModel.TestCaseAssert
open PynguinModel.TestCase (Name Ty Stmt closureMask pyRange idxMaskFrom)

inductive Assertion where
  | ref (id : Nat) (root : Name)
  | exc (id : Nat)
  deriving DecidableEq, Repr, Inhabited

/-- names read by the rendered assertion (`source.split(".")[0]`; an exception assertion reads nothing) -/
def Assertion.reads : Assertion → List Name
  | .ref _ r => [r]
  | .exc _ => []

/-- `assertion_to_cst(a) is not None` -/
def Assertion.renders : Assertion → Bool
  | .ref _ _ => true
  | .exc _ => false

structure AStmt where
  /-- ghost: identity of the statement's right-hand side -/
  sid : Nat
  bound : Option Name
  btype : Option Ty
  /-- `used_variables()` -/
  uses : List Name
  asserts : List Assertion
  /-- `_transform_assign_to_expr(node) is not node` -/
  simpleAssign : Bool
  /-- `accessible.expected_exceptions` (`[]` when there is no callable accessible) -/
  expected : List Nat
  deriving DecidableEq, Repr, Inhabited

/-- `_get_asserted_variables(stmt)` -/
def AStmt.assertReads (s : AStmt) : List Name := s.asserts.flatMap Assertion.reads

/-- the `Statement(node=new_node, bound_variable=None, bound_type=None, assertions=list(stmt.assertions),
accessible=stmt.accessible, ml_info=stmt.ml_info)` built for a dead simple assignment (repaired code) -/
def AStmt.unbound (s : AStmt) : AStmt :=
  { s with bound := none, btype := none, simpleAssign := false }

/-- `remove_unused_variables`, repaired: `(alive_vars before this suffix, rewritten suffix)` -/
def ruFix : List AStmt → List Name × List AStmt
  | [] => ([], [])
  | s :: rest =>
    let r := ruFix rest
    let alive := r.1 ++ s.assertReads
    match s.bound with
    | some bv =>
      if bv ∈ alive then (alive.filter (fun x => decide (x ≠ bv)) ++ s.uses, s :: r.2)
      else (alive ++ s.uses, (if s.simpleAssign then s.unbound else s) :: r.2)
    | none => (alive ++ s.uses, s :: r.2)

/-- the UNREPAIRED pass (the snapshot's code; `TestCase.ruGo` on this file's statements): assertion sources
are not alive, the rebuilt `Statement(node, None, None)` has no assertions and no accessible -/
def AStmt.oldUnbound (s : AStmt) : AStmt :=
  { s with bound := none, btype := none, simpleAssign := false, asserts := [], expected := [] }

def oldRu : List AStmt → List Name × List AStmt
  | [] => ([], [])
  | s :: rest =>
    let r := oldRu rest
    match s.bound with
    | some bv =>
      if bv ∈ r.1 then (r.1.filter (fun x => decide (x ≠ bv)) ++ s.uses, s :: r.2)
      else (r.1 ++ s.uses, (if s.simpleAssign then s.oldUnbound else s) :: r.2)
    | none => (r.1 ++ s.uses, s :: r.2)

/-- what C15's model sees of a statement -/
def AStmt.forget (s : AStmt) : Stmt :=
  { bound := s.bound, btype := s.btype, uses := s.uses, asserts := s.assertReads, simpleAssign := s.simpleAssign }

/-! ### statement-removing steps between the two passes -/

/-- keep the entries whose mask bit is `false` (`[s for i, s in enumerate(stmts) if i not in indices]`) -/
def keepMask {α : Type} : List α → List Bool → List α
  | [], _ => []
  | s :: l, [] => s :: l
  | s :: l, b :: m => if b then keepMask l m else s :: keepMask l m

/-- `remove_statements_batch(indices)` -/
def removeBatch (l : List AStmt) (idxs : List Nat) : List AStmt :=
  keepMask l (idxMaskFrom idxs 0 l.length)

/-- `remove_statement_with_forward_dependencies(index)` (`none` = IndexError); the closure is C15's -/
def removeFwd (l : List AStmt) (index : Nat) : Option (List AStmt) :=
  (closureMask false (l.map AStmt.forget) index).map (keepMask l)

/-- `chop(position)` -/
def chop (l : List AStmt) (position : Int) : List AStmt :=
  if position < 0 then removeBatch l (pyRange 0 l.length)
  else removeBatch l (pyRange (position.toNat + 1) l.length)

/-! ### `UnusedStatementsTestCaseVisitor` (`ga/postprocess.py`) -/

/-- `UnusedStatementsTestCaseVisitor.visit_default_test_case(test_case)`:
`self._deleted_statement_indexes.clear(); test_case.remove_unused_variables()` — the pass and nothing else; no
index is ever added to the set.  Result: `(test case left behind, deleted_statement_indexes)`. -/
def visitUnused (l : List AStmt) : List AStmt × List Nat := ((ruFix l).2, [])

/-- The family of visitors the property has to be robust against: after the pass the visitor collects statement
indexes (`del`, any function of the test case) in `_deleted_statement_indexes` and removes them with
`remove_statements_batch`.  The code is the member `del = fun _ => []` (`visitUnused_eq_visitWith`);
`Props/C19.lean` proves which members keep every oracle (`SparesAssertions`) and that one deleting the bare
literals the pass leaves behind does not. -/
def visitWith (del : List AStmt → List Nat) (l : List AStmt) : List AStmt × List Nat :=
  let l' := (ruFix l).2
  (removeBatch l' (del l'), del l')

/-- the deletion policy of the code: nothing -/
def visitorDeleted (_ : List AStmt) : List Nat := []

/-- one post-processing step on a test case -/
inductive Op where
  /-- a direct `remove_unused_variables()` (the call in `TestSuiteWriter.write`) -/
  | removeUnused
  /-- `TestCasePostProcessor([UnusedStatementsTestCaseVisitor()])` on the chromosome (`generator._minimize`) -/
  | visitUnused
  /-- an accepted removal of an iterative / combined / crash-preserving minimiser -/
  | removeFwd (index : Nat)
  /-- `ExceptionTruncation` -/
  | chop (position : Int)
  /-- `clone()` (statement values are immutable here) -/
  | clone
  deriving Repr, Inhabited

/-- an `IndexError` leaves the test case as it was (the caller's exception handler) -/
def applyOp (l : List AStmt) : Op → List AStmt
  | .removeUnused => (ruFix l).2
  | .visitUnused => (visitUnused l).1
  | .removeFwd i => (removeFwd l i).getD l
  | .chop p => chop l p
  | .clone => l

def history (l : List AStmt) (ops : List Op) : List AStmt := ops.foldl applyOp l

/-- the same step / history with the visitor replaced by a member of the `visitWith` family -/
def applyOpWith (del : List AStmt → List Nat) (l : List AStmt) : Op → List AStmt
  | .visitUnused => (visitWith del l).1
  | op => applyOp l op

def historyWith (del : List AStmt → List Nat) (l : List AStmt) (ops : List Op) : List AStmt :=
  ops.foldl (applyOpWith del) l

/-- `index in _deleted_statement_indexes` for a visitor that deletes what the pass left behind as a bare
expression over no variable at all (`5`, `'abc'`, `[1, 2]`: not bound, reads nothing) — the "remove unused
primitives/collections" clean-up the class docstring promises and the code does not do -/
def bareLeftovers (l : List AStmt) : List Nat :=
  (List.range l.length).filter (fun i => match l[i]? with
    | some s => s.bound.isNone && s.uses.isEmpty
    | none => false)

/-! ### export -/

/-- result of `_exec_statement_guarded` for one statement: `(finished, exception type)` -/
structure Outcome where
  finished : Bool
  exc : Option Nat
  deriving DecidableEq, Repr, Inhabited

/-- the loop of `_per_statement_exceptions` over `n` remaining statements: an unfinished statement stops the
re-execution and marks it and everything after it clean.  (There is one outcome per executed statement; a
missing outcome is treated like an unfinished one.) -/
def perStmtGo : Nat → List Outcome → List (Option Nat)
  | 0, _ => []
  | n + 1, [] => List.replicate (n + 1) none
  | n + 1, o :: os => if o.finished then o.exc :: perStmtGo n os else List.replicate (n + 1) none

/-- `_per_statement_exceptions(tc, ...)`; `importOk = false`: the module could not be imported -/
def perStmtExc (importOk : Bool) (l : List AStmt) (outs : List Outcome) : List (Option Nat) :=
  if importOk then perStmtGo l.length outs else List.replicate l.length none

/-- one entry of the exported function body -/
inductive Item where
  /-- `stmt.node` emitted bare -/
  | stmt (sid : Nat) (bound : Option Name) (uses : List Name)
  /-- `with pytest.raises(exc): stmt.node` -/
  | raises (sid : Nat) (bound : Option Name) (uses : List Name) (exc : Nat)
  /-- the `assert ...` line rendered from an assertion -/
  | assertion (a : Assertion)
  /-- `pass` -/
  | pass
  deriving DecidableEq, Repr, Inhabited

/-- `for assertion in stmt.assertions: cst_node = assertion_to_cst(assertion); if cst_node is not None: ...` -/
def emitted (s : AStmt) : List Item := (s.asserts.filter Assertion.renders).map Item.assertion

/-- the `for stmt, exc_type in zip(tc.statements(), exc_types, strict=False)` loop:
`(body, is_failing)` -/
def buildGo (noXfail : Bool) : List AStmt → List (Option Nat) → List Item × Bool
  | [], _ => ([], false)
  | _ :: _, [] => ([], false)
  | s :: ss, e :: es =>
    let r := buildGo noXfail ss es
    match e with
    | none => (Item.stmt s.sid s.bound s.uses :: (emitted s ++ r.1), r.2)
    | some x =>
      if noXfail || decide (x ∈ s.expected) then
        (Item.raises s.sid s.bound s.uses x :: (emitted s ++ r.1), r.2)
      else (Item.stmt s.sid s.bound s.uses :: (emitted s ++ r.1), true)

structure TestFn where
  body : List Item
  /-- `@pytest.mark.xfail(strict=True)` -/
  xfail : Bool
  deriving DecidableEq, Repr, Inhabited

/-- `_build_test_function(idx, tc, exc_types)` (a test case built from `Statement`s has no raw seed code, so
an empty body becomes `pass`) -/
def buildFn (noXfail : Bool) (l : List AStmt) (excs : List (Option Nat)) : TestFn :=
  let r := buildGo noXfail l excs
  { body := if r.1.isEmpty then [Item.pass] else r.1, xfail := r.2 }

/-- the per-test-case part of `TestSuiteWriter.write`: `tc.remove_unused_variables()`, re-execution,
`_build_test_function`.  Returns the test case as left behind and the emitted function. -/
def writeOne (noXfail importOk : Bool) (l : List AStmt) (outs : List Outcome) : List AStmt × TestFn :=
  let l' := (ruFix l).2
  (l', buildFn noXfail l' (perStmtExc importOk l' outs))

/-! ### reading the exported function back (used to state the property; independent of `buildGo`) -/

/-- the leading run of assertion lines -/
def takeAsserts : List Item → List Assertion
  | Item.assertion a :: rest => a :: takeAsserts rest
  | _ => []

/-- split a body into `(statement id, assertion lines directly below it)` groups -/
def groups : List Item → List (Nat × List Assertion)
  | [] => []
  | Item.stmt sid _ _ :: rest => (sid, takeAsserts rest) :: groups rest
  | Item.raises sid _ _ _ :: rest => (sid, takeAsserts rest) :: groups rest
  | Item.assertion _ :: rest => groups rest
  | Item.pass :: rest => groups rest

/-- what a surviving statement must show in the exported function: its id and its renderable assertions -/
def AStmt.oracle (s : AStmt) : Nat × List Assertion := (s.sid, s.asserts.filter Assertion.renders)

/-- identity and complete assertion list of a statement (what post-processing must not touch) -/
def AStmt.key (s : AStmt) : Nat × List Assertion := (s.sid, s.asserts)

/-! ### scoping checks (executable; `Props/C19.lean` proves them equivalent to the `Prop`s) -/

/-- every `var_k` read by a statement is bound by an earlier statement; every `var_k` read by one of its
assertions is bound by it or by an earlier statement -/
def readsOKb : List Name → List AStmt → Bool
  | _, [] => true
  | bs, s :: rest =>
    s.uses.all (fun u => !u.isVar || decide (u ∈ bs)) &&
    s.assertReads.all (fun u => !u.isVar || decide (u ∈ bs ++ s.bound.toList)) &&
    readsOKb (bs ++ s.bound.toList) rest

/-- the same on the exported body -/
def itemsOKb : List Name → List Item → Bool
  | _, [] => true
  | bs, Item.stmt _ b us :: rest =>
    us.all (fun u => !u.isVar || decide (u ∈ bs)) && itemsOKb (bs ++ b.toList) rest
  | bs, Item.raises _ b us _ :: rest =>
    us.all (fun u => !u.isVar || decide (u ∈ bs)) && itemsOKb (bs ++ b.toList) rest
  | bs, Item.assertion a :: rest =>
    a.reads.all (fun u => !u.isVar || decide (u ∈ bs)) && itemsOKb bs rest
  | bs, Item.pass :: rest => itemsOKb bs rest

end PynguinModel.TestCaseAssert
