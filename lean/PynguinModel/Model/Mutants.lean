/-
Model of pynguin's mutant enumeration protocol (C28):
`assertion/mutation_analysis/operators/base.py` (`MutationOperator.mutate / visit / _generic_visit /
_generic_visit_list / _generic_visit_real_node`), `mutators.py` (`_round_robin`, `_stratified_counts`,
`FirstOrderMutator.mutate / mutation_count / _select_mutations / _sample`, `HighOrderMutator.mutate /
_finish_generators`) and `controller.py` (`mutant_count`).

* The syntax tree is a rose tree (`Tree`): a label (class name + all non-node fields + field layout,
  interned by the harness) and the child SLOTS in `ast.iter_fields` order: one slot per node-valued field
  and one slot per entry of a list-valued field.  A list entry that is not a node (the `None` placeholders
  of `arguments.kw_defaults` / `Dict.keys`, the strings of `Global.names` / `MatchClass.kwd_attrs`) is a
  `Tree.hole`: it occupies its list position (so positions, hence slot paths, count it — the index
  `_generic_visit_list` writes through is the position in the REAL list) but is never visited, never
  written and never restored (`if isinstance(value, ast.AST)`).
* The tree is a *shared mutable object graph* in Python.  Frames of the operator generators hold
  references to the original node objects, so a slot (a list position or a node-valued field) is
  identified by the path of the original child that lives in it.  A `Heap` says for every slot whether it
  still holds its original child (`none`) or a foreign replacement node (`some r`).  Slot `[]` is the
  consumer's variable that holds the yielded root (`mutant` in `HighOrderMutator.mutate`).
* A Python generator is modelled by the list of its remaining events (`Ev`): heap writes and `yield`s.
  The consumer drives it with `next`; other generators may run while it is suspended (higher-order
  mutants).  Restoring writes write the value *captured when the frame was entered*
  (`old_value.copy()` / the `old_value` argument), exactly like the code; the captured heap is the heap
  at generator start (nothing is captured later than that for a single targeted mutation, and a full
  enumeration is never interleaved with another writer).
* Which nodes an operator mutates and into what is a parameter (`Op.vis`: absolute path and original
  subtree ↦ named replacements, in `dir()` order); the harness reads it off the real visitors.
* Scope: a slot that holds a foreign replacement is not descended into (with `only_mutation` the real
  code prunes it because the target is not among its `children`; without it the real code would mutate
  the replacement, which never happens on a restored tree).
* `closeEvs` models what the `try/finally` blocks of the repaired `_generic_visit_list` /
  `_generic_visit_real_node` do when a suspended generator is closed (abandoned by its consumer).
Mathlib-free.
-/
namespace PynguinModel.Mutants

inductive Tree where
  | node (label : Nat) (kids : List Tree)
  /-- a non-node entry of a child list (`None` placeholder, identifier string); `v` = its interned `repr` -/
  | hole (v : Nat)
  deriving Repr, Inhabited

mutual
def Tree.decEq : (a b : Tree) → Decidable (a = b)
  | .node l ks, .node l' ks' =>
    if hl : l = l' then
      match Tree.decEqList ks ks' with
      | isTrue h => isTrue (by rw [hl, h])
      | isFalse h => isFalse (by intro e; cases e; exact h rfl)
    else isFalse (by intro e; cases e; exact hl rfl)
  | .hole v, .hole v' => if hv : v = v' then isTrue (by rw [hv]) else isFalse (by intro e; cases e; exact hv rfl)
  | .node _ _, .hole _ => isFalse (by intro e; cases e)
  | .hole _, .node _ _ => isFalse (by intro e; cases e)
def Tree.decEqList : (a b : List Tree) → Decidable (a = b)
  | [], [] => isTrue rfl
  | [], _ :: _ => isFalse (by simp)
  | _ :: _, [] => isFalse (by simp)
  | a :: as, b :: bs =>
    match Tree.decEq a b, Tree.decEqList as bs with
    | isTrue h1, isTrue h2 => isTrue (by rw [h1, h2])
    | isFalse h1, _ => isFalse (by intro e; cases e; exact h1 rfl)
    | _, isFalse h2 => isFalse (by intro e; cases e; exact h2 rfl)
end
instance : DecidableEq Tree := Tree.decEq

abbrev Path := List Nat

/-- slot contents: `none` = the original child object, `some r` = a replacement node -/
abbrev Heap := Path → Option Tree

namespace Heap
def clean : Heap := fun _ => none
/-- `slot p := c` -/
def set (h : Heap) (p : Path) (c : Option Tree) : Heap := fun q => if q = p then c else h q
theorem set_apply (h : Heap) (p : Path) (c : Option Tree) (q : Path) :
    (h.set p c) q = if q = p then c else h q := rfl
/-- the heap as seen from child `i` (paths relative to that child; `[]` is the slot holding it) -/
def sub (h : Heap) (i : Nat) : Heap := fun q => h (i :: q)
def putSub (g : Heap) (i : Nat) (hs : Heap) : Heap := fun q =>
  match q with
  | [] => g []
  | j :: q' => if j = i then hs q' else g (j :: q')
end Heap

/-! ### pure tree functions (the specification vocabulary) -/

def Tree.label : Tree → Nat
  | .node l _ => l
  | .hole v => v

def Tree.kids : Tree → List Tree
  | .node _ ks => ks
  | .hole _ => []

/-- a real `ast.AST` node (what `isinstance(value, ast.AST)` tests) -/
def Tree.isNode : Tree → Bool
  | .node _ _ => true
  | .hole _ => false

/-- subtree at a path -/
def Tree.get? : Tree → Path → Option Tree
  | t, [] => some t
  | .node _ ks, i :: p =>
    match ks[i]? with
    | some k => k.get? p
    | none => none
  | .hole _, _ :: _ => none

/-- the tree with the subtree at path `p` replaced by `r` (identity when `p` is not a path of `t`) -/
def Tree.replaceAt : Tree → Path → Tree → Tree
  | _, [], r => r
  | .node l ks, i :: p, r => .node l (ks.modify i (fun k => k.replaceAt p r))
  | .hole v, _ :: _, _ => .hole v

mutual
/-- what a traversal from the root object sees under heap `h` -/
def read : Tree → Heap → Tree
  | .node l ks, h => .node l (readKids ks h 0)
  | .hole v, _ => .hole v
def readKids : List Tree → Heap → Nat → List Tree
  | [], _, _ => []
  | k :: ks, h, i =>
    (match h [i] with
     | some r => r
     | none => read k (h.sub i)) :: readKids ks h (i + 1)
end

/-- the tree the consumer holds (`mutant`): slot `[]` is the consumer's variable -/
def readRoot (t : Tree) (h : Heap) : Tree :=
  match h [] with
  | some r => r
  | none => read t h

mutual
def Tree.hash : Tree → Nat
  | .node l ks => (1000003 * (l + 1) + Tree.hashKids ks 17) % 2305843009213693951
  | .hole v => (999983 * (v + 1) + 3) % 2305843009213693951
def Tree.hashKids : List Tree → Nat → Nat
  | [], acc => acc
  | k :: ks, acc => Tree.hashKids ks ((acc * 1000033 + k.hash + 7) % 2305843009213693951)
end

/-! ### operators and generator events -/

/-- one mutation: (relative) path of the mutated node, visitor name, replacement node -/
structure Info where
  path : Path
  name : Nat
  repl : Tree
  deriving Repr, Inhabited

inductive Ev where
  | write (p : Path) (c : Option Tree)
  | yield (i : Info)
  deriving Inhabited

structure Op where
  /-- `_find_visitors(node)` applied to the node: the non-`None` results, in `dir()` order -/
  vis : Path → Tree → List (Nat × Tree)

/-- `only_mutation`: path of `only_mutation.node` and `only_mutation.visitor_name` -/
abbrev Target := Option (Path × Nat)

/-- `only_mutation and only_mutation.node != node and only_mutation.node not in node.children` -/
def pruned (tgt : Target) (p : Path) : Bool :=
  match tgt with
  | none => false
  | some (q, _) => !(p.isPrefixOf q)

/-- `only_mutation is None or (only_mutation.node == node and only_mutation.visitor_name == name)` -/
def selected (tgt : Target) (p : Path) (nm : Nat) : Bool :=
  match tgt with
  | none => true
  | some (q, n) => q == p && n == nm

/-- the visitor loop of `visit`: `yield node, mutated_node, mutated_node, name`; the frame that receives
it stores `mutated_node` into the slot that holds this node (`write []`). -/
def nodeEvs (op : Op) (tgt : Target) (p : Path) (t : Tree) : List Ev :=
  (op.vis p t).flatMap fun (nm, r) =>
    if selected tgt p nm then [.write [] (some r), .yield ⟨[], nm, r⟩] else []

/-- an event of child `i` seen one frame up: writes keep their object (path grows), a yielded item is
re-yielded with `mutated_node = node` after `old_value[position] = mutated_node` in this node's holder. -/
def liftEv (i : Nat) : Ev → List Ev
  | .write q c => [.write (i :: q) c]
  | .yield info => [.write [] none, .yield { info with path := i :: info.path }]

mutual
/-- `visit(node)` together with the loop frame around it (`for … in self.visit(value): slot = mutated_node;
yield …` and finally `slot = value`), `h` = the heap captured at generator start relative to this node,
`p` = absolute path of the node (for the visitors only). -/
def visit (op : Op) (tgt : Target) : Heap → Path → Tree → List Ev
  | h, p, .node l ks =>
    (if (h []).isSome || pruned tgt p then []
     else nodeEvs op tgt p (.node l ks) ++ visitKids op tgt h p ks 0)
    ++ [.write [] (h [])]
  -- `if isinstance(value, ast.AST)` fails: no visit, no write, no restore — but the entry keeps its position
  | _, _, .hole _ => []
/-- `_generic_visit`: the fields in order; `i` = position of the slot (placeholders are counted) -/
def visitKids (op : Op) (tgt : Target) : Heap → Path → List Tree → Nat → List Ev
  | _, _, [], _ => []
  | h, p, k :: ks, i =>
    (visit op tgt (h.sub i) (p ++ [i]) k).flatMap (liftEv i) ++ visitKids op tgt h p ks (i + 1)
end

/-- `op.mutate(target_ast, module, only_mutation)` started on heap `h` -/
def mutateEvs (op : Op) (tgt : Target) (h : Heap) (t : Tree) : List Ev := visit op tgt h [] t

def yields : List Ev → List Info
  | [] => []
  | .write _ _ :: es => yields es
  | .yield i :: es => i :: yields es

/-- run a generator to exhaustion on heap `h` (a write of the value a slot already holds keeps the heap
object: the same function, `Heap.ite_set`, but the closure chain of the executable model does not grow); snapshots = (mutation, heap at the yield) -/
def run : List Ev → Heap → List (Info × Heap) × Heap
  | [], h => ([], h)
  | .write p c :: es, h => run es (if h p = c then h else h.set p c)
  | .yield i :: es, h =>
    let r := run es h
    ((i, h) :: r.1, r.2)

/-- one `next(generator, None)` -/
def next : List Ev → Heap → Option Info × Heap × List Ev
  | [], h => (none, h, [])
  | .write p c :: es, h => next es (if h p = c then h else h.set p c)
  | .yield i :: es, h => (some i, h, es)

/-- all prefixes of a path, shortest first -/
def prefixes : Path → List Path
  | [] => [[]]
  | i :: p => [] :: (prefixes p).map (i :: ·)

/-- closing a generator suspended at the yield of `info` (repaired code: the `finally` clauses of the
frames on the path restore their slot with the captured value, outermost first) -/
def closeEvs (h0 : Heap) (info : Info) : List Ev :=
  (prefixes info.path).map fun s => .write s (h0 s)

def applyWrites : List Ev → Heap → Heap
  | [], h => h
  | .write p c :: es, h => applyWrites es (if h p = c then h else h.set p c)
  | .yield _ :: es, h => applyWrites es h

/-! ### `_round_robin`, `_stratified_counts`, `_sample` -/

def rrAux {α : Type} : Nat → List (List α) → List α
  | 0, _ => []
  | n + 1, ls => ls.filterMap List.head? ++ rrAux n (ls.map List.tail)

/-- `itertools.zip_longest(*lists)` flattened without the fill values -/
def roundRobin {α : Type} (ls : List (List α)) : List α :=
  rrAux (ls.foldl (fun m l => max m l.length) 0) ls

/-- add one to the entries at the given positions -/
def bump (counts : List Nat) (idxs : List Nat) : List Nat :=
  (List.range counts.length).zipWith (fun i c => if i ∈ idxs then c + 1 else c) counts

/-- `_stratified_counts` over exact rationals: `int(size*cap/total)` is `size*cap / total`, the fractional
part orders like `size*cap % total`; `sorted(…, reverse=True)` is stable. -/
def stratifiedCounts (sizes : List Nat) (cap : Nat) : List Nat :=
  let total := sizes.sum
  if total ≤ cap then sizes
  else
    let counts := sizes.map fun s => s * cap / total
    let remainder := cap - counts.sum
    let keyed := (List.range sizes.length).zip (sizes.map fun s => s * cap % total)
    let order := (keyed.mergeSort fun a b => decide (a.2 ≥ b.2)).map Prod.fst
    bump counts (order.take remainder)

/-- `[mutations[i] for i in sorted(rng.sample(range(len(mutations)), keep))]`, the draw is an input -/
def pick {α : Type} (l : List α) (draw : List Nat) : List α :=
  (draw.mergeSort fun a b => decide (a ≤ b)).filterMap fun i => l[i]?

/-! ### the mutators -/

/-- a mutation descriptor as the mutators handle it: operator index + `Info` -/
abbrev Mut := Nat × Info

/-- one operator fully enumerated by a `for` loop (generator exhausted): mutations, mutants, heap after -/
def enumOp (op : Op) (t : Tree) (h : Heap) : List (Info × Tree) × Heap :=
  let r := run (mutateEvs op none h t) h
  (r.1.map fun (i, hs) => (i, readRoot t hs), r.2)

/-- historical path of `FirstOrderMutator.mutate`: operators concatenated -/
def historical (t : Tree) : List Op → Nat → Heap → List (Mut × Tree) × Heap
  | [], _, h => ([], h)
  | op :: ops, o, h =>
    let r := enumOp op t h
    let rest := historical t ops (o + 1) r.2
    (r.1.map (fun (i, m) => ((o, i), m)) ++ rest.1, rest.2)

/-- `FirstOrderMutator.mutation_count`: `sum(1 for op in operators for _ in op.mutate(…))` -/
def mutationCount (t : Tree) : List Op → Heap → Nat × Heap
  | [], h => (0, h)
  | op :: ops, h =>
    let r := run (mutateEvs op none h t) h
    let rest := mutationCount t ops r.2
    (r.1.length + rest.1, rest.2)

/-- the per-operator descriptor lists of `_select_mutations` / `_generate_all_mutations` -/
def perOperator (t : Tree) : List Op → Heap → List (List Info) × Heap
  | [], h => ([], h)
  | op :: ops, h =>
    let r := run (mutateEvs op none h t) h
    let rest := perOperator t ops r.2
    (r.1.map Prod.fst :: rest.1, rest.2)

inductive Err where
  | notRegenerated   -- "Selected mutation could not be regenerated"
  | yieldedTwice     -- "Mutation operator yielded more than once" / "too many mutations!"
  | badDraw          -- the recorded sample does not fit the stratified counts
  | badRef           -- a group refers to a mutation that does not exist
  deriving Repr, DecidableEq

/-- `_sample`: per operator keep everything or the drawn positions -/
def sample (per : List (List Info)) (counts : List Nat) (draws : List (List Nat)) :
    Except Err (List (List Info)) :=
  match per, counts, draws with
  | [], [], _ => .ok []
  | l :: per, keep :: counts, draws =>
    if keep ≥ l.length then (sample per counts draws).map (l :: ·)
    else match draws with
      | d :: draws =>
        if d.length = keep ∧ d.Nodup ∧ d.all (· < l.length) then (sample per counts draws).map (pick l d :: ·)
        else .error .badDraw
      | [] => .error .badDraw
  | _, _, _ => .error .badDraw

/-- `_select_mutations` (after the enumeration): sample if over the cap, regular operators round-robin,
then the timeout-prone ones round-robin -/
def selectMutations (per : List (List Info)) (prone : List Bool) (cap : Option Nat)
    (draws : List (List Nat)) : Except Err (List Mut) := do
  let total := (per.map List.length).sum
  let per' ← match cap with
    | some c => if total > c then sample per (stratifiedCounts (per.map List.length) c) draws else pure per
    | none => pure per
  let tagged := (List.range per'.length).zip per' |>.map fun (o, l) => l.map fun i => ((o, i) : Mut)
  let flags := (List.range per'.length).map fun o => prone.getD o false
  let regular := (tagged.zip flags).filterMap fun (l, f) => if f then none else some l
  let deferred := (tagged.zip flags).filterMap fun (l, f) => if f then some l else none
  pure (roundRobin regular ++ roundRobin deferred)

/-- one round of the selected path of `FirstOrderMutator.mutate`: regenerate the mutation with
`only_mutation`, take the mutant, exhaust the generator -/
def applyOne (ops : List Op) (t : Tree) (m : Mut) (h : Heap) : Except Err ((Mut × Tree) × Heap) :=
  match ops[m.1]? with
  | none => .error .badRef
  | some op =>
    match next (mutateEvs op (some (m.2.path, m.2.name)) h t) h with
    | (none, _, _) => .error .notRegenerated
    | (some i, h1, rest) =>
      match next rest h1 with
      | (some _, _, _) => .error .yieldedTwice
      | (none, h2, _) => .ok (((m.1, i), readRoot t h1), h2)

def selectedMutate (ops : List Op) (t : Tree) : List Mut → Heap → Except Err (List (Mut × Tree) × Heap)
  | [], h => .ok ([], h)
  | m :: ms, h => do
    let (y, h') ← applyOne ops t m h
    let (ys, hf) ← selectedMutate ops t ms h'
    pure (y :: ys, hf)

/-- the inner `for mutation in mutations_to_apply` loop of `HighOrderMutator.mutate`: start one targeted
generator per mutation on the current `mutant`; returns the heap, the new mutations and the suspended
generators (oldest first) -/
def startAll (ops : List Op) (t : Tree) : List Mut → Heap → Except Err (Heap × List Mut × List (List Ev))
  | [], h => .ok (h, [], [])
  | m :: ms, h =>
    match ops[m.1]? with
    | none => .error .badRef
    | some op =>
      match next (mutateEvs op (some (m.2.path, m.2.name)) h t) h with
      | (none, _, _) => .error .notRegenerated
      | (some i, h1, rest) => do
        let (hk, ms', gens) ← startAll ops t ms h1
        pure (hk, (m.1, i) :: ms', rest :: gens)

/-- `_finish_generators` on an explicit order of the suspended generators -/
def finishAll : List (List Ev) → Heap → Except Err Heap
  | [], h => .ok h
  | g :: gs, h =>
    match next g h with
    | (some _, _, _) => .error .yieldedTwice
    | (none, h', _) => finishAll gs h'

/-- `HighOrderMutator.mutate` for the groups the strategy generated -/
def homMutate (ops : List Op) (t : Tree) : List (List Mut) → Heap → Except Err (List (List Mut × Tree) × Heap)
  | [], h => .ok ([], h)
  | g :: gs, h => do
    let (hk, ms, gens) ← startAll ops t g h
    let h' ← finishAll gens.reverse hk
    let (ys, hf) ← homMutate ops t gs h'
    pure ((ms, readRoot t hk) :: ys, hf)

/-! ### executable shortcuts

Proved equal to the definitions above in `Props/C28.lean` (`historical_eq`, `mutationCount_eq`,
`perOperator_eq`, `selectedMutate_eq`, `homMutate_eq`).  They do not thread the heap a finished generator
leaves behind (which is provably the heap it started on), so the closure chain of the function heap stays
short in the interpreted driver. -/

def enumOpF (op : Op) (t : Tree) (h : Heap) : List (Info × Tree) :=
  (yields (mutateEvs op none h t)).map fun i => (i, readRoot t (h.set i.path (some i.repl)))

def historicalF (t : Tree) : List Op → Nat → Heap → List (Mut × Tree)
  | [], _, _ => []
  | op :: ops, o, h => (enumOpF op t h).map (fun (i, m) => ((o, i), m)) ++ historicalF t ops (o + 1) h

def mutationCountF (t : Tree) : List Op → Heap → Nat
  | [], _ => 0
  | op :: ops, h => (yields (mutateEvs op none h t)).length + mutationCountF t ops h

def perOperatorF (t : Tree) : List Op → Heap → List (List Info)
  | [], _ => []
  | op :: ops, h => yields (mutateEvs op none h t) :: perOperatorF t ops h

def selectedMutateF (ops : List Op) (t : Tree) : List Mut → Heap → Except Err (List (Mut × Tree))
  | [], _ => .ok []
  | m :: ms, h => do
    let (y, _) ← applyOne ops t m h
    let ys ← selectedMutateF ops t ms h
    pure (y :: ys)

def homMutateF (ops : List Op) (t : Tree) : List (List Mut) → Heap → Except Err (List (List Mut × Tree))
  | [], _ => .ok []
  | g :: gs, h => do
    let (hk, ms, gens) ← startAll ops t g h
    let _ ← finishAll gens.reverse hk
    let ys ← homMutateF ops t gs h
    pure ((ms, readRoot t hk) :: ys)

end PynguinModel.Mutants
