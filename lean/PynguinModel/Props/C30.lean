import PynguinModel.Lemmas.ExecIsolation
/-!
# C30 — test executions are isolated and restore process state

Property theorems about `PynguinModel.ExecIsolation` (the model of `OutputSuppressionContext`,
`_make_deterministic`, `_patch_random` and `TestCaseExecutor.execute`).  `Cfg.repaired` is the code
with `proposed_fixes/C30-restore-logging-stdin-nullfile.diff`, `Cfg.legacy` the code without it.
All statements quantify over every process state `s` and every test case `t` (any sequence of
printing, raising, closing/rebinding streams, closing/opening descriptors, `logging.disable`,
seeding and drawing random numbers, writing module globals).
-/
namespace PynguinModel.ExecIsolation

/-! ## Streams -/

/-- After any execution `sys.stdout`/`sys.stderr` are the interpreter's own objects again and
`sys.stdin` is the object it was before. -/
theorem streams_restored (s : Proc) (t : Test) :
    (execute .repaired s t).1.out = .orig ∧ (execute .repaired s t).1.err = .orig ∧
      (execute .repaired s t).1.inp = s.inp := by
  simp [execute, putBack, Cfg.repaired, restore, enter, Ctx.new]

/-- … hence, when Pynguin runs with its streams bound to the interpreter's objects (as the command
line does), the three bindings are as before. -/
theorem streams_as_before (s : Proc) (t : Test) (ho : s.out = .orig) (he : s.err = .orig) :
    (execute .repaired s t).1.out = s.out ∧ (execute .repaired s t).1.err = s.err ∧
      (execute .repaired s t).1.inp = s.inp := by
  rw [ho, he]; exact streams_restored s t

/-- Descriptors 0, 1, 2 refer to the same open files as before, and the process is again in its
normal state, for every test case that closes none of the descriptors Pynguin itself owns during the
execution (`Tame`: the private duplicates and the descriptor of `_null_file`). -/
theorem fds_restored (s : Proc) (t : Test) (wf : WF s) (tame : Tame .repaired s t) :
    (∀ i, i < 3 → lookup (execute .repaired s t).1.fds i = lookup s.fds i) ∧
      WF (execute .repaired s t).1 := by
  obtain ⟨h0, h1, h2, w⟩ := execute_fds_core .repaired s t wf tame
  refine ⟨fun i hi => ?_, w⟩
  have : i = 0 ∨ i = 1 ∨ i = 2 := by omega
  rcases this with rfl | rfl | rfl <;> assumption

/-- The full-strength statement (no restriction on the test case) … -/
def fds_restored_full : Prop :=
  ∀ (s : Proc) (t : Test), WF s → ∀ i, i < 3 → lookup (execute .repaired s t).1.fds i = lookup s.fds i

def cleanProc : Proc :=
  { inp := .orig, out := .orig, err := .orig, origInClosed := false, origOutClosed := false,
    origErrClosed := false, nullClosed := false, nullFd := 3,
    fds := [(0, 0), (1, 1), (2, 2), (3, devNull)], logDisable := 0, globalRng := ⟨7, 0⟩,
    tracked := [⟨true, ⟨5, 2⟩⟩, ⟨false, ⟨11, 0⟩⟩], glob := 0, cfgSeed := 42 }

/-- … is false: a test case that closes descriptor 1 *and* Pynguin's private duplicate of it (5; e.g.
`os.closerange(0, 64)`) leaves descriptor 1 closed. -/
theorem fds_restored_cex : ¬ fds_restored_full := by
  intro h
  have := h cleanProc [.closeFd 1, .closeFd 5] (by constructor <;> decide) 1 (by decide)
  revert this
  decide

/-- Closing a standard descriptor itself (the `with open(1, "w")` case) is within `Tame`. -/
example : Tame .repaired cleanProc [.closeFd 1, .print false, .closeFd 0, .closeFd 2, .openNew] ∧
    WF cleanProc := by
  refine ⟨by decide, ?_⟩
  constructor <;> decide

/-- `restore()` is idempotent (the thread and the waiting thread may both call it). -/
theorem restore_idempotent (c : Ctx) (s : Proc) :
    restore (restore c s).1 (restore c s).2 = restore c s := by
  unfold restore
  split <;> simp [*]

/-- The time-out path (a second `restore()` from the waiting thread) ends in the same state. -/
theorem timeout_path_same (cfg : Cfg) (s : Proc) (t : Test) :
    executeTimeout cfg s t = execute cfg s t := by
  simp only [executeTimeout, execute, restore_idempotent]

/-! ## The original `sys.stdin` object -/

/-- `sys.__stdin__` is as open or closed as before if no statement is `sys.stdin.close()`. -/
theorem stdin_object_partial (s : Proc) (t : Test) (h : Action.close .inp ∉ t) :
    (execute .repaired s t).1.origInClosed = s.origInClosed := by
  simp only [execute]
  rw [(putBack_other _ _ _).2.1, (restore_other _ _).2.2.2.1, runStmts_origIn _ h,
    (enter_other _ _ _).2.2.2.1]
  rfl

def stdin_object_full : Prop :=
  ∀ (s : Proc) (t : Test), (execute .repaired s t).1.origInClosed = s.origInClosed

/-- `sys.stdin` is not redirected during the execution, so `sys.stdin.close()` in the module under
test closes Pynguin's own object for good. -/
theorem stdin_object_cex : ¬ stdin_object_full := by
  intro h
  have := h cleanProc [.close .inp]
  revert this
  decide

/-! ## Logging -/

/-- `logging.root.manager.disable` is what it was, whatever the module under test passes to
`logging.disable`. -/
theorem logging_restored (s : Proc) (t : Test) :
    (execute .repaired s t).1.logDisable = s.logDisable := by
  simp [execute, putBack, Cfg.repaired]

/-- Without the repair (`execute` does not save the level) it is not (D18). -/
theorem logging_legacy_cex :
    (execute .legacy cleanProc [.logDisable 50]).1.logDisable ≠ cleanProc.logDisable := by
  decide

/-- Without the repair a rebound `sys.stdin` stays rebound. -/
theorem stdin_legacy_cex : (execute .legacy cleanProc [.bind .inp]).1.inp ≠ cleanProc.inp := by
  decide

/-- `suppress_logging` ends with logging enabled when it started with logging enabled. -/
theorem suppress_logging_restores (body : Proc → Proc) (s : Proc) (h : s.logDisable = 0) :
    (suppressLogging body s).logDisable = s.logDisable := by
  simp [suppressLogging, h]

/-! ## Pynguin's own random stream -/

/-- The state of every tracked generator that is Pynguin's own (`randomness.RNG`) is untouched by an
execution, position by position — although the module-level generator and all other tracked
instances are reseeded and consumed. -/
theorem pynguin_rng_untouched (cfg : Cfg) (s : Proc) (t : Test) :
    (execute cfg s t).1.tracked.map pyView = s.tracked.map pyView := by
  simp only [execute]
  rw [(putBack_other _ _ _).1, (restore_other _ _).1, runStmts_view, (enter_other _ _ _).1,
    makeDeterministic_view]

example : (execute .repaired cleanProc [.rand, .instRand 1, .seed 9, .rand]).1.tracked.map pyView =
    [some ⟨5, 2⟩, none] ∧
    (execute .repaired cleanProc [.rand, .instRand 1, .seed 9, .rand]).2 =
      [.rnd 42 0, .rnd 42 0, .ok, .rnd 9 0] := by decide

/-! ## The result of a test case does not depend on the test cases before it -/

/-- Two executions of the same test case without hidden state (`Action.stateless`: no module
global, no descriptor numbers other than 0/1/2) give the same outcomes, statement by statement, in
any two normal process states that agree on `sys.stdin`, the configured seed and which tracked
instances are Pynguin's own — whatever else differs (logging level, other descriptors, module
globals, the state of every random generator, whether `_null_file` had been closed). -/
theorem result_history_independent (s s' : Proc) (t : Test) (wf : WF s) (wf' : WF s')
    (hi : s.inp = s'.inp) (hc : s.cfgSeed = s'.cfgSeed)
    (hf : s.tracked.map (·.isPynguin) = s'.tracked.map (·.isPynguin))
    (hs : ∀ a ∈ t, Action.stateless a = true) :
    (execute .repaired s t).2 = (execute .repaired s' t).2 := by
  rw [execute_result_eq s t wf hs, execute_result_eq s' t wf' hs, hi, hc, hf]

/-- … in particular after any two histories (of arbitrary test cases that leave Pynguin's own
descriptors alone) from the same normal state. -/
theorem result_independent_of_history (s0 : Proc) (h h' : List Test) (t : Test) (wf : WF s0)
    (th : TameHist .repaired s0 h) (th' : TameHist .repaired s0 h')
    (hs : ∀ a ∈ t, Action.stateless a = true) :
    (execute .repaired (runHistory .repaired s0 h).1 t).2 =
      (execute .repaired (runHistory .repaired s0 h').1 t).2 := by
  have e0 : SameEnv s0 s0 := ⟨wf, rfl, rfl, rfl⟩
  obtain ⟨w1, i1, c1, f1⟩ := runHistory_sameEnv e0 th
  obtain ⟨w2, i2, c2, f2⟩ := runHistory_sameEnv e0 th'
  exact result_history_independent _ _ t w1 w2 (i1.trans i2.symm) (c1.trans c2.symm)
    (f1.trans f2.symm) hs

/-- … and the whole normal state survives any such history: descriptors 0, 1, 2, the streams, the
logging level and Pynguin's generators are what they were at the start. -/
theorem history_restores_state (s0 : Proc) (h : List Test) (wf : WF s0)
    (th : TameHist .repaired s0 h) :
    WF (runHistory .repaired s0 h).1 ∧ (runHistory .repaired s0 h).1.inp = s0.inp := by
  obtain ⟨w, i, _, _⟩ := runHistory_sameEnv ⟨wf, rfl, rfl, rfl⟩ th
  exact ⟨w, i⟩

/-- The hypotheses are satisfiable by a history that closes streams and descriptors, disables
logging, reseeds and writes a global, followed by a printing/drawing test case. -/
example : WF cleanProc ∧
    TameHist .repaired cleanProc
      [[.close .out, .print true], [.closeFd 1, .openNew, .logDisable 50], [.seed 3, .setGlobal 4, .raise]] ∧
    (∀ a ∈ ([.print false, .rand, .instRand 1, .closeFd 2] : Test), Action.stateless a = true) ∧
    (execute .repaired (runHistory .repaired cleanProc
        [[.close .out, .print true], [.closeFd 1, .openNew, .logDisable 50],
         [.seed 3, .setGlobal 4, .raise]]).1 [.print false, .rand, .instRand 1, .closeFd 2]).2 =
      [.ok, .rnd 42 0, .rnd 42 0, .ok] := by
  refine ⟨by constructor <;> decide, by decide, by decide, by decide⟩

/-- Without the repair the shared `_null_file` makes the result depend on the history: after a test
case that does `sys.stdout.close()`, a test case that only prints raises `ValueError`. -/
theorem null_file_legacy_cex :
    (execute .legacy (runHistory .legacy cleanProc [[.close .out]]).1 [.print false]).2 ≠
      (execute .legacy cleanProc [.print false]).2 := by
  decide

/-- Hidden state is really excluded by `stateless`: a module global makes results history dependent. -/
theorem hidden_state_cex :
    (execute .repaired (runHistory .repaired cleanProc [[.setGlobal 5]]).1 [.getGlobal]).2 ≠
      (execute .repaired cleanProc [.getGlobal]).2 := by
  decide

end PynguinModel.ExecIsolation
