import PynguinModel.Lemmas.GoalGraph
/-!
# C07 — Every branch goal is reachable in the DynaMOSA goal graph

Dynamic part (`Inv`, for every goal graph and every search history): after `__init__` and after
every `update`, every root goal and every structural child of a covered goal is a current goal or
already covered, current goals are never covered ones, and everything the archive tracks is current
or covered.  Consequently (`path_goal_current`) a goal becomes current as soon as the goals before it
on any path from a root are covered — the goal graph's reachability (checked on each real module
with the verified checker `checkGoalPath`) is what makes every goal attainable.
Static part (`buildGraph_*`): `_build_graph` mirrors are executable and compared with the real
class on every generated module; its failure modes are explicit (`BuildErr`).
-/
namespace PynguinModel.GoalGraph

structure Inv (G : GG) (s : St) : Prop where
  roots : ∀ g ∈ G.roots, g ∈ s.current ∨ g ∈ s.covered
  closed : ∀ p c, (p, c) ∈ G.edges → p ∈ s.covered → c ∈ s.current ∨ c ∈ s.covered
  disj : ∀ g ∈ s.current, g ∉ s.covered
  obj : ∀ g ∈ s.objectives, g ∈ s.current ∨ g ∈ s.covered
  cur_obj : ∀ g ∈ s.current, g ∈ s.objectives

theorem inv_init (G : GG) : Inv G (init G) := by
  unfold init addGoals
  refine ⟨?_, ?_, ?_, ?_, ?_⟩
  · intro g hg; left; exact (mem_foldl_ins _ _ _).2 (Or.inr hg)
  · intro p c _ hp; cases hp
  · intro g _ h; cases h
  · intro g hg
    simp only [mem_foldl_ins, List.not_mem_nil, false_or] at hg
    left; simpa [mem_foldl_ins] using hg
  · intro g hg
    simp only [mem_foldl_ins, List.not_mem_nil, false_or] at hg ⊢
    exact hg

/-- One loop iteration of `update` preserves the invariant, whatever the batch covers. -/
theorem inv_pass (G : GG) (cov : Goal → Bool) (s : St) (h : Inv G s) : Inv G (pass G cov s).1 := by
  rw [pass_eq]
  simp only
  -- abbreviations
  have hcov : ∀ x, x ∈ (archiveUpdate cov s).covered ↔ x ∈ s.covered ∨ (x ∈ s.objectives ∧ cov x = true) :=
    mem_archiveUpdate_covered cov s
  have hcur : (archiveUpdate cov s).current = s.current := rfl
  have hobj : (archiveUpdate cov s).objectives = s.objectives := rfl
  generalize hs1 : archiveUpdate cov s = s1 at *
  have hnew : ∀ x, x ∈ (s1.current.foldl (outerStep G s1.current s1.covered) ([], false)).1 ↔
      (x ∈ s1.current ∧ x ∉ s1.covered) ∨
        (∃ p, p ∈ s1.current ∧ p ∈ s1.covered ∧ (p, x) ∈ G.edges ∧ x ∉ s1.current ∧ x ∉ s1.covered) := by
    intro x; rw [mem_outer]; simp
  generalize (s1.current.foldl (outerStep G s1.current s1.covered) ([], false)).1 = ng at *
  -- covered grows
  have hmono : ∀ x, x ∈ s.covered → x ∈ s1.covered := fun x hx => (hcov x).2 (Or.inl hx)
  -- a newly covered goal was current
  have hnewcov : ∀ x, x ∈ s1.covered → x ∈ s.covered ∨ x ∈ s1.current := by
    intro x hx
    rcases (hcov x).1 hx with h1 | ⟨h1, _⟩
    · exact Or.inl h1
    · rcases h.obj x h1 with h2 | h2
      · right; rw [hcur]; exact h2
      · exact Or.inl h2
  unfold addGoals
  refine ⟨?_, ?_, ?_, ?_, ?_⟩
  · -- roots
    intro g hg
    show g ∈ ng ∨ g ∈ s1.covered
    rcases h.roots g hg with h1 | h1
    · by_cases hc : g ∈ s1.covered
      · exact Or.inr hc
      · left; exact (hnew g).2 (Or.inl ⟨by rw [hcur]; exact h1, hc⟩)
    · exact Or.inr (hmono g h1)
  · -- closed
    intro p c he hp
    show c ∈ ng ∨ c ∈ s1.covered
    by_cases hc : c ∈ s1.covered
    · exact Or.inr hc
    · left
      by_cases hcc : c ∈ s1.current
      · exact (hnew c).2 (Or.inl ⟨hcc, hc⟩)
      · rcases hnewcov p hp with h1 | h1
        · -- p was covered before: its children were current or covered before
          rcases h.closed p c he h1 with h2 | h2
          · exact absurd (by rw [hcur]; exact h2) hcc
          · exact absurd (hmono c h2) hc
        · exact (hnew c).2 (Or.inr ⟨p, h1, hp, he, hcc, hc⟩)
  · -- disjoint
    intro g hg
    show g ∉ s1.covered
    have hg' : g ∈ ng := hg
    rcases (hnew g).1 hg' with ⟨_, h2⟩ | ⟨_, _, _, _, _, h2⟩ <;> exact h2
  · -- objectives are current or covered
    intro g hg
    show g ∈ ng ∨ g ∈ s1.covered
    have hg' : g ∈ ng.foldl ins s1.objectives := hg
    rcases (mem_foldl_ins _ _ _).1 hg' with h1 | h1
    · rw [hobj] at h1
      rcases h.obj g h1 with h2 | h2
      · by_cases hc : g ∈ s1.covered
        · exact Or.inr hc
        · left; exact (hnew g).2 (Or.inl ⟨by rw [hcur]; exact h2, hc⟩)
      · exact Or.inr (hmono g h2)
    · exact Or.inl h1
  · intro g hg
    show g ∈ ng.foldl ins s1.objectives
    exact (mem_foldl_ins _ _ _).2 (Or.inr hg)

theorem inv_update (G : GG) (cov : Goal → Bool) :
    ∀ (fuel : Nat) (s : St), Inv G s → Inv G (update G cov fuel s)
  | 0, _, h => h
  | fuel + 1, s, h => by
    unfold update
    simp only
    split
    · exact inv_update G cov fuel _ (inv_pass G cov s h)
    · exact inv_pass G cov s h

/-- **C07, dynamic part, for every goal graph and every search history.** -/
theorem inv_history (G : GG) (fuel : Nat) (covs : List (Goal → Bool)) :
    Inv G (runUpdates G fuel (init G) covs) := by
  unfold runUpdates
  suffices h : ∀ s, Inv G s → Inv G (covs.foldl (fun s cov => update G cov fuel s) s) from h _ (inv_init G)
  induction covs with
  | nil => intro s h; exact h
  | cons c cs ih => intro s h; exact ih _ (inv_update G c fuel s h)

/-- A goal is a root goal or becomes current (or is already covered) once some structural parent is
covered — hence certainly once *all* goals it depends on are covered. -/
theorem goal_current_when_parent_covered {G : GG} {s : St} (h : Inv G s) (g : Goal)
    (hg : g ∈ G.roots ∨ ∃ p, (p, g) ∈ G.edges ∧ p ∈ s.covered) : g ∈ s.current ∨ g ∈ s.covered := by
  rcases hg with hr | ⟨p, he, hp⟩
  · exact h.roots g hr
  · exact h.closed p g he hp

/-- Paths in the goal graph starting at a root (checked per module by the driver). -/
def checkGoalPath (G : GG) : List Goal → Bool
  | [] => false
  | [r] => G.roots.contains r
  | p :: c :: rest => G.edges.contains (c, p) && checkGoalPath G (c :: rest)

/-- If `path = [g, p₁, …, root]` is a (reversed) path from a root to `g` and every goal strictly
before `g` on it is covered, then `g` is current or covered: no goal is ever out of reach of the
search for structural reasons. -/
theorem path_goal_current {G : GG} {s : St} (h : Inv G s) :
    ∀ (g : Goal) (rest : List Goal), checkGoalPath G (g :: rest) = true →
      (∀ x ∈ rest, x ∈ s.covered) → g ∈ s.current ∨ g ∈ s.covered := by
  intro g rest hp hc
  cases rest with
  | nil =>
    simp only [checkGoalPath, List.contains_eq_mem, decide_eq_true_eq] at hp
    exact h.roots g hp
  | cons p rest =>
    simp only [checkGoalPath, Bool.and_eq_true, List.contains_eq_mem, decide_eq_true_eq] at hp
    exact h.closed p g hp.1 (hc p (by simp))

/-- Covered goals are never lost by `update` (the archive only grows). -/
theorem covered_mono_pass (G : GG) (cov : Goal → Bool) (s : St) (x : Goal) (hx : x ∈ s.covered) :
    x ∈ (pass G cov s).1.covered := by
  rw [pass_eq]
  exact (mem_archiveUpdate_covered cov s x).2 (Or.inl hx)

theorem covered_mono_update (G : GG) (cov : Goal → Bool) :
    ∀ (fuel : Nat) (s : St) (x : Goal), x ∈ s.covered → x ∈ (update G cov fuel s).covered
  | 0, _, _, h => h
  | fuel + 1, s, x, h => by
    unfold update
    simp only
    split
    · exact covered_mono_update G cov fuel _ x (covered_mono_pass G cov s x h)
    · exact covered_mono_pass G cov s x h

/-! ### Non-vacuity: a diamond-shaped goal graph and a two-batch history -/

private def exG : GG := ⟨[0], [(0, 1), (0, 2), (1, 3), (2, 3)]⟩

example : (runUpdates exG 10 (init exG) [fun g => g == 0, fun g => g == 2]).current = [1, 3] := by decide
example : (runUpdates exG 10 (init exG) [fun g => g == 0, fun g => g == 2]).covered = [0, 2] := by decide
example : checkGoalPath exG [3, 2, 0] = true := by decide

end PynguinModel.GoalGraph
